package main

import "fmt"

func runSelftest(repo, vdir, prop string) map[string]interface{} {
	return map[string]interface{}{"mutants": 0, "killed": 0, "benign": 0, "silent": 0, "note": "corpus not built yet"}
}

func runSelftestCLI(repo, vdir, prop string) int {
	fmt.Println("selftest corpus not built yet")
	return 0
}

func mutantOverlay(repo, name string) (map[string][]byte, error) {
	return nil, fmt.Errorf("unknown mutant %s", name)
}
