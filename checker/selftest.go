package main

import (
	"encoding/json"
	"fmt"
	"os"
	"os/exec"
	"path/filepath"
	"sort"
	"strings"
	"sync"
)

// Self-test of the checker: edit scripts applied to the CURRENT sources of
// /repo in memory (packages.Config.Overlay, no copy on disk), one child
// process per variant. "mutant" scripts break a property in a known way and
// the named rule must report; "benign" scripts preserve behaviour and every
// check must stay silent. A script whose anchor text is no longer present in
// the tree is skipped and listed. The verdict on the real tree never depends
// on the self-test; a failing self-test means the CHECKER is broken (exit 2).

type stEdit struct {
	File string `json:"file"`
	Old  string `json:"old"`
	New  string `json:"new"`
	All  bool   `json:"all,omitempty"`
}

type stEntry struct {
	Name   string   `json:"name"`
	Kind   string   `json:"kind"` // mutant | benign
	Props  []string `json:"props"`
	Expect string   `json:"expect,omitempty"` // substring of the rule that must report (mutants)
	Edits  []stEdit `json:"edits"`
	Note   string   `json:"note,omitempty"`
}

func loadCorpus(vdir string) ([]stEntry, error) {
	b, err := os.ReadFile(filepath.Join(vdir, "selftest", "corpus.json"))
	if err != nil {
		return nil, err
	}
	var doc struct {
		Entries []stEntry `json:"entries"`
	}
	if err := json.Unmarshal(b, &doc); err != nil {
		return nil, fmt.Errorf("selftest/corpus.json: %v", err)
	}
	return doc.Entries, nil
}

func mutantOverlay(repo, name string) (map[string][]byte, error) {
	entries, err := loadCorpus(verifDir())
	if err != nil {
		return nil, err
	}
	for _, e := range entries {
		if e.Name != name {
			continue
		}
		out := map[string][]byte{}
		for _, ed := range e.Edits {
			p := filepath.Join(repo, ed.File)
			src, ok := out[p]
			if !ok {
				b, err := os.ReadFile(p)
				if err != nil {
					return nil, err
				}
				src = b
			}
			s := string(src)
			if !strings.Contains(s, ed.Old) {
				return nil, fmt.Errorf("anchor of %s not present in %s", name, ed.File)
			}
			if ed.All {
				s = strings.ReplaceAll(s, ed.Old, ed.New)
			} else {
				s = strings.Replace(s, ed.Old, ed.New, 1)
			}
			out[p] = []byte(s)
		}
		return out, nil
	}
	return nil, fmt.Errorf("unknown self-test entry %s", name)
}

type stResult struct {
	Entry  stEntry
	Prop   string
	Exit   int
	Out    string
	Status string // killed | missed | silent | alarm | skipped | not-compiling
}

func runOne(repo, vdir string, e stEntry, prop string) stResult {
	exe, _ := os.Executable()
	cmd := exec.Command(exe, "-repo", repo, "-prop", prop, "-mutant", e.Name, "-no-evidence", "-tier", "quick")
	cmd.Env = append(os.Environ(), "VERIF_DIR="+vdir)
	out, err := cmd.CombinedOutput()
	code := 0
	if err != nil {
		if ee, ok := err.(*exec.ExitError); ok {
			code = ee.ExitCode()
		} else {
			code = 2
		}
	}
	r := stResult{Entry: e, Prop: prop, Exit: code, Out: string(out)}
	switch {
	case code == 3:
		r.Status = "skipped"
	case strings.Contains(r.Out, "LOAD-FAILED"):
		r.Status = "not-compiling"
	case e.Kind == "mutant":
		if code == 1 && (e.Expect == "" || strings.Contains(r.Out, e.Expect)) {
			r.Status = "killed"
		} else {
			r.Status = "missed"
		}
	default:
		if code == 0 {
			r.Status = "silent"
		} else {
			r.Status = "alarm"
		}
	}
	return r
}

func runEntries(repo, vdir, prop string) []stResult {
	entries, err := loadCorpus(vdir)
	if err != nil {
		return []stResult{{Status: "missed", Out: err.Error(), Entry: stEntry{Name: "corpus"}}}
	}
	type job struct {
		e stEntry
		p string
	}
	var jobs []job
	for _, e := range entries {
		for _, p := range e.Props {
			if prop == "" || p == prop || (e.Kind == "benign" && p == "*") {
				pp := p
				if pp == "*" {
					pp = prop
				}
				if pp == "" {
					continue
				}
				jobs = append(jobs, job{e, pp})
			}
		}
		if e.Kind == "benign" && prop == "" {
			for _, p := range e.Props {
				if p == "*" {
					for id := range props {
						jobs = append(jobs, job{e, id})
					}
				}
			}
		}
	}
	res := make([]stResult, len(jobs))
	var wg sync.WaitGroup
	sem := make(chan struct{}, 8)
	for i, j := range jobs {
		wg.Add(1)
		go func(i int, j job) {
			defer wg.Done()
			sem <- struct{}{}
			defer func() { <-sem }()
			res[i] = runOne(repo, vdir, j.e, j.p)
		}(i, j)
	}
	wg.Wait()
	sort.SliceStable(res, func(i, j int) bool {
		if res[i].Prop != res[j].Prop {
			return res[i].Prop < res[j].Prop
		}
		return res[i].Entry.Name < res[j].Entry.Name
	})
	return res
}

func summarise(res []stResult) map[string]interface{} {
	sum := map[string]interface{}{}
	mut, killed, ben, silent, skipped := 0, 0, 0, 0, 0
	var broken, skippedNames, samples []string
	for _, r := range res {
		switch r.Status {
		case "skipped", "not-compiling":
			skipped++
			skippedNames = append(skippedNames, r.Entry.Name+"("+r.Status+")")
			continue
		}
		if r.Entry.Kind == "mutant" {
			mut++
			if r.Status == "killed" {
				killed++
				if len(samples) < 6 {
					samples = append(samples, r.Entry.Name+" -> "+r.Entry.Expect)
				}
			} else {
				first := ""
				for _, l := range strings.Split(r.Out, "\n") {
					if strings.HasPrefix(l, "property=") {
						first = l
					}
				}
				broken = append(broken, fmt.Sprintf("%s/%s: mutant not reported by %s (%s)", r.Prop, r.Entry.Name, r.Entry.Expect, first))
			}
		} else {
			ben++
			if r.Status == "silent" {
				silent++
			} else {
				first := ""
				for _, l := range strings.Split(r.Out, "\n") {
					if strings.Contains(l, "VIOLATION:") || strings.Contains(l, "UNDECIDED:") {
						first = strings.TrimSpace(l)
						break
					}
				}
				broken = append(broken, fmt.Sprintf("%s/%s: behaviour-preserving edit raised an alarm: %s", r.Prop, r.Entry.Name, first))
			}
		}
	}
	sum["mutants"] = mut
	sum["killed"] = killed
	sum["benign"] = ben
	sum["silent"] = silent
	sum["skipped"] = skipped
	sum["skipped_names"] = skippedNames
	sum["samples"] = samples
	sum["broken"] = broken
	return sum
}

func runSelftest(repo, vdir, prop string) map[string]interface{} {
	return summarise(runEntries(repo, vdir, prop))
}

func runSelftestCLI(repo, vdir, prop string) int {
	res := runEntries(repo, vdir, prop)
	for _, r := range res {
		fmt.Printf("%-4s %-8s %-13s %s\n", r.Prop, r.Entry.Kind, r.Status, r.Entry.Name)
		if r.Status == "missed" || r.Status == "alarm" || os.Getenv("SELFTEST_VERBOSE") != "" {
			for _, l := range strings.Split(r.Out, "\n") {
				if strings.Contains(l, "VIOLATION:") || strings.Contains(l, "UNDECIDED:") || strings.HasPrefix(l, "property=") || strings.Contains(l, "LOAD-FAILED") {
					fmt.Println("        " + strings.TrimSpace(l))
				}
			}
		}
	}
	sum := summarise(res)
	fmt.Printf("mutants=%v killed=%v benign=%v silent=%v skipped=%v\n", sum["mutants"], sum["killed"], sum["benign"], sum["silent"], sum["skipped"])
	if b := sum["broken"].([]string); len(b) > 0 {
		for _, l := range b {
			fmt.Println("BROKEN:", l)
		}
		return 2
	}
	return 0
}
