package main

import (
	"fmt"
	"go/token"
	"go/types"
	"sort"

	"golang.org/x/tools/go/ssa"
)

// c01Linear: "in time roughly proportional to the input length" - the structural part: the code that runs once per
// token or per node (everything reachable from the expression parser) must not scan the whole text. A whole-text scan
// is a function with a loop that walks a []byte / string parameter (the line-start table builder); every call of one is
// an obligation: it sits in code the expression parser cannot reach, or its result is kept in a field tested for nil in front of the call
// (`if file.LineStarts == nil { file.LineStarts = ComputeLineStarts(file.Text) }`) runs once per text and is not one.
// Reached per token, a whole-text scan makes the parse quadratic (64 KiB of unclosed brackets: minutes).
// Not decided here: the cost of the per-token code itself (covered by the progress rules: every loop consumes).
func c01Linear(c *Ctx, ro *ParserRoles) {
	const rule = "C01.no-whole-text-scan-per-token"
	if ro.Expr == nil {
		return
	}
	isText := func(t types.Type) bool {
		switch u := t.Underlying().(type) {
		case *types.Slice:
			b, ok := u.Elem().Underlying().(*types.Basic)
			return ok && b.Kind() == types.Uint8
		case *types.Basic:
			return u.Kind() == types.String
		}
		return false
	}
	// direct scanners: a loop in which the text parameter is indexed, sliced or decoded
	inLoop := func(f *ssa.Function) map[*ssa.BasicBlock]bool {
		res := map[*ssa.BasicBlock]bool{}
		for _, b := range f.Blocks {
			// b is in a loop when it reaches itself
			seen := map[*ssa.BasicBlock]bool{}
			work := append([]*ssa.BasicBlock{}, b.Succs...)
			for len(work) > 0 {
				x := work[len(work)-1]
				work = work[:len(work)-1]
				if seen[x] {
					continue
				}
				seen[x] = true
				work = append(work, x.Succs...)
			}
			res[b] = seen[b]
		}
		return res
	}
	whole := map[*ssa.Function]string{}
	for _, f := range c.P.ModFuncs {
		if len(f.Blocks) == 0 || f.Signature.Recv() != nil && typeName(f.Signature.Recv().Type()) == "Scanner" {
			continue
		}
		var textParams []*ssa.Parameter
		for _, p := range f.Params {
			if isText(p.Type()) {
				textParams = append(textParams, p)
			}
		}
		if len(textParams) == 0 {
			continue
		}
		loops := inLoop(f)
		for _, p := range textParams {
			refs := p.Referrers()
			if refs == nil {
				continue
			}
			for _, r := range *refs {
				if !loops[r.Block()] {
					continue
				}
				switch x := r.(type) {
				case *ssa.IndexAddr, *ssa.Lookup, *ssa.Index, *ssa.Range:
					whole[f] = "walks its parameter " + p.Name() + " in a loop"
				case *ssa.Slice:
					// text[i:] with a loop-carried bound handed to a decoder
					if _, isConst := x.Low.(*ssa.Const); x.Low != nil && !isConst {
						whole[f] = "walks its parameter " + p.Name() + " in a loop"
					}
				}
			}
			// `for range text`
			for _, r := range *refs {
				if rg, ok := r.(*ssa.Range); ok {
					_ = rg
					whole[f] = "ranges over its parameter " + p.Name()
				}
			}
		}
	}
	ndirect := len(whole)
	// remembered: the call's result is stored into a field that is tested for nil on the way to the call
	remembered := func(call *ssa.Call) bool {
		refs := call.Referrers()
		if refs == nil {
			return false
		}
		for _, r := range *refs {
			st, ok := r.(*ssa.Store)
			if !ok || st.Val != ssa.Value(call) {
				continue
			}
			fa, ok := st.Addr.(*ssa.FieldAddr)
			if !ok {
				continue
			}
			for _, b := range call.Parent().Blocks {
				if len(b.Instrs) == 0 {
					continue
				}
				iff, ok := b.Instrs[len(b.Instrs)-1].(*ssa.If)
				if !ok {
					continue
				}
				bo, ok := iff.Cond.(*ssa.BinOp)
				if !ok || (bo.Op != token.EQL && bo.Op != token.NEQ) {
					continue
				}
				var ld ssa.Value
				switch {
				case isNilConst(bo.Y):
					ld = bo.X
				case isNilConst(bo.X):
					ld = bo.Y
				default:
					continue
				}
				u, ok := ld.(*ssa.UnOp)
				if !ok || u.Op != token.MUL {
					continue
				}
				fa2, ok := u.X.(*ssa.FieldAddr)
				if !ok || fa2.Field != fa.Field || fa2.X.Type() != fa.X.Type() {
					continue
				}
				k := 0
				if bo.Op == token.NEQ {
					k = 1
				}
				if nb := b.Succs[k]; len(nb.Preds) == 1 && nb.Dominates(call.Block()) {
					return true
				}
			}
		}
		return false
	}
	type site struct {
		fn     *ssa.Function
		call   *ssa.Call
		callee *ssa.Function
		kept   bool
	}
	var sites []site
	for _, f := range c.P.ModFuncs {
		instrs(f, func(b *ssa.BasicBlock, i int, in ssa.Instruction) {
			call, ok := in.(*ssa.Call)
			if !ok {
				return
			}
			cal := calleeOf(call)
			if cal == nil || whole[cal] == "" {
				return
			}
			sites = append(sites, site{f, call, cal, remembered(call)})
		})
	}
	rr := c.ReachFrom("per-token", ro.Expr)
	sort.Slice(sites, func(i, j int) bool { return sites[i].call.Pos() < sites[j].call.Pos() })
	n := 0
	for _, s := range sites {
		n++
		cons := fmt.Sprintf("call of %s in %s", c.P.FuncKey(s.callee), c.P.FuncKey(s.fn))
		switch {
		case s.kept:
			c.R.Add(rule, cons, c.P.InstrPos(s.call), OK, "")
		case rr.In[s.fn]:
			c.R.Add(rule, cons, c.P.InstrPos(s.call), Violation, fmt.Sprintf("%s (%s) is called, without keeping its result, from code that runs once per token or node (%s): the parse time grows with the square of the input length", c.P.FuncKey(s.callee), whole[s.callee], rr.Chain(c.P, s.fn)))
		default:
			c.R.Add(rule, cons, c.P.InstrPos(s.call), OK, "")
		}
	}
	c.R.Analysed["whole_text_scanners"] = ndirect
	c.R.Analysed["per_token_functions"] = len(rr.Order)
	c.R.Check(rule, "positive-control:line-start-builder-recognised", "-", ndirect >= 1, "no function that walks a text parameter in a loop was recognised (the line-start table builder is one): the detector sees nothing")
	c.R.Floor(rule, 3)
}
