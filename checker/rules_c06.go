package main

import (
	"fmt"
	"go/constant"
	"go/token"
	"os"
	"strings"

	"golang.org/x/tools/go/ssa"
)

func init() {
	register("C06",
		"one truthiness function is consulted by `!`, `!!`, `?:`, `&&`, `||`, and its truth table over (kind, zero-test, NaN-test, emptiness, null-test) is the one of the statement; `&&` `||` `??` return one of their two operands unchanged with the right polarity; `?:` evaluates the condition, then exactly the selected branch, and returns that evaluation; `!` negates; every binary / prefix operator the parser can produce has an evaluator arm, `??` included.",
		"the value-level behaviour of Cmp / IsNaN on special numbers (negative zero, infinities).",
		runC06)
}

func runC06(c *Ctx) {
	barms, und := c.binaryDispatch()
	if und != "" {
		c.R.Undecided("C06.anchor", "binary-dispatch", "-", und)
		return
	}
	parms, und := c.prefixDispatch()
	if und != "" {
		c.R.Undecided("C06.anchor", "prefix-dispatch", "-", und)
		return
	}
	d := c.EvalDispatcher()
	condH := d.Handlers["ConditionalExpression"]
	if !c.need("C06.anchor", condH, "handler of *ConditionalExpression") {
		return
	}
	// truthiness is defined on normalised values (a raw Go int 0 or float NaN is "some non-null value" to it): every
	// value that leaves the node dispatcher is the normaliser's result (shared with C16)
	c16NormaliseAs(c, d, "C06.conditions-are-normalised-values", false)
	// the truthiness function: what `!!` calls
	bb := parms[c.SK("SK_ExclamationExclamation")]
	var T *ssa.Function
	if bb.Handler != nil && bb.Handler.Signature.Results().Len() == 1 && isBoolType(bb.Handler.Signature.Results().At(0).Type()) {
		T = bb.Handler // `!!` asks the truthiness function directly in the operator dispatch
	} else if bb.Handler != nil {
		instrs(bb.Handler, func(b *ssa.BasicBlock, i int, in ssa.Instruction) {
			if call, ok := in.(*ssa.Call); ok {
				if cal := calleeOf(call); cal != nil && c.inModule(cal) && cal.Signature.Results().Len() == 1 && isBoolType(cal.Signature.Results().At(0).Type()) {
					T = cal
				}
			}
		})
	}
	if T == nil {
		c.R.Check("C06.single-truthiness", "ANCHOR-UNRESOLVED truthiness function", bb.Pos, false, "`!!` must be computed by the truthiness function; none found in its handler")
		return
	}
	c.R.Analysed["truthiness_function"] = c.P.FuncKey(T)
	c06Truthiness(c, T)
	c06Single(c, T, barms, parms, condH)
	c06OperandReturned(c, T, barms)
	c06OneBranch(c, T, condH, d)
	c06Not(c, T, parms)
	c06Dispatch(c, barms, parms)
	nullDefinition(c, "C06.null-definition")
	// "null is falsy" covers a nil pointer read out of the data: member access hands it on as null
	c16NilUnified(c, d, "C06.null-members-are-null")
	// "evaluates only the selected branch" of a chained `a ? b : c ? d : e` presupposes the grouping a ? b : (c ? d : e):
	// the parser's layering of `?:` (shared with C02)
	if ro := c.needRoles("C06.roles"); ro != nil {
		c02Layers(c, ro, "C06.conditional-parsing")
	}
}

func truthArg(f *ssa.Function) *ssa.Parameter {
	ops := operandParams(f)
	if len(ops) == 0 {
		return nil
	}
	return ops[0]
}

func c06Truthiness(c *Ctx, T *ssa.Function) {
	const rule = "C06.truthiness-table"
	v := truthArg(T)
	pos := c.P.Pos(T.Pos())
	if v == nil {
		c.R.Undecided(rule, "parameter", pos, "truthiness function has no value parameter")
		return
	}
	// bool: the value itself
	for _, bv := range []bool{true, false} {
		var ps []Pin
		ps = append(ps, pinTypeCase(v, "bool"))
		for _, av := range assertedValues(T, v, "bool") {
			ps = append(ps, pinValue(av, constant.MakeBool(bv)))
		}
		r := c.foldWith(T, 1, ps...)
		got, ok := boolResult(r, 0)
		c.R.Check(rule, fmt.Sprintf("bool:%v", bv), pos, ok && got == bv, fmt.Sprintf("truthiness of the boolean %v must be %v (folded: %v, constant=%v)", bv, bv, got, ok))
	}
	// string: non-empty
	for _, n := range []int64{0, 1, 5} {
		ps := []Pin{pinTypeCase(v, "string"), pinLen(constant.MakeInt64(n))}
		r := c.foldWith(T, 1, ps...)
		got, ok := boolResult(r, 0)
		if !ok {
			// `n != ""` form
			okForm := false
			for _, ret := range r.Returns {
				if bo, isB := ret.Results[0].(*ssa.BinOp); isB && bo.Op == token.NEQ {
					if k, isK := bo.Y.(*ssa.Const); isK && k.Value != nil && k.Value.Kind() == constant.String && constant.StringVal(k.Value) == "" {
						okForm = true
					}
				}
			}
			c.R.Check(rule, fmt.Sprintf("string:len=%d", n), pos, okForm, "truthiness of a string must be its non-emptiness")
			continue
		}
		c.R.Check(rule, fmt.Sprintf("string:len=%d", n), pos, got == (n > 0), fmt.Sprintf("a string of length %d must be %v, folded %v", n, n > 0, got))
	}
	// number: non-zero and not NaN
	for _, cmp := range []int64{-1, 0, 1} {
		for _, nan := range []bool{false, true} {
			// (*Big).Sign is 0 for zero and for NaN (the library's definition), -1 / +1 otherwise
			sign := cmp
			if nan {
				sign = 0
			}
			ps := []Pin{pinTypeCase(v, "*decimal.Big"), pinCall("decimal.Big).Cmp", cInt(cmp), nil), pinCall("decimal.Big).Sign", cInt(sign), nil), pinCall("decimal.Big).IsNaN", constant.MakeBool(nan), nil)}
			r := c.foldWith(T, 1, ps...)
			got, ok := boolResult(r, 0)
			want := cmp != 0 && !nan
			c.R.Check(rule, fmt.Sprintf("number:cmp0=%d,nan=%v", cmp, nan), pos, ok && got == want, fmt.Sprintf("a number comparing %d with zero and IsNaN=%v must have truthiness %v (folded %v, constant=%v): zero and NaN are falsy, every other number truthy", cmp, nan, want, got, ok))
		}
	}
	// the zero test compares the operand with a zero, the NaN test is on the operand
	zeroOK, nanOK := false, false
	// (in the truthiness function itself, or in the kernel it hands numbers to: there the operand is the number parameter)
	scanned := []*ssa.Function{T}
	operandOf := map[*ssa.Function]*ssa.Parameter{T: v}
	if K := c.numberKernel(T); K != nil {
		for _, p := range K.Params {
			if p.Type().String() == "*github.com/ericlagergren/decimal.Big" {
				scanned = append(scanned, K)
				operandOf[K] = p
			}
		}
	}
	for _, fn := range scanned {
		v := operandOf[fn]
		instrs(fn, func(b *ssa.BasicBlock, i int, in ssa.Instruction) {
			call, ok := in.(*ssa.Call)
			if !ok {
				return
			}
			cal := calleeOf(call)
			if cal == nil {
				return
			}
			switch cal.String() {
			case "(*github.com/ericlagergren/decimal.Big).Cmp":
				if c.sameNumberAs(call.Call.Args[0], v, 0) {
					for _, rt := range decOrigins(c).Roots(call.Call.Args[1]) {
						if rt.Kind == "call" && rt.Fn != nil && (rt.Fn.Name() == c.P.alias("newDecimalBig") || strings.HasSuffix(rt.Fn.String(), "decimal.New") || strings.HasSuffix(rt.Fn.String(), "decimal.WithContext")) {
							zeroOK = c.zeroConstruction(call.Call.Args[1])
						}
					}
				}
			case "(*github.com/ericlagergren/decimal.Big).Sign":
				if c.sameNumberAs(call.Call.Args[0], v, 0) {
					zeroOK = true
					nanOK = true // Sign is 0 for NaN as well: the table above has decided what is done with it
				}
			case "(*github.com/ericlagergren/decimal.Big).IsNaN":
				if c.sameNumberAs(call.Call.Args[0], v, 0) {
					nanOK = true
				}
			}
		})
	}
	c.R.Check(rule, "number:zero-test-operands", pos, zeroOK, "the zero test must compare the operand itself with a number constructed as 0")
	c.R.Check(rule, "number:nan-test-operand", pos, nanOK, "the NaN test must be made on the operand itself")
	// anything else: not null
	for _, isNull := range []bool{true, false} {
		ps := []Pin{pinTypeCase(v, "other"), pinCall("formula.IsNull", constant.MakeBool(isNull), nil)}
		r := c.foldWith(T, 1, ps...)
		got, ok := boolResult(r, 0)
		c.R.Check(rule, fmt.Sprintf("other:null=%v", isNull), pos, ok && got == !isNull, fmt.Sprintf("a value of any other kind must be truthy exactly when it is not null (null=%v folded to %v, constant=%v)", isNull, got, ok))
	}
	// nil interface goes to the default arm as well
	ps := []Pin{pinTypeCase(v, "nil"), pinCall("formula.IsNull", cTrue, nil)}
	r := c.foldWith(T, 1, ps...)
	got, ok := boolResult(r, 0)
	c.R.Check(rule, "nil", pos, ok && !got, "null must be falsy")
	c.R.Floor(rule, 14)
}

// zeroConstruction: v is newDecimalBig().SetUint64(0) / decimal.New(0, 0) or similar: a fresh number set from the constant 0.
func (c *Ctx) zeroConstruction(v ssa.Value) bool {
	call, ok := v.(*ssa.Call)
	if !ok {
		return false
	}
	cal := calleeOf(call)
	if cal == nil {
		return false
	}
	switch cal.Name() {
	case "SetUint64", "SetMantScale", "SetFloat64", "New":
		for _, a := range call.Call.Args {
			if k, ok := a.(*ssa.Const); ok && k.Value != nil {
				if k.Value.Kind() == constant.Int || k.Value.Kind() == constant.Float {
					if constant.Sign(k.Value) != 0 {
						return false
					}
				}
			}
		}
		return true
	}
	return false
}

func pinLen(val constant.Value) Pin {
	return func(v ssa.Value) (constant.Value, bool) {
		call, ok := v.(*ssa.Call)
		if !ok {
			return nil, false
		}
		if b, ok := call.Call.Value.(*ssa.Builtin); ok && b.Name() == "len" {
			return val, true
		}
		return nil, false
	}
}

// callsTo lists calls of g in f.
func callsTo(f, g *ssa.Function) []*ssa.Call {
	var out []*ssa.Call
	instrs(f, func(b *ssa.BasicBlock, i int, in ssa.Instruction) {
		if call, ok := in.(*ssa.Call); ok && calleeOf(call) == g {
			out = append(out, call)
		}
	})
	return out
}

// numberKernel: the function K to which the truthiness function hands a number: folded with the operand's dynamic type
// pinned to *decimal.Big, every return of T is the call K(.., n) on the asserted number. Asking K about a number is
// asking T about it.
func (c *Ctx) numberKernel(T *ssa.Function) *ssa.Function {
	v := truthArg(T)
	if v == nil {
		return nil
	}
	r := c.foldWith(T, 0, pinTypeCase(v, "*decimal.Big"))
	var K *ssa.Function
	for _, ret := range r.Returns {
		if len(ret.Results) != 1 {
			return nil
		}
		call, ok := ret.Results[0].(*ssa.Call)
		if !ok {
			return nil
		}
		g := calleeOf(call)
		if g == nil || !c.inModule(g) || g == T || (K != nil && g != K) {
			return nil
		}
		onNumber := false
		for _, a := range call.Call.Args {
			for _, av := range assertedValues(T, v, "*decimal.Big") {
				if a == av {
					onNumber = true
				}
			}
		}
		if !onNumber {
			return nil
		}
		K = g
	}
	return K
}

// kernelOnOperand: call asks the number kernel K about the asserted number of operand v of h.
func kernelOnOperand(call *ssa.Call, K *ssa.Function, h *ssa.Function, v ssa.Value) bool {
	if K == nil || calleeOf(call) != K {
		return false
	}
	for _, a := range call.Call.Args {
		for _, av := range assertedValues(h, v, "*decimal.Big") {
			if a == av {
				return true
			}
		}
	}
	return false
}

func c06Single(c *Ctx, T *ssa.Function, barms, parms map[int64]OpArm, condH *ssa.Function) {
	const rule = "C06.single-truthiness"
	users := []struct {
		name string
		h    *ssa.Function
		pos  string
	}{
		{"!!", parms[c.SK("SK_ExclamationExclamation")].Handler, parms[c.SK("SK_ExclamationExclamation")].Pos},
		{"!", parms[c.SK("SK_Exclamation")].Handler, parms[c.SK("SK_Exclamation")].Pos},
		{"&&", barms[c.SK("SK_AmpersandAmpersand")].Handler, barms[c.SK("SK_AmpersandAmpersand")].Pos},
		{"||", barms[c.SK("SK_BarBar")].Handler, barms[c.SK("SK_BarBar")].Pos},
		{"?:", condH, c.P.Pos(condH.Pos())},
	}
	for _, u := range users {
		if u.h == nil {
			c.R.Check(rule, "user:"+u.name, u.pos, false, "no handler for "+u.name)
			continue
		}
		if u.h == T {
			c.R.Add(rule, "user:"+u.name, u.pos, OK, "") // the operator dispatch asks the truthiness function itself
			continue
		}
		calls := callsTo(u.h, T)
		K := c.numberKernel(T)
		if len(calls) == 0 && K != nil {
			// ... or from the kernel T itself hands numbers to, asked about the operand's number
			if ov := truthArg(u.h); ov != nil {
				for _, kc := range callsTo(u.h, K) {
					if kernelOnOperand(kc, K, u.h, ov) {
						calls = append(calls, kc)
					}
				}
			}
		}
		// ... or the decision is taken in the operator's own arm and handed to a shared selection helper as a flag
		if len(calls) == 0 && (u.name == "&&" || u.name == "||") {
			arm := barms[c.SK(map[string]string{"&&": "SK_AmpersandAmpersand", "||": "SK_BarBar"}[u.name])]
			if arm.Call != nil {
				for _, a := range arm.Call.Call.Args {
					if !isBoolType(a.Type()) {
						continue
					}
					v := a
					if un, isU := v.(*ssa.UnOp); isU && un.Op == token.NOT {
						v = un.X
					}
					if dc, isC := v.(*ssa.Call); isC && calleeOf(dc) == T {
						calls = append(calls, dc)
					}
				}
			}
		}
		// no other boolean decision helper of the module may stand in for it
		other := ""
		instrs(u.h, func(b *ssa.BasicBlock, i int, in ssa.Instruction) {
			// a test made on the way to an error (what to call the operand in the message) decides nothing
			for d := b; d != nil; d = d.Idom() {
				if len(d.Preds) == 1 {
					p := d.Preds[0]
					for k, sc := range p.Succs {
						if sc == d && len(p.Succs) == 2 && c.rejects(p, k, nil, nil) {
							return
						}
					}
				}
			}
			if call, ok := in.(*ssa.Call); ok {
				if cal := calleeOf(call); cal != nil && cal != T && cal != K && c.inModule(cal) && cal.Signature.Results().Len() == 1 && isBoolType(cal.Signature.Results().At(0).Type()) {
					other = c.P.FuncKey(cal)
				}
			}
		})
		if len(calls) == 0 && other == "" {
			c.R.Undecided(rule, "user:"+u.name, u.pos, fmt.Sprintf("`%s` must take its decision from the one truthiness function %s: no call of it (or of its number kernel) found in the handler", u.name, c.P.FuncKey(T)))
			continue
		}
		c.R.Check(rule, "user:"+u.name, u.pos, len(calls) >= 1 && other == "", fmt.Sprintf("`%s` must take its decision from the one truthiness function %s (calls found: %d, other decision helper: %q)", u.name, c.P.FuncKey(T), len(calls), other))
	}
	c.R.Floor(rule, 5)
}

func c06OperandReturned(c *Ctx, T *ssa.Function, barms map[int64]OpArm) {
	const rule = "C06.operand-returned"
	type spec struct {
		tok, sym string
		// decision true -> which operand (0 = left, 1 = right)
		onTrue, onFalse int
		decider         string // "T" or "IsNull"
	}
	for _, s := range []spec{
		{"SK_AmpersandAmpersand", "&&", 1, 0, "T"},
		{"SK_BarBar", "||", 0, 1, "T"},
		{"SK_QuestionQuestion", "??", 1, 0, "IsNull"},
	} {
		arm := barms[c.SK(s.tok)]
		h := arm.Handler
		if h == nil {
			c.R.Check(rule, s.sym, arm.Pos, false, "no handler for "+s.sym)
			continue
		}
		ops := operandParams(h)
		hasFlag := false
		for _, p := range h.Params {
			if isBoolType(p.Type()) {
				hasFlag = true
			}
		}
		if (len(ops) != 2 || hasFlag) && arm.Call != nil && arm.Fold != nil {
			// one selection helper shared by the three operators: `pick(flag, v1, v2)` with the flag computed in the
			// operator's own arm from the decision on the left operand
			if c.c06SelectionHelper(rule, s.sym, s.decider, s.onTrue, s.onFalse, T, arm) {
				continue
			}
		}
		if len(ops) != 2 {
			c.R.Undecided(rule, s.sym, c.P.Pos(h.Pos()), "handler does not take two operand values")
			continue
		}
		// the decision is made on the left operand
		var decCalls []*ssa.Call
		if s.decider == "T" {
			decCalls = callsTo(h, T)
		} else {
			decCalls = callsTo(h, c.fn("IsNull"))
		}
		onLeft := len(decCalls) > 0
		for _, dc := range decCalls {
			arg := dc.Call.Args[len(dc.Call.Args)-1]
			if stripIface(arg) != ssa.Value(ops[0]) {
				onLeft = false
			}
		}
		c.R.Check(rule, s.sym+":decides-on-left", c.P.Pos(h.Pos()), onLeft, "`"+s.sym+"` must decide on its left operand")
		for _, dv := range []bool{true, false} {
			var p Pin
			if s.decider == "T" {
				p = pinCallFn(T, constant.MakeBool(dv), nil)
			} else {
				p = pinCallFn(c.fn("IsNull"), constant.MakeBool(dv), nil)
			}
			r := c.foldWith(h, 1, p)
			want := s.onFalse
			if dv {
				want = s.onTrue
			}
			good := len(r.Returns) > 0
			got := ""
			for _, ret := range r.Returns {
				if ret.Results[0] != ssa.Value(ops[want]) {
					good = false
					got = describeValue(ret.Results[0])
				}
				if k, ok := ret.Results[1].(*ssa.Const); !ok || k.Value != nil {
					good = false
					got += " (non-nil error)"
				}
			}
			side := []string{"left", "right"}[want]
			c.R.Check(rule, fmt.Sprintf("%s:%s=%v", s.sym, s.decider, dv), c.P.Pos(h.Pos()), good, fmt.Sprintf("when %s(left) is %v, `%s` must hand back its %s operand itself, unchanged; it returns %s", s.decider, dv, s.sym, side, got))
		}
	}
	c.R.Floor(rule, 9)
}

// c06SelectionHelper: the arm calls g(.., flag, .., a, b) where a and b are the two operand values and flag is a boolean
// computed in the arm from T(a) / IsNull(a); with the decision pinned the flag folds to a constant, and g folded with
// that constant hands back the parameter that received the wanted operand. Returns false when the arm is not of
// this form (the caller then reports as before).
func (c *Ctx) c06SelectionHelper(rule, sym, decider string, onTrue, onFalse int, T *ssa.Function, arm OpArm) bool {
	g := arm.Handler
	call := arm.Call
	bh := call.Parent()
	args := call.Call.Args
	if len(args) != len(g.Params) {
		return false
	}
	var opIdx []int
	flagIdx := -1
	for i, a := range args {
		switch {
		case isBoolType(a.Type()):
			if flagIdx >= 0 {
				return false
			}
			flagIdx = i
		case a.Type().String() == "interface{}" || a.Type().String() == "any":
			opIdx = append(opIdx, i)
		}
	}
	if os.Getenv("FCHECK_DEBUG") != "" {
		fmt.Println("selection helper:", g.Name(), "flag", flagIdx, "operands", opIdx)
	}
	if flagIdx < 0 || len(opIdx) != 2 {
		return false
	}
	dfn := T
	if decider == "IsNull" {
		dfn = c.fn("IsNull")
	}
	// the decision the flag is computed from
	var dc *ssa.Call
	var find func(v ssa.Value, depth int)
	find = func(v ssa.Value, depth int) {
		if depth > 3 {
			return
		}
		switch x := v.(type) {
		case *ssa.Call:
			if calleeOf(x) == dfn {
				dc = x
			}
		case *ssa.UnOp:
			find(x.X, depth+1)
		case *ssa.Phi:
			for _, e := range x.Edges {
				find(e, depth+1)
			}
		}
	}
	find(args[flagIdx], 0)
	pos := c.P.InstrPos(call)
	if dc == nil {
		c.R.Check(rule, sym+":decides-on-left", pos, false, "`"+sym+"` must decide on its left operand: the flag handed to "+c.P.FuncKey(g)+" is not computed from "+decider+"(left)")
		return true
	}
	onLeft := stripIface(dc.Call.Args[len(dc.Call.Args)-1]) == stripIface(args[opIdx[0]])
	c.R.Check(rule, sym+":decides-on-left", pos, onLeft, "`"+sym+"` must decide on its left operand")
	for _, dv := range []bool{true, false} {
		want := onFalse
		if dv {
			want = onTrue
		}
		good, got := false, "?"
		r := c.foldWith(bh, 0, pinValue(dc, constant.MakeBool(dv)))
		if fv := r.Val(args[flagIdx]); fv.K == lConst && fv.C.Kind() == constant.Bool {
			gargs := makeBottoms(len(g.Params))
			gargs[flagIdx] = fv
			gr := (&Folder{P: c.P, MaxDepth: 1}).Fold(g, gargs)
			good = len(gr.Returns) > 0
			for _, ret := range gr.Returns {
				if ret.Results[0] != ssa.Value(g.Params[opIdx[want]]) {
					good = false
					got = describeValue(ret.Results[0])
				}
				if len(ret.Results) < 2 || !isNilConst(ret.Results[1]) {
					good = false
					got += " (non-nil error)"
				}
			}
		} else {
			got = "a flag that does not fold"
		}
		side := []string{"left", "right"}[want]
		c.R.Check(rule, fmt.Sprintf("%s:%s=%v", sym, decider, dv), pos, good, fmt.Sprintf("when %s(left) is %v, `%s` must hand back its %s operand itself, unchanged; it returns %s", decider, dv, sym, side, got))
	}
	return true
}

func c06OneBranch(c *Ctx, T *ssa.Function, condH *ssa.Function, d *Dispatcher) {
	const rule = "C06.one-branch"
	pos := c.P.Pos(condH.Pos())
	childOfIn := func(or *Origins, call *ssa.Call) string {
		out := ""
		for _, a := range call.Call.Args {
			for _, rt := range or.Roots(a) {
				if rt.Kind == "param" && len(rt.Path) == 1 && typeName(rt.V.Type()) == "ConditionalExpression" {
					if out != "" && out != rt.Path[0] {
						return "one of several children"
					}
					out = rt.Path[0]
				}
			}
		}
		return out
	}
	childOf := func(call *ssa.Call) string { return childOfIn(plainOrigins, call) }
	evals := callsTo(condH, d.Fn)
	var condEval *ssa.Call
	for _, e := range evals {
		if childOf(e) == "Condition" {
			condEval = e
		}
	}
	if condEval == nil {
		c.R.Check(rule, "condition-evaluated", pos, false, "the conditional handler does not evaluate its Condition child")
		return
	}
	// the condition is evaluated first, on every path
	first := true
	for _, e := range evals {
		if e != condEval && !instrDominates(condEval, e) {
			first = false
		}
	}
	c.R.Check(rule, "condition-first", c.P.InstrPos(condEval), first && condEval.Block() == condH.Blocks[0], "the condition must be evaluated first, unconditionally")
	// truthiness is taken of the condition's value
	tcalls := callsTo(condH, T)
	onCond := len(tcalls) == 1
	for _, tc := range tcalls {
		arg := tc.Call.Args[len(tc.Call.Args)-1]
		ok := false
		for _, rt := range plainOrigins.Roots(arg) {
			if rt.Kind == "call" && rt.V == ssa.Value(condEval) && rt.Idx == 0 {
				ok = true
			}
		}
		if !ok {
			onCond = false
		}
	}
	c.R.Check(rule, "decides-on-condition", pos, onCond, "the branch must be selected by the truthiness of the evaluated condition")
	for _, dv := range []bool{true, false} {
		r := c.foldWith(condH, 1, pinCallFn(T, constant.MakeBool(dv), nil))
		want := "WhenFalse"
		if dv {
			want = "WhenTrue"
		}
		var seen []string
		var branchEval *ssa.Call
		for _, call := range r.ReachableCalls() {
			cc, ok := call.(*ssa.Call)
			if !ok || calleeOf(cc) != d.Fn {
				continue
			}
			// `branch := WhenFalse; if c { branch = WhenTrue }; resolve(branch)`: which child it is depends on the path
			ch := childOfIn(foldOrigins(r), cc)
			seen = append(seen, ch)
			if ch == want {
				branchEval = cc
			}
		}
		okSet := len(seen) == 2 && branchEval != nil
		c.R.Check(rule, fmt.Sprintf("evaluates:%v", dv), pos, okSet, fmt.Sprintf("for a %v condition exactly the children Condition and %s must be evaluated; evaluated: %v", dv, want, seen))
		// the value returned without error is that evaluation
		if branchEval != nil {
			good := false
			for _, ret := range r.Returns {
				k, isK := ret.Results[1].(*ssa.Const)
				nilErr := isK && k.Value == nil
				// `return r.resolve(ctx, child)`: the pair of the branch evaluation itself
				pair := isResultOf(ret.Results[0], branchEval, 0) && isResultOf(ret.Results[1], branchEval, 1)
				if nilErr || pair {
					for _, rt := range plainOrigins.Roots(ret.Results[0]) {
						if rt.Kind == "call" && rt.V == ssa.Value(branchEval) && rt.Idx == 0 && len(rt.Path) == 0 {
							good = true
						} else {
							good = false
						}
					}
				}
			}
			c.R.Check(rule, fmt.Sprintf("returns-selected:%v", dv), pos, good, "the conditional must hand back the selected branch's value unchanged")
		}
	}
	c.R.Floor(rule, 6)
}

func c06Not(c *Ctx, T *ssa.Function, parms map[int64]OpArm) {
	const rule = "C06.not"
	arm := parms[c.SK("SK_Exclamation")]
	h := arm.Handler
	if h == nil {
		c.R.Check(rule, "handler", arm.Pos, false, "no handler for `!`")
		return
	}
	v := truthArg(h)
	pos := c.P.Pos(h.Pos())
	if v == nil {
		c.R.Undecided(rule, "handler", pos, "no operand parameter")
		return
	}
	for _, bv := range []bool{true, false} {
		ps := []Pin{pinTypeCase(v, "bool")}
		for _, av := range assertedValues(h, v, "bool") {
			ps = append(ps, pinValue(av, constant.MakeBool(bv)))
		}
		r := c.foldWith(h, 2, ps...)
		got, ok := boxedBoolResult(r, 0)
		c.R.Check(rule, fmt.Sprintf("bool:%v", bv), pos, ok && got == !bv, fmt.Sprintf("!%v must be %v", bv, !bv))
	}
	for _, tv := range []bool{true, false} {
		K := c.numberKernel(T)
		r := c.foldWith(h, 1, pinTypeCase(v, "*decimal.Big"), pinCallFn(T, constant.MakeBool(tv), nil), pinCallFn(K, constant.MakeBool(tv), func(call *ssa.Call) bool { return kernelOnOperand(call, K, h, v) }))
		got, ok := boxedBoolResult(r, 0)
		if !ok {
			// no constant result: the handler does not go through the truthiness function (or its number kernel) at all
			c.R.Undecided(rule, fmt.Sprintf("number:truthy=%v", tv), pos, "`!` of a number must be the negation of its truthiness: the result does not fold once the truthiness function is pinned")
		} else {
			c.R.Check(rule, fmt.Sprintf("number:truthy=%v", tv), pos, got == !tv, "`!` of a number must be the negation of its truthiness")
		}
	}
	r := c.foldWith(h, 2, pinTypeCase(v, "nil"))
	got, ok := boxedBoolResult(r, 0)
	c.R.Check(rule, "null", pos, ok && got, "`!null` must be true")
	// `!!` returns the truthiness itself
	h2 := parms[c.SK("SK_ExclamationExclamation")].Handler
	if h2 == T && h2 != nil {
		// written out in the operator dispatch: `return toBool(v), nil`
		arm2 := parms[c.SK("SK_ExclamationExclamation")]
		okRet := arm2.Call != nil && arm2.Fold != nil && len(arm2.Fold.Returns) > 0
		if okRet {
			n := 0
			for _, ret := range arm2.Fold.Returns {
				if len(ret.Results) == 2 && !isNilConst(ret.Results[1]) {
					continue // the operand's own error
				}
				n++
				if len(ret.Results) != 2 || stripIface(ret.Results[0]) != ssa.Value(arm2.Call) {
					okRet = false
				}
			}
			if n == 0 {
				okRet = false
			}
		}
		for _, tv := range []bool{true, false} {
			c.R.Check(rule, fmt.Sprintf("!!:truthy=%v", tv), arm2.Pos, okRet, "`!!x` must be the truthiness of x")
		}
		okArg := false
		if arm2.Call != nil {
			disp := arm2.Call.Parent()
			ops := operandParams(disp)
			a := stripIface(arm2.Call.Call.Args[len(arm2.Call.Call.Args)-1])
			for _, rt := range plainOrigins.Roots(a) {
				if rt.Kind == "call" && c.inModule(rt.Fn) || rt.Kind == "param" && len(ops) > 0 && rt.V == ssa.Value(ops[0]) {
					okArg = true // the evaluated operand
				}
			}
		}
		c.R.Check(rule, "!!:operand", arm2.Pos, okArg, "`!!` must apply truthiness to its operand")
	} else if h2 != nil {
		for _, tv := range []bool{true, false} {
			r := c.foldWith(h2, 1, pinCallFn(T, constant.MakeBool(tv), nil))
			got, ok := boxedBoolResult(r, 0)
			c.R.Check(rule, fmt.Sprintf("!!:truthy=%v", tv), c.P.Pos(h2.Pos()), ok && got == tv, "`!!x` must be the truthiness of x")
		}
		// applied to the operand
		okArg := false
		for _, tc := range callsTo(h2, T) {
			if stripIface(tc.Call.Args[len(tc.Call.Args)-1]) == ssa.Value(truthArg(h2)) {
				okArg = true
			}
		}
		c.R.Check(rule, "!!:operand", c.P.Pos(h2.Pos()), okArg, "`!!` must apply truthiness to its operand")
	}
	c.R.Floor(rule, 7)
}

func c06Dispatch(c *Ctx, barms, parms map[int64]OpArm) {
	const rule = "C06.dispatch-complete"
	ro := c.Roles()
	if len(ro.Missing) > 0 {
		c.R.Undecided(rule, "parser-roles", "-", "parser roles unresolved: "+strings.Join(ro.Missing, ", "))
		return
	}
	prod := c.producibleTokens()
	tab, _ := c.precTable(ro)
	e := int64(0)
	if len(ro.EntryPrec) > 0 {
		e = ro.EntryPrec[0]
	}
	want := map[int64]bool{c.SK("SK_Comma"): true}
	for k, p := range tab {
		if p > e {
			want[k] = true
		}
	}
	for _, k := range c.AllKinds() {
		if a, ok := c.foldKindMethod("IsAssignmentOperator", k); ok && a {
			want[k] = true
		}
	}
	// the ladder of the statement, whatever the parser does
	for k := range c.specLadderClass() {
		want[k] = true
	}
	for _, k := range c.AllKinds() {
		if !want[k] || !prod[k] {
			continue
		}
		arm := barms[k]
		c.R.Check(rule, "binary:"+c.SKName(k), arm.Pos, arm.Present, "binary operator "+c.SKName(k)+" can be scanned and parsed but the evaluator's operator dispatch has no arm for it (falls through to: "+arm.Fallthrough+")")
	}
	for _, n := range specPrefix {
		k := c.SK(n)
		arm := parms[k]
		c.R.Check(rule, "prefix:"+n, arm.Pos, arm.Present, "prefix operator "+n+" has no evaluator arm")
	}
	// `=` is handled before any operand is evaluated
	eq := barms[c.SK("SK_Equals")]
	if eq.Present && eq.Fold != nil {
		d := c.EvalDispatcher()
		early := true
		for _, call := range eq.Fold.ReachableCalls() {
			if cc, ok := call.(*ssa.Call); ok && calleeOf(cc) == d.Fn {
				early = false
			}
		}
		c.R.Check(rule, "assignment-before-operands", eq.Pos, early, "`=` must be dispatched before its left operand is evaluated as a value")
	}
	c.R.Floor(rule, 25)
}

// unused but kept for symmetry with token comparisons
var _ = token.EQL

// sameNumberAs: x is the operand p itself - through type assertions, or through module helpers that hand a number
// argument back unchanged on every path (a conversion helper applied to what is already a number). A helper that can
// return another number (`finite`: 0 for the infinities) makes a test on its result a test of something else.
func (c *Ctx) sameNumberAs(x ssa.Value, p *ssa.Parameter, depth int) bool {
	if depth > 3 {
		return false
	}
	rs := plainOrigins.Roots(x)
	if len(rs) == 0 {
		return false
	}
	for _, r := range rs {
		switch r.Kind {
		case "param":
			if r.V != ssa.Value(p) {
				return false
			}
		case "call":
			call := r.V.(*ssa.Call)
			g := calleeOf(call)
			if g == nil || !c.inModule(g) || len(g.Blocks) == 0 {
				return false
			}
			pi := -1
			for i, a := range call.Call.Args {
				if c.sameNumberAs(a, p, depth+1) {
					pi = i
				}
			}
			if pi < 0 || pi >= len(g.Params) {
				return false
			}
			gp := g.Params[pi]
			fr := c.foldWith(g, 1, pinTypeCase(gp, "*decimal.Big"))
			if len(fr.Returns) == 0 {
				return false
			}
			for _, ret := range fr.Returns {
				if r.Idx >= len(ret.Results) {
					return false
				}
				same := true
				rr := plainOrigins.Roots(ret.Results[r.Idx])
				if len(rr) == 0 {
					same = false
				}
				for _, q := range rr {
					if q.Kind != "param" || q.V != ssa.Value(gp) || len(q.Path) != 0 {
						same = false
					}
				}
				if !same {
					return false
				}
			}
		default:
			return false
		}
	}
	return true
}
