package main

import (
	"fmt"
	"go/constant"
	"go/token"
	"go/types"
	"os"
	"strings"

	"golang.org/x/tools/go/ssa"
)

func init() {
	register("C17",
		"all 18 string / list builtin names of the statement are registered as functions; every parameter of each influences its result (data flow or a branch on it); none is wired to the antonym of its name (lower/upper, startWith/endWith via prefix/suffix primitives, left/right slice ends, lpad/rpad side of the padding, trim trims, replace replaces all occurrences, find/contains use Index/Contains on (s, t) in that order); the `first index == len(s)-len(t)` suffix idiom (wrong for repeated substrings) is absent. lower, upper, trim, replace, join, contains, find call their primitive on every path to a successful return. Decided in addition: a constant cutset that reaches strings.Trim in `trim` holds all of unicode.IsSpace; a `regexp` result that bypasses the engine sits behind a guard over the complete set of syntax characters; compiled patterns may come from a memo table keyed by the pattern text (memo.go).",
		"the algebraic laws of the statement themselves (prefix/suffix/slice/pad algebra, clamping, regexp = RE2): they are value-level.",
		runC17)
	register("C18",
		"all 15 numeric builtin names are registered as functions; every parameter influences the result; `& | ^` compute the machine AND / OR / XOR of both operands' integer values and `~` the complement of its operand's integer value, each flowing into the returned number; abs/ceil/floor/sqrt/exp/ln/log/max/min call the decimal operation of their own name on their argument (ln -> Log, log -> Log10) and not the opposite one. The 64-bit integer results of & | ^ ~ and toInt enter the number without passing float64; toString's number arm returns the decimal's own rendering unmodified; abs/ceil/floor/sqrt/exp/ln/log/round/toInt reach their primitive on every successful path. Every strconv integer parse the evaluator reaches reads text in base 10.",
		"numeric results (round within 1/2, roundBank ties-to-even, 15-digit accuracy of sqrt/exp/ln/log, toInt truncation).",
		runC18)
	register("C19",
		"all 14 date builtin names are registered as functions; every parameter influences the result; date(y,m,d) calls time.Date with (y, Month(m), d) purely from its parameters in that order, four zero constants and time.Local; addDate calls AddDate on its time with (y,m,d) in order; each extractor returns a pure conversion of the Time method of its name on its parameter; millSecond is Unix time in milliseconds; useTimezone returns the error of LoadLocation(name) and otherwise date.In(location); timeFormat is date.Format(layout); now is time.Now() and toDay the local midnight of one Now() value. addDate reaches t.AddDate on every successful path; millSecond is UnixMilli / UnixMicro/1e3 / UnixNano/1e6 on every return (not Unix()*1000).",
		"calendar arithmetic itself (carry of out-of-range months and days, time zones): trusted to package time.",
		runC19)
}

// ---------- parameter relevance ----------

// dependsOn: the set of values in f that (transitively) depend on value src by data flow,
// including through local cells, calls (any argument influences the result) and phis.
func dependsOn(f *ssa.Function, src ssa.Value) map[ssa.Value]bool {
	dep := map[ssa.Value]bool{src: true}
	cellDep := map[ssa.Value]bool{} // alloc cells that hold a dependent value
	for changed := true; changed; {
		changed = false
		instrs(f, func(b *ssa.BasicBlock, i int, in ssa.Instruction) {
			var ops []*ssa.Value
			ops = in.Operands(ops)
			anyDep := false
			for _, op := range ops {
				if *op != nil && dep[*op] {
					anyDep = true
				}
			}
			switch x := in.(type) {
			case *ssa.Store:
				if dep[x.Val] {
					// the cell (or the object the address points into) now depends
					base := x.Addr
					for {
						switch y := base.(type) {
						case *ssa.FieldAddr:
							base = y.X
							continue
						case *ssa.IndexAddr:
							base = y.X
							continue
						}
						break
					}
					if !cellDep[base] {
						cellDep[base] = true
						changed = true
					}
					if !dep[base] {
						dep[base] = true
						changed = true
					}
				}
			case *ssa.MapUpdate:
				if (dep[x.Key] || dep[x.Value]) && !dep[x.Map] {
					dep[x.Map] = true
					changed = true
				}
			default:
				if v, ok := in.(ssa.Value); ok && anyDep && !dep[v] {
					dep[v] = true
					changed = true
				}
				// a call that writes into an argument (decimal z): the written argument depends on the others
				if call, ok := in.(*ssa.Call); ok && anyDep {
					for _, a := range call.Call.Args {
						if isPointerLike(a.Type()) && !dep[a] {
							if _, isAlloc := a.(*ssa.Alloc); isAlloc {
								dep[a] = true
								changed = true
							}
							if c2, isCall := a.(*ssa.Call); isCall {
								dep[c2] = true
								changed = true
							}
						}
					}
				}
			}
		})
	}
	return dep
}

// paramRelevant: parameter p of f influences result idx by data flow, or by a branch on it.
func paramRelevant(f *ssa.Function, p *ssa.Parameter, idx int) (bool, string) {
	dep := dependsOn(f, p)
	data, ctrl := false, false
	instrs(f, func(b *ssa.BasicBlock, i int, in ssa.Instruction) {
		switch x := in.(type) {
		case *ssa.Return:
			if idx < len(x.Results) && dep[x.Results[idx]] {
				data = true
			}
		case *ssa.If:
			if dep[x.Cond] {
				ctrl = true
			}
		case *ssa.Panic:
			_ = x
		}
	})
	// slicing / indexing with the parameter can panic: that is an influence on the outcome too (left('abc', n))
	if data {
		return true, "data flow"
	}
	if ctrl {
		return true, "branch"
	}
	return false, ""
}

func builtinRelevance(c *Ctx, rule string, names []string, skip map[string]bool) {
	for _, n := range names {
		f := c.BuiltinFn(n)
		if f == nil || skip[n] {
			continue
		}
		for _, p := range f.Params {
			ok, _ := paramRelevant(f, p, 0)
			c.R.Check(rule, n+"("+p.Name()+")", c.P.Pos(f.Pos()), ok, "parameter "+p.Name()+" of the builtin `"+n+"` ("+c.P.FuncKey(f)+") has no influence on its result: the function ignores what it is given")
		}
		if len(f.Params) == 0 {
			c.R.Add(rule, n+"()", c.P.Pos(f.Pos()), OK, "")
		}
	}
}

func builtinRegistered(c *Ctx, rule string, names []string) {
	_, entries, other := c.Registry()
	byName := map[string]Builtin{}
	dup := map[string]int{}
	for _, e := range entries {
		byName[e.Name] = e
		dup[e.Name]++
	}
	for _, n := range names {
		e, ok := byName[n]
		good := ok && e.Fn != nil && dup[n] == 1
		why := "not registered"
		if ok && e.Fn == nil {
			why = "registered with a value that is not a function"
		}
		if dup[n] > 1 {
			why = fmt.Sprintf("registered %d times (the last store wins)", dup[n])
		}
		if good {
			// (value, error) results
			res := e.Fn.Signature.Results()
			if res.Len() != 2 || res.At(1).Type().String() != "error" {
				good, why = false, "does not return (value, error): the call bridge rejects it"
			}
		}
		c.R.Check(rule, n, e.Pos, good, "builtin `"+n+"` of the statement: "+why)
	}
	c.R.Check(rule, "registry-anomalies", "-", len(other) == 0, strings.Join(other, "; "))
}

// reaches: module functions and external callees reachable from f (names of external callees).
func (c *Ctx) calleesOf(f *ssa.Function) map[string]bool {
	out := map[string]bool{}
	rr := c.P.Reach([]*ssa.Function{f}, c.inModule, nil)
	for _, g := range rr.Order {
		instrs(g, func(b *ssa.BasicBlock, i int, in ssa.Instruction) {
			if call, ok := in.(ssa.CallInstruction); ok {
				if cal := calleeOf(call); cal != nil {
					out[cal.String()] = true
				}
			}
			// function values handed on (method values such as decimal.Context64.Ceil passed to a helper that
			// applies them): referenced means possibly called
			for _, fv := range fnRefsIn(in) {
				out[fv.String()] = true
			}
		})
	}
	return out
}

// fnRefsIn: functions referenced as values by the operands of in (plain functions, closures, bound method values).
func fnRefsIn(in ssa.Instruction) []*ssa.Function {
	var out []*ssa.Function
	var ops []*ssa.Value
	ops = in.Operands(ops)
	for _, op := range ops {
		if *op == nil {
			continue
		}
		if call, isCall := in.(ssa.CallInstruction); isCall && call.Common().Value == *op {
			continue // the callee position itself
		}
		switch x := (*op).(type) {
		case *ssa.Function:
			if f := unwrapFn(x); f != nil {
				out = append(out, f)
			}
		case *ssa.MakeClosure:
			if f, ok := x.Fn.(*ssa.Function); ok {
				if u := unwrapFn(f); u != nil {
					out = append(out, u)
				}
			}
		}
	}
	return out
}

// boundContextOf: for `ctx.Method` used as a method value, the receiver it is bound to.
func boundReceiver(v ssa.Value) ssa.Value {
	if mc, ok := v.(*ssa.MakeClosure); ok && len(mc.Bindings) == 1 {
		if f, ok := mc.Fn.(*ssa.Function); ok && strings.HasSuffix(f.Name(), "$bound") {
			return mc.Bindings[0]
		}
	}
	return nil
}

type wiring struct {
	name    string
	must    []string // at least one of these callees is reached
	mustNot []string
	why     string
	all     bool // ... on every path to a success return (no shortcut around the primitive)
}

// roundingRoute: the rounding directions f reaches by the library's other route to Ceil / Floor - a local copy of
// decimal.Context128 whose RoundingMode is set to a constant and whose only use is as the receiver of RoundToInt (this is
// how the library itself defines Floor). Returns the constant modes; ok=false when a mode is not a constant or the
// local context is used for anything else.
func (c *Ctx) roundingRoute(f *ssa.Function) (modes map[int64]bool, ok bool) {
	modes = map[int64]bool{}
	ok = true
	seen := map[*ssa.Function]bool{}
	var visit func(g *ssa.Function, depth int)
	visit = func(g *ssa.Function, depth int) {
		if g == nil || seen[g] || len(g.Blocks) == 0 || depth > 3 {
			return
		}
		seen[g] = true
		instrs(g, func(b *ssa.BasicBlock, i int, in ssa.Instruction) {
			if call, isC := in.(ssa.CallInstruction); isC {
				if cal := calleeOf(call); cal != nil && c.inModule(cal) {
					visit(cal, depth+1)
				}
			}
			st, isSt := in.(*ssa.Store)
			if !isSt {
				return
			}
			al, mode, isLocal := localRoundingContext(st)
			if al == nil {
				return
			}
			if !isLocal {
				ok = false
				return
			}
			modes[mode] = true
		})
	}
	visit(f, 0)
	return modes, ok
}

// localRoundingContext: st stores a constant into the RoundingMode field of a local decimal.Context that is a copy of
// Context128 and is used only as the receiver of RoundToInt. al == nil: st is no store into a Context's RoundingMode.
func localRoundingContext(st *ssa.Store) (al *ssa.Alloc, mode int64, ok bool) {
	fa, isFA := st.Addr.(*ssa.FieldAddr)
	if !isFA || fieldName(fa) != "RoundingMode" {
		return nil, 0, false
	}
	nt := namedOf(fa.X.Type())
	if nt == nil || nt.Obj().Pkg() == nil || nt.Obj().Pkg().Path() != decimalPath || nt.Obj().Name() != "Context" {
		return nil, 0, false
	}
	a, isAl := fa.X.(*ssa.Alloc)
	if !isAl {
		return &ssa.Alloc{}, 0, false
	}
	k, isK := constIntArg(st.Val)
	if !isK {
		return a, 0, false
	}
	copied := false
	for _, ref := range *a.Referrers() {
		switch r := ref.(type) {
		case *ssa.Store:
			// the whole-struct copy of Context128
			if r.Addr != ssa.Value(a) {
				return a, 0, false
			}
			u, isU := r.Val.(*ssa.UnOp)
			if !isU {
				return a, 0, false
			}
			g, isG := u.X.(*ssa.Global)
			if !isG || g.Name() != "Context128" || g.Pkg == nil || g.Pkg.Pkg.Path() != decimalPath {
				return a, 0, false
			}
			copied = true
		case *ssa.FieldAddr:
			if fieldName(r) != "RoundingMode" {
				return a, 0, false
			}
			for _, r2 := range *r.Referrers() {
				if s2, isS := r2.(*ssa.Store); !isS || s2.Addr != ssa.Value(r) {
					return a, 0, false
				}
			}
		case *ssa.UnOp:
			for _, r2 := range *r.Referrers() {
				call, isC := r2.(*ssa.Call)
				if !isC || calleeOf(call) == nil || calleeOf(call).String() != "("+decimalPath+".Context).RoundToInt" || call.Call.Args[0] != ssa.Value(r) {
					return a, 0, false
				}
			}
		case *ssa.DebugRef:
		default:
			return a, 0, false
		}
	}
	return a, k, copied
}

// everyPathCalls: no path from f's entry to a success return avoids a call of one of the named callees
// (directly, or through a module function that reaches one).
func (c *Ctx) everyPathCalls(f *ssa.Function, names []string) bool {
	if len(f.Blocks) == 0 {
		return false
	}
	isPrim := func(in ssa.Instruction) bool {
		call, ok := in.(ssa.CallInstruction)
		if !ok {
			return false
		}
		for _, fv := range fnRefsIn(in) {
			for _, m := range names {
				if fv.String() == m {
					return true
				}
			}
		}
		cal := calleeOf(call)
		if cal == nil {
			return false
		}
		for _, m := range names {
			if cal.String() == m {
				return true
			}
		}
		if c.inModule(cal) && cal != f {
			cs := c.calleesOf(cal)
			for _, m := range names {
				if cs[m] {
					return true
				}
			}
		}
		return false
	}
	succ := func(in ssa.Instruction) bool {
		ret, ok := in.(*ssa.Return)
		if !ok {
			return false
		}
		return len(ret.Results) < 2 || isNilConst(ret.Results[len(ret.Results)-1])
	}
	return !pathExists(f, nil, succ, isPrim, nil)
}

func checkWiring(c *Ctx, rule string, ws []wiring) {
	for _, w := range ws {
		f := c.BuiltinFn(w.name)
		if f == nil {
			continue
		}
		cs := c.calleesOf(f)
		has := len(w.must) == 0
		for _, m := range w.must {
			if cs[m] {
				has = true
			}
		}
		bad := ""
		for _, m := range w.mustNot {
			if cs[m] {
				bad = m
			}
		}
		if w.name == "ceil" || w.name == "floor" {
			// ... or rounding to an integer in a local context whose mode is the matching direction
			want, other := int64(5), int64(4) // decimal.ToPositiveInf, decimal.ToNegativeInf
			if w.name == "floor" {
				want, other = other, want
			}
			if modes, okR := c.roundingRoute(f); okR && len(modes) > 0 && !has {
				byMode := modes[want] && len(modes) == 1
				if modes[other] {
					bad = "RoundToInt in a context that rounds the other way"
				}
				if byMode && bad == "" {
					c.R.Check(rule, w.name, c.P.Pos(f.Pos()), true, "")
					c.R.Check(rule, w.name+":every-path", c.P.Pos(f.Pos()), c.everyPathCalls(f, []string{"(" + decimalPath + ".Context).RoundToInt"}), fmt.Sprintf("`%s` %s on every path", w.name, w.why))
					continue
				}
				if bad == "" {
					bad = fmt.Sprintf("RoundToInt in a context with rounding mode(s) %v", modes)
				}
			}
		}
		c.R.Check(rule, w.name, c.P.Pos(f.Pos()), has && bad == "", fmt.Sprintf("`%s` %s: expected a call of %v (found=%v), must not call %v (found %q)", w.name, w.why, w.must, has, w.mustNot, bad))
		if w.all && has {
			c.R.Check(rule, w.name+":every-path", c.P.Pos(f.Pos()), c.everyPathCalls(f, w.must), fmt.Sprintf("`%s` %s on every path: there is a path to a successful return that bypasses %v (a shortcut for 'simple' inputs answers differently for the inputs it misjudges, e.g. non-ASCII letters)", w.name, w.why, w.must))
		}
	}
}

// ---------- C17 ----------

func runC17(c *Ctx) {
	builtinRegistered(c, "C17.registered", specStringBuiltins)
	c.R.Floor("C17.registered", 18)
	builtinRelevance(c, "C17.param-relevance", specStringBuiltins, nil)
	c.R.Floor("C17.param-relevance", 30)
	checkWiring(c, "C17.antonyms", []wiring{
		{"lower", []string{"strings.ToLower"}, []string{"strings.ToUpper", "strings.ToTitle"}, "must map to lower case", true},
		{"upper", []string{"strings.ToUpper"}, []string{"strings.ToLower"}, "must map to upper case", true},
		{"startWith", nil, []string{"strings.HasSuffix", "strings.LastIndex"}, "must test the prefix", false},
		{"endWith", nil, []string{"strings.HasPrefix"}, "must test the suffix", false},
		{"contains", []string{"strings.Contains", "strings.Index"}, nil, "must test for a substring", true},
		{"find", []string{"strings.Index"}, []string{"strings.LastIndex"}, "must return the FIRST index", true},
		{"trim", []string{"strings.TrimSpace", "strings.Trim"}, []string{"strings.TrimLeft", "strings.TrimRight", "strings.TrimPrefix", "strings.TrimSuffix"}, "must strip white space on both sides", true},
		{"replace", []string{"strings.ReplaceAll", "strings.Replace"}, nil, "must replace occurrences", true},
		{"join", []string{"strings.Join"}, nil, "must join", true},
		{"lpad", []string{"strings.Repeat"}, nil, "must build padding", false},
		{"rpad", []string{"strings.Repeat"}, nil, "must build padding", false},
		{"regexp", []string{"regexp.MustCompile", "regexp.Compile", "regexp.MatchString", "regexp.Match"}, []string{"regexp.CompilePOSIX", "regexp.MustCompilePOSIX"}, "must match with RE2 (package regexp) syntax", false},
	})
	c.R.Floor("C17.antonyms", 12)
	c17TrimSet(c)
	// ... and hand the primitive's result back as it is (an index converted to a character count, a trimmed or
	// re-cased string post-processed, is a different function)
	for _, d := range []struct {
		name  string
		prims []string
	}{{"find", []string{"strings.Index"}}, {"lower", []string{"strings.ToLower"}}, {"upper", []string{"strings.ToUpper"}}, {"trim", []string{"strings.TrimSpace", "strings.Trim"}}, {"replace", []string{"strings.ReplaceAll", "strings.Replace"}}, {"join", []string{"strings.Join"}}} {
		f := c.BuiltinFn(d.name)
		if f == nil {
			continue
		}
		bad := ""
		instrs(f, func(b *ssa.BasicBlock, i int, in ssa.Instruction) {
			ret, ok := in.(*ssa.Return)
			if !ok || len(ret.Results) != 2 || !isNilConst(ret.Results[1]) {
				return
			}
			v := ret.Results[0]
			for {
				if cv, isCv := v.(*ssa.Convert); isCv {
					v = cv.X
					continue
				}
				if ct, isCt := v.(*ssa.ChangeType); isCt {
					v = ct.X
					continue
				}
				break
			}
			okp := false
			if call, isC := v.(*ssa.Call); isC {
				if cal := calleeOf(call); cal != nil {
					for _, p := range d.prims {
						if cal.String() == p {
							okp = true
						}
					}
					if c.inModule(cal) && c.everyPathCalls(cal, d.prims) {
						okp = true // a module helper that is itself checked by the wiring rule's reach
					}
				}
			}
			if !okp {
				bad = c.P.InstrPos(ret) + " returns " + describeValue(ret.Results[0])
			}
		})
		c.R.Check("C17.primitive-result-unmodified", d.name, c.P.Pos(f.Pos()), bad == "", fmt.Sprintf("`%s` must return the result of %v unmodified; %s", d.name, d.prims, bad))
	}
	c.R.Floor("C17.primitive-result-unmodified", 5)
	c17Shapes(c)
	c17RegexpOwnPattern(c)
	c17RegexpShortcut(c, "C17.regexp-shortcut-guard")
	c17PositionsAreErrors(c, "C17.positions-reach-the-slice")
}

func c17Shapes(c *Ctx) {
	const rule = "C17.shapes"
	// replace: Replace(.., n) with constant n == -1
	if f := c.BuiltinFn("replace"); f != nil {
		ok := true
		instrs(f, func(b *ssa.BasicBlock, i int, in ssa.Instruction) {
			if call, isC := in.(*ssa.Call); isC {
				if cal := calleeOf(call); cal != nil && cal.String() == "strings.Replace" {
					if n, isK := constIntArg(call.Call.Args[3]); !isK || n >= 0 {
						ok = false
					}
				}
			}
		})
		c.R.Check(rule, "replace-all", c.P.Pos(f.Pos()), ok, "`replace` must replace every occurrence (strings.ReplaceAll, or Replace with n = -1)")
		c.R.Check(rule, "replace-arg-order", c.P.Pos(f.Pos()), c.argsInOrder(f, []string{"strings.ReplaceAll", "strings.Replace"}, []int{0, 1, 2}), "`replace(s, old, new)` must pass (s, old, new) in that order")
	}
	// two-string predicates: (s, t) order
	for _, n := range []string{"startWith", "endWith", "contains", "find"} {
		if f := c.BuiltinFn(n); f != nil {
			prims := []string{"strings.HasPrefix", "strings.HasSuffix", "strings.Contains", "strings.Index", "strings.LastIndex"}
			uses := false
			for _, pr := range prims {
				if c.calleesOf(f)[pr] {
					uses = true
				}
			}
			if !uses {
				c.R.Add(rule, n+"-arg-order", c.P.Pos(f.Pos()), OK, "")
				continue // written without the strings primitives: nothing to compare
			}
			c.R.Check(rule, n+"-arg-order", c.P.Pos(f.Pos()), c.argsInOrder(f, prims, []int{0, 1}), "`"+n+"(s, t)` must look for t in s, not for s in t")
		}
	}
	if f := c.BuiltinFn("join"); f != nil {
		c.R.Check(rule, "join-arg-order", c.P.Pos(f.Pos()), c.argsInOrder(f, []string{"strings.Join"}, []int{0, 1}), "`join(list, sep)` must pass (list, sep)")
	}
	// startWith by Index: == 0 ; endWith by first Index == len(s)-len(t) is the known-wrong idiom
	if f := c.BuiltinFn("endWith"); f != nil {
		bad := false
		instrs(f, func(b *ssa.BasicBlock, i int, in ssa.Instruction) {
			bo, isB := in.(*ssa.BinOp)
			if !isB || bo.Op != token.EQL {
				return
			}
			call, isC := bo.X.(*ssa.Call)
			if !isC {
				return
			}
			if cal := calleeOf(call); cal != nil && (cal.String() == "strings.Index" || cal.String() == "strings.LastIndex") {
				if sub, isS := bo.Y.(*ssa.BinOp); isS && sub.Op == token.SUB {
					// LastIndex(s,t) == len(s)-len(t) is right only behind a guard len(s) >= len(t); Index never is
					guarded := false
					if cal.String() == "strings.LastIndex" {
						for d := b; d != nil; d = d.Idom() {
							for _, p := range d.Preds {
								if iff, isIf := p.Instrs[len(p.Instrs)-1].(*ssa.If); isIf {
									if g, isG := iff.Cond.(*ssa.BinOp); isG && (g.Op == token.GEQ || g.Op == token.LEQ || g.Op == token.LSS || g.Op == token.GTR) {
										if _, okx := g.X.(*ssa.Call); okx {
											if _, oky := g.Y.(*ssa.Call); oky {
												guarded = true
											}
										}
									}
								}
							}
						}
					}
					// ... or behind "an occurrence exists": LastIndex(..) >= 0 (then t is no longer than s, and its last
					// occurrence ends s exactly when t is a suffix)
					if !guarded && cal.String() == "strings.LastIndex" {
						for d := b; d != nil && !guarded; d = d.Idom() {
							for _, p := range d.Preds {
								iff, isIf := p.Instrs[len(p.Instrs)-1].(*ssa.If)
								if !isIf || p.Succs[0] != d || len(d.Preds) != 1 {
									continue
								}
								g, isG := iff.Cond.(*ssa.BinOp)
								if !isG || g.X != ssa.Value(call) {
									continue
								}
								if k, isK := constIntArg(g.Y); isK && (g.Op == token.GEQ && k == 0 || g.Op == token.GTR && k == -1 || g.Op == token.NEQ && k == -1) {
									guarded = true
								}
							}
						}
					}
					if !guarded {
						bad = true
					}
				}
			}
		})
		c.R.Check("C17.first-occurrence-suffix", "endWith", c.P.Pos(f.Pos()), !bad, "`endWith` compares an index of t with len(s)-len(t) without knowing that t is not longer than s: with Index it is false for endWith('abab','ab') (t also occurs earlier); with either Index or LastIndex it is true for endWith('ab','xyz') (not found = -1 = 2-3)")
	}
	if f := c.BuiltinFn("startWith"); f != nil {
		// Index(s,t) == 0 or HasPrefix
		ok := c.calleesOf(f)["strings.HasPrefix"]
		instrs(f, func(b *ssa.BasicBlock, i int, in ssa.Instruction) {
			if bo, isB := in.(*ssa.BinOp); isB && bo.Op == token.EQL {
				if call, isC := bo.X.(*ssa.Call); isC {
					if cal := calleeOf(call); cal != nil && cal.String() == "strings.Index" {
						if n, isK := constIntArg(bo.Y); isK && n == 0 {
							ok = true
						}
					}
				}
			}
		})
		c.R.Check(rule, "startWith-index-zero", c.P.Pos(f.Pos()), ok, "`startWith` must test that the first occurrence is at index 0 (or use HasPrefix)")
	}
	// left: v[:l] ; right: v[len(v)-l:] ; lpad: padding + s ; rpad: s + padding
	// (a slice whose bounds are computed another way - a shared window helper - is judged by cases instead:
	// C17.bounds-by-cases decides every sample point of the builtin by folding)
	c17BoundsByCases(c, "C17.bounds-by-cases")
	if f := c.BuiltinFn("left"); f != nil {
		c.R.Check(rule, "left-slices-from-start", c.P.Pos(f.Pos()), sliceShape(f, true) || c17CasesDecided(c, "left"), "`left(s, n)` must slice from the start of s (s[:n])")
	}
	if f := c.BuiltinFn("right"); f != nil {
		c.R.Check(rule, "right-slices-to-end", c.P.Pos(f.Pos()), sliceShape(f, false) || c17CasesDecided(c, "right"), "`right(s, n)` must slice to the end of s (s[len(s)-n:])")
	}
	// mid: when written as a slice of s, the bounds are start (floored at 0) and end (capped at len(s)). A version
	// composed from other builtins is not decided here: whether composed clamps agree is arithmetic, not shape.
	if f := c.BuiltinFn("mid"); f != nil && len(f.Params) == 3 {
		direct, good, why := false, true, ""
		instrs(f, func(b *ssa.BasicBlock, i int, in ssa.Instruction) {
			ret, isR := in.(*ssa.Return)
			if !isR || len(ret.Results) != 2 || !isNilConst(ret.Results[1]) {
				return
			}
			sl, isS := ret.Results[0].(*ssa.Slice)
			if !isS || sl.X != ssa.Value(f.Params[0]) {
				return
			}
			direct = true
			var classify func(v ssa.Value, wantHelper string, depth int) (hasParam map[int]bool, hasLen bool, bad string)
			classify = func(v ssa.Value, wantHelper string, depth int) (map[int]bool, bool, string) {
				hp, hl, bad := map[int]bool{}, false, ""
				for _, rt := range plainOrigins.Roots(v) {
					switch {
					case rt.Kind == "param" && len(rt.Path) == 0:
						hp[rt.Idx] = true
					case rt.Kind == "const":
					case rt.Kind == "call" && rt.Fn == nil:
						if call, ok := rt.V.(*ssa.Call); ok && isBuiltinCall(call, "len") && call.Call.Args[0] == ssa.Value(f.Params[0]) {
							hl = true
						} else {
							bad = rt.String()
						}
					case rt.Kind == "call" && rt.Fn != nil && depth < 2 && c.minMaxHelper(rt.Fn) == wantHelper:
						// a clamp helper: min(n, limit) / max(n, limit) hands back one of its two arguments
						for _, a := range rt.V.(*ssa.Call).Call.Args {
							if !isIntType(a.Type()) {
								// a string / slice argument stands for its length
								if a == ssa.Value(f.Params[0]) {
									hl = true
								} else {
									bad = "the length of " + describeValue(a)
								}
								continue
							}
							p2, l2, b2 := classify(a, wantHelper, depth+1)
							for k := range p2 {
								hp[k] = true
							}
							hl = hl || l2
							if b2 != "" {
								bad = b2
							}
						}
					case rt.Kind == "call" && rt.Fn != nil && c.minMaxHelper(rt.Fn) != "" && c.minMaxHelper(rt.Fn) != wantHelper:
						bad = c.P.FuncKey(rt.Fn) + ", which yields the " + c.minMaxHelper(rt.Fn) + " where the " + wantHelper + " is needed"
					case rt.Kind == "call" && rt.Fn != nil && depth < 2 && c.inModule(rt.Fn) && len(rt.Fn.Blocks) > 0 && len(rt.Path) == 0:
						// some other clamp helper, e.g. clampLen(n, s): what it can return, in terms of its arguments
						call := rt.V.(*ssa.Call)
						instrs(rt.Fn, func(b *ssa.BasicBlock, i int, in ssa.Instruction) {
							ret, isR := in.(*ssa.Return)
							if !isR || rt.Idx >= len(ret.Results) {
								return
							}
							for _, q := range plainOrigins.Roots(ret.Results[rt.Idx]) {
								switch {
								case q.Kind == "param" && len(q.Path) == 0 && q.Idx < len(call.Call.Args):
									p2, l2, b2 := classify(call.Call.Args[q.Idx], wantHelper, depth+1)
									for k := range p2 {
										hp[k] = true
									}
									hl = hl || l2
									if b2 != "" {
										bad = b2
									}
								case q.Kind == "const":
								case q.Kind == "call" && q.Fn == nil:
									lc, ok := q.V.(*ssa.Call)
									if ok && isBuiltinCall(lc, "len") {
										if pp, isP := lc.Call.Args[0].(*ssa.Parameter); isP && paramIndex(pp) < len(call.Call.Args) && call.Call.Args[paramIndex(pp)] == ssa.Value(f.Params[0]) {
											hl = true
											continue
										}
									}
									bad = c.P.FuncKey(rt.Fn) + " returns " + q.String()
								default:
									bad = c.P.FuncKey(rt.Fn) + " returns " + q.String()
								}
							}
						})
					default:
						bad = rt.String()
					}
				}
				return hp, hl, bad
			}
			check := func(v ssa.Value, want int, what string, needLen bool) {
				if v == nil {
					good, why = false, what+" bound missing"
					return
				}
				helper := "max"
				if needLen {
					helper = "min"
				}
				hp, hasLen, bad := classify(v, helper, 0)
				if bad != "" {
					good, why = false, what+" bound comes from "+bad
				}
				for k := range hp {
					if k != want {
						good, why = false, what+" bound comes from another argument"
					}
				}
				if !hp[want] {
					good, why = false, what+" bound does not come from the "+what+" argument"
				}
				if needLen && !hasLen {
					good, why = false, "the end bound is not capped at len(s)"
				}
			}
			check(sl.Low, 1, "start", false)
			check(sl.High, 2, "end", true)
		})
		if direct {
			c.R.Check(rule, "mid-slices-between", c.P.Pos(f.Pos()), good || c17CasesDecided(c, "mid"), "`mid(s, i, j)` must be s[i:j] with i floored at 0 and j capped at len(s); "+why)
		} else {
			c.R.Add(rule, "mid-slices-between", c.P.Pos(f.Pos()), OK, "")
		}
	}
	for _, spec := range []struct {
		name     string
		padFirst bool
	}{{"lpad", true}, {"rpad", false}} {
		f := c.BuiltinFn(spec.name)
		if f == nil {
			continue
		}
		// the builtin itself, or the shared helper it hands its parameters (and constants) to
		g, fr, back := c.effectiveUnit(f)
		isParam := func(v ssa.Value, k int) bool {
			if b, ok := back[v]; ok {
				v = b
			}
			return k < len(f.Params) && v == ssa.Value(f.Params[k])
		}
		ok, bad := false, false
		okPad := false
		for _, b := range g.Blocks {
			if !fr.Reach[b] {
				continue
			}
			for _, in := range b.Instrs {
				if call, isC := in.(*ssa.Call); isC && calleeOf(call) != nil && calleeOf(call).String() == "strings.Repeat" && isParam(call.Call.Args[0], 1) {
					okPad = true
				}
				bo, isB := in.(*ssa.BinOp)
				if !isB || bo.Op != token.ADD || bo.Type().String() != "string" {
					continue
				}
				isPad := func(v ssa.Value) bool {
					call, isC := v.(*ssa.Call)
					return isC && calleeOf(call) != nil && calleeOf(call).String() == "strings.Repeat"
				}
				// only concatenations that reach a reachable return count
				used := false
				for _, ret := range fr.Returns {
					for _, res := range ret.Results {
						if res == ssa.Value(bo) {
							used = true
						}
						if phi, isPhi := res.(*ssa.Phi); isPhi {
							for i, e := range phi.Edges {
								if e == ssa.Value(bo) && fr.Edge[[2]int{phi.Block().Preds[i].Index, phi.Block().Index}] {
									used = true
								}
							}
						}
					}
				}
				if !used && g != f {
					continue
				}
				if spec.padFirst && isPad(bo.X) && isParam(bo.Y, 0) || !spec.padFirst && isParam(bo.X, 0) && isPad(bo.Y) {
					ok = true
				}
				if !spec.padFirst && isPad(bo.X) && isParam(bo.Y, 0) || spec.padFirst && isParam(bo.X, 0) && isPad(bo.Y) {
					bad = true
				}
			}
		}
		// a string longer than the requested length is cut to its first n characters, by either builtin: a returned
		// slice of s starts at 0; delegating to `right` (or slicing up to the end) keeps the wrong end
		truncBad, truncSeen := "", 0
		leftFn, rightFn := c.BuiltinFn("left"), c.BuiltinFn("right")
		var classifyTrunc func(v ssa.Value, depth int)
		classifyTrunc = func(v ssa.Value, depth int) {
			switch x := v.(type) {
			case *ssa.Phi:
				if depth < 3 {
					for _, e := range x.Edges {
						classifyTrunc(e, depth+1)
					}
				}
			case *ssa.Slice:
				if !isParam(x.X, 0) {
					return
				}
				truncSeen++
				if x.Low != nil {
					if n, isK := constIntArg(x.Low); !isK || n != 0 {
						truncBad = "a slice of s that does not start at 0"
					}
				}
			case *ssa.Extract:
				if call, isC := x.Tuple.(*ssa.Call); isC && x.Index == 0 && len(call.Call.Args) > 0 && isParam(call.Call.Args[0], 0) {
					switch cal := calleeOf(call); {
					case cal == nil:
					case cal == leftFn:
						truncSeen++
					case cal == rightFn:
						truncSeen++
						truncBad = "`right`, which keeps the last n characters"
					}
				}
			}
		}
		for _, ret := range fr.Returns {
			if len(ret.Results) > 0 {
				classifyTrunc(ret.Results[0], 0)
			}
		}
		if truncSeen > 0 {
			c.R.Check(rule, spec.name+"-truncation-keeps-prefix", c.P.Pos(f.Pos()), truncBad == "", "when s is longer than n, `"+spec.name+"` yields the first n characters of s; found "+truncBad)
		}
		side := map[bool]string{true: "before", false: "after"}[spec.padFirst]
		c.R.Check(rule, spec.name+"-side", c.P.Pos(f.Pos()), ok && !bad, "`"+spec.name+"` must put the padding "+side+" the string")
		// padding is the pad parameter repeated
		c.R.Check(rule, spec.name+"-pad-string", c.P.Pos(f.Pos()), okPad, "the padding must repeat the pad argument")
	}
	for _, name := range []string{"lpad", "rpad", "left", "right", "mid", "len"} {
		f := c.BuiltinFn(name)
		if f == nil {
			continue
		}
		bytesLen, runeLen := false, false
		instrs(f, func(b *ssa.BasicBlock, i int, in ssa.Instruction) {
			call, isC := in.(*ssa.Call)
			if !isC {
				return
			}
			if isBuiltinCall(call, "len") {
				if call.Call.Args[0].Type().String() == "string" {
					bytesLen = true
				} else if strings.Contains(call.Call.Args[0].Type().String(), "rune") {
					runeLen = true
				}
			}
			if cal := calleeOf(call); cal != nil && (cal.String() == "unicode/utf8.RuneCountInString" || cal.String() == "unicode/utf8.RuneCount") {
				runeLen = true
			}
		})
		c.R.Check(rule, name+"-one-length-measure", c.P.Pos(f.Pos()), !(bytesLen && runeLen), "`"+name+"` measures the string both in bytes and in runes: the length test and the amount computed from it disagree on multi-byte text (the result no longer has the requested length)")
	}
	if f := c.BuiltinFn("len"); f != nil {
		ok := false
		instrs(f, func(b *ssa.BasicBlock, i int, in ssa.Instruction) {
			if ret, isR := in.(*ssa.Return); isR {
				if call, isC := ret.Results[0].(*ssa.Call); isC && isBuiltinCall(call, "len") && call.Call.Args[0] == ssa.Value(f.Params[0]) {
					ok = true
				}
			}
		})
		c.R.Check(rule, "len", c.P.Pos(f.Pos()), ok, "`len(s)` must be the length of s")
	}
	if f := c.BuiltinFn("includes"); f != nil {
		// returns true exactly on element == item
		ok := false
		instrs(f, func(b *ssa.BasicBlock, i int, in ssa.Instruction) {
			iff, isIf := in.(*ssa.If)
			if !isIf {
				return
			}
			if bo, isB := iff.Cond.(*ssa.BinOp); isB && bo.Op == token.EQL && (bo.Y == ssa.Value(f.Params[1]) || bo.X == ssa.Value(f.Params[1])) {
				for _, x := range b.Succs[0].Instrs {
					if ret, isR := x.(*ssa.Return); isR {
						if k, isK := ret.Results[0].(*ssa.Const); isK && k.Value != nil && constant.BoolVal(k.Value) {
							ok = true
						}
					}
				}
			}
		})
		c.R.Check(rule, "includes", c.P.Pos(f.Pos()), ok, "`includes(list, item)` must be true exactly when some element equals item")
	}
	c.R.Floor(rule, 12)
}

// argsInOrder: f calls one of the named functions with its parameters params[k] as argument k.
func (c *Ctx) argsInOrder(f *ssa.Function, callees []string, params []int) bool {
	ok := false
	instrs(f, func(b *ssa.BasicBlock, i int, in ssa.Instruction) {
		call, isC := in.(*ssa.Call)
		if !isC {
			return
		}
		cal := calleeOf(call)
		if cal == nil {
			return
		}
		hit := false
		for _, n := range callees {
			if cal.String() == n {
				hit = true
			}
		}
		if !hit {
			return
		}
		good := true
		for k, pi := range params {
			if k >= len(call.Call.Args) || pi >= len(f.Params) || call.Call.Args[k] != ssa.Value(f.Params[pi]) {
				good = false
			}
		}
		if good {
			ok = true
		}
	})
	return ok
}

// sliceShape: the returned slice of parameter 0 is s[:x] (fromStart) or s[x:] (to the end).
func sliceShape(f *ssa.Function, fromStart bool) bool {
	ok := false
	instrs(f, func(b *ssa.BasicBlock, i int, in ssa.Instruction) {
		ret, isR := in.(*ssa.Return)
		if !isR {
			return
		}
		sl, isS := ret.Results[0].(*ssa.Slice)
		if !isS || sl.X != ssa.Value(f.Params[0]) {
			return
		}
		if fromStart && sl.Low == nil && sl.High != nil {
			ok = true
		}
		if !fromStart && sl.High == nil && sl.Low != nil {
			// low = len(s) - l
			if bo, isB := sl.Low.(*ssa.BinOp); isB && bo.Op == token.SUB {
				if lc, isC := bo.X.(*ssa.Call); isC && isBuiltinCall(lc, "len") && lc.Call.Args[0] == ssa.Value(f.Params[0]) {
					ok = true
				}
			}
		}
	})
	return ok
}

// ---------- C18 ----------

func runC18(c *Ctx) {
	c18TextBase(c, "C18.text-is-read-in-base-10")
	builtinRegistered(c, "C18.registered", specNumericBuiltins)
	c.R.Floor("C18.registered", 15)
	builtinRelevance(c, "C18.param-relevance", specNumericBuiltins, nil)
	c.R.Floor("C18.param-relevance", 15)
	big := "(*" + decimalPath + ".Big)."
	ctx := "(" + decimalPath + ".Context)."
	checkWiring(c, "C18.antonyms", []wiring{
		{"abs", []string{big + "Abs", ctx + "Abs"}, []string{big + "Neg"}, "must take the absolute value", true},
		{"ceil", []string{ctx + "Ceil"}, []string{ctx + "Floor"}, "must round up", true},
		{"floor", []string{ctx + "Floor"}, []string{ctx + "Ceil"}, "must round down", true},
		{"sqrt", []string{ctx + "Sqrt", big + "Sqrt"}, []string{ctx + "Pow", ctx + "Exp"}, "must take the square root", true},
		{"exp", []string{ctx + "Exp"}, []string{ctx + "Log", ctx + "Log10"}, "must compute e^x", true},
		{"ln", []string{ctx + "Log"}, []string{ctx + "Log10", ctx + "Exp"}, "must be the natural logarithm (decimal Log)", true},
		{"log", []string{ctx + "Log10"}, []string{ctx + "Log", ctx + "Exp"}, "must be the base-10 logarithm (decimal Log10)", true},
		{"min", []string{decimalPath + ".Min", big + "Cmp"}, []string{decimalPath + ".Max"}, "must select the smallest argument", false},
		{"max", []string{decimalPath + ".Max", big + "Cmp"}, []string{decimalPath + ".Min"}, "must select the largest argument", false},
		{"round", []string{big + "RoundToInt", big + "Quantize", ctx + "RoundToInt", ctx + "Quantize", big + "Round"}, nil, "must round", true},
		{"toInt", []string{big + "Int64", big + "Int", ctx + "RoundToInt", big + "RoundToInt", big + "Quantize"}, nil, "must take the integer part", true},
	})
	c.R.Floor("C18.antonyms", 11)
	c18MaxPolarity(c)
	c18BitOps(c)
	c18IntegerResultsExact(c)
	c18ToStringText(c)
	c18ContextPrecision(c)
	// a numeric builtin returns a new number and leaves its arguments alone (abs(x) must not turn x positive)
	c07Fresh(c, "C18.fresh-results")
	c18RoundDirection(c)
	c18Finite(c)
	// max / min hand back one of their arguments
	for _, name := range []string{"max", "min"} {
		f := c.BuiltinFn(name)
		if f == nil {
			continue
		}
		ok := true
		why := ""
		n := 0
		var selects func(g *ssa.Function, depth int)
		selects = func(g *ssa.Function, depth int) {
			instrs(g, func(b *ssa.BasicBlock, i int, in ssa.Instruction) {
				ret, isR := in.(*ssa.Return)
				if !isR || isNilConst(ret.Results[0]) {
					return
				}
				n++
				for _, rt := range plainOrigins.Roots(ret.Results[0]) {
					switch {
					case rt.Kind == "param" && len(rt.Path) >= 1:
					case rt.Kind == "call" && rt.Fn != nil && (rt.Fn.String() == decimalPath+".Max" || rt.Fn.String() == decimalPath+".Min"):
					case rt.Kind == "call" && rt.Fn != nil && c.inModule(rt.Fn) && len(rt.Fn.Blocks) > 0 && depth < 2 && rt.Idx == 0 && len(rt.Path) == 0:
						// a selection helper: it is handed the argument list itself and hands back one of its elements
						call := rt.V.(*ssa.Call)
						passes := false
						for _, a := range call.Call.Args {
							for _, r2 := range plainOrigins.Roots(a) {
								if r2.Kind == "param" && r2.V.Parent() == g && len(r2.Path) == 0 && !r2.Conv {
									passes = true
								}
							}
						}
						if !passes {
							ok = false
							why = rt.String() + " (not handed the argument list)"
							continue
						}
						selects(rt.Fn, depth+1)
					default:
						ok = false
						why = rt.String()
					}
				}
			})
		}
		selects(f, 0)
		c.R.Check("C18.selects-an-argument", name, c.P.Pos(f.Pos()), ok && n > 0, "`"+name+"` must return one of its arguments (an argument that bounds all the others); it can return "+why+", a value that is none of them (e.g. a zero seed for all-negative arguments)")
	}
}

// c18RoundDirection: a rounding builtin that chooses between rounding up and rounding down by
// comparing the fractional part with one half must go DOWN when the fraction is below one half
// and UP when it is above (truth vector over Cmp's three results).
func c18RoundDirection(c *Ctx) {
	const rule = "C18.round-direction"
	dirOf := func(f *ssa.Function) string {
		cs := c.calleesOf(f)
		up := cs["("+decimalPath+".Context).Ceil"]
		down := cs["("+decimalPath+".Context).Floor"]
		if modes, okR := c.roundingRoute(f); okR {
			up = up || modes[5]
			down = down || modes[4]
		}
		switch {
		case up && !down:
			return "up"
		case down && !up:
			return "down"
		}
		return ""
	}
	for _, name := range []string{"round", "roundBank"} {
		f := c.BuiltinFn(name)
		if f == nil {
			continue
		}
		// a comparison of Rem(v, 1) with a constant threshold
		var cmp *ssa.Call
		threshold, thresholdIsHalf := "", false
		instrs(f, func(b *ssa.BasicBlock, i int, in ssa.Instruction) {
			call, ok := in.(*ssa.Call)
			if !ok || calleeOf(call) == nil || !strings.HasSuffix(calleeOf(call).String(), "Big).Cmp") {
				return
			}
			isHalf := false
			for _, rt := range plainOrigins.Roots(call.Call.Args[1]) {
				if rt.Kind == "call" && rt.Fn != nil && rt.Fn.String() == decimalPath+".New" {
					nc := rt.V.(*ssa.Call)
					m, ok1 := constIntArg(nc.Call.Args[0])
					sc, ok2 := constIntArg(nc.Call.Args[1])
					if ok1 && ok2 {
						isHalf = true // a constant threshold for the fraction
						// decimal.New(value, scale) is value x 10^-scale: one half is New(5, 1)
						threshold = fmt.Sprintf("decimal.New(%d, %d)", m, sc)
						thresholdIsHalf = (m == 5 && sc == 1) || (m == 50 && sc == 2) || (m == 500 && sc == 3)
					}
				}
			}
			fromRem := false
			for _, rt := range decOrigins(c).Roots(call.Call.Args[0]) {
				_ = rt
			}
			if rc, ok := call.Call.Args[0].(*ssa.Call); ok && calleeOf(rc) != nil && strings.HasSuffix(calleeOf(rc).String(), "Big).Rem") {
				fromRem = true
			}
			if isHalf && fromRem {
				cmp = call
			}
		})
		if cmp == nil {
			c.R.Add(rule, name, c.P.Pos(f.Pos()), OK, "") // rounds by a library rounding operation: nothing to decide here
			continue
		}
		c.R.Check(rule, name+":threshold", c.P.InstrPos(cmp), thresholdIsHalf, "`"+name+"` compares the fractional part with "+threshold+", which is not one half (decimal.New(value, scale) denotes value x 10^-scale, so New(5, -1) is 50): every fraction is below the threshold and the function always rounds the same way")
		want := map[int64]string{-1: "down", 1: "up"}
		for _, v := range []int64{-1, 1} {
			// decided for a non-negative argument (sign tests pinned accordingly)
			r := c.foldWith(f, 0, pinValue(cmp, cInt(v)), pinCall("decimal.Big).Sign", cInt(1), nil), pinCall("decimal.Big).Signbit", cFalse, nil))
			got := ""
			for _, call := range r.ReachableCalls() {
				if cal := calleeOf(call); cal != nil && c.inModule(cal) {
					if d := dirOf(cal); d != "" {
						got = d
					}
				}
				if cal := calleeOf(call); cal != nil {
					if cal.String() == "("+decimalPath+".Context).Ceil" {
						got = "up"
					}
					if cal.String() == "("+decimalPath+".Context).Floor" {
						got = "down"
					}
				}
			}
			c.R.Check(rule, fmt.Sprintf("%s:fraction-vs-half=%d", name, v), c.P.InstrPos(cmp), got == want[v], fmt.Sprintf("`%s`: when the fractional part compares %d with one half the value must be rounded %s, but it is rounded %s (a fraction below one half must not round up)", name, v, want[v], got))
		}
	}
}

// c18MaxPolarity: a hand-written max/min loop replaces its candidate on the right comparison sign.
func c18MaxPolarity(c *Ctx) {
	const rule = "C18.antonyms"
	for _, spec := range []struct {
		name string
		gt   bool
	}{{"max", true}, {"min", false}} {
		f := c.BuiltinFn(spec.name)
		if f == nil {
			continue
		}
		// a loop that folds the list with the library's two-value Max / Min: one operand is the value folded so far
		instrs(f, func(b *ssa.BasicBlock, i int, in ssa.Instruction) {
			call, ok := in.(*ssa.Call)
			if !ok || calleeOf(call) == nil {
				return
			}
			name := calleeOf(call).String()
			if name != decimalPath+".Max" && name != decimalPath+".Min" {
				return
			}
			var l *Loop
			for _, lp := range naturalLoops(f) {
				if lp.Body[b] {
					l = lp
				}
			}
			if l == nil {
				return
			}
			// the operands: elements stored into the variadic slice
			var operands []ssa.Value
			if len(call.Call.Args) == 1 {
				if sl, ok := call.Call.Args[0].(*ssa.Slice); ok {
					if a, ok := sl.X.(*ssa.Alloc); ok {
						for _, ref := range *a.Referrers() {
							if ia, ok := ref.(*ssa.IndexAddr); ok {
								for _, r2 := range *ia.Referrers() {
									if st, ok := r2.(*ssa.Store); ok {
										operands = append(operands, st.Val)
									}
								}
							}
						}
					}
				}
			}
			if len(operands) == 0 {
				return
			}
			// the accumulator: a header phi fed by this call's result
			accOK := false
			for _, hin := range l.Header.Instrs {
				phi, ok := hin.(*ssa.Phi)
				if !ok {
					break
				}
				fed := false
				for _, e := range phi.Edges {
					for _, rt := range plainOrigins.Roots(e) {
						if rt.V == ssa.Value(call) {
							fed = true
						}
					}
				}
				if !fed {
					continue
				}
				for _, op := range operands {
					if op == ssa.Value(phi) {
						accOK = true
					}
				}
			}
			c.R.Check(rule, spec.name+"-folds-with-running-result", c.P.InstrPos(in), accOK, "`"+spec.name+"` folds its arguments with the two-value "+name+": one operand must be the value folded so far (combining neighbours, e.g. nums[i-1] and nums[i], yields the extremum of the last two arguments only)")
		})
		instrs(f, func(b *ssa.BasicBlock, i int, in ssa.Instruction) {
			bo, ok := in.(*ssa.BinOp)
			if !ok {
				return
			}
			switch bo.Op {
			case token.EQL, token.NEQ, token.LSS, token.LEQ, token.GTR, token.GEQ:
			default:
				return
			}
			call, ok := bo.X.(*ssa.Call)
			scaled := false
			if !ok {
				// v.Cmp(best)*sign OP z with a constant sign (max and min sharing one loop)
				if mul, isM := bo.X.(*ssa.BinOp); isM && mul.Op == token.MUL {
					for _, pr := range [][2]ssa.Value{{mul.X, mul.Y}, {mul.Y, mul.X}} {
						if cl, isC := pr[0].(*ssa.Call); isC {
							if _, isK := constIntArg(pr[1]); isK {
								call, ok, scaled = cl, true, true
							}
						}
					}
				}
			}
			if !ok || calleeOf(call) == nil || !strings.HasSuffix(calleeOf(call).String(), "Big).Cmp") {
				return
			}
			z, ok := constIntArg(bo.Y)
			if !ok {
				return
			}
			// v.Cmp(best) OP z: replacing on "greater" means (GTR,0) (GEQ,1) (EQL,1)
			greater := (bo.Op == token.GTR && z == 0) || (bo.Op == token.GEQ && z == 1) || (bo.Op == token.EQL && z == 1)
			less := (bo.Op == token.LSS && z == 0) || (bo.Op == token.LEQ && z == -1) || (bo.Op == token.EQL && z == -1)
			if scaled {
				// by cases over the three outcomes of Cmp
				var vec [3]int
				for k := -1; k <= 1; k++ {
					r := c.foldWith(f, 0, pinValue(call, constant.MakeInt64(int64(k))))
					vec[k+1] = -1
					if lv := r.Val(bo); lv.K == lConst && lv.C.Kind() == constant.Bool {
						vec[k+1] = 0
						if constant.BoolVal(lv.C) {
							vec[k+1] = 1
						}
					}
				}
				if os.Getenv("FCHECK_DEBUG") != "" {
					fmt.Println("scaled comparison in", f.Name(), "vector", vec)
				}
				greater = vec == [3]int{0, 0, 1}
				less = vec == [3]int{1, 0, 0}
			}
			// receiver is the candidate element, argument the running best?
			c.R.Check(rule, spec.name+"-comparison", c.P.InstrPos(in), (spec.gt && greater) || (!spec.gt && less), "`"+spec.name+"` replaces its running result on the wrong comparison outcome")
			// one side of the comparison is the running result: a loop-carried value that is updated only when the
			// comparison says so (comparing every element with a fixed one, e.g. the first, selects the last element that
			// beats the first, not the extremum)
			var l *Loop
			for _, lp := range naturalLoops(f) {
				if lp.Body[in.Block()] {
					l = lp
				}
			}
			if l == nil {
				return
			}
			conditional := func(p *ssa.Phi) bool {
				if p.Block() != l.Header {
					return false
				}
				// some incoming value is defined under a condition inside the loop, another edge keeps the old value
				keeps, changes := false, false
				for i, e := range p.Edges {
					pred := l.Header.Preds[i]
					if !l.Body[pred] {
						continue
					}
					if e == ssa.Value(p) {
						keeps = true
					} else {
						changes = true
					}
				}
				if keeps && changes {
					return true
				}
				// or the back edge carries a phi of (old, new) formed inside the loop
				for i, e := range p.Edges {
					if !l.Body[l.Header.Preds[i]] {
						continue
					}
					if q, ok := e.(*ssa.Phi); ok && q != p {
						for _, qe := range q.Edges {
							if qe == ssa.Value(p) {
								return true
							}
						}
					}
				}
				return false
			}
			dependsOnRunning := func(v ssa.Value) bool {
				seen := map[ssa.Value]bool{}
				var walk func(x ssa.Value, d int) bool
				walk = func(x ssa.Value, d int) bool {
					if x == nil || seen[x] || d > 8 {
						return false
					}
					seen[x] = true
					switch y := x.(type) {
					case *ssa.Phi:
						if conditional(y) {
							return true
						}
						for _, e := range y.Edges {
							if walk(e, d+1) {
								return true
							}
						}
					case *ssa.UnOp:
						return walk(y.X, d+1)
					case *ssa.IndexAddr:
						return walk(y.Index, d+1)
					case *ssa.Index:
						return walk(y.Index, d+1)
					}
					return false
				}
				return walk(v, 0)
			}
			okRun := false
			for _, a := range call.Call.Args {
				if dependsOnRunning(a) {
					okRun = true
				}
			}
			c.R.Check(rule, spec.name+"-compares-with-running-result", c.P.InstrPos(in), okRun, "`"+spec.name+"` must compare each element with the best one found so far; here neither side of the comparison is the running result (each element is compared with a fixed one, so the result is the last element that beats it, not the extremum)")
		})
	}
}

func c18BitOps(c *Ctx) {
	const rule = "C18.bit-op"
	barms, und := c.binaryDispatch()
	if und != "" {
		c.R.Undecided(rule, "binary-dispatch", "-", und)
		return
	}
	parms, _ := c.prefixDispatch()
	for _, spec := range []struct {
		tok, sym string
		op       token.Token
	}{{"SK_Ampersand", "&", token.AND}, {"SK_Bar", "|", token.OR}, {"SK_Caret", "^", token.XOR}} {
		arm := barms[c.SK(spec.tok)]
		h := arm.Handler
		if h == nil {
			c.R.Check(rule, spec.sym, arm.Pos, false, "no handler for `"+spec.sym+"`")
			continue
		}
		ops := operandParams(h)
		// a handler that only hands (left, right) to a helper and returns its results is judged through the helper
		for d := 0; d < 2 && len(ops) == 2; d++ {
			g := c.delegateOf(c.foldWith(h, 0), ops)
			if g == nil {
				break
			}
			h, ops = g, operandParams(g)
		}
		ok := false
		why := "no integer " + spec.op.String() + " of the two operands found"
		instrs(h, func(b *ssa.BasicBlock, i int, in ssa.Instruction) {
			bo, isB := in.(*ssa.BinOp)
			if !isB || !isIntType(bo.Type()) {
				return
			}
			if bo.Op != spec.op {
				if bo.Op == token.AND || bo.Op == token.OR || bo.Op == token.XOR || bo.Op == token.AND_NOT {
					why = "the handler computes `" + bo.Op.String() + "` instead of `" + spec.op.String() + "`"
				}
				return
			}
			if len(ops) == 2 && (c.derivedFrom(bo.X, ops[0]) && c.derivedFrom(bo.Y, ops[1]) || c.derivedFrom(bo.X, ops[1]) && c.derivedFrom(bo.Y, ops[0])) {
				// the signed result must not be reinterpreted as unsigned on its way into the number
				if bt, isBt := bo.Type().Underlying().(*types.Basic); isBt && bt.Info()&types.IsUnsigned != 0 {
					why = "the operation is carried out on " + bo.Type().String() + " values and its bit pattern becomes the number: negative results (e.g. -8 | 3) turn into 2^64-k"
					return
				}
				for _, ref := range *bo.Referrers() {
					if cv, isCv := ref.(*ssa.Convert); isCv {
						if bt, isBt := cv.Type().Underlying().(*types.Basic); isBt && bt.Info()&types.IsUnsigned != 0 {
							why = "the two's-complement result is converted to " + cv.Type().String() + " before it becomes a number: negative results (e.g. -5 | 3) turn into 2^64-k"
							return
						}
					}
				}
				// flows into the returned number
				dep := dependsOn(h, bo)
				instrs(h, func(b2 *ssa.BasicBlock, j int, in2 ssa.Instruction) {
					if ret, isR := in2.(*ssa.Return); isR && dep[ret.Results[0]] {
						ok = true
					}
				})
			}
		})
		c.R.Check(rule, spec.sym, c.P.Pos(h.Pos()), ok, "`"+spec.sym+"` must act on the two's-complement integer values of both operands: "+why)
	}
	if parms != nil {
		arm := parms[c.SK("SK_Tilde")]
		h := arm.Handler
		if h == nil {
			c.R.Check(rule, "~", arm.Pos, false, "no handler for `~`")
		} else {
			ops := operandParams(h)
			ok := false
			instrs(h, func(b *ssa.BasicBlock, i int, in ssa.Instruction) {
				var comp ssa.Value
				switch x := in.(type) {
				case *ssa.UnOp:
					if x.Op == token.XOR && isIntType(x.Type()) {
						comp = x
					}
				case *ssa.BinOp:
					if x.Op == token.XOR && isIntType(x.Type()) {
						if n, isK := constIntArg(x.Y); isK && n == -1 {
							comp = x
						}
					}
					if x.Op == token.SUB && isIntType(x.Type()) {
						// -x - 1
						if n, isK := constIntArg(x.Y); isK && n == 1 {
							if u, isU := x.X.(*ssa.UnOp); isU && u.Op == token.SUB {
								comp = x
							}
						}
					}
				case *ssa.Call:
					if cal := calleeOf(x); cal != nil && cal.String() == "(*math/big.Int).Not" {
						comp = x
					}
				}
				if comp == nil || len(ops) < 1 {
					return
				}
				var operand ssa.Value
				switch y := comp.(type) {
				case *ssa.UnOp:
					operand = y.X
				case *ssa.BinOp:
					operand = y.X
				case *ssa.Call:
					operand = y.Call.Args[len(y.Call.Args)-1]
				}
				if !c.derivedFrom(operand, ops[0]) {
					return
				}
				dep := dependsOn(h, comp)
				instrs(h, func(b2 *ssa.BasicBlock, j int, in2 ssa.Instruction) {
					if ret, isR := in2.(*ssa.Return); isR && dep[ret.Results[0]] {
						ok = true
					}
				})
			})
			c.R.Check(rule, "~", c.P.Pos(h.Pos()), ok, "`~` must return the bitwise complement of its operand's integer value (^x); no complement of the operand flows into the result (the operand is returned unchanged: ~5 is 5 instead of -6)")
		}
	}
	c.R.Floor(rule, 4)
}

// ---------- C19 ----------

// pureFromParam: v is parameter idx through conversions only.
func pureFromParam(v ssa.Value, f *ssa.Function, idx int) bool {
	rs := plainOrigins.Roots(v)
	if len(rs) != 1 {
		return false
	}
	r := rs[0]
	return r.Kind == "param" && r.Idx == idx && len(r.Path) == 0
}

func runC19(c *Ctx) {
	builtinRegistered(c, "C19.registered", specDateBuiltins)
	c.R.Floor("C19.registered", 14)
	builtinRelevance(c, "C19.param-relevance", specDateBuiltins, nil)
	c.R.Floor("C19.param-relevance", 14)
	// the time a date builtin returns reaches the next builtin (and the caller) as that very time: the value normaliser
	// every sub-expression passes through hands a time.Time on unchanged (no instant is singled out as "unset")
	if d := c.EvalDispatcher(); d != nil {
		c16NormaliseAs(c, d, "C19.times-pass-unchanged", true)
		// `useTimezone` reports an unknown zone through its error result: the call bridge hands a builtin's error on
		if h := d.Handlers["CallExpression"]; h != nil {
			if br := c11Bridge(c, h, d); br != nil {
				c11ErrorWrapAs(c, br, "C19.builtin-errors-reach-the-caller")
			}
		}
	}
	const rule = "C19.wiring"
	isZero := func(v ssa.Value) bool { n, ok := constIntArg(v); return ok && n == 0 }
	isLocal := func(v ssa.Value) bool {
		u, ok := v.(*ssa.UnOp)
		if !ok {
			return false
		}
		g, ok := u.X.(*ssa.Global)
		return ok && g.Name() == "Local" && g.Pkg != nil && g.Pkg.Pkg.Path() == "time"
	}
	// date
	if f := c.BuiltinFn("date"); f != nil {
		ok := false
		instrs(f, func(b *ssa.BasicBlock, i int, in ssa.Instruction) {
			call, isC := in.(*ssa.Call)
			if !isC || calleeOf(call) == nil || calleeOf(call).String() != "time.Date" {
				return
			}
			a := call.Call.Args
			if pureFromParam(a[0], f, 0) && pureFromParam(a[1], f, 1) && pureFromParam(a[2], f, 2) && isZero(a[3]) && isZero(a[4]) && isZero(a[5]) && isZero(a[6]) && isLocal(a[7]) {
				for _, ref := range *call.Referrers() {
					if _, isR := ref.(*ssa.Return); isR {
						ok = true
					}
				}
			}
		})
		c.R.Check(rule, "date", c.P.Pos(f.Pos()), ok, "`date(y,m,d)` must return time.Date(y, time.Month(m), d, 0, 0, 0, 0, time.Local) with its own parameters in that order and no arithmetic on them")
	}
	// addDate
	if f := c.BuiltinFn("addDate"); f != nil {
		ok := false
		instrs(f, func(b *ssa.BasicBlock, i int, in ssa.Instruction) {
			call, isC := in.(*ssa.Call)
			if !isC || calleeOf(call) == nil || calleeOf(call).String() != "(time.Time).AddDate" {
				return
			}
			a := call.Call.Args
			if a[0] == ssa.Value(f.Params[0]) && pureFromParam(a[1], f, 1) && pureFromParam(a[2], f, 2) && pureFromParam(a[3], f, 3) {
				ok = true
			}
		})
		written := false
		if !ok {
			// ... or AddDate written out as the library defines it: the civil fields of t, each shifted, the clock fields,
			// nanoseconds and location of t, normalised once by time.Date
			strip := func(v ssa.Value) ssa.Value {
				for {
					switch x := v.(type) {
					case *ssa.Convert:
						v = x.X
						continue
					case *ssa.ChangeType:
						v = x.X
						continue
					}
					return v
				}
			}
			fieldOfT := func(v ssa.Value, single string, tuple string, idx int) bool {
				v = strip(v)
				if ex, isE := v.(*ssa.Extract); isE {
					call, isC := ex.Tuple.(*ssa.Call)
					return isC && calleeOf(call) != nil && calleeOf(call).String() == "(time.Time)."+tuple && ex.Index == idx && call.Call.Args[0] == ssa.Value(f.Params[0])
				}
				call, isC := v.(*ssa.Call)
				return isC && calleeOf(call) != nil && calleeOf(call).String() == "(time.Time)."+single && call.Call.Args[0] == ssa.Value(f.Params[0])
			}
			shifted := func(v ssa.Value, single string, idx int, par int) bool {
				bo, isB := strip(v).(*ssa.BinOp)
				if !isB || bo.Op != token.ADD || par >= len(f.Params) {
					return false
				}
				x, y := strip(bo.X), strip(bo.Y)
				return fieldOfT(x, single, "Date", idx) && y == ssa.Value(f.Params[par]) || fieldOfT(y, single, "Date", idx) && x == ssa.Value(f.Params[par])
			}
			instrs(f, func(b *ssa.BasicBlock, i int, in ssa.Instruction) {
				call, isC := in.(*ssa.Call)
				if !isC || calleeOf(call) == nil || calleeOf(call).String() != "time.Date" {
					return
				}
				a := call.Call.Args
				if shifted(a[0], "Year", 0, 1) && shifted(a[1], "Month", 1, 2) && shifted(a[2], "Day", 2, 3) &&
					fieldOfT(a[3], "Hour", "Clock", 0) && fieldOfT(a[4], "Minute", "Clock", 1) && fieldOfT(a[5], "Second", "Clock", 2) &&
					fieldOfT(a[6], "Nanosecond", "-", 0) && fieldOfT(a[7], "Location", "-", 0) {
					for _, ref := range *call.Referrers() {
						if _, isR := ref.(*ssa.Return); isR {
							ok, written = true, true
						}
					}
				}
			})
		}
		c.R.Check(rule, "addDate", c.P.Pos(f.Pos()), ok, "`addDate(t,y,m,d)` must return t.AddDate(y, m, d) with the shifts in that order")
		if written {
			c.R.Check(rule, "addDate:every-path", c.P.Pos(f.Pos()), c.everyPathCalls(f, []string{"time.Date"}), "`addDate` must shift civil fields on every path")
		} else if ok {
			c.R.Check(rule, "addDate:every-path", c.P.Pos(f.Pos()), c.everyPathCalls(f, []string{"(time.Time).AddDate"}), "`addDate` must shift civil fields (t.AddDate) on every path: a shortcut such as t.Add(d*24h) shifts the instant instead, which lands on another wall-clock time across a daylight-saving change")
		}
	}
	// extractors
	for _, spec := range []struct{ name, method string }{{"year", "Year"}, {"month", "Month"}, {"day", "Day"}, {"hour", "Hour"}, {"minute", "Minute"}, {"second", "Second"}, {"weekDay", "Weekday"}} {
		f := c.BuiltinFn(spec.name)
		if f == nil {
			continue
		}
		ok := false
		why := ""
		instrs(f, func(b *ssa.BasicBlock, i int, in ssa.Instruction) {
			ret, isR := in.(*ssa.Return)
			if !isR {
				return
			}
			rs := plainOrigins.Roots(ret.Results[0])
			if len(rs) == 1 && rs[0].Kind == "call" && rs[0].Fn != nil {
				call := rs[0].V.(*ssa.Call)
				tuple := map[string][2]interface{}{"Year": {"Date", 0}, "Month": {"Date", 1}, "Day": {"Date", 2}, "Hour": {"Clock", 0}, "Minute": {"Clock", 1}, "Second": {"Clock", 2}}
				if rs[0].Fn.String() == "(time.Time)."+spec.method && call.Call.Args[0] == ssa.Value(f.Params[0]) {
					ok = true
				} else if tp, has := tuple[spec.method]; has && rs[0].Fn.String() == "(time.Time)."+tp[0].(string) && rs[0].Idx == tp[1].(int) && call.Call.Args[0] == ssa.Value(f.Params[0]) {
					ok = true // the matching result of t.Date() / t.Clock()
				} else {
					why = "returns " + rs[0].Fn.String()
				}
			} else if len(rs) == 1 {
				why = "returns " + rs[0].String()
			}
		})
		c.R.Check(rule, spec.name, c.P.Pos(f.Pos()), ok, "`"+spec.name+"(t)` must return t."+spec.method+"() of its own argument, unmodified; "+why)
	}
	// millSecond: UnixMilli, or UnixNano / 1e6 (Unix()*1000 drops the milliseconds)
	if f := c.BuiltinFn("millSecond"); f != nil {
		ok := false
		nret, nok := 0, 0
		instrs(f, func(b *ssa.BasicBlock, i int, in ssa.Instruction) {
			ret, isR := in.(*ssa.Return)
			if !isR {
				return
			}
			if len(ret.Results) == 2 && !isNilConst(ret.Results[1]) {
				return
			}
			nret++
			ok = false
			defer func() {
				if ok {
					nok++
				}
			}()
			switch x := ret.Results[0].(type) {
			case *ssa.Call:
				if cal := calleeOf(x); cal != nil && cal.String() == "(time.Time).UnixMilli" && x.Call.Args[0] == ssa.Value(f.Params[0]) {
					ok = true
				}
			case *ssa.BinOp:
				call, isC := x.X.(*ssa.Call)
				n, isK := constIntArg(x.Y)
				if isC && isK && calleeOf(call) != nil && call.Call.Args[0] == ssa.Value(f.Params[0]) {
					switch {
					case calleeOf(call).String() == "(time.Time).UnixNano" && x.Op == token.QUO && n == 1000000:
						ok = true
					case calleeOf(call).String() == "(time.Time).UnixMicro" && x.Op == token.QUO && n == 1000:
						ok = true
					}
				}
			}
		})
		ok = nret > 0 && nok == nret
		c.R.Check(rule, "millSecond", c.P.Pos(f.Pos()), ok, "`millSecond(t)` must be t's Unix time in milliseconds (UnixMilli, UnixMicro/1e3 or UnixNano/1e6) on every path; Unix()*1000 drops the millisecond part")
	}
	// useTimezone
	if f := c.BuiltinFn("useTimezone"); f != nil {
		var ll *ssa.Call
		instrs(f, func(b *ssa.BasicBlock, i int, in ssa.Instruction) {
			if call, isC := in.(*ssa.Call); isC && calleeOf(call) != nil && calleeOf(call).String() == "time.LoadLocation" && call.Call.Args[0] == ssa.Value(f.Params[1]) {
				ll = call
			}
		})
		okErr, okIn := false, false
		if ll != nil {
			okErr = c.errCheckedTuple(f, ll, 1)
			instrs(f, func(b *ssa.BasicBlock, i int, in ssa.Instruction) {
				ret, isR := in.(*ssa.Return)
				if !isR || !isNilConst(ret.Results[1]) {
					return
				}
				if call, isC := ret.Results[0].(*ssa.Call); isC && calleeOf(call) != nil && calleeOf(call).String() == "(time.Time).In" && call.Call.Args[0] == ssa.Value(f.Params[0]) && isResultOf(call.Call.Args[1], ll, 0) {
					okIn = true
				}
			})
		}
		c.R.Check(rule, "useTimezone", c.P.Pos(f.Pos()), ll != nil && okErr && okIn, fmt.Sprintf("`useTimezone(t, name)` must load the location `name` (found=%v), return its error (checked=%v) and otherwise t.In(location) (found=%v): the instant must not change", ll != nil, okErr, okIn))
	}
	if f := c.BuiltinFn("timeFormat"); f != nil {
		ok := false
		bad := false
		instrs(f, func(b *ssa.BasicBlock, i int, in ssa.Instruction) {
			if ret, isR := in.(*ssa.Return); isR {
				if len(ret.Results) == 2 && !isNilConst(ret.Results[1]) {
					return
				}
				if _, isC := ret.Results[0].(*ssa.Call); !isC {
					bad = true
				}
				if call, isC := ret.Results[0].(*ssa.Call); isC && calleeOf(call) != nil && calleeOf(call).String() == "(time.Time).Format" && call.Call.Args[0] == ssa.Value(f.Params[0]) && call.Call.Args[1] == ssa.Value(f.Params[1]) {
					ok = true
				}
			}
		})
		c.R.Check(rule, "timeFormat", c.P.Pos(f.Pos()), ok && !bad, "`timeFormat(t, layout)` must be t.Format(layout)")
	}
	// clock
	if f := c.BuiltinFn("now"); f != nil {
		ok := false
		instrs(f, func(b *ssa.BasicBlock, i int, in ssa.Instruction) {
			if ret, isR := in.(*ssa.Return); isR {
				if call, isC := ret.Results[0].(*ssa.Call); isC && calleeOf(call) != nil && calleeOf(call).String() == "time.Now" {
					ok = true
				}
			}
		})
		c.R.Check(rule, "now", c.P.Pos(f.Pos()), ok, "`now()` must return time.Now() itself")
	}
	if f := c.BuiltinFn("toDay"); f != nil {
		ok := false
		nnow := 0
		instrs(f, func(b *ssa.BasicBlock, i int, in ssa.Instruction) {
			call, isC := in.(*ssa.Call)
			if !isC || calleeOf(call) == nil {
				return
			}
			if calleeOf(call).String() == "time.Now" {
				nnow++
			}
			if calleeOf(call).String() != "time.Date" {
				return
			}
			a := call.Call.Args
			field := func(v ssa.Value, m string) (*ssa.Call, bool) {
				rs := plainOrigins.Roots(v)
				if len(rs) != 1 || rs[0].Kind != "call" || rs[0].Fn == nil {
					return nil, false
				}
				// now.Year() ... or the matching result of now.Date()
				if !(rs[0].Fn.String() == "(time.Time)."+m || rs[0].Fn.String() == "(time.Time).Date" && rs[0].Idx == map[string]int{"Year": 0, "Month": 1, "Day": 2}[m]) {
					return nil, false
				}
				recv := rs[0].V.(*ssa.Call).Call.Args[0]
				rr := plainOrigins.Roots(recv)
				if len(rr) != 1 || rr[0].Kind != "call" || rr[0].Fn == nil || rr[0].Fn.String() != "time.Now" {
					return nil, false
				}
				return rr[0].V.(*ssa.Call), true
			}
			n1, ok1 := field(a[0], "Year")
			n2, ok2 := field(a[1], "Month")
			n3, ok3 := field(a[2], "Day")
			// the zone: time.Local, or the zone of that very clock reading (time.Now() is in time.Local)
			locOK := isLocal(a[7])
			if !locOK {
				if rs := plainOrigins.Roots(a[7]); len(rs) == 1 && rs[0].Kind == "call" && rs[0].Fn != nil && rs[0].Fn.String() == "(time.Time).Location" {
					rr := plainOrigins.Roots(rs[0].V.(*ssa.Call).Call.Args[0])
					if len(rr) == 1 && rr[0].Kind == "call" && rr[0].V == ssa.Value(n1) {
						locOK = true
					}
				}
			}
			if ok1 && ok2 && ok3 && n1 == n2 && n2 == n3 && isZero(a[3]) && isZero(a[4]) && isZero(a[5]) && isZero(a[6]) && locOK {
				ok = true
			}
		})
		c.R.Check(rule, "toDay", c.P.Pos(f.Pos()), ok && nnow == 1, "`toDay()` must be the local midnight of ONE reading of the clock: time.Date(now.Year(), now.Month(), now.Day(), 0,0,0,0, time.Local)")
	}
	c.R.Floor(rule, 14)
}

// c18IntegerResultsExact: the integer computed by `& | ^ ~` and toInt is a 64-bit value; it must become a number exactly
// (SetMantScale / SetUint64 / SetString). A conversion through float64 keeps 53 bits: 9007199254740993 | 0 and
// toInt(9007199254740993) would yield 9007199254740992.
func c18IntegerResultsExact(c *Ctx) {
	const rule = "C18.integer-results-exact"
	type site struct {
		name string
		f    *ssa.Function
	}
	var sites []site
	if barms, und := c.binaryDispatch(); und == "" {
		for _, spec := range [][2]string{{"SK_Ampersand", "&"}, {"SK_Bar", "|"}, {"SK_Caret", "^"}} {
			if h := barms[c.SK(spec[0])].Handler; h != nil {
				sites = append(sites, site{spec[1], h})
			}
		}
	}
	if parms, _ := c.prefixDispatch(); parms != nil {
		if h := parms[c.SK("SK_Tilde")].Handler; h != nil {
			sites = append(sites, site{"~", h})
		}
	}
	if f := c.BuiltinFn("toInt"); f != nil {
		sites = append(sites, site{"toInt", f})
	}
	for _, s := range sites {
		bad := ""
		// the handler and the module helpers it works through
		for _, g := range c.P.Reach([]*ssa.Function{s.f}, c.inModule, nil).Order {
			instrs(g, func(b *ssa.BasicBlock, i int, in ssa.Instruction) {
				if cv, ok := in.(*ssa.Convert); ok && isFloatType(cv.Type()) && is64BitInt(cv.X.Type()) {
					bad = c.P.InstrPos(in)
				}
			})
		}
		c.R.Check(rule, s.name, c.P.Pos(s.f.Pos()), bad == "", "the 64-bit integer result of `"+s.name+"` is converted to "+"float64 at "+bad+" on its way into the number: above 2^53 the low bits are lost (9007199254740993 becomes 9007199254740992)")
	}
	c.R.Floor(rule, 4)
}

// c18ToStringText: the text of a number is the decimal library's own rendering of it, returned as it is. Any string
// surgery afterwards (trimming zeros, cutting at a width) must know about exponent notation ("1.5E+10") and signs to
// keep the text a spelling of the same number; none is needed, so none is allowed.
func c18ToStringText(c *Ctx) {
	const rule = "C18.toString-text"
	f := c.BuiltinFn("toString")
	if f == nil {
		return
	}
	// the converter: toString itself or the module function it hands its argument to
	conv := f
	instrs(f, func(b *ssa.BasicBlock, i int, in ssa.Instruction) {
		if call, ok := in.(*ssa.Call); ok {
			if cal := calleeOf(call); cal != nil && c.inModule(cal) && len(call.Call.Args) == 1 && call.Call.Args[0] == ssa.Value(f.Params[0]) {
				conv = cal
			}
		}
	})
	if len(conv.Params) == 0 {
		c.R.Undecided(rule, "converter", c.P.Pos(f.Pos()), "toString's converter takes no argument")
		return
	}
	v := conv.Params[len(conv.Params)-1]
	r := c.foldWith(conv, 0, pinTypeCase(v, "*decimal.Big"))
	good := len(r.Returns) > 0
	why := ""
	for _, ret := range r.Returns {
		call, ok := ret.Results[0].(*ssa.Call)
		if !ok {
			good, why = false, "returns "+describeValue(ret.Results[0])
			continue
		}
		cal := calleeOf(call)
		name := ""
		if cal != nil {
			name = cal.String()
		}
		switch name {
		case "(*" + decimalPath + ".Big).String", "fmt.Sprint", "fmt.Sprintf":
		default:
			good, why = false, "returns the result of "+name
		}
	}
	c.R.Check(rule, c.P.FuncKey(conv), c.P.Pos(conv.Pos()), good, "the text of a number must be the decimal's own rendering (String()), returned unmodified; "+why+": post-processing the text breaks numbers rendered in exponent notation (1.5E+10 -> 1.5E+1)")
}

// roundsToContext: Context methods of ericlagergren/decimal whose result is rounded to the precision of the context
// they are called on (confirmed by reading the library: Ceil is Neg(Floor(-x)) and Neg rounds; the arithmetic
// operations round by definition). Floor and RoundToInt do not reduce the number of digits of an integer result.
var roundsToContext = map[string]string{
	"Ceil": "Ceil(x) is computed as Neg(Floor(-x)) and Neg rounds to the context precision",
	"Neg":  "Neg rounds to the context precision",
	"Add":  "Add rounds to the context precision",
	"Sub":  "Sub rounds to the context precision",
	"Mul":  "Mul rounds to the context precision",
	"Quo":  "Quo rounds to the context precision",
	"Rem":  "Rem rounds to the context precision",
}

// c18ContextPrecision: abs, ceil, floor, round, roundBank, toInt, max, min return exact integers / arguments for every
// formula number, and formula numbers carry up to 34 digits. A rounding Context method called on a narrower context
// (Context64 = 16 digits) silently rounds larger values: ceil(123456789012345678.5) became 123456789012345700.
func c18ContextPrecision(c *Ctx) {
	const rule = "C18.full-precision-context"
	n := 0
	for _, name := range []string{"abs", "ceil", "floor", "round", "roundBank", "toInt", "max", "min"} {
		f := c.BuiltinFn(name)
		if f == nil {
			continue
		}
		rr := c.P.Reach([]*ssa.Function{f}, c.inModule, nil)
		bad := ""
		for _, g := range rr.Order {
			instrs(g, func(b *ssa.BasicBlock, i int, in ssa.Instruction) {
				// direct calls ctx.M(z, x) and method values ctx.M handed to a helper
				type use struct {
					fn   *ssa.Function
					recv ssa.Value
				}
				var uses []use
				if call, ok := in.(*ssa.Call); ok {
					if cal := calleeOf(call); cal != nil && len(call.Call.Args) > 0 {
						uses = append(uses, use{cal, call.Call.Args[0]})
					}
				}
				var ops []*ssa.Value
				ops = in.Operands(ops)
				for _, op := range ops {
					if *op == nil {
						continue
					}
					if rv := boundReceiver(*op); rv != nil {
						mc := (*op).(*ssa.MakeClosure)
						if u := unwrapFn(mc.Fn.(*ssa.Function)); u != nil {
							uses = append(uses, use{u, rv})
						}
					}
				}
				for _, us := range uses {
					if !strings.HasPrefix(us.fn.String(), "("+decimalPath+".Context).") {
						continue
					}
					n++
					why, rounds := roundsToContext[us.fn.Name()]
					if !rounds {
						continue
					}
					isCtx128 := func(v ssa.Value) bool {
						if u, isU := v.(*ssa.UnOp); isU {
							if gl, isG := u.X.(*ssa.Global); isG && gl.Name() == "Context128" {
								return true
							}
						}
						return false
					}
					is128 := isCtx128(us.recv)
					// the context handed in as a parameter: what every call site passes
					if par, isPar := us.recv.(*ssa.Parameter); isPar && !is128 {
						pi := paramIndex(par)
						nsite, all := 0, true
						for _, caller := range c.P.ModFuncs {
							for _, cs := range callsTo(caller, g) {
								nsite++
								if pi >= len(cs.Call.Args) || !isCtx128(cs.Call.Args[pi]) {
									all = false
								}
							}
						}
						is128 = nsite > 0 && all
					}
					if !is128 {
						bad = fmt.Sprintf("%s at %s is used on %s: %s", us.fn.Name(), c.P.InstrPos(in), describeValue(us.recv), why)
					}
				}
			})
		}
		c.R.Check(rule, name, c.P.Pos(f.Pos()), bad == "", "`"+name+"` must be exact for every 34-digit formula number; "+bad+", so a result with more digits than that context holds is rounded (ceil(123456789012345678.5) = 123456789012345700)")
	}
	c.R.Analysed["context_method_calls_in_integer_builtins"] = n
	c.R.Floor(rule, 6)
}

// effectiveUnit: when builtin f only hands its parameters and constants to one module helper and returns its result,
// the helper is the unit to read, folded with those constants (so `padString(s, ps, l, true)` is read with left=true).
// back maps the helper's parameters to f's. Otherwise f itself, every block reachable.
func (c *Ctx) effectiveUnit(f *ssa.Function) (*ssa.Function, *FoldResult, map[ssa.Value]ssa.Value) {
	ident := func() (*ssa.Function, *FoldResult, map[ssa.Value]ssa.Value) {
		args := make([]LV, len(f.Params))
		for i := range args {
			args[i] = bottom
		}
		return f, (&Folder{P: c.P}).Fold(f, args), map[ssa.Value]ssa.Value{}
	}
	if len(f.Blocks) != 1 {
		return ident()
	}
	var call *ssa.Call
	for _, in := range f.Blocks[0].Instrs {
		if cl, ok := in.(*ssa.Call); ok {
			if call != nil {
				return ident()
			}
			call = cl
		}
	}
	if call == nil {
		return ident()
	}
	g := calleeOf(call)
	if g == nil || !c.inModule(g) || len(g.Blocks) == 0 || len(call.Call.Args) != len(g.Params) {
		return ident()
	}
	ret, ok := f.Blocks[0].Instrs[len(f.Blocks[0].Instrs)-1].(*ssa.Return)
	if !ok || len(ret.Results) == 0 {
		return ident()
	}
	uses := false
	for _, rt := range plainOrigins.Roots(ret.Results[0]) {
		if rt.Kind == "call" && rt.V == ssa.Value(call) {
			uses = true
		}
	}
	if !uses {
		return ident()
	}
	back := map[ssa.Value]ssa.Value{}
	args := make([]LV, len(g.Params))
	for i, a := range call.Call.Args {
		args[i] = bottom
		if k, isK := a.(*ssa.Const); isK {
			args[i] = constOf(k)
			continue
		}
		if p, isP := a.(*ssa.Parameter); isP {
			back[g.Params[i]] = p
			continue
		}
		return ident()
	}
	return g, (&Folder{P: c.P}).Fold(g, args), back
}

// c17RegexpOwnPattern: `regexp(s, p)` matches s against p - the pattern of THIS call. The compiled expression whose
// Match method decides the result must, on every path, come from compiling the pattern argument (directly, or in a
// module helper that is handed the pattern); a compiled expression taken from anywhere else (a package-level memo, a
// field) can be the previous call's pattern.
func c17RegexpOwnPattern(c *Ctx) {
	const rule = "C17.regexp-own-pattern"
	f := c.BuiltinFn("regexp")
	if f == nil || len(f.Params) < 2 {
		return
	}
	isCompile := func(g *ssa.Function) bool {
		if g == nil {
			return false
		}
		switch g.String() {
		case "regexp.MustCompile", "regexp.Compile":
			return true
		}
		return false
	}
	// fromPattern: the value reached from v by the field path `under` (innermost first, as in Root.Path) is the pattern
	// pat compiled
	var fromPattern func(v ssa.Value, pat ssa.Value, under []string, depth int) (bool, string)
	fromPattern = func(v ssa.Value, pat ssa.Value, under []string, depth int) (bool, string) {
		if depth > 4 {
			return false, "too deep"
		}
		rs := plainOrigins.Roots(v)
		if len(rs) == 0 {
			return false, "no origin"
		}
		for _, rt := range rs {
			call, isCall := rt.V.(*ssa.Call)
			path := append(append([]string{}, rt.Path...), under...)
			switch {
			case rt.Kind == "call" && isCall && isCompile(rt.Fn) && len(path) == 0:
				if call.Call.Args[0] != pat {
					return false, "compiles " + describeValue(call.Call.Args[0]) + ", not the pattern argument"
				}
			case rt.Kind == "alloc" && len(path) == 1:
				// a fresh record with the compiled expression in a field
				al, _ := rt.V.(*ssa.Alloc)
				nst := 0
				if al != nil && al.Referrers() != nil {
					for _, r := range *al.Referrers() {
						fa, ok := r.(*ssa.FieldAddr)
						if !ok || fieldName(fa) != path[0] || fa.Referrers() == nil {
							continue
						}
						for _, u := range *fa.Referrers() {
							if st, ok := u.(*ssa.Store); ok && st.Addr == ssa.Value(fa) {
								nst++
								if !isCompileOf(st.Val, pat) {
									return false, "the field " + path[0] + " of the record is set to " + describeValue(st.Val) + ", not to the compiled pattern argument"
								}
							}
						}
					}
				}
				if nst == 0 {
					return false, "the field " + path[0] + " of the record is never set"
				}
			case rt.Kind == "call" && isCall && rt.Fn != nil && c.inModule(rt.Fn):
				// a helper: which of its parameters receives the pattern
				pi := -1
				for i, a := range call.Call.Args {
					if a == pat {
						pi = i
					}
				}
				if pi < 0 || pi >= len(rt.Fn.Params) {
					return false, c.P.FuncKey(rt.Fn) + " is not given the pattern"
				}
				good, why := true, ""
				instrs(rt.Fn, func(b *ssa.BasicBlock, i int, in ssa.Instruction) {
					ret, ok := in.(*ssa.Return)
					if !ok || rt.Idx >= len(ret.Results) || isNilConst(ret.Results[rt.Idx]) {
						return
					}
					if ok2, w := fromPattern(ret.Results[rt.Idx], rt.Fn.Params[pi], path, depth+1); !ok2 {
						good, why = false, c.P.FuncKey(rt.Fn)+": "+w
					}
				})
				if !good {
					return false, why
				}
			case rt.Kind == "call" && isCall && rt.Fn != nil && (rt.Fn.String() == "(*sync.Map).Load" || rt.Fn.String() == "(*sync.Map).LoadOrStore") && rt.Idx == 0:
				// a memo of compiled patterns keyed by the pattern text (memo.go): the entry found under p is
				// Compile(p), whoever stored it
				g, isG := call.Call.Args[0].(*ssa.Global)
				var m *PureMemo
				if isG {
					m = c.isPureMemo(g)
				}
				switch {
				case m == nil:
					return false, "the compiled expression comes from " + rt.String() + ", which is not a memo of a function of its key"
				case !(len(path) == 0 && m.CompileOf) && !(len(path) == 1 && m.CompileAt[path[0]]):
					return false, "the memo " + g.Name() + " does not store regexp.Compile(<its key>)"
				case stripIface(call.Call.Args[1]) != pat:
					return false, "the memo is asked for " + describeValue(stripIface(call.Call.Args[1])) + ", not for the pattern argument"
				}
			default:
				return false, "the compiled expression comes from " + rt.String()
			}
		}
		return true, ""
	}
	n := 0
	pat := ssa.Value(f.Params[1])
	instrs(f, func(b *ssa.BasicBlock, i int, in ssa.Instruction) {
		call, ok := in.(*ssa.Call)
		if !ok {
			return
		}
		cal := calleeOf(call)
		if cal == nil {
			return
		}
		name := cal.String()
		switch {
		case strings.HasPrefix(name, "(*regexp.Regexp).Match"):
			n++
			good, why := fromPattern(call.Call.Args[0], pat, nil, 0)
			c.R.Check(rule, fmt.Sprintf("matcher#%d", n), c.P.InstrPos(in), good, "the expression that decides `regexp(s, p)` must be compiled from p in this very call: "+why+"; a remembered expression can belong to an earlier pattern (after a failed compile the memo and its key disagree)")
		case name == "regexp.MatchString" || name == "regexp.Match":
			n++
			c.R.Check(rule, fmt.Sprintf("matcher#%d", n), c.P.InstrPos(in), call.Call.Args[0] == pat, "regexp.Match must be given the pattern argument")
		}
	})
	if n == 0 {
		c.R.Undecided(rule, "matcher", c.P.Pos(f.Pos()), "no Match call found in the builtin itself")
	}
	c.R.Floor(rule, 1)
}

// minMaxHelper recognises a two-argument clamp helper that hands back the smaller ("min") or the larger ("max") of
// two quantities: two integers, or an integer and the length of a string / slice argument. Every return is one of the
// two quantities, the only branch compares them with each other, and folding the three possible orderings (a<b, a==b,
// a>b) selects the smaller / larger each time.
func (c *Ctx) minMaxHelper(f *ssa.Function) string {
	if f == nil || !c.inModule(f) || len(f.Blocks) == 0 || len(f.Params) != 2 || f.Signature.Results().Len() != 1 {
		return ""
	}
	// the two quantities: an int parameter stands for itself, a string / slice parameter for its length
	var q [2]ssa.Value
	var lens []ssa.Value
	nInt := 0
	for i, p := range f.Params {
		if isIntType(p.Type()) {
			q[i] = p
			nInt++
			continue
		}
		switch p.Type().Underlying().(type) {
		case *types.Basic, *types.Slice:
		default:
			return ""
		}
		for _, ref := range *p.Referrers() {
			call, ok := ref.(*ssa.Call)
			if _, isDbg := ref.(*ssa.DebugRef); isDbg {
				continue
			}
			if !ok || !isBuiltinCall(call, "len") {
				return "" // the argument is used for more than its length
			}
			lens = append(lens, call)
		}
		if len(lens) == 0 {
			return ""
		}
	}
	if nInt == 0 {
		return ""
	}
	isQ := func(v ssa.Value, i int) bool {
		if q[i] != nil {
			return v == q[i]
		}
		for _, l := range lens {
			if v == l {
				return true
			}
		}
		return false
	}
	nIf := 0
	ok := true
	instrs(f, func(b *ssa.BasicBlock, i int, in ssa.Instruction) {
		switch x := in.(type) {
		case *ssa.If:
			nIf++
			bo, isB := x.Cond.(*ssa.BinOp)
			if !isB || !(isQ(bo.X, 0) && isQ(bo.Y, 1) || isQ(bo.X, 1) && isQ(bo.Y, 0)) {
				ok = false
			}
		case *ssa.Return:
			for _, rt := range plainOrigins.Roots(x.Results[0]) {
				switch {
				case rt.Kind == "param" && len(rt.Path) == 0 && isIntType(rt.V.Type()):
				case rt.Kind == "call" && rt.Fn == nil && (isQ(rt.V, 0) || isQ(rt.V, 1)):
				default:
					ok = false
				}
			}
		case *ssa.BinOp, *ssa.Jump, *ssa.Phi, *ssa.DebugRef:
		case *ssa.Call:
			if !isBuiltinCall(x, "len") {
				ok = false
			}
		default:
			ok = false
		}
	})
	if !ok || nIf != 1 {
		return ""
	}
	kind := ""
	for _, s := range [][2]int64{{1, 2}, {2, 2}, {2, 1}} {
		args := []LV{bottom, bottom}
		var pinsL []Pin
		for i := range f.Params {
			if q[i] != nil {
				args[i] = intLV(s[i])
			} else {
				for _, l := range lens {
					pinsL = append(pinsL, pinValue(l, constant.MakeInt64(s[i])))
				}
			}
		}
		r := (&Folder{P: c.P, Input: pins(pinsL...)}).Fold(f, args)
		v, okc := r.ReturnConst(0)
		if !okc {
			return ""
		}
		n, _ := constant.Int64Val(v)
		lo, hi := s[0], s[1]
		if lo > hi {
			lo, hi = hi, lo
		}
		k := ""
		switch {
		case lo == hi:
			continue
		case n == lo:
			k = "min"
		case n == hi:
			k = "max"
		}
		if k == "" || kind != "" && kind != k {
			return ""
		}
		kind = k
	}
	return kind
}
