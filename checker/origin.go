package main

import (
	"go/types"
	"strings"

	"golang.org/x/tools/go/ssa"
)

// Root describes where a value comes from, found by walking def-use chains
// backwards inside one function (through Phi, Extract, conversions, interface
// boxing, type assertions, field / element loads and local variable cells).
type Root struct {
	Kind string    // param | call | alloc | global | const | free | binop | closure | other
	V    ssa.Value // the root value (Parameter, Call, Alloc, Global, Const, ...)
	Fn   *ssa.Function
	Idx  int      // parameter index, or result index for calls
	Path []string // field / element access path applied on top of the root, innermost first
	Conv bool     // a numeric / string conversion was applied on the way
}

func (r Root) String() string {
	s := r.Kind
	switch r.Kind {
	case "param":
		s += "#" + itoa(r.Idx)
		if p, ok := r.V.(*ssa.Parameter); ok {
			s += "(" + p.Name() + ")"
		}
	case "call":
		if r.Fn != nil {
			s += ":" + r.Fn.Name()
		} else {
			s += ":dynamic"
		}
		if r.Idx > 0 {
			s += "#" + itoa(r.Idx)
		}
	case "global":
		if g, ok := r.V.(*ssa.Global); ok {
			s += ":" + g.Name()
		}
	case "const":
		if c, ok := r.V.(*ssa.Const); ok {
			s += ":" + c.String()
		}
	}
	if len(r.Path) > 0 {
		s += "." + strings.Join(r.Path, ".")
	}
	return s
}

type Origins struct {
	// PassThrough: for a call, the index of the argument whose identity the
	// result carries (methods that return their receiver), or -1.
	PassThrough func(call *ssa.Call) int
	// EdgeOK, when set, restricts phi edges to those a fold left executable.
	EdgeOK func(from, to *ssa.BasicBlock) bool
}

// foldOrigins: origins as seen under fold r (phi edges over non-executable control-flow edges are ignored).
func foldOrigins(r *FoldResult) *Origins {
	return &Origins{EdgeOK: func(from, to *ssa.BasicBlock) bool {
		return r.Reach[from] && r.Edge[[2]int{from.Index, to.Index}]
	}}
}

func (o *Origins) Roots(v ssa.Value) []Root {
	var out []Root
	seen := map[ssa.Value]bool{}
	o.walk(v, nil, false, seen, &out, 0)
	return out
}

func paramIndex(p *ssa.Parameter) int {
	for i, q := range p.Parent().Params {
		if q == p {
			return i
		}
	}
	return -1
}

func (o *Origins) walk(v ssa.Value, path []string, conv bool, seen map[ssa.Value]bool, out *[]Root, depth int) {
	if v == nil {
		return
	}
	if seen[v] && depth > 0 {
		if _, isPhi := v.(*ssa.Phi); isPhi {
			return
		}
	}
	if depth > 60 {
		*out = append(*out, Root{Kind: "other", V: v, Path: path, Conv: conv})
		return
	}
	seen[v] = true
	emit := func(kind string, fn *ssa.Function, idx int) {
		*out = append(*out, Root{Kind: kind, V: v, Fn: fn, Idx: idx, Path: append([]string{}, path...), Conv: conv})
	}
	switch x := v.(type) {
	case *ssa.Parameter:
		emit("param", nil, paramIndex(x))
	case *ssa.FreeVar:
		emit("free", nil, 0)
	case *ssa.Const:
		emit("const", nil, 0)
	case *ssa.Global:
		emit("global", nil, 0)
	case *ssa.Function:
		emit("closure", x, 0)
	case *ssa.MakeClosure:
		f, _ := x.Fn.(*ssa.Function)
		emit("closure", f, 0)
	case *ssa.Alloc:
		emit("alloc", nil, 0)
	case *ssa.Phi:
		for i, e := range x.Edges {
			if o.EdgeOK != nil && i < len(x.Block().Preds) && !o.EdgeOK(x.Block().Preds[i], x.Block()) {
				continue
			}
			o.walk(e, path, conv, seen, out, depth+1)
		}
	case *ssa.ChangeType:
		o.walk(x.X, path, conv, seen, out, depth+1)
	case *ssa.ChangeInterface:
		o.walk(x.X, path, conv, seen, out, depth+1)
	case *ssa.MakeInterface:
		o.walk(x.X, path, conv, seen, out, depth+1)
	case *ssa.Convert:
		o.walk(x.X, path, true, seen, out, depth+1)
	case *ssa.TypeAssert:
		o.walk(x.X, path, conv, seen, out, depth+1)
	case *ssa.Slice:
		o.walk(x.X, path, conv, seen, out, depth+1)
	case *ssa.SliceToArrayPointer:
		o.walk(x.X, path, conv, seen, out, depth+1)
	case *ssa.Extract:
		switch t := x.Tuple.(type) {
		case *ssa.Call:
			if o.PassThrough != nil && x.Index == 0 {
				if k := o.PassThrough(t); k >= 0 && k < len(t.Call.Args) {
					o.walk(t.Call.Args[k], path, conv, seen, out, depth+1)
					return
				}
			}
			*out = append(*out, Root{Kind: "call", V: t, Fn: calleeOf(t), Idx: x.Index, Path: append([]string{}, path...), Conv: conv})
		case *ssa.TypeAssert:
			if x.Index == 0 {
				o.walk(t.X, path, conv, seen, out, depth+1)
			} else {
				emit("other", nil, 0)
			}
		case *ssa.Lookup:
			if x.Index == 0 {
				o.walk(t.X, append([]string{"[k]"}, path...), conv, seen, out, depth+1)
			} else {
				emit("other", nil, 0)
			}
		case *ssa.UnOp: // <-chan commaok
			emit("other", nil, 0)
		default:
			emit("other", nil, 0)
		}
	case *ssa.Call:
		if o.PassThrough != nil {
			if k := o.PassThrough(x); k >= 0 {
				var arg ssa.Value
				if x.Call.IsInvoke() {
					if k == 0 {
						arg = x.Call.Value
					} else if k-1 < len(x.Call.Args) {
						arg = x.Call.Args[k-1]
					}
				} else if k < len(x.Call.Args) {
					arg = x.Call.Args[k]
				}
				if arg != nil {
					o.walk(arg, path, conv, seen, out, depth+1)
					return
				}
			}
		}
		emit("call", calleeOf(x), 0)
	case *ssa.UnOp:
		if x.Op.String() != "*" {
			emit("binop", nil, 0)
			return
		}
		switch a := x.X.(type) {
		case *ssa.FieldAddr:
			o.walk(a.X, append([]string{fieldName(a)}, path...), conv, seen, out, depth+1)
		case *ssa.IndexAddr:
			// an element of a slice literal built here (`[]T{a, b, c}` ranged over): the union of its elements
			if arr := localArrayLiteral(a.X); arr != nil {
				n := 0
				for _, ref := range *arr.Referrers() {
					ia2, ok := ref.(*ssa.IndexAddr)
					if !ok || ia2.X != ssa.Value(arr) {
						continue
					}
					for _, r2 := range *ia2.Referrers() {
						if st, ok := r2.(*ssa.Store); ok && st.Addr == ssa.Value(ia2) {
							o.walk(st.Val, path, conv, seen, out, depth+1)
							n++
						}
					}
				}
				if n > 0 {
					return
				}
			}
			o.walk(a.X, append([]string{"[]"}, path...), conv, seen, out, depth+1)
		case *ssa.Alloc:
			// a local variable cell: union over the values stored into it
			n := 0
			for _, ref := range *a.Referrers() {
				if st, ok := ref.(*ssa.Store); ok && st.Addr == a {
					o.walk(st.Val, path, conv, seen, out, depth+1)
					n++
				}
			}
			if n == 0 {
				*out = append(*out, Root{Kind: "alloc", V: a, Path: append([]string{"*"}, path...), Conv: conv})
			}
		case *ssa.Global:
			*out = append(*out, Root{Kind: "global", V: a, Path: append([]string{}, path...), Conv: conv})
		case *ssa.FreeVar:
			*out = append(*out, Root{Kind: "free", V: a, Path: append([]string{"*"}, path...), Conv: conv})
		default:
			o.walk(x.X, append([]string{"*"}, path...), conv, seen, out, depth+1)
		}
	case *ssa.Field:
		o.walk(x.X, append([]string{fieldNameV(x)}, path...), conv, seen, out, depth+1)
	case *ssa.FieldAddr:
		o.walk(x.X, append([]string{"&" + fieldName(x)}, path...), conv, seen, out, depth+1)
	case *ssa.IndexAddr:
		o.walk(x.X, append([]string{"&[]"}, path...), conv, seen, out, depth+1)
	case *ssa.Index:
		o.walk(x.X, append([]string{"[]"}, path...), conv, seen, out, depth+1)
	case *ssa.Lookup:
		o.walk(x.X, append([]string{"[k]"}, path...), conv, seen, out, depth+1)
	case *ssa.BinOp:
		emit("binop", nil, 0)
	case *ssa.MakeMap, *ssa.MakeSlice, *ssa.MakeChan:
		emit("alloc", nil, 0)
	default:
		emit("other", nil, 0)
	}
}

// addrRoots is Roots for the *address* operand of a store-like instruction:
// which object is being written?
func (o *Origins) addrRoots(addr ssa.Value) []Root { return o.Roots(addr) }

// exactlyParam: every root of v is parameter idx itself (no field path).
func (o *Origins) exactlyParam(v ssa.Value, idx int) bool {
	rs := o.Roots(v)
	if len(rs) == 0 {
		return false
	}
	for _, r := range rs {
		if r.Kind != "param" || r.Idx != idx || len(r.Path) != 0 {
			return false
		}
	}
	return true
}

func isPointerLike(t types.Type) bool {
	switch t.Underlying().(type) {
	case *types.Pointer, *types.Map, *types.Slice, *types.Chan, *types.Interface, *types.Signature:
		return true
	}
	return false
}

var plainOrigins = &Origins{}

// localArrayLiteral: v is (a slice of) an array allocated in this function that is only indexed and sliced,
// i.e. the backing store of a composite literal. Returns the allocation.
func localArrayLiteral(v ssa.Value) *ssa.Alloc {
	if sl, ok := v.(*ssa.Slice); ok {
		v = sl.X
	}
	a, ok := v.(*ssa.Alloc)
	if !ok {
		return nil
	}
	if _, isArr := deref(a.Type()).Underlying().(*types.Array); !isArr {
		return nil
	}
	for _, ref := range *a.Referrers() {
		switch ref.(type) {
		case *ssa.IndexAddr, *ssa.Slice, *ssa.DebugRef:
		default:
			return nil
		}
	}
	return a
}
