package main

import (
	"fmt"
	"go/constant"
	"go/types"
	"strings"

	"golang.org/x/tools/go/ssa"
)

func init() {
	register("C04",
		"numbers are created in a by-value copy of the 34-digit Context128 and the module never writes a context field; each of `+ - * / %` (and unary minus) on numbers performs exactly the matching decimal operation (Add, Sub, Mul, Quo, Rem, Neg) into a number created by newDecimalBig in the same handler, with operands coerced from (left, right) in that order, and returns that result; on the number-entry paths (value normaliser, numeric literal, string/bool coercion, the five arithmetic handlers) no 64-bit Go integer is converted to float64 and no binary float is parsed: Go floats enter through SetString(FormatFloat(f, 'f'|'g'|'e', -1, 64)), literals through SetString(<literal text>) with the failure turned into an error; Float64() is called only at the final exit and in the host-call bridge. The number text the literal arm converts is assembled from separator-free fragments and the exponent marker up to the exponent digits; every path of the literal arm passes SetString.",
		"that the library's Add/Sub/Mul/Quo/Rem are correctly rounded half-even to 34 digits, and the accuracy of the final Float64() (both are properties of ericlagergren/decimal, which is trusted, not analysed).",
		runC04)
}

type arithSpec struct {
	tok, sym, method string
}

var arithSpecs = []arithSpec{
	{"SK_Plus", "+", "Add"}, {"SK_Minus", "-", "Sub"}, {"SK_Asterisk", "*", "Mul"}, {"SK_Slash", "/", "Quo"}, {"SK_Percent", "%", "Rem"},
}

func isDecimalFn(f *ssa.Function) bool {
	return f != nil && strings.Contains(f.String(), decimalPath)
}

// fromNewDecimalBig: every root of v is a call of the module's number constructor in function f.
func (c *Ctx) fromNewDecimalBig(v ssa.Value) (bool, string) {
	nd := c.fn("newDecimalBig")
	rs := decOrigins(c).Roots(v)
	if len(rs) == 0 {
		return false, "no origin"
	}
	for _, r := range rs {
		if !(r.Kind == "call" && r.Fn == nd && nd != nil && len(r.Path) == 0) {
			return false, r.String()
		}
	}
	return true, ""
}

func runC04(c *Ctx) {
	barms, und := c.binaryDispatch()
	if und != "" {
		c.R.Undecided("C04.anchor", "binary-dispatch", "-", und)
		return
	}
	parms, _ := c.prefixDispatch()
	c04Context(c)
	c04Wiring(c, "C04.operator-wiring", barms, parms, false)
	c04NoFloat(c, barms, "C04.no-binary-float")
}

func c04Context(c *Ctx) {
	const rule = "C04.context"
	nd := c.fn("newDecimalBig")
	if !c.need(rule, nd, "newDecimalBig") {
		return
	}
	ok := false
	instrs(nd, func(b *ssa.BasicBlock, i int, in ssa.Instruction) {
		ret, isRet := in.(*ssa.Return)
		if !isRet {
			return
		}
		if call, isC := ret.Results[0].(*ssa.Call); isC {
			if cal := calleeOf(call); cal != nil && cal.String() == decimalPath+".WithContext" {
				if u, isU := call.Call.Args[0].(*ssa.UnOp); isU {
					if g, isG := u.X.(*ssa.Global); isG && g.Name() == "Context128" && g.Pkg.Pkg.Path() == decimalPath {
						ok = true
					}
				}
			}
		}
	})
	c.R.Check(rule, "newDecimalBig", c.P.Pos(nd.Pos()), ok, "numbers must be created as decimal.WithContext(decimal.Context128): 34 significant digits, half-even")
	// no store into a field of a decimal.Context anywhere in the module
	n := 0
	for _, f := range c.P.ModFuncs {
		instrs(f, func(b *ssa.BasicBlock, i int, in ssa.Instruction) {
			st, isSt := in.(*ssa.Store)
			if !isSt {
				return
			}
			fa, isFA := st.Addr.(*ssa.FieldAddr)
			if !isFA {
				return
			}
			if nt := namedOf(fa.X.Type()); nt != nil && nt.Obj().Pkg() != nil && nt.Obj().Pkg().Path() == decimalPath && (nt.Obj().Name() == "Context" || nt.Obj().Name() == "Big") {
				if al, _, local := localRoundingContext(st); al != nil && local {
					// a private copy of Context128 that only rounds to an integer in a chosen direction (how the library
					// defines Floor): arithmetic never sees it
					return
				}
				n++
				c.R.Add(rule, "field store in "+c.P.FuncKey(f), c.P.InstrPos(in), Violation, "the module writes field "+fieldName(fa)+" of a decimal "+nt.Obj().Name()+": precision / rounding mode would no longer be the 34-digit half-even context")
			}
		})
	}
	c.R.Add(rule, "no-context-field-writes", "-", OK, "")
}

func c04Wiring(c *Ctx, rule string, barms, parms map[int64]OpArm, unaryOnly bool) {
	depth := 0
	var check func(sym, method string, h *ssa.Function, pos string, binary bool)
	check = func(sym, method string, h *ssa.Function, pos string, binary bool) {
		if h == nil {
			c.R.Check(rule, sym, pos, false, "no handler for `"+sym+"`")
			return
		}
		ops := operandParams(h)
		if (binary && len(ops) != 2) || (!binary && len(ops) < 1) {
			c.R.Undecided(rule, sym, c.P.Pos(h.Pos()), "handler operands not recognised")
			return
		}
		r := c.foldWith(h, 1, pinTypeCase(ops[0], "*decimal.Big"))
		var dcalls []*ssa.Call
		for _, call := range r.ReachableCalls() {
			cc, isC := call.(*ssa.Call)
			if !isC {
				continue
			}
			cal := calleeOf(cc)
			if !isDecimalFn(cal) {
				continue
			}
			if _, isW := c.DecimalWriters()[cal.String()]; isW {
				dcalls = append(dcalls, cc)
			}
		}
		if len(dcalls) == 0 && depth < 2 {
			// the numeric branch hands both operands, in order, to a helper and returns its results: judge the helper
			if g := c.delegateOf(r, ops); g != nil {
				depth++
				check(sym, method, g, pos, binary)
				depth--
				return
			}
		}
		if len(dcalls) != 1 {
			var names []string
			for _, d := range dcalls {
				names = append(names, calleeOf(d).Name())
			}
			c.R.Check(rule, sym, c.P.Pos(h.Pos()), false, fmt.Sprintf("the numeric branch of `%s` must perform exactly one decimal operation (%s); found %v", sym, method, names))
			return
		}
		dc := dcalls[0]
		cal := calleeOf(dc)
		w := c.decWrittenArg(dc)
		// operands follow the written argument: z.Op(x, y) or ctx.Op(z, x, y)
		argsAfter := dc.Call.Args[w+1:]
		okName := cal.Name() == method
		okOps := false
		if binary && len(argsAfter) == 2 {
			okOps = c.coercedFrom(argsAfter[0], ops[0]) && c.coercedFrom(argsAfter[1], ops[1])
		} else if !binary && len(argsAfter) == 1 {
			okOps = c.coercedFrom(argsAfter[0], ops[0])
		}
		fresh, whyF := c.fromNewDecimalBig(dc.Call.Args[w])
		// an operation performed as a Context method rounds to THAT context: it must be a copy of Context128
		if w == 1 {
			is128 := false
			if u, isU := dc.Call.Args[0].(*ssa.UnOp); isU {
				if g, isG := u.X.(*ssa.Global); isG && g.Name() == "Context128" {
					is128 = true
				}
			}
			if !is128 {
				fresh, whyF = false, "the operation is performed in a context other than Context128 ("+describeValue(dc.Call.Args[0])+"): results are rounded to fewer than 34 digits"
			}
		}
		// the handler returns that call's result
		retOK := len(r.Returns) > 0
		for _, ret := range r.Returns {
			v, e := ret.Results[0], ret.Results[1]
			if !isNilConst(e) {
				retOK = false
			}
			good := false
			for _, rt := range plainOrigins.Roots(v) {
				if rt.Kind == "call" && rt.V == ssa.Value(dc) {
					good = true
				}
			}
			// methods on Context write into z and the handler returns z
			if !good {
				if ok2, _ := c.fromNewDecimalBig(v); ok2 && sameRoots(decOrigins(c).Roots(v), decOrigins(c).Roots(dc.Call.Args[w])) {
					good = true
				}
			}
			if !good {
				retOK = false
			}
		}
		c.R.Check(rule, sym, c.P.InstrPos(dc), okName && okOps && fresh && retOK, fmt.Sprintf("`%s` on numbers must be decimal %s(left, right) into a fresh Context128 number and return it: operation=%s (want %s), operands in order=%v, result number fresh from newDecimalBig=%v (%s), returned=%v", sym, method, cal.Name(), method, okOps, fresh, whyF, retOK))
	}
	for _, s := range arithSpecs {
		if unaryOnly {
			break
		}
		arm := barms[c.SK(s.tok)]
		check(s.sym, s.method, arm.Handler, arm.Pos, true)
	}
	if parms != nil {
		arm := parms[c.SK("SK_Minus")]
		check("unary -", "Neg", arm.Handler, arm.Pos, false)
		// unary plus returns the number itself
		if h := parms[c.SK("SK_Plus")].Handler; h != nil {
			ops := operandParams(h)
			for d := 0; d < 2 && len(ops) >= 1; d++ {
				g := c.delegateOf(c.foldWith(h, 0), ops)
				if g == nil || len(operandParams(g)) != len(ops) {
					break
				}
				h, ops = g, operandParams(g)
			}
			if len(ops) >= 1 {
				r := c.foldWith(h, 1, pinTypeCase(ops[0], "*decimal.Big"))
				good := len(r.Returns) > 0
				for _, ret := range r.Returns {
					if !c.derivedOnlyFromParam(ret.Results[0], ops[0]) {
						good = false
					}
				}
				c.R.Check(rule, "unary +", c.P.Pos(h.Pos()), good, "unary plus on a number must yield that number")
			}
		}
	}
	if unaryOnly {
		c.R.Floor(rule, 2)
	} else {
		c.R.Floor(rule, 6)
	}
}

func sameRoots(a, b []Root) bool {
	if len(a) != len(b) || len(a) == 0 {
		return false
	}
	for i := range a {
		if a[i].V != b[i].V {
			return false
		}
	}
	return true
}

func is64BitInt(t types.Type) bool {
	b, ok := t.Underlying().(*types.Basic)
	if !ok {
		return false
	}
	switch b.Kind() {
	case types.Int, types.Int64, types.Uint, types.Uint64, types.Uintptr:
		return true
	}
	return false
}

func isFloatType(t types.Type) bool {
	b, ok := t.Underlying().(*types.Basic)
	return ok && b.Info()&types.IsFloat != 0
}

func c04NoFloat(c *Ctx, barms map[int64]OpArm, rule string) {
	d := c.EvalDispatcher()
	set := map[*ssa.Function]string{}
	// the normaliser: callee of the dispatcher's success return
	instrs(d.Fn, func(b *ssa.BasicBlock, i int, in ssa.Instruction) {
		if ret, ok := in.(*ssa.Return); ok {
			for _, rt := range plainOrigins.Roots(ret.Results[0]) {
				if rt.Kind == "call" && rt.Fn != nil && c.inModule(rt.Fn) {
					set[rt.Fn] = "value normaliser"
				}
			}
		}
	})
	if h := d.Handlers["LiteralExpression"]; h != nil {
		set[h] = "literal evaluation"
	}
	for _, s := range arithSpecs {
		if h := barms[c.SK(s.tok)].Handler; h != nil {
			set[h] = "arithmetic handler " + s.sym
			// and the helpers it works through: shared arithmetic helpers and the coercion functions they call
			for _, g := range c.P.Reach([]*ssa.Function{h}, c.inModule, nil).Order {
				if g == h || g == d.Fn || g.Name() == c.P.alias("newDecimalBig") {
					continue
				}
				res := g.Signature.Results()
				switch {
				case res.Len() == 1 && strings.HasSuffix(res.At(0).Type().String(), "decimal.Big"):
					set[g] = "number coercion"
				case res.Len() == 2 && res.At(1).Type().String() == "error" && len(operandParams(g)) == 2:
					if _, dup := set[g]; !dup {
						set[g] = "arithmetic helper of " + s.sym
					}
				}
			}
		}
	}
	c.R.Check(rule, "function-set", "-", len(set) >= 8, fmt.Sprintf("expected normaliser, literal evaluation, coercion and five arithmetic handlers; found %d functions", len(set)))
	for f, role := range set {
		cons := c.P.FuncKey(f)
		bad := ""
		instrs(f, func(b *ssa.BasicBlock, i int, in ssa.Instruction) {
			if bad != "" {
				return
			}
			switch x := in.(type) {
			case *ssa.Convert:
				if is64BitInt(x.X.Type()) && isFloatType(x.Type()) {
					bad = fmt.Sprintf("converts a %s to %s at %s: integers above 2^53 lose their low digits before becoming a decimal", x.X.Type(), x.Type(), c.P.InstrPos(in))
				}
			case *ssa.Call:
				cal := calleeOf(x)
				if cal == nil {
					return
				}
				switch cal.String() {
				case "strconv.ParseFloat":
					bad = "parses text as a binary float at " + c.P.InstrPos(in)
				case "(*" + decimalPath + ".Big).SetFloat64", "(*" + decimalPath + ".Big).SetFloat":
					// allowed only for float32-or-narrower-int sources: here any use on an entry path is a binary detour
					for _, rt := range plainOrigins.Roots(x.Call.Args[1]) {
						if rt.Conv || rt.Kind == "param" {
							// is the ultimate source a float typed value or a narrow int?
							src := rt.V.Type()
							if ta := lastAssertedType(x.Call.Args[1]); ta != nil {
								src = ta
							}
							if isFloatType(src) {
								bad = "a Go float enters through SetFloat64 at " + c.P.InstrPos(in) + " (binary expansion, e.g. 0.1 becomes 0.1000000000000000055...) instead of through its shortest decimal text"
							}
						}
					}
				case "(*" + decimalPath + ".Big).Float64":
					bad = "Float64() on a number-entry path at " + c.P.InstrPos(in)
				}
			}
		})
		c.R.Check(rule, cons, c.P.Pos(f.Pos()), bad == "", role+": "+bad)
	}
	// Go floats: SetString(FormatFloat(f, fmt, -1, 64))
	for f, role := range set {
		if role != "value normaliser" {
			continue
		}
		v := f.Params[0]
		for _, k := range []string{"float64", "float32"} {
			r := c.foldWith(f, 0, pinTypeCase(v, k))
			good := false
			why := "no SetString call on this path"
			// the conversion may live in a helper that takes the float: analyse the helper for its parameter
			src := v
			var viaHelper *ssa.Call
			for _, call := range r.ReachableCalls() {
				cc, ok := call.(*ssa.Call)
				if !ok {
					continue
				}
				g := calleeOf(cc)
				if g == nil || !c.inModule(g) || len(g.Params) != 1 || !isFloatType(g.Params[0].Type()) || len(cc.Call.Args) != 1 || !c.derivedFrom(cc.Call.Args[0], v) {
					continue
				}
				viaHelper = cc
			}
			if viaHelper != nil {
				g := calleeOf(viaHelper)
				r = c.foldWith(g, 0)
				src = g.Params[0]
			}
			v := src
			for _, call := range r.ReachableCalls() {
				cc, ok := call.(*ssa.Call)
				if !ok {
					continue
				}
				cal := calleeOf(cc)
				if cal == nil || cal.String() != "(*"+decimalPath+".Big).SetString" {
					continue
				}
				for _, rt := range plainOrigins.Roots(cc.Call.Args[1]) {
					if rt.Kind == "call" && rt.Fn != nil && rt.Fn.String() == "strconv.FormatFloat" {
						ff := rt.V.(*ssa.Call)
						fm, ok1 := constIntArg(ff.Call.Args[1])
						pr, ok2 := constIntArg(ff.Call.Args[2])
						bs, ok3 := constIntArg(ff.Call.Args[3])
						src := c.derivedFrom(ff.Call.Args[0], v)
						wantBits := int64(64)
						if ok1 && ok2 && ok3 && (fm == 'f' || fm == 'g' || fm == 'e') && pr == -1 && (bs == wantBits || (k == "float32" && bs == 32)) && src {
							good = true
						} else {
							why = fmt.Sprintf("FormatFloat(fmt=%c, prec=%d, bits=%d), from the value=%v", rune(fm), pr, bs, src)
						}
					}
				}
			}
			// and on every path: no shortcut around the text conversion
			if good {
				isSet := func(in ssa.Instruction) bool {
					cc, ok := in.(*ssa.Call)
					return ok && calleeOf(cc) != nil && calleeOf(cc).String() == "(*"+decimalPath+".Big).SetString"
				}
				if viaHelper != nil {
					// ... and the normaliser reaches the helper on every path of this kind
					rf := c.foldWith(f, 0, pinTypeCase(f.Params[0], k))
					isHelper := func(in ssa.Instruction) bool { return in == ssa.Instruction(viaHelper) }
					if pathExistsIn(rf, nil, isReturn, isHelper) {
						good = false
						why = "some path returns without calling the float conversion helper"
					}
				}
				if pathExistsIn(r, nil, isReturn, isSet) {
					good = false
					why = "some path returns a number for a " + k + " without going through the decimal text (a shortcut such as int64(f) for whole numbers takes the exact binary value, which above 2^53 is not the value the float prints as)"
				}
			}
			c.R.Check(rule, "float-entry:"+k, c.P.Pos(f.Pos()), good, "a Go "+k+" must enter as SetString(strconv.FormatFloat(f, 'f'|'g'|'e', -1, 64)), its shortest round-trip decimal text; "+why)
		}
		for _, k := range []string{"int", "int64", "int32"} {
			r := c.foldWith(f, 0, pinTypeCase(v, k))
			bad := ""
			for _, b := range f.Blocks {
				if !r.Reach[b] {
					continue
				}
				for _, in := range b.Instrs {
					if cv, ok := in.(*ssa.Convert); ok && isFloatType(cv.Type()) && is64BitInt(cv.X.Type()) {
						bad = "converted through " + cv.Type().String() + " at " + c.P.InstrPos(in)
					}
				}
			}
			c.R.Check(rule, "int-entry:"+k, c.P.Pos(f.Pos()), bad == "", "a Go "+k+" must enter exactly (SetMantScale / SetUint64 / SetString), not through float64: "+bad+"; a 64-bit field above 2^53 would differ from the same integer written as a literal")
		}
	}
	// the literal: SetString(node.Value), ok tested, error on failure
	c04Literal(c, rule)
	// ... and node.Value is the literal's text as written (digits, point, exponent marker with its sign), minus separators
	if ns := c.numberScanners(); ns.Frag != nil && ns.Num != nil {
		c12Stripped(c, ns, "C04.literal-text")
	} else {
		c.R.Undecided("C04.literal-text", "number scanner", "-", "number / fragment scanner not found")
	}
	// Float64() call sites in the module
	allowed := map[string]bool{}
	res := c.method("Runner", "Resolve")
	if res != nil {
		instrs(res, func(b *ssa.BasicBlock, i int, in ssa.Instruction) {
			if call, ok := in.(*ssa.Call); ok {
				if cal := calleeOf(call); cal != nil && c.inModule(cal) && cal != d.Fn {
					allowed[c.P.FuncKey(cal)] = true // the final conversion helper
				}
			}
		})
	}
	rr := c.ReachFrom("eval", res)
	for _, f := range rr.Order {
		instrs(f, func(b *ssa.BasicBlock, i int, in ssa.Instruction) {
			call, ok := in.(*ssa.Call)
			if !ok {
				return
			}
			cal := calleeOf(call)
			if cal == nil || cal.String() != "(*"+decimalPath+".Big).Float64" {
				return
			}
			key := c.P.FuncKey(f)
			isBridge := false
			// the host-call bridge: a function that converts a number to the Go kinds of a target reflect.Type
			for _, p := range f.Params {
				if p.Type().String() == "reflect.Type" {
					isBridge = true
				}
			}
			// the final exit written out in the entry point itself: applied to what the evaluator returned
			if f == res && !allowed[key] {
				for _, rt := range plainOrigins.Roots(call.Call.Args[0]) {
					if rt.Kind == "call" && rt.Fn != nil && c.inModule(rt.Fn) && rt.Idx == 0 && len(rt.Path) == 0 {
						isBridge = true
					}
				}
			}
			c.R.Check(rule, "Float64 in "+key, c.P.InstrPos(in), allowed[key] || isBridge, "Float64() is called inside evaluation (not at the final exit or in the host-call bridge): intermediate results would pass through binary floating point")
		})
	}
	c.R.Floor(rule, 16)
}

// lastAssertedType: the asserted type of the type assertion v's value passes through, if any.
func lastAssertedType(v ssa.Value) types.Type {
	seen := map[ssa.Value]bool{}
	for v != nil && !seen[v] {
		seen[v] = true
		switch x := v.(type) {
		case *ssa.Convert:
			v = x.X
		case *ssa.ChangeType:
			v = x.X
		case *ssa.Extract:
			if ta, ok := x.Tuple.(*ssa.TypeAssert); ok {
				return ta.AssertedType
			}
			return nil
		case *ssa.TypeAssert:
			return x.AssertedType
		default:
			return nil
		}
	}
	return nil
}

func c04Literal(c *Ctx, rule string) {
	arms, und := c.literalDispatch()
	if und != "" {
		c.R.Undecided(rule, "literal-dispatch", "-", und)
		return
	}
	arm := arms[c.SK("SK_NumberLiteral")]
	d := c.EvalDispatcher()
	h := d.Handlers["LiteralExpression"]
	if !arm.Present || h == nil {
		c.R.Check(rule, "numeric-literal", arm.Pos, false, "no evaluator arm for numeric literals")
		return
	}
	node := c.nodeParamOf(h, "LiteralExpression")
	control := c.nodeTokenFolder(c.SK("SK_Unknown")).Fold(h, makeBottoms(len(h.Params)))
	var set *ssa.Call
	for _, call := range arm.Fold.ReachableCalls() {
		cc, ok := call.(*ssa.Call)
		if !ok || control.Reach[cc.Block()] {
			continue
		}
		if cal := calleeOf(cc); cal != nil && cal.String() == "(*"+decimalPath+".Big).SetString" {
			set = cc
		}
	}
	if set == nil {
		c.R.Check(rule, "numeric-literal", arm.Pos, false, "a numeric literal must be converted from its source text with SetString")
		return
	}
	textOK := false
	for _, rt := range plainOrigins.Roots(set.Call.Args[1]) {
		if rt.Kind == "param" && rt.V == ssa.Value(node) && len(rt.Path) == 1 && rt.Path[0] == "Value" && !rt.Conv {
			textOK = true
		}
	}
	fresh, _ := c.fromNewDecimalBig(set.Call.Args[0])
	// ok result tested: false edge returns a non-nil error, true edge returns the number
	okTested := false
	for _, ref := range *set.Referrers() {
		ex, isEx := ref.(*ssa.Extract)
		if !isEx || ex.Index != 1 {
			continue
		}
		for _, r2 := range *ex.Referrers() {
			iff, isIf := r2.(*ssa.If)
			if !isIf {
				continue
			}
			fail := iff.Block().Succs[1]
			if c.blockReturnsError(fail) {
				okTested = true
			}
		}
		for _, r2 := range *ex.Referrers() {
			if u, isU := r2.(*ssa.UnOp); isU {
				for _, r3 := range *u.Referrers() {
					if iff, isIf := r3.(*ssa.If); isIf && c.blockReturnsError(iff.Block().Succs[0]) {
						okTested = true
					}
				}
			}
		}
	}
	// ... on every path: no shortcut (ParseInt, ParseFloat, a cache) produces the literal's value without SetString
	if arm.Fold != nil && arm.Fold.Fn == set.Parent() && len(set.Parent().Blocks) > 0 {
		succ := func(in ssa.Instruction) bool {
			ret, ok := in.(*ssa.Return)
			return ok && len(ret.Results) == 2 && isNilConst(ret.Results[1]) && !control.Reach[ret.Block()]
		}
		isSet := func(in ssa.Instruction) bool { return in == ssa.Instruction(set) }
		bypass := pathExistsIn(arm.Fold, nil, succ, isSet)
		c.R.Check(rule, "numeric-literal:every-path", c.P.InstrPos(set), !bypass, "there is a path on which a numeric literal yields a value without passing SetString(<literal text>): a shortcut such as strconv.ParseInt/ParseFloat reads other syntaxes (0x.., 0b.., 0o.., leading-zero octal) and other precisions than the decimal parser")
	}
	c.R.Check(rule, "numeric-literal", c.P.InstrPos(set), textOK && fresh && okTested, fmt.Sprintf("a numeric literal must be SetString(<the literal's own text>) into a fresh Context128 number with the failure turned into an error: text=%v fresh=%v failure-checked=%v", textOK, fresh, okTested))
	_ = constant.MakeBool
}

// delegateOf: under fold r every successful return of the handler is (g(...)#0, g(...)#1) for one module function g
// that receives the handler's operand values in order. Returns g.
func (c *Ctx) delegateOf(r *FoldResult, ops []*ssa.Parameter) *ssa.Function {
	var g *ssa.Function
	for _, ret := range r.Returns {
		if len(ret.Results) != 2 {
			return nil
		}
		rs0, rs1 := plainOrigins.Roots(ret.Results[0]), plainOrigins.Roots(ret.Results[1])
		if len(rs0) != 1 || len(rs1) != 1 || rs0[0].Kind != "call" || rs0[0].V != rs1[0].V || rs0[0].Fn == nil || !c.inModule(rs0[0].Fn) {
			return nil
		}
		call, ok := rs0[0].V.(*ssa.Call)
		if !ok {
			return nil
		}
		var vals []ssa.Value
		for _, a := range call.Call.Args {
			if a.Type().String() == "interface{}" || a.Type().String() == "any" {
				vals = append(vals, a)
			}
		}
		if len(vals) != len(ops) {
			return nil
		}
		for i := range vals {
			if vals[i] != ssa.Value(ops[i]) {
				return nil
			}
		}
		if g != nil && g != rs0[0].Fn {
			return nil
		}
		g = rs0[0].Fn
	}
	return g
}
