package main

import (
	"go/types"
	"strings"

	"golang.org/x/tools/go/ssa"
)

const decimalPath = "github.com/ericlagergren/decimal"

// DecimalWriters: functions of the decimal library that write into one of
// their arguments, computed from the library's own uniform convention: the
// written number is the receiver / parameter named `z`; `x`, `y` are read.
// Returned: function -> index of the written argument in ssa call args.
var decWriterCache = map[*Ctx]map[string]int{}

func (c *Ctx) DecimalWriters() map[string]int {
	if m, ok := decWriterCache[c]; ok {
		return m
	}
	out := map[string]int{}
	decWriterCache[c] = out
	var pkg *types.Package
	for _, p := range c.P.Pkgs {
		if p.PkgPath == decimalPath {
			pkg = p.Types
		}
	}
	if pkg == nil {
		return out
	}
	sc := pkg.Scope()
	for _, n := range sc.Names() {
		tn, ok := sc.Lookup(n).(*types.TypeName)
		if !ok {
			continue
		}
		nt, ok := tn.Type().(*types.Named)
		if !ok {
			continue
		}
		for i := 0; i < nt.NumMethods(); i++ {
			m := nt.Method(i)
			sig := m.Type().(*types.Signature)
			recv := sig.Recv()
			key := ""
			if _, isPtr := recv.Type().(*types.Pointer); isPtr {
				key = "(*" + decimalPath + "." + n + ")." + m.Name()
			} else {
				key = "(" + decimalPath + "." + n + ")." + m.Name()
			}
			if recv.Name() == "z" {
				out[key] = 0
				continue
			}
			for j := 0; j < sig.Params().Len(); j++ {
				if sig.Params().At(j).Name() == "z" {
					out[key] = j + 1
				}
			}
		}
	}
	return out
}

// decWrittenArg: for a call into the decimal library, the argument it writes (or -1).
func (c *Ctx) decWrittenArg(call ssa.CallInstruction) int {
	cal := calleeOf(call)
	if cal == nil {
		return -1
	}
	if k, ok := c.DecimalWriters()[cal.String()]; ok {
		return k
	}
	return -1
}

var decOriginsCache = map[*Ctx]*Origins{}

// decOrigins: origin analysis in which writer methods that return *Big carry
// the identity of the number they wrote (they `return z`).
func decOrigins(c *Ctx) *Origins {
	if o, ok := decOriginsCache[c]; ok {
		return o
	}
	o := &Origins{PassThrough: func(call *ssa.Call) int {
		k := c.decWrittenArg(call)
		if k < 0 {
			return -1
		}
		cal := calleeOf(call)
		res := cal.Signature.Results()
		if res.Len() >= 1 && strings.HasSuffix(res.At(0).Type().String(), "decimal.Big") {
			return k
		}
		return -1
	}}
	decOriginsCache[c] = o
	return o
}

// isFreshDecimal: every root of v is a fresh allocation of a number
// (newDecimalBig(), decimal.New, decimal.WithContext, new(decimal.Big)).
func (c *Ctx) isFreshDecimal(v ssa.Value) (bool, string) {
	return c.isFreshDecimalDepth(v, 0)
}

func (c *Ctx) isFreshDecimalDepth(v ssa.Value, depth int) (bool, string) {
	rs := decOrigins(c).Roots(v)
	if len(rs) == 0 {
		return false, "no origin"
	}
	for _, r := range rs {
		switch r.Kind {
		case "call":
			if len(r.Path) > 0 || r.Fn == nil {
				return false, r.String()
			}
			s := r.Fn.String()
			if r.Fn.Name() == c.P.alias("newDecimalBig") && c.inModule(r.Fn) {
				continue
			}
			if s == decimalPath+".New" || s == decimalPath+".WithContext" || s == decimalPath+".WithPrecision" {
				continue
			}
			// a module helper all of whose returns are numbers created inside it
			if c.inModule(r.Fn) && depth < 2 && len(r.Fn.Blocks) > 0 {
				allFresh, nret := true, 0
				instrs(r.Fn, func(b *ssa.BasicBlock, i int, in ssa.Instruction) {
					ret, ok := in.(*ssa.Return)
					if !ok || r.Idx >= len(ret.Results) {
						return
					}
					nret++
					if fr, _ := c.isFreshDecimalDepth(ret.Results[r.Idx], depth+1); !fr {
						allFresh = false
					}
				})
				if allFresh && nret > 0 {
					continue
				}
			}
			return false, r.String()
		case "alloc":
			if len(r.Path) == 0 {
				continue
			}
			return false, r.String()
		default:
			return false, r.String()
		}
	}
	return true, ""
}
