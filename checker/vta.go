package main

import (
	"fmt"
	"sort"

	"golang.org/x/tools/go/callgraph"
	"golang.org/x/tools/go/callgraph/cha"
	"golang.org/x/tools/go/callgraph/vta"
	"golang.org/x/tools/go/ssa"
)

// vtaCrossCheck (thorough tier): the rules use a deliberately coarse reachability (every function
// referenced from a reachable function is reachable; interface calls go to every module
// implementation). This compares it with the most precise call graph available in x/tools v0.29.0
// (VTA seeded by CHA): every module function VTA reaches from the API roots must also be in the
// coarse set, otherwise a rule could have skipped code that runs.
func (c *Ctx) vtaCrossCheck(rule string) {
	cg := vta.CallGraph(c.P.AllFuncs, cha.CallGraph(c.P.SSA))
	rr := c.apiReach()
	var roots []*ssa.Function
	roots = append(roots, c.exportedRoots()...)
	_, es, _ := c.Registry()
	for _, e := range es {
		if e.Fn != nil {
			roots = append(roots, e.Fn)
		}
	}
	seen := map[*callgraph.Node]bool{}
	var work []*callgraph.Node
	for _, r := range roots {
		if n := cg.Nodes[r]; n != nil {
			work = append(work, n)
		}
	}
	reached := 0
	var missing []string
	for len(work) > 0 {
		n := work[len(work)-1]
		work = work[:len(work)-1]
		if seen[n] {
			continue
		}
		seen[n] = true
		if n.Func != nil && c.inModule(n.Func) {
			reached++
			if !rr.In[n.Func] && len(n.Func.Blocks) > 0 {
				missing = append(missing, c.P.FuncKey(n.Func))
			}
		}
		if n.Func != nil && !c.inModule(n.Func) {
			continue // do not walk through the standard library back into the module via callbacks other than those already seen
		}
		for _, e := range n.Out {
			work = append(work, e.Callee)
		}
	}
	sort.Strings(missing)
	c.R.Analysed["vta_reachable_module_functions"] = reached
	c.R.Analysed["coarse_reachable_module_functions"] = len(rr.Order)
	c.R.Check(rule, "coarse reachability covers the VTA call graph", "-", len(missing) == 0, fmt.Sprintf("functions reachable in the VTA call graph but not in the rules' reachability set: %v", missing))
}
