package main

import (
	"fmt"
	"go/constant"
	"go/token"
	"strings"

	"golang.org/x/tools/go/ssa"
)

// pinDecimalClass resolves the classification predicates of a decimal (IsFinite, IsNaN(q), IsInf(s)) as if the
// number were of the given class: "finite", "qnan", "snan", "+inf", "-inf". IsNaN(0) holds for both kinds of NaN,
// IsNaN(>0) for quiet and IsNaN(<0) for signalling ones; IsInf(0) for both infinities, IsInf(>0) / IsInf(<0) for one.
func pinDecimalClass(class string) Pin {
	return func(v ssa.Value) (constant.Value, bool) {
		call, ok := v.(*ssa.Call)
		if !ok {
			return nil, false
		}
		cal := calleeOf(call)
		if cal == nil || !strings.HasPrefix(cal.String(), "(*"+decimalPath+".Big).") {
			return nil, false
		}
		switch cal.Name() {
		case "IsFinite":
			return constant.MakeBool(class == "finite"), true
		case "IsNaN", "IsInf":
			if len(call.Call.Args) != 2 {
				return nil, false
			}
			q, ok := constIntArg(call.Call.Args[1])
			if !ok {
				return nil, false
			}
			var pos, neg string
			if cal.Name() == "IsNaN" {
				pos, neg = "qnan", "snan"
			} else {
				pos, neg = "+inf", "-inf"
			}
			switch {
			case q == 0:
				return constant.MakeBool(class == pos || class == neg), true
			case q > 0:
				return constant.MakeBool(class == pos), true
			default:
				return constant.MakeBool(class == neg), true
			}
		}
		return nil, false
	}
}

// c18Finite: `finite` hands its argument back only when it is a finite number; a NaN of either kind, an infinity of
// either sign and a value that is not a number all become a fresh zero. Decided by folding the builtin once per class
// with the decimal classification predicates resolved for that class: no reachable return may carry the argument for a
// non-finite class, and the finite class must carry it.
func c18Finite(c *Ctx) {
	const rule = "C18.finite-classes"
	f := c.BuiltinFn("finite")
	if f == nil || len(f.Params) == 0 {
		return
	}
	x := ssa.Value(f.Params[0])
	nonNil := func(v ssa.Value) (constant.Value, bool) {
		bo, ok := v.(*ssa.BinOp)
		if !ok || bo.Op != token.EQL && bo.Op != token.NEQ {
			return nil, false
		}
		for _, av := range assertedValues(f, x, "*decimal.Big") {
			if bo.X == av && isNilConst(bo.Y) || bo.Y == av && isNilConst(bo.X) {
				return constant.MakeBool(bo.Op == token.NEQ), true
			}
		}
		return nil, false
	}
	carries := func(r *FoldResult) (carried, fresh int) {
		o := foldOrigins(r)
		for _, ret := range r.Returns {
			if len(ret.Results) == 0 {
				continue
			}
			isArg := false
			for _, rt := range o.Roots(ret.Results[0]) {
				if rt.Kind == "param" {
					isArg = true
				}
			}
			if isArg {
				carried++
			} else {
				fresh++
			}
		}
		return
	}
	for _, class := range []string{"qnan", "snan", "+inf", "-inf"} {
		r := c.foldWith(f, 0, pinTypeCase(x, "*decimal.Big"), nonNil, pinDecimalClass(class))
		carried, _ := carries(r)
		c.R.Check(rule, class, c.P.Pos(f.Pos()), carried == 0 && len(r.Returns) > 0, fmt.Sprintf("for a %s argument `finite` can return the argument itself instead of 0 (IsNaN(1) recognises quiet NaNs only, IsNaN(-1) signalling ones, IsInf(+1)/IsInf(-1) one infinity; the conversion of an empty or non-scalar value yields a signalling NaN)", class))
	}
	r := c.foldWith(f, 0, pinTypeCase(x, "*decimal.Big"), nonNil, pinDecimalClass("finite"))
	carried, fresh := carries(r)
	c.R.Check(rule, "finite", c.P.Pos(f.Pos()), carried > 0 && fresh == 0, "for a finite number `finite` must return that number")
	for _, dyn := range []string{"string", "nil", "bool"} {
		r := c.foldWith(f, 0, pinTypeCase(x, dyn))
		carried, _ := carries(r)
		c.R.Check(rule, "not-a-number:"+dyn, c.P.Pos(f.Pos()), carried == 0 && len(r.Returns) > 0, "for a value that is not a number `finite` must return 0, not the value")
	}
	c.R.Floor(rule, 8)
}
