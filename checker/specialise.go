package main

import (
	"bytes"
	"fmt"
	"go/ast"
	"go/parser"
	"go/token"
	"go/types"
	"os"
	"path/filepath"
	"sort"
	"strings"
	"unicode"
)

// Normalisation of higher-order helpers (source-to-source, in memory).
//
// A maintainer may factor code through a helper that takes a function:
//
//	func arithmetic(op func(z, x, y *decimal.Big) *decimal.Big, v1, v2 interface{}) (interface{}, error)
//	... return arithmetic((*decimal.Big).Add, v1, v2)
//
// The rules of this checker read first-order code: "the handler of `+` performs Add into a fresh number". For an
// unexported helper H whose function-typed parameter p is used only by calling it, and all of whose call sites pass
// a static function (a package function, a method expression, a method value on the helper's own receiver, or a
// closed function literal), the program is rewritten into the equivalent first-order one: one copy of H per distinct
// argument, with p(...) replaced by the argument, and each call site redirected to its copy. The copies carry //line
// directives, so every position reported still points at H's original lines. Nothing is executed; the rewritten
// package is type-checked by the normal load, and discarded if it does not check.
//
// The rewritten form is used as a fallback only: a property is first checked on the program as written; when that
// reports something and the program has such helpers, the property is checked again on the normalised program, whose
// behaviour is the same by construction.

type hoParam struct {
	name string
	pos  int // positional index among all parameters
}

type hoCand struct {
	decl     *ast.FuncDecl
	file     string
	recvName string
	isMethod bool
	params   []hoParam
	sites    []*hoSite
	rejected string
}

type hoSite struct {
	file     string
	call     *ast.CallExpr
	nameID   *ast.Ident // the identifier naming H at the call site
	subst    []string   // replacement text per function parameter
	lits     []*ast.FuncLit
	encl     *ast.FuncDecl
	specName string
	targs    []string // type arguments of a generic helper at this site
	// locals that only held a function literal handed to the helper: kept "used" after the argument is dropped
	keepAlive []keepAlive
}

type keepAlive struct {
	def  *ast.AssignStmt
	name string
}

type textEdit struct {
	start, end int
	repl       string
}

func applyEdits(src []byte, edits []textEdit) []byte {
	sort.Slice(edits, func(i, j int) bool { return edits[i].start > edits[j].start })
	out := append([]byte{}, src...)
	last := len(src) + 1
	for _, e := range edits {
		if e.end > last || e.start > e.end {
			continue // overlapping edit: skip (the load will tell)
		}
		out = append(out[:e.start], append([]byte(e.repl), out[e.end:]...)...)
		last = e.start
	}
	return out
}

func keepNewlines(b []byte) string {
	return strings.Repeat("\n", bytes.Count(b, []byte("\n")))
}

// SpecialiseHigherOrder returns replacement contents for the files it rewrites and a description of what it did.
// A helper that hands its function parameter on to another helper is resolved in rounds: first the outer one.
func SpecialiseHigherOrder(dir string, overlay map[string][]byte, protected map[string]bool) (map[string][]byte, []string) {
	cur := map[string][]byte{}
	for k, v := range overlay {
		cur[k] = v
	}
	changed := map[string][]byte{}
	var all []string
	for round := 0; round < 4; round++ {
		files, done := specialiseRound(dir, cur, protected)
		if len(done) == 0 {
			break
		}
		for k, v := range files {
			cur[k] = v
			changed[k] = v
		}
		all = append(all, done...)
	}
	if len(all) == 0 {
		return nil, nil
	}
	return changed, all
}

// specialiseRound: one pass.
func specialiseRound(dir string, overlay map[string][]byte, protected map[string]bool) (map[string][]byte, []string) {
	ents, err := os.ReadDir(dir)
	if err != nil {
		return nil, nil
	}
	src := map[string][]byte{}
	var names []string
	for _, e := range ents {
		n := e.Name()
		if e.IsDir() || !strings.HasSuffix(n, ".go") || strings.HasSuffix(n, "_test.go") {
			continue
		}
		p := filepath.Join(dir, n)
		if b, ok := overlay[p]; ok {
			src[p] = b
		} else if b, err := os.ReadFile(p); err == nil {
			src[p] = b
		}
		names = append(names, p)
	}
	sort.Strings(names)
	fset := token.NewFileSet()
	files := map[string]*ast.File{}
	for _, p := range names {
		f, err := parser.ParseFile(fset, p, src[p], parser.ParseComments|parser.SkipObjectResolution)
		if err != nil {
			return nil, nil
		}
		files[p] = f
	}
	off := func(p token.Pos) int { return fset.Position(p).Offset }
	text := func(file string, a, b token.Pos) string { return string(src[file][off(a):off(b)]) }

	funcTypeNames, typeNames, funcNames := map[string]bool{}, map[string]bool{}, map[string]bool{}
	declCount := map[string]int{}
	imports := map[string]map[string]bool{}
	var decls []*ast.FuncDecl
	declFile := map[*ast.FuncDecl]string{}
	for _, p := range names {
		imports[p] = map[string]bool{}
		for _, im := range files[p].Imports {
			path := strings.Trim(im.Path.Value, "\"")
			n := path[strings.LastIndex(path, "/")+1:]
			if im.Name != nil {
				n = im.Name.Name
			}
			imports[p][n] = true
		}
		for _, d := range files[p].Decls {
			switch x := d.(type) {
			case *ast.GenDecl:
				for _, sp := range x.Specs {
					if ts, ok := sp.(*ast.TypeSpec); ok {
						typeNames[ts.Name.Name] = true
						if _, isF := ts.Type.(*ast.FuncType); isF {
							funcTypeNames[ts.Name.Name] = true
						}
					}
				}
			case *ast.FuncDecl:
				decls = append(decls, x)
				declFile[x] = p
				declCount[x.Name.Name]++
				if x.Recv == nil {
					funcNames[x.Name.Name] = true
				}
			}
		}
	}
	isFuncType := func(e ast.Expr) bool {
		switch t := e.(type) {
		case *ast.FuncType:
			return true
		case *ast.Ident:
			return funcTypeNames[t.Name]
		}
		return false
	}
	// identifiers in defining positions inside a node (locals)
	defined := func(n ast.Node) map[string]bool {
		out := map[string]bool{}
		ast.Inspect(n, func(x ast.Node) bool {
			switch y := x.(type) {
			case *ast.AssignStmt:
				if y.Tok == token.DEFINE {
					for _, l := range y.Lhs {
						if id, ok := l.(*ast.Ident); ok {
							out[id.Name] = true
						}
					}
				}
			case *ast.ValueSpec:
				for _, id := range y.Names {
					out[id.Name] = true
				}
			case *ast.RangeStmt:
				if y.Tok == token.DEFINE {
					for _, e := range []ast.Expr{y.Key, y.Value} {
						if id, ok := e.(*ast.Ident); ok {
							out[id.Name] = true
						}
					}
				}
			case *ast.FuncType:
				for _, fl := range []*ast.FieldList{y.Params, y.Results} {
					if fl == nil {
						continue
					}
					for _, f := range fl.List {
						for _, id := range f.Names {
							out[id.Name] = true
						}
					}
				}
			case *ast.TypeSwitchStmt:
				if as, ok := y.Assign.(*ast.AssignStmt); ok {
					for _, l := range as.Lhs {
						if id, ok := l.(*ast.Ident); ok {
							out[id.Name] = true
						}
					}
				}
			case *ast.LabeledStmt:
				out[y.Label.Name] = true
			}
			return true
		})
		return out
	}
	// walk that does not visit selector field names or composite-literal keys
	var walk func(n ast.Node, parent ast.Node, f func(id *ast.Ident, parent ast.Node))
	walk = func(n ast.Node, parent ast.Node, f func(id *ast.Ident, parent ast.Node)) {
		if n == nil {
			return
		}
		switch x := n.(type) {
		case *ast.Ident:
			f(x, parent)
			return
		case *ast.SelectorExpr:
			walk(x.X, x, f)
			return
		case *ast.KeyValueExpr:
			if _, isID := x.Key.(*ast.Ident); !isID {
				walk(x.Key, x, f)
			}
			walk(x.Value, x, f)
			return
		}
		var kids []ast.Node
		ast.Inspect(n, func(c ast.Node) bool {
			if c == n {
				return true
			}
			if c != nil {
				kids = append(kids, c)
			}
			return false
		})
		for _, k := range kids {
			walk(k, n, f)
		}
	}

	// candidates
	cands := map[string]*hoCand{}
	for _, d := range decls {
		if d.Body == nil || d.Type.Params == nil || declCount[d.Name.Name] != 1 {
			continue
		}
		if r := []rune(d.Name.Name); len(r) == 0 || unicode.IsUpper(r[0]) {
			continue
		}
		c := &hoCand{decl: d, file: declFile[d], isMethod: d.Recv != nil}
		if d.Recv != nil && len(d.Recv.List) == 1 && len(d.Recv.List[0].Names) == 1 {
			c.recvName = d.Recv.List[0].Names[0].Name
		}
		idx := 0
		variadic := false
		for _, f := range d.Type.Params.List {
			if _, isEll := f.Type.(*ast.Ellipsis); isEll {
				variadic = true
			}
			n := len(f.Names)
			if n == 0 {
				n = 1
			}
			for k := 0; k < n; k++ {
				if isFuncType(f.Type) && len(f.Names) > 0 {
					c.params = append(c.params, hoParam{f.Names[k].Name, idx})
				}
				idx++
			}
		}
		if len(c.params) == 0 || variadic || isLookaheadPrimitive(d) {
			continue
		}
		// helpers the rules themselves recognise as anchors (the delimited-list loop, the look-ahead wrappers) are read
		// as they stand
		pkey := d.Name.Name
		if d.Recv != nil && len(d.Recv.List) == 1 {
			t := d.Recv.List[0].Type
			if st, ok := t.(*ast.StarExpr); ok {
				t = st.X
			}
			if ix, ok := t.(*ast.IndexExpr); ok {
				t = ix.X
			}
			if id, ok := t.(*ast.Ident); ok {
				pkey = id.Name + "." + d.Name.Name
			}
		}
		if protected[pkey] {
			continue
		}
		// p is used only by calling it
		locals := defined(d.Body)
		for _, hp := range c.params {
			if locals[hp.name] {
				c.rejected = "parameter " + hp.name + " is redeclared in the body"
			}
			walk(d.Body, nil, func(id *ast.Ident, parent ast.Node) {
				if id.Name != hp.name {
					return
				}
				if call, ok := parent.(*ast.CallExpr); ok {
					if call.Fun == ast.Expr(id) {
						return
					}
					// handed on, as it is, to another function: resolved when that one is specialised in a later round
					for _, a := range call.Args {
						if a == ast.Expr(id) {
							return
						}
					}
				}
				c.rejected = "parameter " + hp.name + " is used other than by calling it or handing it on"
			})
		}
		if c.rejected == "" {
			cands[d.Name.Name] = c
		}
	}
	if len(cands) == 0 {
		return nil, nil
	}
	// call sites and other references
	for _, p := range names {
		for _, dd := range files[p].Decls {
			var encl *ast.FuncDecl
			if fd, ok := dd.(*ast.FuncDecl); ok {
				encl = fd
			}
			var visit func(n ast.Node, parent ast.Node)
			visit = func(n ast.Node, parent ast.Node) {
				if n == nil {
					return
				}
				switch x := n.(type) {
				case *ast.CallExpr:
					var id *ast.Ident
					switch fn := x.Fun.(type) {
					case *ast.Ident:
						id = fn
					case *ast.SelectorExpr:
						id = fn.Sel
					}
					if id != nil {
						if c, ok := cands[id.Name]; ok {
							_, viaSel := x.Fun.(*ast.SelectorExpr)
							if viaSel == c.isMethod {
								c.sites = append(c.sites, &hoSite{file: p, call: x, nameID: id, encl: encl})
								if sel, ok := x.Fun.(*ast.SelectorExpr); ok {
									visit(sel.X, x)
								}
								for _, a := range x.Args {
									visit(a, x)
								}
								return
							}
						}
					}
				case *ast.Ident:
					if c, ok := cands[x.Name]; ok && !c.isMethod {
						if fd, isFD := parent.(*ast.FuncDecl); !isFD || fd.Name != x {
							c.rejected = "referenced as a value"
						}
					}
					return
				case *ast.SelectorExpr:
					if c, ok := cands[x.Sel.Name]; ok && c.isMethod {
						c.rejected = "referenced as a method value"
					}
					visit(x.X, x)
					return
				case *ast.FuncDecl:
					if x.Recv != nil {
						visit(x.Recv, x)
					}
					visit(x.Type, x)
					if x.Body != nil {
						visit(x.Body, x)
					}
					return
				}
				var kids []ast.Node
				ast.Inspect(n, func(c ast.Node) bool {
					if c == n {
						return true
					}
					if c != nil {
						kids = append(kids, c)
					}
					return false
				})
				for _, k := range kids {
					visit(k, n)
				}
			}
			visit(dd, nil)
		}
	}
	// classify arguments
	staticExpr := func(file string, e ast.Expr) bool {
		okShape := true
		var root *ast.Ident
		var chk func(x ast.Expr)
		chk = func(x ast.Expr) {
			switch y := x.(type) {
			case *ast.Ident:
				if root == nil {
					root = y
				}
			case *ast.SelectorExpr:
				chk(y.X)
			case *ast.ParenExpr:
				chk(y.X)
			case *ast.StarExpr:
				chk(y.X)
			default:
				okShape = false
			}
		}
		chk(e)
		if !okShape || root == nil {
			return false
		}
		if _, isSel := e.(*ast.SelectorExpr); !isSel {
			return false
		}
		return imports[file][root.Name] || typeNames[root.Name]
	}
	for _, c := range cands {
		if c.rejected != "" || len(c.sites) == 0 {
			if c.rejected == "" {
				c.rejected = "no call sites"
			}
			continue
		}
		for _, s := range c.sites {
			if s.call.Ellipsis.IsValid() {
				c.rejected = "spread call"
				break
			}
			var enclLocals map[string]bool
			if s.encl != nil {
				enclLocals = defined(s.encl)
				if s.encl.Recv != nil {
					for _, f := range s.encl.Recv.List {
						for _, id := range f.Names {
							enclLocals[id.Name] = true
						}
					}
				}
			} else {
				enclLocals = map[string]bool{}
			}
			for _, hp := range c.params {
				if hp.pos >= len(s.call.Args) {
					c.rejected = "argument count"
					break
				}
				a := s.call.Args[hp.pos]
				sub := ""
				// a local bound once to a function literal (`neg := func(..) {..}; helper(v, neg)`) stands for the literal
				if id, ok := a.(*ast.Ident); ok && s.encl != nil && enclLocals[id.Name] {
					if lit, def := singleFuncLitDef(s.encl, id.Name); lit != nil {
						a = lit
						s.keepAlive = append(s.keepAlive, keepAlive{def, id.Name})
					}
				}
				switch x := a.(type) {
				case *ast.Ident:
					if funcNames[x.Name] && !enclLocals[x.Name] {
						sub = x.Name
					}
				case *ast.SelectorExpr:
					if staticExpr(s.file, x) {
						sub = text(s.file, x.Pos(), x.End())
					} else if r, ok := x.X.(*ast.Ident); ok && c.isMethod && c.recvName != "" && c.recvName != "_" {
						if sel, ok := s.call.Fun.(*ast.SelectorExpr); ok {
							if r2, ok := sel.X.(*ast.Ident); ok && r2.Name == r.Name {
								sub = c.recvName + "." + x.Sel.Name
							}
						}
					}
					// a method value on a plain name that is itself handed to the helper (`helper(p, .., p.parse)`):
					// inside the helper that name is the corresponding parameter, provided the helper never rebinds it
					if r, ok := x.X.(*ast.Ident); ok && sub == "" && !imports[s.file][r.Name] && !typeNames[r.Name] {
						if pn := paramReceiving(c.decl, s.call, r.Name); pn != "" {
							sub = pn + "." + x.Sel.Name
						}
					}
				case *ast.FuncLit:
					inner := defined(x)
					closed := true
					walk(x, nil, func(id *ast.Ident, parent ast.Node) {
						if inner[id.Name] {
							return
						}
						if enclLocals[id.Name] {
							closed = false
						}
					})
					// names of the helper's own locals must not be captured by accident after substitution
					hl := defined(c.decl)
					walk(x, nil, func(id *ast.Ident, parent ast.Node) {
						if !inner[id.Name] && (hl[id.Name] || id.Name == c.recvName) {
							closed = false
						}
					})
					if closed {
						sub = "(" + text(s.file, x.Pos(), x.End()) + ")"
					}
				}
				if sub == "" {
					c.rejected = "a call site passes a function that is not static: " + text(s.file, a.Pos(), a.End())
					break
				}
				s.subst = append(s.subst, sub)
				lit, _ := a.(*ast.FuncLit)
				s.lits = append(s.lits, lit)
			}
			if c.rejected != "" {
				break
			}
		}
	}
	// generic helpers: the type arguments each call site instantiates them with
	var instances map[string][]string
	for _, c := range cands {
		if c.rejected != "" || c.decl.Type.TypeParams == nil {
			continue
		}
		if instances == nil {
			instances = loadInstances(dir, overlay)
		}
		for _, s := range c.sites {
			if _, plain := s.call.Fun.(*ast.Ident); !plain {
				c.rejected = "generic helper called through a selector or with explicit type arguments"
				break
			}
			ta := instances[fmt.Sprintf("%s:%d", s.file, off(s.nameID.Pos()))]
			if len(ta) == 0 {
				c.rejected = "type arguments of a generic helper not known at a call site"
				break
			}
			s.targs = ta
		}
	}
	// names of specialised copies
	var done []string
	edits := map[string][]textEdit{}
	appendix := map[string][]string{}
	var order []string
	for n := range cands {
		order = append(order, n)
	}
	sort.Strings(order)
	// a site inside a helper that is itself rewritten would need two passes: leave such helpers alone
	for _, n := range order {
		c := cands[n]
		if c.rejected != "" {
			continue
		}
		for _, s := range c.sites {
			if s.encl != nil {
				if oc, ok := cands[s.encl.Name.Name]; ok && oc.rejected == "" {
					c.rejected = "called from another specialised helper"
				}
			}
		}
	}
	for _, n := range order {
		c := cands[n]
		if c.rejected != "" {
			continue
		}
		specs := map[string]string{}
		specLits := map[string][]*ast.FuncLit{}
		specLitFile := map[string]string{}
		specTArgs := map[string][]string{}
		var specOrder []string
		for _, s := range c.sites {
			key := strings.Join(s.subst, "\x00")
			if len(s.targs) > 0 {
				key += "\x01" + strings.Join(s.targs, "\x00")
			}
			if _, ok := specs[key]; !ok {
				specTArgs[key] = s.targs
				specs[key] = fmt.Sprintf("%s__ho%d", n, len(specs)+1)
				specOrder = append(specOrder, key)
				specLits[key] = s.lits
				specLitFile[key] = s.file
			}
			s.specName = specs[key]
			// call-site edits: rename, drop the function arguments
			edits[s.file] = append(edits[s.file], textEdit{off(s.nameID.Pos()), off(s.nameID.End()), s.specName})
			drop := map[int]bool{}
			for _, hp := range c.params {
				drop[hp.pos] = true
			}
			var keep []string
			for i, a := range s.call.Args {
				if !drop[i] {
					keep = append(keep, text(s.file, a.Pos(), a.End()))
				}
			}
			lp, rp := off(s.call.Lparen)+1, off(s.call.Rparen)
			inner := src[s.file][lp:rp]
			repl := strings.Join(keep, ", ")
			if nl := keepNewlines(inner); nl != "" {
				if repl != "" {
					repl += ","
				}
				repl += nl
			}
			edits[s.file] = append(edits[s.file], textEdit{lp, rp, repl})
			for _, ka := range s.keepAlive {
				at := off(ka.def.End())
				edits[s.file] = append(edits[s.file], textEdit{at, at, "; _ = " + ka.name})
			}
		}
		// the copies
		d := c.decl
		line := fset.Position(d.Pos()).Line
		for _, key := range specOrder {
			subst := strings.Split(strings.SplitN(key, "\x01", 2)[0], "\x00")
			var es []textEdit
			base := off(d.Pos())
			body := src[c.file][off(d.Pos()):off(d.End())]
			es = append(es, textEdit{off(d.Name.Pos()) - base, off(d.Name.End()) - base, specs[key]})
			// parameter list without the function parameters
			dropName := map[string]string{}
			for i, hp := range c.params {
				dropName[hp.name] = subst[i]
			}
			var keepFields []string
			for _, f := range d.Type.Params.List {
				var ns []string
				for _, id := range f.Names {
					if _, isDrop := dropName[id.Name]; !isDrop {
						ns = append(ns, id.Name)
					}
				}
				ftext := text(c.file, f.Type.Pos(), f.Type.End())
				if d.Type.TypeParams != nil {
					// substitute type parameters inside the kept parameter types
					var tes []textEdit
					tb := off(f.Type.Pos())
					ti := 0
					tsub := map[string]string{}
					for _, tf := range d.Type.TypeParams.List {
						for _, id := range tf.Names {
							if ti < len(specTArgs[key]) {
								tsub[id.Name] = specTArgs[key][ti]
							}
							ti++
						}
					}
					walk(f.Type, nil, func(id *ast.Ident, parent ast.Node) {
						if t, ok := tsub[id.Name]; ok {
							tes = append(tes, textEdit{off(id.Pos()) - tb, off(id.End()) - tb, t})
						}
					})
					ftext = string(applyEdits([]byte(ftext), tes))
				}
				if len(f.Names) == 0 {
					keepFields = append(keepFields, ftext)
				} else if len(ns) > 0 {
					keepFields = append(keepFields, strings.Join(ns, ", ")+" "+ftext)
				}
			}
			plp, prp := off(d.Type.Params.Opening)+1-base, off(d.Type.Params.Closing)-base
			prepl := strings.Join(keepFields, ", ")
			if nl := keepNewlines(body[plp:prp]); nl != "" {
				if prepl != "" {
					prepl += ","
				}
				prepl += nl
			}
			es = append(es, textEdit{plp, prp, prepl})
			// a generic helper: the copy is the instance the call sites use (type arguments from the type checker)
			if d.Type.TypeParams != nil {
				tsub := map[string]string{}
				ti := 0
				for _, f := range d.Type.TypeParams.List {
					for _, id := range f.Names {
						if ti < len(specTArgs[key]) {
							tsub[id.Name] = specTArgs[key][ti]
						}
						ti++
					}
				}
				es = append(es, textEdit{off(d.Type.TypeParams.Opening) - base, off(d.Type.TypeParams.Closing) + 1 - base, ""})
				locals := defined(d)
				repl := func(id *ast.Ident, parent ast.Node) {
					if t, ok := tsub[id.Name]; ok && !locals[id.Name] {
						es = append(es, textEdit{off(id.Pos()) - base, off(id.End()) - base, t})
					}
				}
				// parameter types that stay, results, body
				for _, f := range d.Type.Params.List {
					keepField := len(f.Names) == 0
					for _, id := range f.Names {
						if _, isDrop := dropName[id.Name]; !isDrop {
							keepField = true
						}
					}
					_ = keepField
				}
				if d.Type.Results != nil {
					walk(d.Type.Results, nil, repl)
				}
				walk(d.Body, nil, repl)
			}
			litOf := map[string]*ast.FuncLit{}
			for i, hp := range c.params {
				if i < len(specLits[key]) {
					litOf[hp.name] = specLits[key][i]
				}
			}
			walk(d.Body, nil, func(id *ast.Ident, parent ast.Node) {
				if sub, ok := dropName[id.Name]; ok {
					if call, isCall := parent.(*ast.CallExpr); isCall && call.Fun == ast.Expr(id) {
						// a literal `func(a, b T) R { return E }` applied to plain names: E with the names put in
						if lit := litOf[id.Name]; lit != nil {
							if red, ok := betaReduce(lit, call, func(a, b token.Pos) string { return text(specLitFile[key], a, b) }, func(a, b token.Pos) string { return text(c.file, a, b) }, off); ok {
								es = append(es, textEdit{off(call.Pos()) - base, off(call.End()) - base, "(" + red + ")"})
								return
							}
						}
						if plainName(sub) {
							es = append(es, textEdit{off(id.Pos()) - base, off(id.End()) - base, sub})
						} else {
							es = append(es, textEdit{off(id.Pos()) - base, off(id.End()) - base, "(" + sub + ")"})
						}
						return
					}
					// handed on as an argument
					es = append(es, textEdit{off(id.Pos()) - base, off(id.End()) - base, sub})
				}
			})
			appendix[c.file] = append(appendix[c.file], fmt.Sprintf("\n//line %s:%d\n%s\n", filepath.Base(c.file), line, applyEdits(body, es)))
		}
		// the original helper has no callers left: blank it (line structure kept)
		edits[c.file] = append(edits[c.file], textEdit{off(d.Pos()), off(d.End()), keepNewlines(src[c.file][off(d.Pos()):off(d.End())])})
		done = append(done, fmt.Sprintf("%s (%d call sites, %d copies)", n, len(c.sites), len(specs)))
	}
	if os.Getenv("FCHECK_DEBUG") != "" {
		for _, n := range order {
			fmt.Printf("normalise: %s: %s\n", n, map[bool]string{true: "specialised", false: "left alone: " + cands[n].rejected}[cands[n].rejected == ""])
		}
	}
	if len(done) == 0 {
		return nil, nil
	}
	out := map[string][]byte{}
	for f, es := range edits {
		b := applyEdits(src[f], es)
		for _, a := range appendix[f] {
			b = append(b, []byte(a)...)
		}
		out[f] = b
	}
	for f, as := range appendix {
		if _, ok := out[f]; !ok {
			b := append([]byte{}, src[f]...)
			for _, a := range as {
				b = append(b, []byte(a)...)
			}
			out[f] = b
		}
	}
	sort.Strings(done)
	return out, done
}

// isLookaheadPrimitive: the scanner's look-ahead helpers (n int, test) int are modelled by the analysis as
// primitives with a checked meaning (C14.peek-helpers); they are not specialised.
func isLookaheadPrimitive(d *ast.FuncDecl) bool {
	if d.Recv == nil || len(d.Recv.List) != 1 {
		return false
	}
	t := d.Recv.List[0].Type
	if st, ok := t.(*ast.StarExpr); ok {
		t = st.X
	}
	if id, ok := t.(*ast.Ident); !ok || id.Name != "Scanner" {
		return false
	}
	n := 0
	for _, f := range d.Type.Params.List {
		k := len(f.Names)
		if k == 0 {
			k = 1
		}
		n += k
	}
	if n != 2 || d.Type.Results == nil || len(d.Type.Results.List) != 1 {
		return false
	}
	first, ok1 := d.Type.Params.List[0].Type.(*ast.Ident)
	res, ok2 := d.Type.Results.List[0].Type.(*ast.Ident)
	return ok1 && ok2 && first.Name == "int" && res.Name == "int"
}

// betaReduce: lit is `func(x1, .., xn T) R { return E }` and call applies the parameter it replaces to n plain
// identifiers; returns E with xi replaced by the i-th argument (textually, on identifier occurrences).
func betaReduce(lit *ast.FuncLit, call *ast.CallExpr, litText, helperText func(a, b token.Pos) string, off func(token.Pos) int) (string, bool) {
	if len(lit.Body.List) != 1 {
		return "", false
	}
	ret, ok := lit.Body.List[0].(*ast.ReturnStmt)
	if !ok || len(ret.Results) != 1 {
		return "", false
	}
	var params []string
	for _, f := range lit.Type.Params.List {
		for _, id := range f.Names {
			params = append(params, id.Name)
		}
	}
	if len(params) != len(call.Args) || len(params) == 0 {
		return "", false
	}
	e := ret.Results[0]
	uses := map[string]int{}
	ast.Inspect(e, func(n ast.Node) bool {
		if id, ok := n.(*ast.Ident); ok {
			uses[id.Name]++
		}
		return true
	})
	arg := map[string]string{}
	for i, a := range call.Args {
		if id, ok := a.(*ast.Ident); ok {
			arg[params[i]] = id.Name
			continue
		}
		// an arbitrary argument expression may replace a parameter that is used exactly once
		if uses[params[i]] != 1 {
			return "", false
		}
		arg[params[i]] = "(" + helperText(a.Pos(), a.End()) + ")"
	}
	// nested function literals would need capture analysis: refuse
	nested := false
	ast.Inspect(e, func(n ast.Node) bool {
		if _, ok := n.(*ast.FuncLit); ok {
			nested = true
		}
		return true
	})
	if nested {
		return "", false
	}
	base := off(e.Pos())
	src := []byte(litText(e.Pos(), e.End()))
	var es []textEdit
	var visit func(n ast.Node)
	visit = func(n ast.Node) {
		switch x := n.(type) {
		case *ast.Ident:
			if r, ok := arg[x.Name]; ok {
				es = append(es, textEdit{off(x.Pos()) - base, off(x.End()) - base, r})
			}
			return
		case *ast.SelectorExpr:
			visit(x.X)
			return
		case *ast.KeyValueExpr:
			visit(x.Value)
			return
		}
		var kids []ast.Node
		ast.Inspect(n, func(c ast.Node) bool {
			if c == n {
				return true
			}
			if c != nil {
				kids = append(kids, c)
			}
			return false
		})
		for _, k := range kids {
			visit(k)
		}
	}
	visit(e)
	return string(applyEdits(src, es)), true
}

// singleFuncLitDef: inside fn, name is defined exactly once, by `name := func(...) {...}` (alone on its left-hand
// side), and never assigned again. Returns the literal and the defining statement.
func singleFuncLitDef(fn *ast.FuncDecl, name string) (*ast.FuncLit, *ast.AssignStmt) {
	var lit *ast.FuncLit
	var def *ast.AssignStmt
	n := 0
	bad := false
	ast.Inspect(fn, func(x ast.Node) bool {
		switch y := x.(type) {
		case *ast.AssignStmt:
			for i, l := range y.Lhs {
				id, ok := l.(*ast.Ident)
				if !ok || id.Name != name {
					continue
				}
				n++
				if y.Tok == token.DEFINE && len(y.Lhs) == 1 && len(y.Rhs) == 1 && i == 0 {
					if fl, ok := y.Rhs[0].(*ast.FuncLit); ok {
						lit, def = fl, y
						continue
					}
				}
				bad = true
			}
		case *ast.UnaryExpr:
			if id, ok := y.X.(*ast.Ident); ok && y.Op == token.AND && id.Name == name {
				bad = true
			}
		case *ast.IncDecStmt:
			if id, ok := y.X.(*ast.Ident); ok && id.Name == name {
				bad = true
			}
		}
		return true
	})
	if bad || n != 1 || lit == nil {
		return nil, nil
	}
	return lit, def
}

// paramReceiving: at call, the plain identifier name is passed as an argument to a named, non-function parameter of
// helper d that the helper never assigns, increments or takes the address of; returns that parameter's name.
func paramReceiving(d *ast.FuncDecl, call *ast.CallExpr, name string) string {
	pos := -1
	for i, a := range call.Args {
		if id, ok := a.(*ast.Ident); ok && id.Name == name {
			pos = i
		}
	}
	if pos < 0 {
		return ""
	}
	i := 0
	pn := ""
	for _, f := range d.Type.Params.List {
		if len(f.Names) == 0 {
			i++
			continue
		}
		for _, id := range f.Names {
			if i == pos {
				if _, isFn := f.Type.(*ast.FuncType); !isFn {
					pn = id.Name
				}
			}
			i++
		}
	}
	if pn == "" || pn == "_" {
		return ""
	}
	rebound := false
	ast.Inspect(d.Body, func(n ast.Node) bool {
		switch x := n.(type) {
		case *ast.AssignStmt:
			for _, l := range x.Lhs {
				if id, ok := l.(*ast.Ident); ok && id.Name == pn {
					rebound = true
				}
			}
		case *ast.IncDecStmt:
			if id, ok := x.X.(*ast.Ident); ok && id.Name == pn {
				rebound = true
			}
		case *ast.UnaryExpr:
			if id, ok := x.X.(*ast.Ident); ok && x.Op == token.AND && id.Name == pn {
				rebound = true
			}
		case *ast.RangeStmt:
			for _, e := range []ast.Expr{x.Key, x.Value} {
				if id, ok := e.(*ast.Ident); ok && id.Name == pn {
					rebound = true
				}
			}
		}
		return true
	})
	if rebound {
		return ""
	}
	return pn
}

// loadInstances type-checks the package (no SSA) and returns, for every identifier that denotes an instantiated generic
// function, its type arguments as source text valid inside the package; keyed by "file:offset".
func loadInstances(dir string, overlay map[string][]byte) map[string][]string {
	out := map[string][]string{}
	p, err := Load(dir, overlay, "", false)
	if err != nil {
		return out
	}
	qual := func(pk *types.Package) string {
		if pk == p.Types {
			return ""
		}
		return pk.Name()
	}
	for id, inst := range p.Root.TypesInfo.Instances {
		var ts []string
		for i := 0; i < inst.TypeArgs.Len(); i++ {
			ts = append(ts, types.TypeString(inst.TypeArgs.At(i), qual))
		}
		f := p.Fset.File(id.Pos())
		out[fmt.Sprintf("%s:%d", f.Name(), f.Offset(id.Pos()))] = ts
	}
	return out
}

// plainName: an identifier or a dotted chain of identifiers (needs no parentheses in call position).
func plainName(s string) bool {
	if s == "" {
		return false
	}
	for _, r := range s {
		if !(r == '.' || r == '_' || unicode.IsLetter(r) || unicode.IsDigit(r)) {
			return false
		}
	}
	return true
}
