package main

import (
	"go/types"
	"sort"

	"golang.org/x/tools/go/ssa"
)

// AllocSite: `new(T)` of a node type inside a module function.
type AllocSite struct {
	Fn    *ssa.Function
	Alloc *ssa.Alloc
	Type  string
}

// nodeAllocs lists heap allocations of tree node types (the ten expression
// node types plus TokenNode, NodeList and SourceCode) in functions reachable
// from the given set.
func (c *Ctx) nodeAllocs(in map[*ssa.Function]bool) []AllocSite {
	var out []AllocSite
	for _, f := range c.P.ModFuncs {
		if in != nil && !in[f] {
			continue
		}
		instrs(f, func(b *ssa.BasicBlock, i int, ins ssa.Instruction) {
			a, ok := ins.(*ssa.Alloc)
			if !ok {
				return
			}
			n := namedOf(a.Type())
			if n == nil || n.Obj().Pkg() != c.P.Types {
				return
			}
			if _, isStruct := n.Underlying().(*types.Struct); !isStruct {
				return
			}
			name := n.Obj().Name()
			if c.isNodeTypeName(name) || name == "TokenNode" || name == "NodeList" || name == "SourceCode" {
				out = append(out, AllocSite{f, a, name})
			}
		})
	}
	sort.Slice(out, func(i, j int) bool {
		if out[i].Fn != out[j].Fn {
			return c.P.FuncKey(out[i].Fn) < c.P.FuncKey(out[j].Fn)
		}
		return out[i].Alloc.Pos() < out[j].Alloc.Pos()
	})
	return out
}

// trivialTarget: if f does nothing but return the result of one call to g
// (passing through its own parameters or constants), returns g.
func (c *Ctx) trivialTarget(f *ssa.Function) *ssa.Function {
	if f == nil || len(f.Blocks) != 1 {
		return nil
	}
	var call *ssa.Call
	n := 0
	for _, in := range f.Blocks[0].Instrs {
		switch x := in.(type) {
		case *ssa.Call:
			call = x
			n++
		case *ssa.Return:
			if len(x.Results) != 1 || call == nil || x.Results[0] != ssa.Value(call) {
				// allow an interface conversion of the call result
				if len(x.Results) == 1 && call != nil {
					if mi, ok := x.Results[0].(*ssa.MakeInterface); ok && mi.X == ssa.Value(call) {
						continue
					}
					if ci, ok := x.Results[0].(*ssa.ChangeInterface); ok && ci.X == ssa.Value(call) {
						continue
					}
				}
				return nil
			}
		case *ssa.MakeInterface, *ssa.ChangeInterface, *ssa.ChangeType:
		default:
			return nil
		}
	}
	if n != 1 {
		return nil
	}
	g := calleeOf(call)
	if g == nil || !c.inModule(g) {
		return nil
	}
	return g
}

// canon follows trivial wrappers: parseUnaryExpression -> parseSimpleUnaryExpression.
func (c *Ctx) canon(f *ssa.Function) *ssa.Function {
	seen := map[*ssa.Function]bool{}
	for f != nil && !seen[f] {
		seen[f] = true
		g := c.trivialTarget(f)
		if g == nil {
			break
		}
		f = g
	}
	return f
}

// ParserRoles: the parse functions by what they allocate and consult.
type ParserRoles struct {
	Entry             *ssa.Function // ParseSourceCode
	Worker            *ssa.Function // allocates/fills the SourceCode, primes the scanner
	Expr              *ssa.Function // comma level: callee whose result becomes SourceCode.Expression
	Assign            *ssa.Function // calls Binary with a constant entry precedence
	Cond              *ssa.Function // allocates ConditionalExpression
	Binary            *ssa.Function // wrapper: unary operand, then Climb with its int parameter
	Climb             *ssa.Function // the precedence-climbing loop
	Prec              *ssa.Function // precedence function of the current token
	Unary             *ssa.Function // canonical unary parser (switch over prefix tokens)
	Prefix            *ssa.Function // allocates PrefixUnaryExpression
	TypeOf            *ssa.Function // allocates TypeOfExpression
	LHS               *ssa.Function // member-or-higher then call rest
	CallRest          *ssa.Function // allocates CallExpression
	MemberHi          *ssa.Function // primary then member rest
	MergedLHS         bool          // LHS itself does primary, member rest and call rest (MemberHi == LHS)
	MergedBinary      bool          // the climbing loop parses its first operand itself (Binary == Climb)
	MemberRest        *ssa.Function // allocates SelectorExpression
	Primary           *ssa.Function
	Paren             *ssa.Function // allocates ParenthesizedExpression
	Array             *ssa.Function // allocates ArrayLiteralExpression
	ArgList           *ssa.Function // parses ( args [...] )
	List              *ssa.Function // generic instance of the delimited list loop in use
	MakeBinary        *ssa.Function // allocates BinaryExpression
	RightOfDot        *ssa.Function
	Literal           *ssa.Function // allocates LiteralExpression
	CreateIdent       *ssa.Function // allocates Identifier
	ParseToken        *ssa.Function // allocates TokenNode on every path (must-consumer)
	EntryPrec         []int64       // constant entry precedences passed by Assign
	ClimbPrecParam    int           // index of Climb's precedence parameter
	ClimbOperandParam int
	Reach             *ReachResult
	Missing           []string
}

func (c *Ctx) allocatorsOf(sites []AllocSite, typ string) []*ssa.Function {
	var out []*ssa.Function
	seen := map[*ssa.Function]bool{}
	for _, s := range sites {
		if s.Type == typ && !seen[s.Fn] {
			seen[s.Fn] = true
			out = append(out, s.Fn)
		}
	}
	return out
}

var rolesCache = map[*Ctx]*ParserRoles{}

func (c *Ctx) Roles() *ParserRoles {
	if r, ok := rolesCache[c]; ok {
		return r
	}
	r := &ParserRoles{}
	rolesCache[c] = r
	r.Entry = c.fn("ParseSourceCode")
	if r.Entry == nil {
		r.Missing = append(r.Missing, "ParseSourceCode")
		return r
	}
	r.Reach = c.ReachFrom("parse", r.Entry)
	sites := c.nodeAllocs(r.Reach.In)
	one := func(typ string, prefer string) *ssa.Function {
		fs := c.allocatorsOf(sites, typ)
		if len(fs) == 1 {
			return fs[0]
		}
		for _, f := range fs {
			if f.Name() == prefer {
				return f
			}
		}
		if len(fs) > 0 {
			return fs[0]
		}
		r.Missing = append(r.Missing, "allocator of "+typ)
		return nil
	}
	r.Cond = one("ConditionalExpression", "parseConditionalExpression")
	r.Prefix = one("PrefixUnaryExpression", "parsePrefixUnaryExpression")
	r.TypeOf = one("TypeOfExpression", "parseTypeOfExpression")
	r.CallRest = one("CallExpression", "parseCallExpressionRest")
	r.MemberRest = one("SelectorExpression", "parseMemberExpressionRest")
	r.Paren = one("ParenthesizedExpression", "parseParenthesizedExpression")
	r.Array = one("ArrayLiteralExpression", "parseArrayLiteralExpression")
	r.MakeBinary = one("BinaryExpression", "makeBinaryExpression")
	r.Literal = one("LiteralExpression", "parseLiteralExpressionRest")
	r.CreateIdent = one("Identifier", "createIdentifier")
	// worker: allocates or stores into SourceCode.Expression
	for _, f := range r.Reach.Order {
		instrs(f, func(b *ssa.BasicBlock, i int, in ssa.Instruction) {
			st, ok := in.(*ssa.Store)
			if !ok {
				return
			}
			fa, ok := st.Addr.(*ssa.FieldAddr)
			if !ok || typeName(fa.X.Type()) != "SourceCode" || fieldName(fa) != "Expression" {
				return
			}
			r.Worker = f
			for _, rt := range plainOrigins.Roots(st.Val) {
				if rt.Kind == "call" && rt.Fn != nil {
					r.Expr = c.canon(rt.Fn) // a wrapper that only forwards to the function holding the comma loop counts as that function
				}
			}
		})
	}
	if r.Worker == nil {
		r.Missing = append(r.Missing, "worker (store to SourceCode.Expression)")
	}
	if r.Expr == nil {
		r.Missing = append(r.Missing, "top-level expression parser")
	}
	// climb + prec: a loop comparing a call result (int, no args) with an int parameter
	for _, f := range r.Reach.Order {
		if r.Climb != nil {
			break
		}
		for _, l := range naturalLoops(f) {
			for b := range l.Body {
				for _, in := range b.Instrs {
					bo, ok := in.(*ssa.BinOp)
					if !ok {
						continue
					}
					for _, pair := range [][2]ssa.Value{{bo.X, bo.Y}, {bo.Y, bo.X}} {
						par, ok2 := pair[1].(*ssa.Parameter)
						if !ok2 {
							continue
						}
						if bt, ok := par.Type().Underlying().(*types.Basic); !ok || bt.Info()&types.IsInteger == 0 {
							continue
						}
						// the other side: a call, or a loop variable fed only by calls, of one niladic module function
						var cal *ssa.Function
						okCalls := true
						n := 0
						for _, rt := range plainOrigins.Roots(pair[0]) {
							if rt.Kind != "call" || rt.Fn == nil || !c.inModule(rt.Fn) || rt.Fn.Signature.Params().Len() != 0 || len(rt.Path) != 0 {
								okCalls = false
								continue
							}
							if cal != nil && cal != rt.Fn {
								okCalls = false
							}
							cal = rt.Fn
							n++
						}
						if !okCalls || cal == nil || n == 0 {
							continue
						}
						r.Climb = f
						r.Prec = cal
						r.ClimbPrecParam = paramIndex(par)
					}
				}
			}
		}
	}
	if r.Climb == nil {
		r.Missing = append(r.Missing, "precedence climbing loop")
		return r
	}
	// the operand parameter of Climb: its Expression-typed parameter
	r.ClimbOperandParam = -1
	for i, p := range r.Climb.Params {
		if typeName(p.Type()) == "Expression" {
			r.ClimbOperandParam = i
		}
	}
	// Binary: a caller of Climb (other than Climb itself) passing its own int parameter
	for _, f := range r.Reach.Order {
		if f == r.Climb {
			continue
		}
		instrs(f, func(b *ssa.BasicBlock, i int, in ssa.Instruction) {
			call, ok := in.(*ssa.Call)
			if !ok || calleeOf(call) != r.Climb {
				return
			}
			if _, ok := call.Call.Args[r.ClimbPrecParam].(*ssa.Parameter); ok {
				r.Binary = f
				if r.ClimbOperandParam >= 0 {
					for _, rt := range plainOrigins.Roots(call.Call.Args[r.ClimbOperandParam]) {
						if rt.Kind == "call" && rt.Fn != nil {
							r.Unary = c.canon(rt.Fn)
						}
					}
				}
			}
		})
	}
	if r.Binary == nil && r.ClimbOperandParam < 0 {
		// wrapper and loop in one function: it parses its first operand itself and recurses for the right operands
		self := false
		for _, cs := range callsTo(r.Climb, r.Climb) {
			if _, ok := cs.Call.Args[r.ClimbPrecParam].(*ssa.Parameter); !ok {
				self = true
			}
		}
		if self {
			var first *ssa.Function
			loops := naturalLoops(r.Climb)
			instrs(r.Climb, func(b *ssa.BasicBlock, i int, in ssa.Instruction) {
				call, ok := in.(*ssa.Call)
				if !ok || first != nil {
					return
				}
				for _, l := range loops {
					if l.Body[b] {
						return
					}
				}
				cal := calleeOf(call)
				if cal != nil && cal != r.Climb && c.inModule(cal) && cal.Signature.Results().Len() == 1 && typeName(cal.Signature.Results().At(0).Type()) == "Expression" {
					first = cal
				}
			})
			if first != nil {
				r.Binary, r.MergedBinary = r.Climb, true
				r.Unary = c.canon(first)
			}
		}
	}
	if r.Binary == nil {
		r.Missing = append(r.Missing, "binary wrapper (caller of the climbing loop)")
		return r
	}
	if r.Unary == nil {
		r.Missing = append(r.Missing, "unary parser")
	}
	// Assign: a caller of Binary passing a constant, outside Climb
	binPrecParam := -1
	for i, p := range r.Binary.Params {
		if bt, ok := p.Type().Underlying().(*types.Basic); ok && bt.Info()&types.IsInteger != 0 {
			binPrecParam = i
		}
	}
	for _, f := range r.Reach.Order {
		if f == r.Climb || f == r.Binary {
			continue
		}
		instrs(f, func(b *ssa.BasicBlock, i int, in ssa.Instruction) {
			call, ok := in.(*ssa.Call)
			if !ok {
				return
			}
			cal := calleeOf(call)
			var arg ssa.Value
			if cal == r.Binary && binPrecParam >= 0 {
				arg = call.Call.Args[binPrecParam]
			} else if cal == r.Climb {
				arg = call.Call.Args[r.ClimbPrecParam]
			} else {
				return
			}
			if k, ok := arg.(*ssa.Const); ok && k.Value != nil {
				if r.Assign == nil || f.Name() == "parseAssignmentExpressionOrHigher" {
					r.Assign = f
				}
				r.EntryPrec = append(r.EntryPrec, k.Int64())
			}
		})
	}
	if r.Assign == nil {
		r.Missing = append(r.Missing, "assignment level (caller of binary with a constant precedence)")
	}
	// LHS / MemberHi / Primary
	if r.Unary != nil {
		// the default arm of the unary switch: the callee that is neither Prefix nor TypeOf
		instrs(r.Unary, func(b *ssa.BasicBlock, i int, in ssa.Instruction) {
			call, ok := in.(*ssa.Call)
			if !ok {
				return
			}
			cal := calleeOf(call)
			if cal == nil || !c.inModule(cal) || c.TokenAccessors()[cal] || cal == r.Prefix || cal == r.TypeOf {
				return
			}
			if typeName(cal.Signature.Results().At(0).Type()) == "Expression" {
				r.LHS = cal
			}
		})
	}
	if r.LHS != nil && r.CallRest != nil {
		// LHS calls MemberHi then CallRest
		instrs(r.LHS, func(b *ssa.BasicBlock, i int, in ssa.Instruction) {
			call, ok := in.(*ssa.Call)
			if !ok {
				return
			}
			cal := calleeOf(call)
			if cal != nil && cal != r.CallRest && c.inModule(cal) && cal.Signature.Results().Len() == 1 && typeName(cal.Signature.Results().At(0).Type()) == "Expression" {
				r.MemberHi = cal
			}
		})
	} else {
		r.Missing = append(r.Missing, "left-hand-side parser")
	}
	if r.LHS != nil && r.MemberRest != nil && r.CallRest != nil {
		// one function doing all three steps: primary, member rest, call rest
		callsMemberRest := false
		var third *ssa.Function
		instrs(r.LHS, func(b *ssa.BasicBlock, i int, in ssa.Instruction) {
			call, ok := in.(*ssa.Call)
			if !ok {
				return
			}
			cal := calleeOf(call)
			if cal == r.MemberRest {
				callsMemberRest = true
			} else if cal != nil && cal != r.CallRest && c.inModule(cal) && cal.Signature.Results().Len() == 1 && typeName(cal.Signature.Results().At(0).Type()) == "Expression" {
				third = cal
			}
		})
		if callsMemberRest {
			r.MemberHi = r.LHS
			r.MergedLHS = true
			r.Primary = third
		}
	}
	if r.MergedLHS {
		// Primary found above
	} else if r.MemberHi != nil && r.MemberRest != nil {
		instrs(r.MemberHi, func(b *ssa.BasicBlock, i int, in ssa.Instruction) {
			call, ok := in.(*ssa.Call)
			if !ok {
				return
			}
			cal := calleeOf(call)
			if cal != nil && cal != r.MemberRest && c.inModule(cal) && cal.Signature.Results().Len() == 1 && typeName(cal.Signature.Results().At(0).Type()) == "Expression" {
				r.Primary = cal
			}
		})
	} else {
		r.Missing = append(r.Missing, "member-or-higher parser")
	}
	if r.Primary == nil {
		r.Missing = append(r.Missing, "primary parser")
	}
	// ArgList: callee in CallRest returning a NodeList
	if r.CallRest != nil {
		instrs(r.CallRest, func(b *ssa.BasicBlock, i int, in ssa.Instruction) {
			call, ok := in.(*ssa.Call)
			if !ok {
				return
			}
			cal := calleeOf(call)
			if cal == nil || !c.inModule(cal) {
				return
			}
			res := cal.Signature.Results()
			for k := 0; k < res.Len(); k++ {
				if typeName(res.At(k).Type()) == "NodeList" {
					r.ArgList = cal
				}
			}
		})
	}
	if r.ArgList == nil {
		r.Missing = append(r.Missing, "argument list parser")
	}
	// List: the NodeList allocator reachable from ArgList/Array
	for _, s := range sites {
		if s.Type == "NodeList" && r.Reach.In[s.Fn] {
			// pick the one called by ArgList
			if r.ArgList != nil {
				called := false
				instrs(r.ArgList, func(b *ssa.BasicBlock, i int, in ssa.Instruction) {
					if call, ok := in.(*ssa.Call); ok && calleeOf(call) == s.Fn {
						called = true
					}
				})
				if called {
					r.List = s.Fn
				}
			}
		}
	}
	if r.List == nil {
		r.Missing = append(r.Missing, "delimited list parser")
	}
	// RightOfDot: callee in MemberRest returning *Identifier
	if r.MemberRest != nil {
		instrs(r.MemberRest, func(b *ssa.BasicBlock, i int, in ssa.Instruction) {
			call, ok := in.(*ssa.Call)
			if !ok {
				return
			}
			cal := calleeOf(call)
			if cal != nil && c.inModule(cal) && cal.Signature.Results().Len() == 1 && typeName(cal.Signature.Results().At(0).Type()) == "Identifier" {
				r.RightOfDot = cal
			}
		})
	}
	// ParseToken: allocates TokenNode and must consume
	for _, f := range c.allocatorsOf(sites, "TokenNode") {
		if c.MustConsume()[f] {
			r.ParseToken = f
		}
	}
	if r.ParseToken == nil {
		r.Missing = append(r.Missing, "token node parser")
	}
	sort.Slice(r.EntryPrec, func(i, j int) bool { return r.EntryPrec[i] < r.EntryPrec[j] })
	return r
}

func (c *Ctx) needRoles(rule string) *ParserRoles {
	r := c.Roles()
	for _, m := range r.Missing {
		c.R.Add(rule, "ANCHOR-UNRESOLVED "+m, "-", Undecided, "parser role could not be discovered: "+m)
	}
	if len(r.Missing) > 0 {
		return nil
	}
	return r
}
