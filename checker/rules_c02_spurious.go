package main

import (
	"fmt"
	"sort"

	"golang.org/x/tools/go/ssa"
)

// c02NoSpuriousDiagnostic: "rejects exactly the underivable sequences" - one structural part of "does not reject a
// derivable one": a parser function must not raise a diagnostic at a token and then, without consuming anything, hand
// that same token to the expression parser as the start of an operand it accepts. Decided per function and per token
// k that starts an expression (the start set read off the unary and primary levels): with the current token pinned to
// k, no path from the function's entry - or from just behind a consuming call, where the current token can be any
// token - reaches a must-diagnose call and goes on to a call of an expression-level parser, with no consuming call
// anywhere on it. A guard in front of an operand (`if !p.isStartOfX() { error }`)
// whose start set is narrower than the operand's is exactly this: `- -a` is reported although it parses.
func c02NoSpuriousDiagnostic(c *Ctx, ro *ParserRoles) {
	const rule = "C02.no-diagnostic-at-an-accepted-start"
	starters, _ := c.exprStarters(ro)
	if len(starters) == 0 {
		return
	}
	md := c.MustDiag()
	may := c.MayConsume()
	exprLevel := map[*ssa.Function]bool{}
	for _, f := range []*ssa.Function{ro.Expr, ro.Assign, ro.Binary, ro.Unary} {
		if f != nil {
			exprLevel[f] = true
		}
	}
	isExprCall := func(in ssa.Instruction) bool {
		call, ok := in.(*ssa.Call)
		if !ok {
			return false
		}
		cal := calleeOf(call)
		return cal != nil && (exprLevel[cal] || exprLevel[c.canon(cal)])
	}
	consumes := func(in ssa.Instruction) bool {
		call, ok := in.(ssa.CallInstruction)
		if !ok || isExprCall(in) {
			return false
		}
		cal := calleeOf(call)
		if cal == nil {
			return call.Common().IsInvoke() || !isBuiltinValue(call.Common().Value)
		}
		return may[cal] && !md[cal]
	}
	var kinds []int64
	for k := range starters {
		kinds = append(kinds, k)
	}
	sort.Slice(kinds, func(i, j int) bool { return kinds[i] < kinds[j] })
	nf := 0
	for _, g := range ro.Reach.Order {
		if len(g.Blocks) == 0 || g.Signature.Recv() == nil || typeName(g.Signature.Recv().Type()) != "Parser" {
			continue
		}
		var diags []ssa.Instruction
		hasExpr := false
		instrs(g, func(b *ssa.BasicBlock, i int, in ssa.Instruction) {
			if call, ok := in.(*ssa.Call); ok {
				if cal := calleeOf(call); cal != nil && md[cal] {
					diags = append(diags, in)
				}
			}
			if isExprCall(in) {
				hasExpr = true
			}
		})
		if len(diags) == 0 || !hasExpr {
			continue
		}
		nf++
		bad := ""
		for _, k := range kinds {
			r := c.tokenFolder(k).Fold(g, recvArgs(g))
			for _, d := range diags {
				if !r.Reach[d.Block()] {
					continue
				}
				dd := d
				// from the entry, or from just behind a consuming call (the token there is any token: suppose k)
				reached := pathExistsIn(r, nil, func(in ssa.Instruction) bool { return in == dd }, consumes)
				if !reached {
					instrs(g, func(b *ssa.BasicBlock, i int, in ssa.Instruction) {
						if !reached && r.Reach[b] && consumes(in) && pathExistsIn(r, in, func(x ssa.Instruction) bool { return x == dd }, consumes) {
							reached = true
						}
					})
				}
				if !reached {
					continue
				}
				if pathExistsIn(r, d, isExprCall, consumes) {
					bad = fmt.Sprintf("with %s as the current token (it starts an expression: %s) the diagnostic at %s is raised and the same token is then handed to the expression parser, which accepts it", c.SKName(k), starters[k], c.P.InstrPos(d))
					break
				}
			}
			if bad != "" {
				break
			}
		}
		c.R.Check(rule, "fn:"+c.P.FuncKey(g), c.P.Pos(g.Pos()), bad == "", bad+": a derivable sequence is rejected")
	}
	c.R.Analysed["functions_with_diagnostic_and_operand_parse"] = nf
	c.R.Floor(rule, 1)
}

func isBuiltinValue(v ssa.Value) bool {
	_, ok := v.(*ssa.Builtin)
	return ok
}
