package main

import (
	"bytes"
	"fmt"
	"go/ast"
	"go/constant"
	"go/token"
	"go/types"
	"os"
	"reflect"
	"sort"
	"strings"

	"golang.org/x/tools/go/ssa"
)

// Normalisation of extracted helpers (source-to-source, in memory).
//
// "Extract function" is the most common behaviour-preserving edit: a stretch of a function moves into a new unexported
// helper that is called from the one place it came from. Most rules of this checker read one function at a time (the
// call handler contains the reflective call, dominated by the arity test; the deferred function of the parse entry
// tests the recovered value), so such an edit can make a rule lose sight of code that still runs in the same order.
//
// InlineSingleUse undoes it: an unexported, non-generic, non-variadic function or method of the package that is
// referenced exactly once, by a direct call standing as a statement of its own (`return g(..)`, `x, err := g(..)`,
// `x = g(..)`, `var x = g(..)`, `g(..)`, or the init statement of an `if`), that contains no defer / recover / label /
// goto and that the rules did not themselves recognise as an anchor ("protected"), is expanded at its call site:
//
//	var r0 T0; var r1 T1                  // one temporary per result
//	{ var a0 P0 = arg0; ...; var p0 P0 = a0; ...   // arguments are evaluated once, in order, then bound to the parameter names
//	  <body, with `return e0, e1` rewritten to `r0, r1 = e0, e1; goto L`> }
//	L: x, err := r0, r1                   // the original statement with the call replaced by the temporaries
//
// A call in tail position (`return g(..)`) is replaced by the bound parameters and the body as it stands. Names are
// checked: every package-level, imported or predeclared name the helper uses must denote the same object at the call
// site. The expanded package is type-checked by the normal load and discarded if it does not check. //line directives
// keep reported positions on the helper's original lines. Nothing is executed.
//
// Like the higher-order normalisation this is a fallback: it is consulted only when the program as written raises
// something, and its verdict stands only if it is clean.

type inlineSite struct {
	callee   *ast.FuncDecl
	calleeF  string      // file of the callee
	obj      *types.Func // nil for a function literal bound to a local
	name     string
	sig      *types.Signature
	lit      *ast.FuncLit // the literal, when the callee is a local closure
	litDef   ast.Stmt     // the statement that binds it (kept; gets a `_ = v` so that v stays used)
	litCalls int          // how many calls of the literal there are in all
	file     string       // file of the call
	call     *ast.CallExpr
	host     ast.Stmt // the statement in front of which the expansion goes (the one that evaluates the call)
	wrap     bool     // host gets a block of its own (if / switch / range: their own variables stay scoped to them)
	tail     bool     // `return g(..)`: the body's returns stay returns
	whole    bool     // the call is the whole expression statement
	deferred bool     // `defer g(..)`: becomes `defer func() { <body> }()`
	encl     *ast.FuncDecl
	targs    map[string]string // type parameter name -> type argument text (generic helpers)
	thread   *threadInfo       // the caller tests one result at once (`if err != nil { return .. }`): returns are threaded
}

// threadInfo: `x, err := g(..)` followed by `if err != nil { .. }` (form A), or `if x, err := g(..); err != nil { .. }`
// (form B). A return of the helper whose tested result is known (a literal nil / true / false, a fresh error, a value
// just found non-nil) goes straight to the branch the caller would take; the others go through the caller's test.
type threadInfo struct {
	ifStmt *ast.IfStmt
	formB  bool
	formC  bool   // `if g(..) {` / `if !g(..) {`: nothing is assigned
	k      int    // index of the tested result
	field  string // when a field of a struct result is tested (`if p.cut {`)
	cond   string // "neqnil" | "eqnil" | "true" | "false": when the then-branch is taken
	assign *ast.AssignStmt
	lhs    []string // text of the left-hand sides
	decl   []string // `var x T` for the names the assignment newly declares
}

func funcObjKey(f *types.Func) string {
	sig, _ := f.Type().(*types.Signature)
	if sig != nil && sig.Recv() != nil {
		t := sig.Recv().Type()
		if pt, ok := t.(*types.Pointer); ok {
			t = pt.Elem()
		}
		if nt, ok := t.(*types.Named); ok {
			return nt.Obj().Name() + "." + f.Name()
		}
	}
	return f.Name()
}

// InlineSingleUse performs up to maxRounds rounds of expansion. Only functions that are not part of the pinned tree
// (pinnedFuncs) are expanded - the rules read the functions of the pinned tree as they stand - and only into exported
// functions or functions of the pinned tree, layer by layer: what is folded back is what a later edit cut out.
func InlineSingleUse(repo string, overlay map[string][]byte, first *Prog, maxRounds int, shared bool) (map[string][]byte, []string) {
	cur := map[string][]byte{}
	for k, v := range overlay {
		cur[k] = v
	}
	var done []string
	p := first
	for round := 0; round < maxRounds; round++ {
		if p == nil {
			var err error
			p, err = Load(repo, cur, "", false)
			if err != nil {
				if os.Getenv("FCHECK_DEBUG") != "" {
					fmt.Println("inlining: intermediate program does not load:", err)
				}
				return nil, nil
			}
		}
		files, names := inlineRound(p, cur, round, shared)
		if len(names) == 0 {
			break
		}
		for k, v := range files {
			cur[k] = v
		}
		done = append(done, names...)
		p = nil
	}
	if len(done) == 0 {
		return nil, nil
	}
	// branches on the constant arguments the expanded helpers were called with are decided (prune.go)
	for pass := 0; pass < 3; pass++ {
		q, err := Load(repo, cur, "", false)
		if err != nil {
			break
		}
		files, what := pruneConstBranches(q, cur)
		if len(what) == 0 {
			break
		}
		next := map[string][]byte{}
		for k, v := range cur {
			next[k] = v
		}
		for k, v := range files {
			next[k] = v
		}
		if _, err := Load(repo, next, "", false); err != nil {
			if os.Getenv("FCHECK_DEBUG") != "" {
				fmt.Println("constant branches: rewritten program does not load, dropped:", err)
			}
			break
		}
		cur = next
		for _, w := range what {
			done = append(done, "constant branch: "+w)
		}
	}
	// small structs that only carried several results from a helper to its caller become plain locals (sroa.go)
	if q, err := Load(repo, cur, "", false); err == nil {
		if files, split := sroaStructs(q, cur); len(split) > 0 {
			next := map[string][]byte{}
			for k, v := range cur {
				next[k] = v
			}
			for k, v := range files {
				next[k] = v
			}
			if _, err := Load(repo, next, "", false); err == nil {
				cur = next
				for _, n := range split {
					done = append(done, "struct local "+n+" split into its fields")
				}
			} else if os.Getenv("FCHECK_DEBUG") != "" {
				fmt.Println("scalar replacement discarded:", err)
			}
		}
	}
	return cur, done
}

func inlineRound(p *Prog, overlay map[string][]byte, round int, shared bool) (map[string][]byte, []string) {
	info := p.Root.TypesInfo
	fset := p.Fset
	pinned := pinnedView(p)
	srcOf := map[string][]byte{}
	read := func(name string) []byte {
		if b, ok := srcOf[name]; ok {
			return b
		}
		b, ok := overlay[name]
		if !ok {
			b, _ = os.ReadFile(name)
		}
		srcOf[name] = b
		return b
	}
	fileOf := func(pos token.Pos) string { return fset.File(pos).Name() }
	off := func(pos token.Pos) int { return fset.Position(pos).Offset }
	// adjusted positions are meaningless once //line directives are present; use the raw file offsets
	off = func(pos token.Pos) int { return fset.File(pos).Offset(pos) }
	text := func(a, b token.Pos) string { return string(read(fileOf(a))[off(a):off(b)]) }
	lineOf := func(pos token.Pos) (string, int) {
		ps := fset.PositionFor(pos, true) // honour earlier //line directives so that positions stay on original lines
		return ps.Filename, ps.Line
	}

	decls := map[*types.Func]*ast.FuncDecl{}
	declFile := map[*types.Func]*ast.File{}
	for _, f := range p.Root.Syntax {
		for _, d := range f.Decls {
			if fd, ok := d.(*ast.FuncDecl); ok && fd.Body != nil {
				if o, ok := info.Defs[fd.Name].(*types.Func); ok {
					decls[o] = fd
					declFile[o] = f
				}
			}
		}
	}
	uses := map[*types.Func][]*ast.Ident{}
	for id, o := range info.Uses {
		if fo, ok := o.(*types.Func); ok {
			if _, mine := decls[fo]; mine {
				uses[fo] = append(uses[fo], id)
			}
		}
	}
	// parents
	parent := map[ast.Node]ast.Node{}
	enclosing := map[ast.Node]*ast.FuncDecl{}
	for _, f := range p.Root.Syntax {
		var stack []ast.Node
		var curFn *ast.FuncDecl
		ast.Inspect(f, func(n ast.Node) bool {
			if n == nil {
				top := stack[len(stack)-1]
				stack = stack[:len(stack)-1]
				if fd, ok := top.(*ast.FuncDecl); ok && fd == curFn {
					curFn = nil
				}
				return true
			}
			if len(stack) > 0 {
				parent[n] = stack[len(stack)-1]
			}
			if fd, ok := n.(*ast.FuncDecl); ok {
				curFn = fd
			}
			if curFn != nil {
				enclosing[n] = curFn
			}
			stack = append(stack, n)
			return true
		})
	}

	eligible := func(o *types.Func, fd *ast.FuncDecl) string {
		if o.Exported() || o.Name() == "init" || o.Name() == "main" || o.Name() == "_" {
			return "exported or special"
		}
		if pinned[funcObjKey(o)] {
			return "a function of the pinned tree (or a renamed one): the rules read it as it stands"
		}
		sig := o.Type().(*types.Signature)
		if sig.RecvTypeParams() != nil || sig.Variadic() {
			return "method of a generic type, or variadic"
		}
		if fd.Recv != nil && len(fd.Recv.List) == 1 {
			if len(fd.Recv.List[0].Names) > 1 {
				return "receiver"
			}
		}
		bad := ""
		ast.Inspect(fd.Body, func(n ast.Node) bool {
			switch x := n.(type) {
			case *ast.DeferStmt, *ast.LabeledStmt, *ast.GoStmt:
				bad = "defer / label / go"
			case *ast.BranchStmt:
				if x.Tok == token.GOTO || x.Label != nil {
					bad = "goto / labelled branch"
				}
			case *ast.CallExpr:
				if id, ok := x.Fun.(*ast.Ident); ok && id.Name == "recover" && bad == "" {
					bad = "recover"
					return true
				}
			}
			return bad == "" || bad == "recover"
		})
		return bad
	}

	isPureCall := func(c *ast.CallExpr) bool {
		if tv, ok := info.Types[c.Fun]; ok && tv.IsType() {
			return true // a conversion
		}
		fun := c.Fun
		if pe, ok := fun.(*ast.ParenExpr); ok {
			fun = pe.X
		}
		if id, ok := fun.(*ast.Ident); ok {
			if _, isB := info.Uses[id].(*types.Builtin); isB {
				switch id.Name {
				case "len", "cap", "new", "make", "min", "max", "complex", "real", "imag":
					return true
				}
			}
		}
		return false
	}
	// callsInOrder: the non-pure calls of the given expressions in the order they complete
	callsInOrder := func(exprs []ast.Node) []*ast.CallExpr {
		var out []*ast.CallExpr
		var visit func(n ast.Node)
		visit = func(n ast.Node) {
			if n == nil {
				return
			}
			ast.Inspect(n, func(m ast.Node) bool {
				switch x := m.(type) {
				case *ast.FuncLit:
					return false
				case *ast.CallExpr:
					visit(x.Fun)
					for _, a := range x.Args {
						visit(a)
					}
					if !isPureCall(x) {
						out = append(out, x)
					}
					return false
				}
				return true
			})
		}
		for _, e := range exprs {
			if e != nil && !reflect.ValueOf(e).IsNil() {
				visit(e)
			}
		}
		return out
	}
	contains := func(outer, inner ast.Node) bool {
		return outer != nil && !reflect.ValueOf(outer).IsNil() && inner.Pos() >= outer.Pos() && inner.End() <= outer.End()
	}
	inStmtList := func(st ast.Stmt) bool {
		switch parent[st].(type) {
		case *ast.BlockStmt, *ast.CaseClause, *ast.CommClause:
			return true
		}
		return false
	}
	var makeSite func(o *types.Func, fd *ast.FuncDecl, sig *types.Signature, name string, id *ast.Ident) *inlineSite
	makeSite = func(o *types.Func, fd *ast.FuncDecl, sig *types.Signature, name string, id *ast.Ident) *inlineSite {
		if enclosing[id] == nil {
			return nil
		}
		// only into an exported function or a function of the pinned tree
		if eo, ok := info.Defs[enclosing[id].Name].(*types.Func); !ok || !(eo.Exported() || pinned[funcObjKey(eo)]) {
			return nil
		}
		// the call
		var fun ast.Expr = id
		if sel, ok := parent[id].(*ast.SelectorExpr); ok && sel.Sel == id {
			fun = sel
		}
		if pe, ok := parent[fun].(*ast.ParenExpr); ok {
			fun = pe
		}
		call, ok := parent[fun].(*ast.CallExpr)
		if !ok || call.Fun != fun || call.Ellipsis.IsValid() {
			return nil
		}
		inner := fun
		if pe, ok := inner.(*ast.ParenExpr); ok {
			inner = pe.X
		}
		if sig.Recv() != nil {
			sel, isSel := inner.(*ast.SelectorExpr)
			if !isSel {
				return nil
			}
			s := info.Selections[sel]
			if s == nil || s.Kind() != types.MethodVal || len(s.Index()) != 1 {
				return nil
			}
		} else if _, isSel := inner.(*ast.SelectorExpr); isSel {
			return nil
		}
		st := &inlineSite{callee: fd, obj: o, name: name, sig: sig, call: call, calleeF: fileOf(fd.Pos()), file: fileOf(call.Pos()), encl: enclosing[id]}
		if sig.TypeParams() != nil {
			inst, ok := info.Instances[id]
			if !ok || inst.TypeArgs.Len() != sig.TypeParams().Len() {
				return nil
			}
			qual := func(pk *types.Package) string {
				if pk == p.Types {
					return ""
				}
				return pk.Name()
			}
			st.targs = map[string]string{}
			for i := 0; i < sig.TypeParams().Len(); i++ {
				st.targs[sig.TypeParams().At(i).Obj().Name()] = types.TypeString(inst.TypeArgs.At(i), qual)
			}
		}
		// the statement that evaluates the call
		var n ast.Node = call
		for {
			up := parent[n]
			if up == nil {
				return nil
			}
			if be, ok := up.(*ast.BinaryExpr); ok && (be.Op == token.LAND || be.Op == token.LOR) && contains(be.Y, n) {
				return nil // evaluated conditionally
			}
			if _, isStmt := up.(ast.Stmt); isStmt {
				break
			}
			switch up.(type) {
			case *ast.FuncLit, *ast.CaseClause, *ast.CommClause:
				return nil
			}
			n = up
		}
		host := parent[n].(ast.Stmt)
		if gd, ok := n.(*ast.GenDecl); ok {
			_ = gd
		}
		var evaluated []ast.Node
		switch h := host.(type) {
		case *ast.ReturnStmt:
			if len(h.Results) == 1 && h.Results[0] == ast.Expr(call) {
				st.tail = true
			} else if sig.Results().Len() != 1 {
				return nil
			}
			for _, r := range h.Results {
				evaluated = append(evaluated, r)
			}
		case *ast.AssignStmt:
			if !(len(h.Rhs) == 1 && h.Rhs[0] == ast.Expr(call)) && sig.Results().Len() != 1 {
				return nil
			}
			for _, l := range h.Lhs {
				evaluated = append(evaluated, l)
			}
			for _, r := range h.Rhs {
				evaluated = append(evaluated, r)
			}
		case *ast.ExprStmt:
			st.whole = h.X == ast.Expr(call)
			if !st.whole && sig.Results().Len() != 1 {
				return nil
			}
			evaluated = append(evaluated, h.X)
		case *ast.DeclStmt:
			gd, ok := h.Decl.(*ast.GenDecl)
			if !ok || gd.Tok != token.VAR || len(gd.Specs) != 1 || gd.Lparen.IsValid() {
				return nil
			}
			vs := gd.Specs[0].(*ast.ValueSpec)
			if !(len(vs.Values) == 1 && vs.Values[0] == ast.Expr(call)) && sig.Results().Len() != 1 {
				return nil
			}
			for _, v := range vs.Values {
				evaluated = append(evaluated, v)
			}
		case *ast.IfStmt:
			if !contains(h.Cond, call) || sig.Results().Len() != 1 {
				return nil
			}
			evaluated = append(evaluated, h.Init, h.Cond)
		case *ast.SwitchStmt:
			if !contains(h.Tag, call) || sig.Results().Len() != 1 {
				return nil
			}
			evaluated = append(evaluated, h.Init, h.Tag)
		case *ast.RangeStmt:
			if !contains(h.X, call) || sig.Results().Len() != 1 {
				return nil
			}
			evaluated = append(evaluated, h.X)
		case *ast.DeferStmt:
			if h.Call != call || sig.Results().Len() != 0 {
				return nil
			}
			st.deferred = true
		case *ast.IncDecStmt, *ast.SendStmt:
			if sig.Results().Len() != 1 {
				return nil
			}
			evaluated = append(evaluated, h)
		default:
			return nil
		}
		// an init statement: the enclosing if / switch / for is the host
		switch up := parent[host].(type) {
		case *ast.IfStmt:
			if up.Init != host || st.tail {
				return nil
			}
			host = up
		case *ast.SwitchStmt:
			if up.Init != host || st.tail {
				return nil
			}
			host = up
		case *ast.TypeSwitchStmt:
			if up.Init != host || st.tail {
				return nil
			}
			host = up
		case *ast.ForStmt:
			if up.Init != host || st.tail {
				return nil
			}
			host = up
		}
		switch h := host.(type) {
		case *ast.IfStmt:
			if gp, ok := parent[h].(*ast.IfStmt); ok && gp.Else == ast.Stmt(h) {
				return nil // an `else if`
			}
			st.wrap = true
		case *ast.SwitchStmt, *ast.TypeSwitchStmt, *ast.RangeStmt, *ast.ForStmt:
			st.wrap = true
		}
		if !inStmtList(host) {
			return nil
		}
		// nothing with an effect may be evaluated before the call, its own arguments aside
		for _, c := range callsInOrder(evaluated) {
			if c == call {
				break
			}
			if !contains(call, c) {
				return nil
			}
		}
		st.host = host
		st.thread = func() *threadInfo {
			if st.tail {
				return nil
			}
			var as *ast.AssignStmt
			var ifs *ast.IfStmt
			formB := false
			switch h := host.(type) {
			case *ast.AssignStmt:
				as = h
				// the next statement of the list
				var list []ast.Stmt
				switch up := parent[h].(type) {
				case *ast.BlockStmt:
					list = up.List
				case *ast.CaseClause:
					list = up.Body
				case *ast.CommClause:
					list = up.Body
				}
				for i, x := range list {
					if x == ast.Stmt(h) && i+1 < len(list) {
						ifs, _ = list[i+1].(*ast.IfStmt)
					}
				}
				if ifs == nil || ifs.Init != nil {
					return nil
				}
			case *ast.IfStmt:
				a, ok := h.Init.(*ast.AssignStmt)
				if !ok {
					// form C: the call is the condition itself, `if g(..) {` or `if !g(..) {`
					if h.Init != nil || h.Else != nil || sig.Results().Len() != 1 {
						return nil
					}
					cond := h.Cond
					for {
						pe, ok := cond.(*ast.ParenExpr)
						if !ok {
							break
						}
						cond = pe.X
					}
					kind := ""
					if cond == ast.Expr(call) {
						kind = "true"
					} else if ue, ok := cond.(*ast.UnaryExpr); ok && ue.Op == token.NOT {
						x := ue.X
						for {
							pe, ok := x.(*ast.ParenExpr)
							if !ok {
								break
							}
							x = pe.X
						}
						if x == ast.Expr(call) {
							kind = "false"
						}
					}
					if b, isB := sig.Results().At(0).Type().Underlying().(*types.Basic); kind == "" || !isB || b.Kind() != types.Bool {
						return nil
					}
					ti := &threadInfo{ifStmt: h, formB: true, formC: true, cond: kind, k: 0}
					n, bad := 0, false
					ast.Inspect(h.Body, func(m ast.Node) bool {
						switch x := m.(type) {
						case ast.Stmt:
							n++
							if _, isL := x.(*ast.LabeledStmt); isL {
								bad = true
							}
							if br, isB := x.(*ast.BranchStmt); isB && br.Label != nil {
								bad = true
							}
						case *ast.FuncLit:
							bad = true
						}
						return true
					})
					if bad || n > 12 {
						return nil
					}
					return ti
				}
				as, ifs, formB = a, h, true
			default:
				return nil
			}
			if ifs.Else != nil || len(as.Rhs) != 1 || as.Rhs[0] != ast.Expr(call) || (as.Tok != token.DEFINE && as.Tok != token.ASSIGN) {
				return nil
			}
			if len(as.Lhs) != sig.Results().Len() {
				return nil
			}
			// the test
			cond := ifs.Cond
			for {
				pe, ok := cond.(*ast.ParenExpr)
				if !ok {
					break
				}
				cond = pe.X
			}
			var tested *ast.Ident
			kind := ""
			field := ""
			// `v.f` with v a local struct: the field of the result is what is tested
			fieldOf := func(e ast.Expr) (*ast.Ident, string) {
				sel, ok := e.(*ast.SelectorExpr)
				if !ok {
					return nil, ""
				}
				id, ok := sel.X.(*ast.Ident)
				if !ok {
					return nil, ""
				}
				if sl := info.Selections[sel]; sl == nil || sl.Kind() != types.FieldVal || len(sl.Index()) != 1 {
					return nil, ""
				}
				return id, sel.Sel.Name
			}
			switch x := cond.(type) {
			case *ast.Ident:
				tested, kind = x, "true"
			case *ast.SelectorExpr:
				if id, f := fieldOf(x); id != nil {
					tested, kind, field = id, "true", f
				}
			case *ast.UnaryExpr:
				if id, ok := x.X.(*ast.Ident); ok && x.Op == token.NOT {
					tested, kind = id, "false"
				} else if id, f := fieldOf(x.X); id != nil && x.Op == token.NOT {
					tested, kind, field = id, "false", f
				}
			case *ast.BinaryExpr:
				// `ok && rest`: a return known to yield false skips the branch, the others take the whole test
				if x.Op == token.LAND {
					lx := x.X
					for {
						pe, ok := lx.(*ast.ParenExpr)
						if !ok {
							break
						}
						lx = pe.X
					}
					if id, ok := lx.(*ast.Ident); ok {
						tested, kind = id, "true-conj"
					} else if u, ok := lx.(*ast.UnaryExpr); ok && u.Op == token.NOT {
						if id, ok := u.X.(*ast.Ident); ok {
							tested, kind = id, "false-conj"
						}
					} else if id, k := signTest(info, lx); id != nil {
						tested, kind = id, k+"-conj"
					}
					break
				}
				if id, k := signTest(info, x); id != nil {
					tested, kind = id, k
					break
				}
				id, ok1 := x.X.(*ast.Ident)
				nl, ok2 := x.Y.(*ast.Ident)
				if ok1 && ok2 && nl.Name == "nil" && info.Uses[nl] == types.Universe.Lookup("nil") {
					switch x.Op {
					case token.NEQ:
						tested, kind = id, "neqnil"
					case token.EQL:
						tested, kind = id, "eqnil"
					}
				}
			}
			if tested == nil {
				return nil
			}
			tobj := info.Uses[tested]
			k := -1
			ti := &threadInfo{ifStmt: ifs, formB: formB, cond: kind, assign: as, field: field}
			qual := func(pk *types.Package) string {
				if pk == p.Types {
					return ""
				}
				return pk.Name()
			}
			for i, l := range as.Lhs {
				ti.lhs = append(ti.lhs, text(l.Pos(), l.End()))
				id, ok := l.(*ast.Ident)
				if !ok {
					continue
				}
				if d := info.Defs[id]; d != nil {
					ti.decl = append(ti.decl, "var "+id.Name+" "+types.TypeString(d.Type(), qual)+"; _ = "+id.Name)
					if d == tobj {
						k = i
					}
				} else if u := info.Uses[id]; u != nil && u == tobj {
					k = i
				}
			}
			if k < 0 {
				return nil
			}
			ti.k = k
			// the then-branch is copied to the returns that are known to take it: keep it small and label-free
			n := 0
			bad := false
			ast.Inspect(ifs.Body, func(m ast.Node) bool {
				switch x := m.(type) {
				case ast.Stmt:
					n++
					if _, isL := x.(*ast.LabeledStmt); isL {
						bad = true
					}
					if br, isB := x.(*ast.BranchStmt); isB && br.Label != nil {
						bad = true
					}
				case *ast.FuncLit:
					bad = true
				}
				return true
			})
			if bad || n > 12 {
				return nil
			}
			return ti
		}()
		return st
	}
	var sites []*inlineSite
	allInlinable := map[*types.Func]bool{}
	for o, fd := range decls {
		if os.Getenv("FCHECK_DEBUG") != "" && !pinned[funcObjKey(o)] && !o.Exported() {
			fmt.Printf("inlining: candidate %s uses=%d shared=%v\n", funcObjKey(o), len(uses[o]), shared)
		}
		if len(uses[o]) == 0 || len(uses[o]) > 24 {
			continue
		}
		why := eligible(o, fd)
		usesRecover := why == "recover"
		if usesRecover && o.Type().(*types.Signature).Results().Len() == 0 {
			why = "" // may still be expanded where it is deferred directly
		}
		if why != "" {
			if os.Getenv("FCHECK_DEBUG") != "" && !pinned[funcObjKey(o)] && !o.Exported() {
				fmt.Printf("inlining: %s left alone: %s\n", funcObjKey(o), why)
			}
			continue
		}
		if len(uses[o]) > 1 {
			// a shared helper is copied to each of its call sites only in the second attempt, only if a later edit
			// introduced it (the rules read the shared helpers of the pinned tree as they stand), and only if it is small
			if !shared || pinned[funcObjKey(o)] {
				continue
			}
			n := 0
			ast.Inspect(fd.Body, func(m ast.Node) bool {
				if _, ok := m.(ast.Stmt); ok {
					n++
				}
				return true
			})
			if n > 40 {
				continue
			}
		}
		selfRef := false
		for _, id := range uses[o] {
			if enclosing[id] == fd {
				selfRef = true
			}
		}
		if selfRef {
			continue
		}
		allInlinable[o] = true
		for _, id := range uses[o] {
			st := makeSite(o, fd, o.Type().(*types.Signature), funcObjKey(o), id)
			if st != nil && usesRecover && !st.deferred {
				st = nil // recover() only works in the deferred function itself
			}
			if st == nil {
				allInlinable[o] = false
				if os.Getenv("FCHECK_DEBUG") != "" {
					fmt.Printf("inlining: %s: a use at %s is not an expandable call\n", funcObjKey(o), fset.Position(id.Pos()))
				}
				continue
			}
			sites = append(sites, st)
		}
	}
	// calls of a function literal bound once to a local (`visit := func(..) {..}` ... `visit(x)`; the parameters an
	// expanded helper received as literals): the literal's body is expanded at the call, its captured names checked
	{
		// single definitions of local function-typed variables
		type def struct {
			stmt ast.Stmt
			val  ast.Expr
			n    int
		}
		defs := map[types.Object]*def{}
		note := func(id *ast.Ident, stmt ast.Stmt, val ast.Expr) {
			o := info.Defs[id]
			if o == nil {
				o = info.Uses[id]
			}
			if o == nil {
				return
			}
			d := defs[o]
			if d == nil {
				d = &def{}
				defs[o] = d
			}
			d.n++
			d.stmt, d.val = stmt, val
		}
		for _, f := range p.Root.Syntax {
			ast.Inspect(f, func(n ast.Node) bool {
				switch x := n.(type) {
				case *ast.AssignStmt:
					for i, l := range x.Lhs {
						if id, ok := l.(*ast.Ident); ok {
							var v ast.Expr
							if len(x.Rhs) == len(x.Lhs) {
								v = x.Rhs[i]
							}
							note(id, x, v)
						}
					}
				case *ast.DeclStmt:
					if gd, ok := x.Decl.(*ast.GenDecl); ok && gd.Tok == token.VAR {
						for _, sp := range gd.Specs {
							vs := sp.(*ast.ValueSpec)
							for i, id := range vs.Names {
								var v ast.Expr
								if len(vs.Values) == len(vs.Names) {
									v = vs.Values[i]
								}
								if v != nil || len(vs.Values) == 0 {
									note(id, x, v)
								}
							}
						}
					}
				case *ast.UnaryExpr:
					if id, ok := x.X.(*ast.Ident); ok && x.Op == token.AND {
						note(id, nil, nil)
						note(id, nil, nil) // address taken: never a candidate
					}
				case *ast.RangeStmt:
					for _, e := range []ast.Expr{x.Key, x.Value} {
						if id, ok := e.(*ast.Ident); ok {
							note(id, nil, nil)
							note(id, nil, nil)
						}
					}
				}
				return true
			})
		}
		resolveLit := func(o types.Object) (*ast.FuncLit, ast.Stmt) {
			var first ast.Stmt
			for depth := 0; depth < 3; depth++ {
				d := defs[o]
				if d == nil || d.n != 1 || d.val == nil {
					return nil, nil
				}
				if first == nil {
					first = d.stmt
				}
				switch v := d.val.(type) {
				case *ast.FuncLit:
					return v, first
				case *ast.Ident:
					o = info.Uses[v]
					if o == nil {
						return nil, nil
					}
				default:
					return nil, nil
				}
			}
			return nil, nil
		}
		for _, f := range p.Root.Syntax {
			ast.Inspect(f, func(n ast.Node) bool {
				call, ok := n.(*ast.CallExpr)
				if !ok {
					return true
				}
				id, ok := call.Fun.(*ast.Ident)
				if !ok {
					return true
				}
				v, ok := info.Uses[id].(*types.Var)
				if !ok || v.IsField() || v.Parent() == p.Types.Scope() {
					return true
				}
				sig, ok := v.Type().Underlying().(*types.Signature)
				if !ok || sig.Variadic() {
					return true
				}
				lit, defStmt := resolveLit(v)
				if lit == nil || enclosing[call] == nil || !(lit.Pos() >= enclosing[call].Pos() && lit.End() <= enclosing[call].End()) {
					return true
				}
				if call.Pos() >= lit.Pos() && call.End() <= lit.End() {
					return true // a recursive closure
				}
				// the literal must be free of what cannot be moved
				bad := false
				ast.Inspect(lit.Body, func(m ast.Node) bool {
					switch x := m.(type) {
					case *ast.DeferStmt, *ast.LabeledStmt, *ast.GoStmt:
						bad = true
					case *ast.BranchStmt:
						if x.Tok == token.GOTO || x.Label != nil {
							bad = true
						}
					case *ast.CallExpr:
						if rid, ok := x.Fun.(*ast.Ident); ok && rid.Name == "recover" {
							bad = true
						}
					}
					return !bad
				})
				if bad {
					return true
				}
				// how many calls of this variable are there? only a single call is expanded (a literal called in several
				// places stays a closure)
				nCalls := 0
				ast.Inspect(enclosing[call], func(m ast.Node) bool {
					if c2, ok := m.(*ast.CallExpr); ok {
						if i2, ok := c2.Fun.(*ast.Ident); ok && info.Uses[i2] == types.Object(v) {
							nCalls++
						}
					}
					return true
				})
				if nCalls != 1 {
					// a small literal may be expanded at a few calls
					nst := 0
					ast.Inspect(lit.Body, func(m ast.Node) bool {
						if _, ok := m.(ast.Stmt); ok {
							nst++
						}
						return true
					})
					if nCalls > 4 || nst > 8 {
						return true
					}
				}
				fd := &ast.FuncDecl{Name: ast.NewIdent(id.Name), Type: lit.Type, Body: lit.Body}
				st := makeSite(nil, fd, sig, id.Name, id)
				if st == nil {
					return true
				}
				st.lit, st.litDef, st.litCalls = lit, defStmt, nCalls
				sites = append(sites, st)
				return true
			})
		}
	}
	sort.Slice(sites, func(i, j int) bool {
		if a, b := sites[i].name, sites[j].name; a != b {
			return a < b
		}
		return sites[i].call.Pos() < sites[j].call.Pos()
	})
	// one layer per round: a helper whose body holds another site of this round waits
	inBody := func(fd *ast.FuncDecl, n ast.Node) bool { return n.Pos() >= fd.Pos() && n.End() <= fd.End() }
	var chosen []*inlineSite
	for _, s := range sites {
		nested := false
		for _, t := range sites {
			if t != s && inBody(s.callee, t.call) {
				nested = true
			}
		}
		if !nested {
			chosen = append(chosen, s)
		}
	}
	// at most one site per statement (edits must not overlap)
	edits := map[string][]textEdit{}
	var names []string
	usedStmt := map[ast.Node]bool{}
	counter := round * 1000
	doneSites := map[*types.Func]int{}
	keptAlive := map[ast.Stmt]bool{}
	var expanded []*inlineSite
	for _, s := range chosen {
		if usedStmt[s.host] || s.thread != nil && usedStmt[s.thread.ifStmt] {
			continue
		}
		counter++
		pre := fmt.Sprintf("__inl%d", counter)
		es, why := buildInline(s, pre, info, p.Types, text, lineOf, off)
		if why != "" {
			if os.Getenv("FCHECK_DEBUG") != "" {
				fmt.Printf("inlining: %s not expanded: %s\n", s.name, why)
			}
			continue
		}
		// edits of one round must not touch each other: a site whose rewritten range meets one already taken waits
		clash := false
		for f, e := range es {
			for _, x := range e {
				for _, y := range edits[f] {
					if x.start < y.end && y.start < x.end || x.start == y.start {
						clash = true
					}
				}
			}
		}
		if clash {
			continue
		}
		usedStmt[s.host] = true
		if s.thread != nil {
			usedStmt[s.thread.ifStmt] = true
		}
		for f, e := range es {
			edits[f] = append(edits[f], e...)
		}
		if s.obj != nil {
			doneSites[s.obj]++
		} else if s.litDef != nil && !keptAlive[s.litDef] {
			keptAlive[s.litDef] = true
			at := off(s.litDef.End())
			edits[s.file] = append(edits[s.file], textEdit{at, at, "; _ = " + s.name})
		}
		expanded = append(expanded, s)
		names = append(names, s.name+" into "+s.encl.Name.Name)
	}
	// a literal all of whose calls were expanded is dead: its body goes (so that no rule reads it as live code)
	litDone := map[*ast.FuncLit]int{}
	litTotal := map[*ast.FuncLit]int{}
	for _, s := range chosen {
		if s.lit != nil && usedStmt[s.host] {
			litTotal[s.lit] = s.litCalls
		}
	}
	for _, nm := range names {
		_ = nm
	}
	for _, s := range expanded {
		if s.lit != nil {
			litDone[s.lit]++
		}
	}
	for lit, n := range litDone {
		if n != litTotal[lit] {
			continue
		}
		nested := false
		for _, t := range expanded {
			if t.lit != lit && t.call.Pos() >= lit.Pos() && t.call.End() <= lit.End() {
				nested = true
			}
		}
		if nested {
			continue
		}
		f := fileOf(lit.Pos())
		body := read(f)[off(lit.Body.Lbrace) : off(lit.Body.Rbrace)+1]
		edits[f] = append(edits[f], textEdit{off(lit.Body.Lbrace), off(lit.Body.Rbrace) + 1, "{ panic(\"expanded at its call sites\")" + keepNewlines(body) + "}"})
	}
	// a helper all of whose references were expanded is blanked (line count preserved)
	for o, n := range doneSites {
		if n != len(uses[o]) {
			continue
		}
		fd := decls[o]
		start := fd.Pos()
		if fd.Doc != nil {
			start = fd.Doc.Pos()
		}
		f := fileOf(fd.Pos())
		edits[f] = append(edits[f], textEdit{off(start), off(fd.End()), keepNewlines(read(f)[off(start):off(fd.End())])})
	}
	out := map[string][]byte{}
	for f, es := range edits {
		// reject overlapping edits
		sort.Slice(es, func(i, j int) bool { return es[i].start < es[j].start })
		for i := 1; i < len(es); i++ {
			if es[i].start < es[i-1].end || es[i].start == es[i-1].start {
				if os.Getenv("FCHECK_DEBUG") != "" {
					fmt.Println("inlining: overlapping edits in", f)
				}
				return nil, nil
			}
		}
		out[f] = applyEdits(read(f), es)
	}
	sort.Strings(names)
	return out, names
}

// buildInline produces the text edits for one site.
func buildInline(s *inlineSite, pre string, info *types.Info, pkg *types.Package, text func(a, b token.Pos) string, lineOf func(token.Pos) (string, int), off func(token.Pos) int) (map[string][]textEdit, string) {
	fd := s.callee
	sig := s.sig
	// ---- name hygiene: package-level / imported / predeclared names used by the helper mean the same at the call site
	inner := pkg.Scope().Innermost(s.call.Pos())
	if inner == nil {
		return nil, "no scope at the call site"
	}
	bad := ""
	skip := map[*ast.Ident]bool{}
	checkIdents := func(root ast.Node) {
		ast.Inspect(root, func(n ast.Node) bool {
			switch x := n.(type) {
			case *ast.SelectorExpr:
				skip[x.Sel] = true
			case *ast.KeyValueExpr:
				if id, ok := x.Key.(*ast.Ident); ok {
					if _, isField := info.Uses[id].(*types.Var); isField && info.Uses[id].(*types.Var).IsField() {
						skip[id] = true
					}
				}
			case *ast.Ident:
				if skip[x] || bad != "" {
					return true
				}
				o := info.Uses[x]
				if o == nil {
					return true
				}
				outer := false
				switch {
				case o.Parent() == pkg.Scope(), o.Parent() == types.Universe:
					outer = true
				}
				if _, isPkg := o.(*types.PkgName); isPkg {
					outer = true
				}
				if s.lit != nil && o.Pos().IsValid() && !(o.Pos() >= s.lit.Pos() && o.Pos() < s.lit.End()) {
					outer = true // captured from the enclosing function
				}
				if !outer {
					return true
				}
				_, found := inner.LookupParent(x.Name, s.call.Pos())
				if found == nil {
					bad = x.Name + " is not visible at the call site"
					return true
				}
				if pn, isPkg := o.(*types.PkgName); isPkg {
					fpn, ok := found.(*types.PkgName)
					if !ok || fpn.Imported().Path() != pn.Imported().Path() {
						bad = "package name " + x.Name + " means something else at the call site"
					}
					return true
				}
				if found != o {
					bad = x.Name + " is shadowed at the call site"
				}
			}
			return true
		})
	}
	checkIdents(fd.Type)
	if fd.Recv != nil {
		checkIdents(fd.Recv)
	}
	checkIdents(fd.Body)
	if bad != "" {
		return nil, bad
	}
	// type parameters of a generic helper stand for the type arguments of this call
	subst := func(root ast.Node, a, b token.Pos) string {
		if len(s.targs) == 0 {
			return text(a, b)
		}
		var es []textEdit
		base := off(a)
		ast.Inspect(root, func(n ast.Node) bool {
			if id, ok := n.(*ast.Ident); ok && id.Pos() >= a && id.End() <= b {
				if tn, ok := info.Uses[id].(*types.TypeName); ok {
					if _, isTP := tn.Type().(*types.TypeParam); isTP {
						if t, ok := s.targs[id.Name]; ok {
							es = append(es, textEdit{off(id.Pos()) - base, off(id.End()) - base, t})
						}
					}
				}
			}
			return true
		})
		return string(applyEdits([]byte(text(a, b)), es))
	}
	typeText := func(e ast.Expr) string { return subst(e, e.Pos(), e.End()) }
	// ---- parameters
	type bind struct{ name, typ, arg string }
	var binds []bind
	// a parameter that receives the caller's variable of the same name and is never written in the body needs no
	// binding: the caller's variable serves (and closures that captured it keep meaning the same thing)
	sameNameArg := func(nm *ast.Ident, arg ast.Expr) bool {
		id, ok := arg.(*ast.Ident)
		if !ok || nm == nil || id.Name != nm.Name || nm.Name == "_" {
			return false
		}
		if v, isVar := info.Uses[id].(*types.Var); !isVar || v.IsField() || v.Parent() == pkg.Scope() {
			return false
		}
		po := info.Defs[nm]
		if po == nil {
			return false
		}
		written := false
		ast.Inspect(fd.Body, func(n ast.Node) bool {
			switch x := n.(type) {
			case *ast.AssignStmt:
				for _, l := range x.Lhs {
					if lid, ok := l.(*ast.Ident); ok && info.Uses[lid] == po {
						written = true
					}
				}
			case *ast.IncDecStmt:
				if lid, ok := x.X.(*ast.Ident); ok && info.Uses[lid] == po {
					written = true
				}
			case *ast.UnaryExpr:
				if lid, ok := x.X.(*ast.Ident); ok && x.Op == token.AND && info.Uses[lid] == po {
					written = true
				}
			case *ast.RangeStmt:
				for _, e := range []ast.Expr{x.Key, x.Value} {
					if lid, ok := e.(*ast.Ident); ok && info.Uses[lid] == po {
						written = true
					}
				}
			}
			return true
		})
		return !written
	}
	if fd.Recv != nil && len(fd.Recv.List) == 1 {
		rf := fd.Recv.List[0]
		name := "_"
		if len(rf.Names) == 1 {
			name = rf.Names[0].Name
		}
		fun := s.call.Fun
		if pe, ok := fun.(*ast.ParenExpr); ok {
			fun = pe.X
		}
		sel := fun.(*ast.SelectorExpr)
		arg := text(sel.X.Pos(), sel.X.End())
		xt := info.TypeOf(sel.X)
		_, recvPtr := sig.Recv().Type().(*types.Pointer)
		_, argPtr := xt.Underlying().(*types.Pointer)
		if _, isNamedPtr := xt.(*types.Pointer); isNamedPtr {
			argPtr = true
		}
		switch {
		case recvPtr && !argPtr:
			arg = "&(" + arg + ")"
		case !recvPtr && argPtr:
			arg = "*(" + arg + ")"
		}
		var rn *ast.Ident
		if len(rf.Names) == 1 {
			rn = rf.Names[0]
		}
		if !(arg == text(sel.X.Pos(), sel.X.End()) && sameNameArg(rn, sel.X)) {
			binds = append(binds, bind{name, typeText(rf.Type), arg})
		}
	}
	// a pointer parameter that receives `&x` and is only ever dereferenced stands for x itself: `*p` becomes `x` and
	// nothing is bound (the variable keeps being a plain local, which the SSA form lifts)
	derefOf := map[types.Object]string{}
	derefStars := map[*ast.StarExpr]string{}
	{
		bodyParent := map[ast.Node]ast.Node{}
		var stack []ast.Node
		ast.Inspect(fd.Body, func(n ast.Node) bool {
			if n == nil {
				stack = stack[:len(stack)-1]
				return true
			}
			if len(stack) > 0 {
				bodyParent[n] = stack[len(stack)-1]
			}
			stack = append(stack, n)
			return true
		})
		declared := map[string]bool{}
		for id, o := range info.Defs {
			if o != nil && id.Pos() >= fd.Pos() && id.End() <= fd.End() {
				declared[id.Name] = true
			}
		}
		k := 0
		for _, f := range fd.Type.Params.List {
			names := f.Names
			if len(names) == 0 {
				k++
				continue
			}
			for _, nm := range names {
				idx := k
				k++
				if _, isPtr := f.Type.(*ast.StarExpr); !isPtr || idx >= len(s.call.Args) {
					continue
				}
				ue, ok := s.call.Args[idx].(*ast.UnaryExpr)
				if !ok || ue.Op != token.AND {
					continue
				}
				x, ok := ue.X.(*ast.Ident)
				if !ok {
					continue
				}
				if v, isVar := info.Uses[x].(*types.Var); !isVar || v.IsField() {
					continue
				}
				po := info.Defs[nm]
				if po == nil {
					continue
				}
				// every use of the parameter is `*p`
				okAll := true
				var stars []*ast.StarExpr
				ast.Inspect(fd.Body, func(n ast.Node) bool {
					id, isID := n.(*ast.Ident)
					if !isID || info.Uses[id] != po {
						return true
					}
					par := bodyParent[id]
					if pe, isP := par.(*ast.ParenExpr); isP {
						par = bodyParent[pe]
					}
					st, isStar := par.(*ast.StarExpr)
					if !isStar {
						okAll = false
						return true
					}
					stars = append(stars, st)
					return true
				})
				// the outer name must mean the outer variable inside the body: not declared there (the parameter's own
				// name aside, which is no longer bound)
				if !okAll || (declared[x.Name] && x.Name != nm.Name) {
					continue
				}
				n := 0
				for id2, o2 := range info.Defs {
					if o2 != nil && id2.Name == x.Name && id2.Pos() >= fd.Pos() && id2.End() <= fd.End() {
						n++
					}
				}
				if x.Name == nm.Name && n != 1 {
					continue
				}
				derefOf[po] = x.Name
				for _, st := range stars {
					derefStars[st] = x.Name
				}
			}
		}
	}
	ai := 0
	// `h(g(..))` with g's results filling h's parameters: the results are received in temporaries first
	tupleArg := ""
	if len(s.call.Args) == 1 && sig.Params().Len() > 1 {
		if tt, isT := info.TypeOf(s.call.Args[0]).(*types.Tuple); isT && tt.Len() == sig.Params().Len() && len(derefOf) == 0 {
			tupleArg = text(s.call.Args[0].Pos(), s.call.Args[0].End())
			k := 0
			for _, f := range fd.Type.Params.List {
				typ := typeText(f.Type)
				names := f.Names
				if len(names) == 0 {
					binds = append(binds, bind{"_", typ, "\x00"})
					k++
					continue
				}
				for _, n := range names {
					binds = append(binds, bind{n.Name, typ, "\x00"})
					k++
				}
			}
			ai = 1
		}
	}
	for _, f := range fd.Type.Params.List {
		if tupleArg != "" {
			break
		}
		typ := typeText(f.Type)
		if len(f.Names) == 0 {
			if ai >= len(s.call.Args) {
				return nil, "argument count"
			}
			binds = append(binds, bind{"_", typ, text(s.call.Args[ai].Pos(), s.call.Args[ai].End())})
			ai++
			continue
		}
		for _, n := range f.Names {
			if ai >= len(s.call.Args) {
				return nil, "argument count"
			}
			if _, gone := derefOf[info.Defs[n]]; gone {
				ai++
				continue
			}
			if sameNameArg(n, s.call.Args[ai]) {
				ai++
				continue
			}
			binds = append(binds, bind{n.Name, typ, text(s.call.Args[ai].Pos(), s.call.Args[ai].End())})
			ai++
		}
	}
	if ai != len(s.call.Args) {
		return nil, "argument count"
	}
	// ---- results
	type res struct{ name, typ string }
	var results []res
	named := false
	if fd.Type.Results != nil {
		for _, f := range fd.Type.Results.List {
			typ := typeText(f.Type)
			if len(f.Names) == 0 {
				results = append(results, res{"", typ})
				continue
			}
			for _, n := range f.Names {
				named = true
				results = append(results, res{n.Name, typ})
			}
		}
	}
	var tmps []string
	for i := range results {
		tmps = append(tmps, fmt.Sprintf("%s_r%d", pre, i))
	}
	label := pre + "_L"
	// ---- the body with its returns rewritten
	var rets []*ast.ReturnStmt
	var walk func(n ast.Node)
	walk = func(n ast.Node) {
		ast.Inspect(n, func(m ast.Node) bool {
			switch x := m.(type) {
			case *ast.FuncLit:
				return false
			case *ast.ReturnStmt:
				rets = append(rets, x)
			}
			return true
		})
	}
	walk(fd.Body)
	calleeParent := map[ast.Node]ast.Node{}
	{
		var stack []ast.Node
		ast.Inspect(fd.Body, func(n ast.Node) bool {
			if n == nil {
				stack = stack[:len(stack)-1]
				return true
			}
			if len(stack) > 0 {
				calleeParent[n] = stack[len(stack)-1]
			}
			stack = append(stack, n)
			return true
		})
	}
	var last ast.Stmt
	if n := len(fd.Body.List); n > 0 {
		last = fd.Body.List[n-1]
	}
	needLabel := false
	var bodyEdits []textEdit
	base := off(fd.Body.Lbrace) + 1
	var resNames []string
	for _, r := range results {
		resNames = append(resNames, r.name)
	}
	// threaded returns (see threadInfo)
	lOK, lFail, lChk, lEnd := pre+"_ok", pre+"_then", pre+"_chk", pre+"_end"
	useOK, useFail, useChk := false, false, false
	classify := func(r *ast.ReturnStmt) string {
		th := s.thread
		if th == nil || len(r.Results) != len(results) {
			return "unknown"
		}
		e := r.Results[th.k]
		for {
			pe, ok := e.(*ast.ParenExpr)
			if !ok {
				break
			}
			e = pe.X
		}
		val := "" // "nil" | "nonnil" | "true" | "false"
		if th.field != "" {
			cl, ok := e.(*ast.CompositeLit)
			if !ok {
				return "unknown"
			}
			st, ok := info.TypeOf(cl).Underlying().(*types.Struct)
			if !ok {
				return "unknown"
			}
			fi := -1
			for i := 0; i < st.NumFields(); i++ {
				if st.Field(i).Name() == th.field {
					fi = i
				}
			}
			var el ast.Expr
			keyed := false
			for i, x := range cl.Elts {
				if kv, ok := x.(*ast.KeyValueExpr); ok {
					keyed = true
					if k, ok := kv.Key.(*ast.Ident); ok && k.Name == th.field {
						el = kv.Value
					}
				} else if i == fi {
					el = x
				}
			}
			if el == nil {
				if !keyed && len(cl.Elts) != 0 || fi < 0 {
					return "unknown"
				}
				// the field is left at its zero value
				switch t := st.Field(fi).Type().Underlying().(type) {
				case *types.Basic:
					if t.Kind() == types.Bool {
						val = "false"
					}
				case *types.Pointer, *types.Interface, *types.Slice, *types.Map, *types.Signature:
					val = "nil"
				}
				if val == "" {
					return "unknown"
				}
				e = nil
			} else {
				e = el
			}
		}
		if e != nil {
			// an integer constant: known to be negative or not (`return 0, -1` under a caller's `next >= 0` test)
			if tv, ok := info.Types[e]; ok && tv.Value != nil && tv.Value.Kind() == constant.Int {
				if constant.Sign(tv.Value) < 0 {
					val = "neg"
				} else {
					val = "nonneg"
				}
			}
		}
		switch x := e.(type) {
		case *ast.Ident:
			switch info.Uses[x] {
			case types.Universe.Lookup("nil"):
				val = "nil"
			case types.Universe.Lookup("true"):
				val = "true"
			case types.Universe.Lookup("false"):
				val = "false"
			default:
				// a value just tested: the return sits in the then-branch of `if x != nil` / `if x == nil` and x is
				// not assigned in that branch
				obj := info.Uses[x]
				var up ast.Node = r
				for up != nil && up != ast.Node(fd.Body) && val == "" {
					par := calleeParent[up]
					if ifs, ok := par.(*ast.IfStmt); ok && ifs.Body == up {
						if be, ok := ifs.Cond.(*ast.BinaryExpr); ok {
							id, ok1 := be.X.(*ast.Ident)
							nl, ok2 := be.Y.(*ast.Ident)
							if ok1 && ok2 && info.Uses[id] == obj && obj != nil && info.Uses[nl] == types.Universe.Lookup("nil") {
								assigned := false
								ast.Inspect(ifs.Body, func(m ast.Node) bool {
									if as, ok := m.(*ast.AssignStmt); ok {
										for _, l := range as.Lhs {
											if lid, ok := l.(*ast.Ident); ok && (info.Uses[lid] == obj || info.Defs[lid] == obj) {
												assigned = true
											}
										}
									}
									if ue, ok := m.(*ast.UnaryExpr); ok && ue.Op == token.AND {
										if lid, ok := ue.X.(*ast.Ident); ok && info.Uses[lid] == obj {
											assigned = true
										}
									}
									return true
								})
								if !assigned {
									if be.Op == token.NEQ {
										val = "nonnil"
									} else if be.Op == token.EQL {
										val = "nil"
									}
								}
							}
						}
					}
					up = par
				}
			}
		case *ast.CallExpr:
			if sel, ok := x.Fun.(*ast.SelectorExpr); ok {
				if pk, ok := sel.X.(*ast.Ident); ok {
					if pn, ok := info.Uses[pk].(*types.PkgName); ok {
						switch pn.Imported().Path() + "." + sel.Sel.Name {
						case "errors.New", "fmt.Errorf":
							val = "nonnil"
						}
					}
				}
			}
		case *ast.UnaryExpr:
			if _, isLit := x.X.(*ast.CompositeLit); isLit && x.Op == token.AND {
				val = "nonnil"
			}
		}
		then := ""
		switch th.cond {
		case "neqnil":
			then = map[string]string{"nonnil": "then", "nil": "skip"}[val]
		case "eqnil":
			then = map[string]string{"nonnil": "skip", "nil": "then"}[val]
		case "true":
			then = map[string]string{"true": "then", "false": "skip"}[val]
		case "false":
			then = map[string]string{"true": "skip", "false": "then"}[val]
		case "geq0":
			then = map[string]string{"nonneg": "then", "neg": "skip"}[val]
		case "lt0":
			then = map[string]string{"nonneg": "skip", "neg": "then"}[val]
		case "geq0-conj":
			then = map[string]string{"neg": "skip"}[val]
		case "lt0-conj":
			then = map[string]string{"nonneg": "skip"}[val]
		case "true-conj":
			then = map[string]string{"false": "skip"}[val]
		case "false-conj":
			then = map[string]string{"true": "skip"}[val]
		}
		if then == "" {
			return "unknown"
		}
		return then
	}
	for _, r := range rets {
		var repl string
		if s.thread != nil && !s.tail {
			var assign string
			switch {
			case len(r.Results) == 0:
				assign = strings.Join(tmps, ", ") + " = " + strings.Join(resNames, ", ")
			default:
				var rs []string
				for _, e := range r.Results {
					rs = append(rs, text(e.Pos(), e.End()))
				}
				assign = strings.Join(tmps, ", ") + " = " + strings.Join(rs, ", ")
			}
			switch classify(r) {
			case "then":
				useFail = true
				repl = assign + "; goto " + lFail
			case "skip":
				useOK = true
				repl = assign + "; goto " + lOK
			default:
				useChk = true
				repl = assign + "; goto " + lChk
			}
			bodyEdits = append(bodyEdits, textEdit{off(r.Pos()) - base, off(r.End()) - base, repl})
			continue
		}
		if s.tail {
			if len(r.Results) == 0 && named {
				repl = "return " + strings.Join(resNames, ", ")
			} else {
				continue
			}
		} else {
			var assign string
			switch {
			case len(results) == 0:
				assign = ""
			case len(r.Results) == 0:
				assign = strings.Join(tmps, ", ") + " = " + strings.Join(resNames, ", ")
			default:
				var rs []string
				for _, e := range r.Results {
					rs = append(rs, text(e.Pos(), e.End()))
				}
				assign = strings.Join(tmps, ", ") + " = " + strings.Join(rs, ", ")
			}
			if ast.Stmt(r) == last {
				repl = assign
			} else {
				needLabel = true
				if assign != "" {
					repl = assign + "; goto " + label
				} else {
					repl = "goto " + label
				}
			}
		}
		bodyEdits = append(bodyEdits, textEdit{off(r.Pos()) - base, off(r.End()) - base, repl})
	}
	for st, name := range derefStars {
		inRet := false
		for _, e := range bodyEdits {
			if off(st.Pos())-base >= e.start && off(st.End())-base <= e.end {
				inRet = true
			}
		}
		if inRet {
			return nil, "a dereferenced pointer parameter inside a return statement"
		}
		bodyEdits = append(bodyEdits, textEdit{off(st.Pos()) - base, off(st.End()) - base, name})
	}
	if len(s.targs) > 0 {
		inRet := func(id *ast.Ident) bool {
			for _, e := range bodyEdits {
				if off(id.Pos())-base >= e.start && off(id.End())-base <= e.end {
					return true
				}
			}
			return false
		}
		var retFix []struct {
			i    int
			text string
		}
		_ = retFix
		ast.Inspect(fd.Body, func(n ast.Node) bool {
			id, ok := n.(*ast.Ident)
			if !ok {
				return true
			}
			tn, ok := info.Uses[id].(*types.TypeName)
			if !ok {
				return true
			}
			if _, isTP := tn.Type().(*types.TypeParam); !isTP {
				return true
			}
			t, ok := s.targs[id.Name]
			if !ok {
				return true
			}
			if inRet(id) {
				bad = "a type parameter inside a return statement"
				return true
			}
			bodyEdits = append(bodyEdits, textEdit{off(id.Pos()) - base, off(id.End()) - base, t})
			return true
		})
		if bad != "" {
			return nil, bad
		}
	}
	bodyText := []byte(text(fd.Body.Lbrace+1, fd.Body.Rbrace))
	sort.Slice(bodyEdits, func(i, j int) bool { return bodyEdits[i].start < bodyEdits[j].start })
	bodyText = applyEdits(bodyText, bodyEdits)

	var b bytes.Buffer
	cf, cl := lineOf(fd.Body.Lbrace)
	sf, sl := lineOf(s.host.Pos())
	open := func() {
		b.WriteString("{\n")
		var tupleTmps []string
		for i, bd := range binds {
			if bd.arg == "\x00" {
				fmt.Fprintf(&b, "var %s_a%d %s\n", pre, i, bd.typ)
				tupleTmps = append(tupleTmps, fmt.Sprintf("%s_a%d", pre, i))
				continue
			}
			fmt.Fprintf(&b, "var %s_a%d %s = %s\n", pre, i, bd.typ, bd.arg)
		}
		if len(tupleTmps) > 0 {
			fmt.Fprintf(&b, "%s = %s\n", strings.Join(tupleTmps, ", "), tupleArg)
		}
		for i, bd := range binds {
			if bd.name == "_" {
				fmt.Fprintf(&b, "_ = %s_a%d\n", pre, i)
				continue
			}
			fmt.Fprintf(&b, "var %s %s = %s_a%d; _ = %s\n", bd.name, bd.typ, pre, i, bd.name)
		}
		if named {
			for _, r := range results {
				if r.name != "" && r.name != "_" {
					fmt.Fprintf(&b, "var %s %s; _ = %s\n", r.name, r.typ, r.name)
				}
			}
		}
		fmt.Fprintf(&b, "//line %s:%d\n", cf, cl)
		b.Write(bodyText)
		b.WriteString("\n")
	}
	if named {
		for _, r := range results {
			if r.name == "_" {
				return nil, "blank named result"
			}
		}
	}
	out := map[string][]textEdit{}
	if s.deferred && tupleArg != "" {
		return nil, "deferred call with a tuple argument"
	}
	if s.deferred {
		// arguments are evaluated now, the body runs as the deferred function
		var d bytes.Buffer
		for i, bd := range binds {
			fmt.Fprintf(&d, "var %s_a%d %s = %s\n", pre, i, bd.typ, bd.arg)
		}
		d.WriteString("defer func() {\n")
		for i, bd := range binds {
			if bd.name == "_" {
				fmt.Fprintf(&d, "_ = %s_a%d\n", pre, i)
				continue
			}
			fmt.Fprintf(&d, "var %s %s = %s_a%d; _ = %s\n", bd.name, bd.typ, pre, i, bd.name)
		}
		fmt.Fprintf(&d, "//line %s:%d\n", cf, cl)
		d.WriteString(text(fd.Body.Lbrace+1, fd.Body.Rbrace))
		fmt.Fprintf(&d, "\n//line %s:%d\n}()", sf, sl)
		if len(derefStars) > 0 {
			// the dereferenced parameters stand for the caller's variables: substitute in the body text
			var es []textEdit
			for st, name := range derefStars {
				es = append(es, textEdit{off(st.Pos()) - base, off(st.End()) - base, name})
			}
			bt := applyEdits([]byte(text(fd.Body.Lbrace+1, fd.Body.Rbrace)), es)
			d.Reset()
			for i, bd := range binds {
				fmt.Fprintf(&d, "var %s_a%d %s = %s\n", pre, i, bd.typ, bd.arg)
			}
			d.WriteString("defer func() {\n")
			for i, bd := range binds {
				if bd.name == "_" {
					fmt.Fprintf(&d, "_ = %s_a%d\n", pre, i)
					continue
				}
				fmt.Fprintf(&d, "var %s %s = %s_a%d; _ = %s\n", bd.name, bd.typ, pre, i, bd.name)
			}
			fmt.Fprintf(&d, "//line %s:%d\n", cf, cl)
			d.Write(bt)
			fmt.Fprintf(&d, "\n//line %s:%d\n}()", sf, sl)
		}
		out[s.file] = append(out[s.file], textEdit{off(s.host.Pos()), off(s.host.End()), d.String()})
		return out, ""
	}
	if s.tail {
		open()
		fmt.Fprintf(&b, "//line %s:%d\n}", sf, sl)
		out[s.file] = append(out[s.file], textEdit{off(s.host.Pos()), off(s.host.End()), b.String()})
		return out, ""
	}
	if th := s.thread; th != nil {
		// the helper's named results / bare returns are handled by the assignment text; pads follow the block
		b.WriteString("{\n") // everything in a block of its own only for form B (the if's variables are its own)
		if !th.formB {
			b.Reset()
		}
		for i, r := range results {
			fmt.Fprintf(&b, "var %s %s\n", tmps[i], r.typ)
		}
		for _, d := range th.decl {
			b.WriteString(d + "\n")
		}
		open()
		b.WriteString("}\n")
		set := ""
		condText := text(th.ifStmt.Cond.Pos(), th.ifStmt.Cond.End())
		if th.formC {
			set = "_ = " + tmps[0]
			condText = text(th.ifStmt.Cond.Pos(), s.call.Pos()) + tmps[0] + text(s.call.End(), th.ifStmt.Cond.End())
		} else {
			set = strings.Join(th.lhs, ", ") + " = " + strings.Join(tmps, ", ")
			for _, l := range th.assign.Lhs {
				if id, ok := l.(*ast.Ident); ok && id.Name != "_" {
					set += "; _ = " + id.Name // the caller's test of it may be gone on this path
				}
			}
		}
		thenBody := text(th.ifStmt.Body.Lbrace+1, th.ifStmt.Body.Rbrace)
		endsInReturn := false
		if n := len(th.ifStmt.Body.List); n > 0 {
			_, endsInReturn = th.ifStmt.Body.List[n-1].(*ast.ReturnStmt)
		}
		isf, isl := lineOf(th.ifStmt.Pos())
		useEnd := false
		if useChk {
			fmt.Fprintf(&b, "%s:\n%s\n//line %s:%d\nif %s %s\n", lChk, set, isf, isl, condText, text(th.ifStmt.Body.Lbrace, th.ifStmt.Body.Rbrace+1))
			if useFail || useOK {
				fmt.Fprintf(&b, "goto %s\n", lEnd)
				useEnd = true
			}
		}
		if useFail {
			fmt.Fprintf(&b, "%s:\n%s\n//line %s:%d\n{%s}\n", lFail, set, isf, isl, thenBody)
			if !endsInReturn && useOK {
				fmt.Fprintf(&b, "goto %s\n", lEnd)
				useEnd = true
			}
		}
		if useOK {
			fmt.Fprintf(&b, "%s:\n%s\n", lOK, set)
		}
		if useEnd {
			fmt.Fprintf(&b, "%s:\n;\n", lEnd)
		}
		if th.formB {
			b.WriteString("}")
		}
		el, _ := 0, 0
		_ = el
		ef, eln := lineOf(th.ifStmt.End())
		fmt.Fprintf(&b, "\n//line %s:%d\n", ef, eln)
		out[s.file] = append(out[s.file], textEdit{off(s.host.Pos()), off(th.ifStmt.End()), b.String()})
		return out, ""
	}
	if s.wrap {
		b.WriteString("{\n")
	}
	for i, r := range results {
		fmt.Fprintf(&b, "var %s %s\n", tmps[i], r.typ)
	}
	open()
	b.WriteString("}\n")
	if needLabel {
		fmt.Fprintf(&b, "%s:\n", label)
	}
	fmt.Fprintf(&b, "//line %s:%d\n", sf, sl)
	callRepl := strings.Join(tmps, ", ")
	if s.whole {
		// `g(..)` alone: the statement becomes the expansion (a label needs a statement to stand on)
		rest := ";"
		if len(tmps) > 0 {
			var us []string
			for range tmps {
				us = append(us, "_")
			}
			rest = strings.Join(us, ", ") + " = " + callRepl
		}
		out[s.file] = append(out[s.file], textEdit{off(s.host.Pos()), off(s.host.End()), b.String() + rest})
		return out, ""
	}
	if len(tmps) == 0 {
		return nil, "a call without results used as a value"
	}
	if off(s.host.Pos()) == off(s.call.Pos()) {
		out[s.file] = append(out[s.file], textEdit{off(s.call.Pos()), off(s.call.End()), b.String() + callRepl})
	} else {
		out[s.file] = append(out[s.file], textEdit{off(s.host.Pos()), off(s.host.Pos()), b.String()})
		out[s.file] = append(out[s.file], textEdit{off(s.call.Pos()), off(s.call.End()), callRepl})
	}
	if s.wrap {
		out[s.file] = append(out[s.file], textEdit{off(s.host.End()), off(s.host.End()), "\n}"})
	}
	return out, ""
}

var pinnedViewCache = map[*Prog]map[string]bool{}

// pinnedView: the names that count as functions of the pinned tree in program p: the pinned names themselves, and a
// function that is not among them but has exactly the signature of a pinned function whose name is gone (a rename).
func pinnedView(p *Prog) map[string]bool {
	if m, ok := pinnedViewCache[p]; ok {
		return m
	}
	m := map[string]bool{}
	present := map[string]*types.Func{}
	for _, f := range p.Root.Syntax {
		for _, d := range f.Decls {
			if fd, ok := d.(*ast.FuncDecl); ok {
				if o, ok := p.Root.TypesInfo.Defs[fd.Name].(*types.Func); ok {
					present[funcObjKey(o)] = o
				}
			}
		}
	}
	missing := map[string]int{}
	for k, sg := range pinnedSigs {
		if _, ok := present[k]; ok {
			m[k] = true
		} else {
			missing[sg]++
		}
	}
	var keys []string
	for k := range present {
		keys = append(keys, k)
	}
	sort.Strings(keys)
	// more candidates than vacant pinned names for one signature (a rename together with a new helper of the same
	// signature): the candidate whose body is closest to the vacant function's pinned body (the exported and library
	// names it calls, which a rename of unexported identifiers leaves alone) takes the name
	cands := map[string][]string{}
	for _, k := range keys {
		if !m[k] {
			if sg := sigKey(present[k]); missing[sg] > 0 {
				cands[sg] = append(cands[sg], k)
			}
		}
	}
	decls := map[string]*ast.FuncDecl{}
	for _, f := range p.Root.Syntax {
		for _, d := range f.Decls {
			if fd, ok := d.(*ast.FuncDecl); ok {
				if o, ok := p.Root.TypesInfo.Defs[fd.Name].(*types.Func); ok {
					decls[funcObjKey(o)] = fd
				}
			}
		}
	}
	var sgs []string
	for sg := range cands {
		sgs = append(sgs, sg)
	}
	sort.Strings(sgs)
	for _, sg := range sgs {
		cs := cands[sg]
		if len(cs) <= missing[sg] {
			continue
		}
		var vacant []string
		for k, s := range pinnedSigs {
			if _, ok := present[k]; !ok && s == sg {
				vacant = append(vacant, k)
			}
		}
		sort.Strings(vacant)
		taken := map[string]bool{}
		for _, v := range vacant {
			best, bestScore := "", -1.0
			for _, k := range cs {
				if taken[k] {
					continue
				}
				if sc := shapeSimilarity(pinnedShapes[v], bodyShape(decls[k])); sc > bestScore {
					best, bestScore = k, sc
				}
			}
			if best != "" {
				taken[best] = true
				m[best] = true
				missing[sg]--
			}
		}
	}
	for _, k := range keys {
		if m[k] {
			continue
		}
		if sg := sigKey(present[k]); missing[sg] > 0 {
			missing[sg]--
			m[k] = true
		}
	}
	// methods of a renamed type: same method name, same parameters and results, on a receiver type whose pinned name
	// is gone
	stripRecv := func(sg string) string {
		if strings.HasPrefix(sg, "(") {
			if i := strings.Index(sg, ")("); i >= 0 {
				return sg[i+1:]
			}
		}
		return sg
	}
	typeGone := map[string]bool{}
	missingMeth := map[string]int{}
	for k, sg := range pinnedSigs {
		if i := strings.Index(k, "."); i > 0 && !m[k] {
			if p.Types.Scope().Lookup(k[:i]) == nil {
				typeGone[k[:i]] = true
				missingMeth[k[i+1:]+stripRecv(sg)]++
			}
		}
	}
	for _, k := range keys {
		if m[k] {
			continue
		}
		i := strings.Index(k, ".")
		if i <= 0 || pinnedTypeNames()[k[:i]] {
			continue
		}
		mk := k[i+1:] + stripRecv(sigKey(present[k]))
		if missingMeth[mk] > 0 {
			missingMeth[mk]--
			m[k] = true
		}
	}
	pinnedViewCache[p] = m
	return m
}

var pinnedTypes map[string]bool

// pinnedTypeNames: receiver type names that occur in the pinned tree.
func pinnedTypeNames() map[string]bool {
	if pinnedTypes == nil {
		pinnedTypes = map[string]bool{}
		for k := range pinnedSigs {
			if i := strings.Index(k, "."); i > 0 {
				pinnedTypes[k[:i]] = true
			}
		}
	}
	return pinnedTypes
}

// pinnedAllPresent: every function of the pinned tree is still there (under its name, or renamed). Functions that were
// merged or collapsed away mean the edit did more than cut helpers out of pinned functions; the expanded form is then
// no basis for additional reports.
func pinnedAllPresent(p *Prog) bool {
	v := pinnedView(p)
	n := 0
	for k := range v {
		_ = k
		n++
	}
	return n >= len(pinnedSigs)
}

// signTest: e is `x >= 0`, `x > -1`, `x != -1` ("geq0": holds when x is not negative, for an x that is -1 or a
// position) or `x < 0`, `x == -1`, `x <= -1` ("lt0") on a plain name x.
func signTest(info *types.Info, e ast.Expr) (*ast.Ident, string) {
	be, ok := e.(*ast.BinaryExpr)
	if !ok {
		return nil, ""
	}
	id, ok := be.X.(*ast.Ident)
	if !ok {
		return nil, ""
	}
	tv, ok := info.Types[be.Y]
	if !ok || tv.Value == nil || tv.Value.Kind() != constant.Int {
		return nil, ""
	}
	n, exact := constant.Int64Val(tv.Value)
	if !exact {
		return nil, ""
	}
	switch {
	case be.Op == token.GEQ && n == 0, be.Op == token.GTR && n == -1:
		return id, "geq0"
	case be.Op == token.LSS && n == 0, be.Op == token.LEQ && n == -1:
		return id, "lt0"
	}
	return nil, ""
}

// bodyShape: the names a function body calls through selectors that a rename of unexported identifiers leaves alone
// (exported and library names), sorted, with multiplicity, and the number of statements.
func bodyShape(fd *ast.FuncDecl) string {
	if fd == nil || fd.Body == nil {
		return ""
	}
	var names []string
	stmts := 0
	ast.Inspect(fd.Body, func(n ast.Node) bool {
		switch x := n.(type) {
		case *ast.CallExpr:
			switch f := x.Fun.(type) {
			case *ast.SelectorExpr:
				if ast.IsExported(f.Sel.Name) {
					names = append(names, f.Sel.Name)
				}
			case *ast.Ident:
				if ast.IsExported(f.Name) {
					names = append(names, f.Name)
				}
			}
		case ast.Stmt:
			if _, ok := x.(*ast.BlockStmt); !ok {
				stmts++
			}
		}
		return true
	})
	sort.Strings(names)
	return fmt.Sprintf("%d;%s", stmts, strings.Join(names, ","))
}

// shapeSimilarity: Jaccard similarity of the called-name multisets of two body shapes, with the statement counts as a
// tie-breaker.
func shapeSimilarity(a, b string) float64 {
	split := func(s string) (int, map[string]int, int) {
		n := 0
		m := map[string]int{}
		tot := 0
		if i := strings.Index(s, ";"); i >= 0 {
			fmt.Sscanf(s[:i], "%d", &n)
			for _, w := range strings.Split(s[i+1:], ",") {
				if w != "" {
					m[w]++
					tot++
				}
			}
		}
		return n, m, tot
	}
	na, ma, ta := split(a)
	nb, mb, tb := split(b)
	inter := 0
	for w, c := range ma {
		if d := mb[w]; d < c {
			inter += d
		} else {
			inter += c
		}
	}
	union := ta + tb - inter
	sc := 1.0
	if union > 0 {
		sc = float64(inter) / float64(union)
	}
	d := na - nb
	if d < 0 {
		d = -d
	}
	return sc - float64(d)/float64(1000*(na+nb+1))
}

var pinnedNameCache = map[*Prog]map[string]string{}

// pinnedNameOf: the name a function of the present tree had in the pinned tree: its own when the pinned tree has it;
// for a function under a new name, the vacant pinned name of the same signature whose pinned body shape is closest
// (pinned_shapes.go); otherwise its own. Used for constructs that are recorded (known findings) so that a rename of
// unexported identifiers does not turn a recorded finding into a new one.
func pinnedNameOf(p *Prog, f *ssa.Function) string {
	obj, _ := f.Object().(*types.Func)
	if obj == nil {
		return p.FuncKey(f)
	}
	key := funcObjKey(obj)
	m, ok := pinnedNameCache[p]
	if !ok {
		m = map[string]string{}
		pinnedNameCache[p] = m
		present := map[string]*types.Func{}
		decls := map[string]*ast.FuncDecl{}
		for _, file := range p.Root.Syntax {
			for _, d := range file.Decls {
				if fd, ok := d.(*ast.FuncDecl); ok {
					if o, ok := p.Root.TypesInfo.Defs[fd.Name].(*types.Func); ok {
						present[funcObjKey(o)] = o
						decls[funcObjKey(o)] = fd
					}
				}
			}
		}
		var vacant []string
		for k := range pinnedSigs {
			if _, ok := present[k]; !ok {
				vacant = append(vacant, k)
			}
		}
		sort.Strings(vacant)
		var keys []string
		for k := range present {
			if _, isPinned := pinnedSigs[k]; !isPinned {
				keys = append(keys, k)
			}
		}
		sort.Strings(keys)
		taken := map[string]bool{}
		for _, v := range vacant {
			best, bestScore := "", -1.0
			for _, k := range keys {
				if taken[k] || sigKey(present[k]) != pinnedSigs[v] {
					continue
				}
				if sc := shapeSimilarity(pinnedShapes[v], bodyShape(decls[k])); sc > bestScore {
					best, bestScore = k, sc
				}
			}
			if best != "" {
				taken[best] = true
				m[best] = v
			}
		}
	}
	if v, ok := m[key]; ok {
		return v
	}
	return key
}
