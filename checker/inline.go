package main

import (
	"bytes"
	"fmt"
	"go/ast"
	"go/token"
	"go/types"
	"os"
	"reflect"
	"sort"
	"strings"

	"golang.org/x/tools/go/ssa"
)

// Normalisation of extracted helpers (source-to-source, in memory).
//
// "Extract function" is the most common behaviour-preserving edit: a stretch of a function moves into a new unexported
// helper that is called from the one place it came from. Most rules of this checker read one function at a time (the
// call handler contains the reflective call, dominated by the arity test; the deferred function of the parse entry
// tests the recovered value), so such an edit can make a rule lose sight of code that still runs in the same order.
//
// InlineSingleUse undoes it: an unexported, non-generic, non-variadic function or method of the package that is
// referenced exactly once, by a direct call standing as a statement of its own (`return g(..)`, `x, err := g(..)`,
// `x = g(..)`, `var x = g(..)`, `g(..)`, or the init statement of an `if`), that contains no defer / recover / label /
// goto and that the rules did not themselves recognise as an anchor ("protected"), is expanded at its call site:
//
//	var r0 T0; var r1 T1                  // one temporary per result
//	{ var a0 P0 = arg0; ...; var p0 P0 = a0; ...   // arguments are evaluated once, in order, then bound to the parameter names
//	  <body, with `return e0, e1` rewritten to `r0, r1 = e0, e1; goto L`> }
//	L: x, err := r0, r1                   // the original statement with the call replaced by the temporaries
//
// A call in tail position (`return g(..)`) is replaced by the bound parameters and the body as it stands. Names are
// checked: every package-level, imported or predeclared name the helper uses must denote the same object at the call
// site. The expanded package is type-checked by the normal load and discarded if it does not check. //line directives
// keep reported positions on the helper's original lines. Nothing is executed.
//
// Like the higher-order normalisation this is a fallback: it is consulted only when the program as written raises
// something, and its verdict stands only if it is clean.

type inlineSite struct {
	callee  *ast.FuncDecl
	calleeF string // file of the callee
	obj     *types.Func
	file    string // file of the call
	call    *ast.CallExpr
	stmt    ast.Stmt    // the statement that is (or contains, as its init) the call
	ifStmt  *ast.IfStmt // when the call is the init statement of an if
	tail    bool
	encl    *ast.FuncDecl
}

func funcObjKey(f *types.Func) string {
	sig, _ := f.Type().(*types.Signature)
	if sig != nil && sig.Recv() != nil {
		t := sig.Recv().Type()
		if pt, ok := t.(*types.Pointer); ok {
			t = pt.Elem()
		}
		if nt, ok := t.(*types.Named); ok {
			return nt.Obj().Name() + "." + f.Name()
		}
	}
	return f.Name()
}

// InlineSingleUse performs up to maxRounds rounds of expansion. protected holds funcObjKey names that must stay.
func InlineSingleUse(repo string, overlay map[string][]byte, first *Prog, protected map[string]bool, maxRounds int) (map[string][]byte, []string) {
	cur := map[string][]byte{}
	for k, v := range overlay {
		cur[k] = v
	}
	var done []string
	p := first
	for round := 0; round < maxRounds; round++ {
		if p == nil {
			var err error
			p, err = Load(repo, cur, "", false)
			if err != nil {
				if os.Getenv("FCHECK_DEBUG") != "" {
					fmt.Println("inlining: intermediate program does not load:", err)
				}
				return nil, nil
			}
		}
		files, names := inlineRound(p, cur, protected, round)
		if len(names) == 0 {
			break
		}
		for k, v := range files {
			cur[k] = v
		}
		done = append(done, names...)
		p = nil
	}
	if len(done) == 0 {
		return nil, nil
	}
	return cur, done
}

func inlineRound(p *Prog, overlay map[string][]byte, protected map[string]bool, round int) (map[string][]byte, []string) {
	info := p.Root.TypesInfo
	fset := p.Fset
	srcOf := map[string][]byte{}
	read := func(name string) []byte {
		if b, ok := srcOf[name]; ok {
			return b
		}
		b, ok := overlay[name]
		if !ok {
			b, _ = os.ReadFile(name)
		}
		srcOf[name] = b
		return b
	}
	fileOf := func(pos token.Pos) string { return fset.File(pos).Name() }
	off := func(pos token.Pos) int { return fset.Position(pos).Offset }
	// adjusted positions are meaningless once //line directives are present; use the raw file offsets
	off = func(pos token.Pos) int { return fset.File(pos).Offset(pos) }
	text := func(a, b token.Pos) string { return string(read(fileOf(a))[off(a):off(b)]) }
	lineOf := func(pos token.Pos) (string, int) {
		ps := fset.PositionFor(pos, true) // honour earlier //line directives so that positions stay on original lines
		return ps.Filename, ps.Line
	}

	decls := map[*types.Func]*ast.FuncDecl{}
	declFile := map[*types.Func]*ast.File{}
	for _, f := range p.Root.Syntax {
		for _, d := range f.Decls {
			if fd, ok := d.(*ast.FuncDecl); ok && fd.Body != nil {
				if o, ok := info.Defs[fd.Name].(*types.Func); ok {
					decls[o] = fd
					declFile[o] = f
				}
			}
		}
	}
	uses := map[*types.Func][]*ast.Ident{}
	for id, o := range info.Uses {
		if fo, ok := o.(*types.Func); ok {
			if _, mine := decls[fo]; mine {
				uses[fo] = append(uses[fo], id)
			}
		}
	}
	// parents
	parent := map[ast.Node]ast.Node{}
	enclosing := map[ast.Node]*ast.FuncDecl{}
	for _, f := range p.Root.Syntax {
		var stack []ast.Node
		var curFn *ast.FuncDecl
		ast.Inspect(f, func(n ast.Node) bool {
			if n == nil {
				top := stack[len(stack)-1]
				stack = stack[:len(stack)-1]
				if fd, ok := top.(*ast.FuncDecl); ok && fd == curFn {
					curFn = nil
				}
				return true
			}
			if len(stack) > 0 {
				parent[n] = stack[len(stack)-1]
			}
			if fd, ok := n.(*ast.FuncDecl); ok {
				curFn = fd
			}
			if curFn != nil {
				enclosing[n] = curFn
			}
			stack = append(stack, n)
			return true
		})
	}

	eligible := func(o *types.Func, fd *ast.FuncDecl) string {
		if o.Exported() || o.Name() == "init" || o.Name() == "main" || o.Name() == "_" {
			return "exported or special"
		}
		if protected[funcObjKey(o)] {
			return "an anchor of the rules"
		}
		sig := o.Type().(*types.Signature)
		if sig.TypeParams() != nil || sig.RecvTypeParams() != nil || sig.Variadic() {
			return "generic or variadic"
		}
		if fd.Recv != nil && len(fd.Recv.List) == 1 {
			if len(fd.Recv.List[0].Names) > 1 {
				return "receiver"
			}
		}
		bad := ""
		ast.Inspect(fd.Body, func(n ast.Node) bool {
			switch x := n.(type) {
			case *ast.DeferStmt, *ast.LabeledStmt, *ast.GoStmt:
				bad = "defer / label / go"
			case *ast.BranchStmt:
				if x.Tok == token.GOTO || x.Label != nil {
					bad = "goto / labelled branch"
				}
			case *ast.CallExpr:
				if id, ok := x.Fun.(*ast.Ident); ok && id.Name == "recover" {
					bad = "recover"
				}
			}
			return bad == ""
		})
		return bad
	}

	var sites []*inlineSite
	for o, fd := range decls {
		if len(uses[o]) != 1 {
			continue
		}
		if why := eligible(o, fd); why != "" {
			continue
		}
		id := uses[o][0]
		if enclosing[id] == fd || enclosing[id] == nil {
			continue
		}
		// the call
		var fun ast.Expr = id
		if sel, ok := parent[id].(*ast.SelectorExpr); ok && sel.Sel == id {
			fun = sel
		}
		call, ok := parent[fun].(*ast.CallExpr)
		if !ok || call.Fun != fun || call.Ellipsis.IsValid() {
			continue
		}
		sig := o.Type().(*types.Signature)
		if sig.Recv() != nil {
			sel, isSel := fun.(*ast.SelectorExpr)
			if !isSel {
				continue
			}
			s := info.Selections[sel]
			if s == nil || s.Kind() != types.MethodVal || len(s.Index()) != 1 {
				continue
			}
		} else if _, isSel := fun.(*ast.SelectorExpr); isSel {
			continue
		}
		st := &inlineSite{callee: fd, obj: o, call: call, calleeF: fileOf(fd.Pos()), file: fileOf(call.Pos()), encl: enclosing[id]}
		switch ps := parent[call].(type) {
		case *ast.ReturnStmt:
			if len(ps.Results) != 1 {
				continue
			}
			st.stmt, st.tail = ps, true
		case *ast.AssignStmt:
			if len(ps.Rhs) != 1 || ps.Rhs[0] != ast.Expr(call) {
				continue
			}
			st.stmt = ps
		case *ast.ExprStmt:
			st.stmt = ps
		case *ast.ValueSpec:
			gd, ok := parent[ps].(*ast.GenDecl)
			if !ok || len(gd.Specs) != 1 || len(ps.Values) != 1 || gd.Lparen.IsValid() {
				continue
			}
			ds, ok := parent[gd].(*ast.DeclStmt)
			if !ok {
				continue
			}
			st.stmt = ds
		default:
			continue
		}
		switch up := parent[st.stmt].(type) {
		case *ast.BlockStmt, *ast.CaseClause, *ast.CommClause:
		case *ast.IfStmt:
			if up.Init != st.stmt || st.tail {
				continue
			}
			// not an `else if`
			if gp, ok := parent[up].(*ast.IfStmt); ok && gp.Else == ast.Stmt(up) {
				continue
			}
			switch parent[up].(type) {
			case *ast.BlockStmt, *ast.CaseClause, *ast.CommClause:
			default:
				continue
			}
			st.ifStmt = up
		default:
			continue
		}
		sites = append(sites, st)
	}
	sort.Slice(sites, func(i, j int) bool { return funcObjKey(sites[i].obj) < funcObjKey(sites[j].obj) })
	// one layer per round: a helper whose body holds another site of this round waits
	inBody := func(fd *ast.FuncDecl, n ast.Node) bool { return n.Pos() >= fd.Pos() && n.End() <= fd.End() }
	var chosen []*inlineSite
	for _, s := range sites {
		nested := false
		for _, t := range sites {
			if t != s && inBody(s.callee, t.call) {
				nested = true
			}
		}
		if !nested {
			chosen = append(chosen, s)
		}
	}
	// at most one site per statement (edits must not overlap)
	edits := map[string][]textEdit{}
	var names []string
	usedStmt := map[ast.Node]bool{}
	counter := round * 1000
	for _, s := range chosen {
		anchorStmt := ast.Node(s.stmt)
		if s.ifStmt != nil {
			anchorStmt = s.ifStmt
		}
		if usedStmt[anchorStmt] {
			continue
		}
		// an enclosing statement of another chosen site? (edits inside the callee text being moved)
		conflict := false
		for _, t := range chosen {
			if t != s && inBody(s.callee, t.call) {
				conflict = true
			}
		}
		if conflict {
			continue
		}
		counter++
		pre := fmt.Sprintf("__inl%d", counter)
		es, why := buildInline(s, pre, info, p.Types, text, lineOf, off)
		if why != "" {
			if os.Getenv("FCHECK_DEBUG") != "" {
				fmt.Printf("inlining: %s not expanded: %s\n", funcObjKey(s.obj), why)
			}
			continue
		}
		usedStmt[anchorStmt] = true
		for f, e := range es {
			edits[f] = append(edits[f], e...)
		}
		// blank the helper (line count preserved)
		start := s.callee.Pos()
		if s.callee.Doc != nil {
			start = s.callee.Doc.Pos()
		}
		edits[s.calleeF] = append(edits[s.calleeF], textEdit{off(start), off(s.callee.End()), keepNewlines(read(s.calleeF)[off(start):off(s.callee.End())])})
		names = append(names, funcObjKey(s.obj)+" into "+s.encl.Name.Name)
	}
	out := map[string][]byte{}
	for f, es := range edits {
		// reject overlapping edits
		sort.Slice(es, func(i, j int) bool { return es[i].start < es[j].start })
		for i := 1; i < len(es); i++ {
			if es[i].start < es[i-1].end {
				if os.Getenv("FCHECK_DEBUG") != "" {
					fmt.Println("inlining: overlapping edits in", f)
				}
				return nil, nil
			}
		}
		out[f] = applyEdits(read(f), es)
	}
	return out, names
}

// buildInline produces the text edits for one site.
func buildInline(s *inlineSite, pre string, info *types.Info, pkg *types.Package, text func(a, b token.Pos) string, lineOf func(token.Pos) (string, int), off func(token.Pos) int) (map[string][]textEdit, string) {
	fd := s.callee
	sig := s.obj.Type().(*types.Signature)
	// ---- name hygiene: package-level / imported / predeclared names used by the helper mean the same at the call site
	inner := pkg.Scope().Innermost(s.call.Pos())
	if inner == nil {
		return nil, "no scope at the call site"
	}
	bad := ""
	skip := map[*ast.Ident]bool{}
	checkIdents := func(root ast.Node) {
		ast.Inspect(root, func(n ast.Node) bool {
			switch x := n.(type) {
			case *ast.SelectorExpr:
				skip[x.Sel] = true
			case *ast.KeyValueExpr:
				if id, ok := x.Key.(*ast.Ident); ok {
					if _, isField := info.Uses[id].(*types.Var); isField && info.Uses[id].(*types.Var).IsField() {
						skip[id] = true
					}
				}
			case *ast.Ident:
				if skip[x] || bad != "" {
					return true
				}
				o := info.Uses[x]
				if o == nil {
					return true
				}
				outer := false
				switch {
				case o.Parent() == pkg.Scope(), o.Parent() == types.Universe:
					outer = true
				}
				if _, isPkg := o.(*types.PkgName); isPkg {
					outer = true
				}
				if !outer {
					return true
				}
				_, found := inner.LookupParent(x.Name, s.call.Pos())
				if found == nil {
					bad = x.Name + " is not visible at the call site"
					return true
				}
				if pn, isPkg := o.(*types.PkgName); isPkg {
					fpn, ok := found.(*types.PkgName)
					if !ok || fpn.Imported().Path() != pn.Imported().Path() {
						bad = "package name " + x.Name + " means something else at the call site"
					}
					return true
				}
				if found != o {
					bad = x.Name + " is shadowed at the call site"
				}
			}
			return true
		})
	}
	checkIdents(fd.Type)
	if fd.Recv != nil {
		checkIdents(fd.Recv)
	}
	checkIdents(fd.Body)
	if bad != "" {
		return nil, bad
	}
	// ---- parameters
	type bind struct{ name, typ, arg string }
	var binds []bind
	if fd.Recv != nil && len(fd.Recv.List) == 1 {
		rf := fd.Recv.List[0]
		name := "_"
		if len(rf.Names) == 1 {
			name = rf.Names[0].Name
		}
		sel := s.call.Fun.(*ast.SelectorExpr)
		arg := text(sel.X.Pos(), sel.X.End())
		xt := info.TypeOf(sel.X)
		_, recvPtr := sig.Recv().Type().(*types.Pointer)
		_, argPtr := xt.Underlying().(*types.Pointer)
		if _, isNamedPtr := xt.(*types.Pointer); isNamedPtr {
			argPtr = true
		}
		switch {
		case recvPtr && !argPtr:
			arg = "&(" + arg + ")"
		case !recvPtr && argPtr:
			arg = "*(" + arg + ")"
		}
		binds = append(binds, bind{name, text(rf.Type.Pos(), rf.Type.End()), arg})
	}
	ai := 0
	for _, f := range fd.Type.Params.List {
		typ := text(f.Type.Pos(), f.Type.End())
		if len(f.Names) == 0 {
			if ai >= len(s.call.Args) {
				return nil, "argument count"
			}
			binds = append(binds, bind{"_", typ, text(s.call.Args[ai].Pos(), s.call.Args[ai].End())})
			ai++
			continue
		}
		for _, n := range f.Names {
			if ai >= len(s.call.Args) {
				return nil, "argument count"
			}
			binds = append(binds, bind{n.Name, typ, text(s.call.Args[ai].Pos(), s.call.Args[ai].End())})
			ai++
		}
	}
	if ai != len(s.call.Args) {
		return nil, "argument count"
	}
	// ---- results
	type res struct{ name, typ string }
	var results []res
	named := false
	if fd.Type.Results != nil {
		for _, f := range fd.Type.Results.List {
			typ := text(f.Type.Pos(), f.Type.End())
			if len(f.Names) == 0 {
				results = append(results, res{"", typ})
				continue
			}
			for _, n := range f.Names {
				named = true
				results = append(results, res{n.Name, typ})
			}
		}
	}
	var tmps []string
	for i := range results {
		tmps = append(tmps, fmt.Sprintf("%s_r%d", pre, i))
	}
	label := pre + "_L"
	// ---- the body with its returns rewritten
	var rets []*ast.ReturnStmt
	var walk func(n ast.Node)
	walk = func(n ast.Node) {
		ast.Inspect(n, func(m ast.Node) bool {
			switch x := m.(type) {
			case *ast.FuncLit:
				return false
			case *ast.ReturnStmt:
				rets = append(rets, x)
			}
			return true
		})
	}
	walk(fd.Body)
	var last ast.Stmt
	if n := len(fd.Body.List); n > 0 {
		last = fd.Body.List[n-1]
	}
	needLabel := false
	var bodyEdits []textEdit
	base := off(fd.Body.Lbrace) + 1
	var resNames []string
	for _, r := range results {
		resNames = append(resNames, r.name)
	}
	for _, r := range rets {
		var repl string
		if s.tail {
			if len(r.Results) == 0 && named {
				repl = "return " + strings.Join(resNames, ", ")
			} else {
				continue
			}
		} else {
			var assign string
			switch {
			case len(results) == 0:
				assign = ""
			case len(r.Results) == 0:
				assign = strings.Join(tmps, ", ") + " = " + strings.Join(resNames, ", ")
			default:
				var rs []string
				for _, e := range r.Results {
					rs = append(rs, text(e.Pos(), e.End()))
				}
				assign = strings.Join(tmps, ", ") + " = " + strings.Join(rs, ", ")
			}
			if ast.Stmt(r) == last {
				repl = assign
			} else {
				needLabel = true
				if assign != "" {
					repl = assign + "; goto " + label
				} else {
					repl = "goto " + label
				}
			}
		}
		bodyEdits = append(bodyEdits, textEdit{off(r.Pos()) - base, off(r.End()) - base, repl})
	}
	bodyText := []byte(text(fd.Body.Lbrace+1, fd.Body.Rbrace))
	sort.Slice(bodyEdits, func(i, j int) bool { return bodyEdits[i].start < bodyEdits[j].start })
	bodyText = applyEdits(bodyText, bodyEdits)

	var b bytes.Buffer
	cf, cl := lineOf(fd.Body.Lbrace)
	sf, sl := lineOf(s.stmt.Pos())
	if s.ifStmt != nil {
		sf, sl = lineOf(s.ifStmt.Pos())
	}
	open := func() {
		b.WriteString("{\n")
		for i, bd := range binds {
			fmt.Fprintf(&b, "var %s_a%d %s = %s\n", pre, i, bd.typ, bd.arg)
		}
		for i, bd := range binds {
			if bd.name == "_" {
				fmt.Fprintf(&b, "_ = %s_a%d\n", pre, i)
				continue
			}
			fmt.Fprintf(&b, "var %s %s = %s_a%d; _ = %s\n", bd.name, bd.typ, pre, i, bd.name)
		}
		if named {
			for _, r := range results {
				if r.name != "" && r.name != "_" {
					fmt.Fprintf(&b, "var %s %s; _ = %s\n", r.name, r.typ, r.name)
				}
			}
		}
		fmt.Fprintf(&b, "//line %s:%d\n", cf, cl)
		b.Write(bodyText)
		b.WriteString("\n")
	}
	out := map[string][]textEdit{}
	if s.tail {
		if named {
			for _, r := range results {
				if r.name == "_" {
					return nil, "blank named result"
				}
			}
		}
		open()
		fmt.Fprintf(&b, "//line %s:%d\n}", sf, sl)
		out[s.file] = append(out[s.file], textEdit{off(s.stmt.Pos()), off(s.stmt.End()), b.String()})
		return out, ""
	}
	if named {
		for _, r := range results {
			if r.name == "_" {
				return nil, "blank named result"
			}
		}
	}
	if s.ifStmt != nil {
		b.WriteString("{\n")
	}
	for i, r := range results {
		fmt.Fprintf(&b, "var %s %s\n", tmps[i], r.typ)
	}
	open()
	b.WriteString("}\n")
	if needLabel {
		fmt.Fprintf(&b, "%s:\n", label)
	}
	fmt.Fprintf(&b, "//line %s:%d\n", sf, sl)
	insertAt := s.stmt.Pos()
	if s.ifStmt != nil {
		insertAt = s.ifStmt.Pos()
	}
	// the call itself becomes the list of temporaries
	callRepl := strings.Join(tmps, ", ")
	if _, isExpr := s.stmt.(*ast.ExprStmt); isExpr {
		if len(tmps) == 0 {
			callRepl = ""
			// `g()` alone: the statement disappears; a label needs a statement to stand on
			out[s.file] = append(out[s.file], textEdit{off(insertAt), off(s.stmt.End()), b.String() + ";"})
			return out, ""
		}
		var us []string
		for range tmps {
			us = append(us, "_")
		}
		out[s.file] = append(out[s.file], textEdit{off(insertAt), off(s.stmt.End()), b.String() + strings.Join(us, ", ") + " = " + callRepl})
		return out, ""
	} else if len(tmps) == 0 {
		return nil, "a call without results used as a value"
	}
	out[s.file] = append(out[s.file], textEdit{off(insertAt), off(insertAt), b.String()})
	out[s.file] = append(out[s.file], textEdit{off(s.call.Pos()), off(s.call.End()), callRepl})
	if s.ifStmt != nil {
		out[s.file] = append(out[s.file], textEdit{off(s.ifStmt.End()), off(s.ifStmt.End()), "\n}"})
	}
	return out, ""
}


// protectedKeys: the functions the rules recognise as anchors in program c.P - by name, by role discovery, by
// registration, by shape. They are never expanded: the rules need them where they are.
func (c *Ctx) protectedKeys() map[string]bool {
	out := map[string]bool{}
	add := func(f *ssa.Function) {
		for f != nil && f.Parent() != nil {
			f = f.Parent()
		}
		if f == nil {
			return
		}
		if o := f.Origin(); o != nil {
			f = o
		}
		if fo, ok := f.Object().(*types.Func); ok {
			out[funcObjKey(fo)] = true
		}
	}
	safely := func(g func()) {
		defer func() { recover() }()
		g()
	}
	// anchors the rules look up by (historical) name; exported ones are never expanded anyway
	for _, n := range []string{"convToBasicNumber", "newDecimalBig"} {
		add(c.fn(n))
	}
	for _, m := range [][2]string{{"Parser", "errorAtPosition"}, {"Parser", "getBinaryOperatorPrecedence"}, {"Scanner", "getIdentifierToken"}} {
		add(c.method(m[0], m[1]))
	}
	safely(func() {
		ro := c.Roles()
		v := reflect.ValueOf(ro).Elem()
		for i := 0; i < v.NumField(); i++ {
			if f, ok := v.Field(i).Interface().(*ssa.Function); ok {
				add(f)
			}
		}
	})
	for _, get := range []func() *Dispatcher{c.EvalDispatcher, c.RefDispatcher} {
		get := get
		safely(func() {
			d := get()
			if d == nil {
				return
			}
			add(d.Fn)
			// what the dispatcher itself calls: the handlers and the normaliser every result passes through
			instrs(d.Fn, func(b *ssa.BasicBlock, i int, in ssa.Instruction) {
				if call, ok := in.(ssa.CallInstruction); ok {
					if cal := calleeOf(call); cal != nil && c.inModule(cal) {
						add(cal)
					}
				}
			})
			for _, h := range d.Handlers {
				add(h)
				// what a handler dispatches to by token
				safely(func() {
					for _, arm := range c.tokenDispatch(h) {
						add(arm.Handler)
					}
				})
			}
		})
	}
	safely(func() {
		if d := c.EvalDispatcher(); d != nil {
			add(c.memberReader(d))
		}
	})
	safely(func() {
		_, es, _ := c.Registry()
		for _, e := range es {
			add(e.Fn)
		}
	})
	safely(func() {
		ns := c.numberScanners()
		add(ns.Num)
		add(ns.Frag)
	})
	safely(func() {
		f, _, _, _ := c.stringScanner()
		add(f)
	})
	safely(func() {
		for f := range c.scannerDiagFns() {
			add(f)
		}
	})
	// the speculation family: the scanner's look-ahead helper (runs a callback, then puts the scanner state back) and
	// every function that takes a callback and reaches it (lookAhead, tryParse and their shared worker)
	var spec []*ssa.Function
	for _, f := range c.P.ModFuncs {
		if len(f.Blocks) == 0 || len(f.Params) == 0 || typeName(f.Params[0].Type()) != "Scanner" {
			continue
		}
		instrs(f, func(b *ssa.BasicBlock, i int, in ssa.Instruction) {
			if call, ok := in.(*ssa.Call); ok && call.Call.StaticCallee() == nil && !call.Call.IsInvoke() {
				if _, isParam := call.Call.Value.(*ssa.Parameter); isParam {
					spec = append(spec, f)
				}
			}
		})
	}
	for _, f := range c.P.ModFuncs {
		hasFn := false
		for _, p := range f.Params {
			if _, ok := p.Type().Underlying().(*types.Signature); ok {
				hasFn = true
			}
		}
		if !hasFn {
			continue
		}
		for _, g := range spec {
			if f == g || c.reachesFn(f, g) {
				add(f)
			}
		}
	}
	for _, f := range c.P.ModFuncs {
		if peekKind(f) != "" {
			add(f)
		}
		// helpers recognised by their shape: predicates on a reflect.Type, converters to a reflect.Type, type tests,
		// clamp helpers, membership tests
		sig := f.Signature
		if sig.Recv() == nil && sig.Params().Len() >= 1 {
			for i := 0; i < sig.Params().Len(); i++ {
				if sig.Params().At(i).Type().String() == "reflect.Type" {
					add(f)
				}
			}
		}
		// the spread expansion of the call bridge: (x) ([]interface{}, error)
		if sig.Params().Len() == 1 && sig.Results().Len() == 2 && sig.Results().At(0).Type().String() == "[]interface{}" && isErrorType(sig.Results().At(1).Type()) {
			add(f)
		}
		if typeTestHelper(f) != nil || c.minMaxHelper(f) != "" {
			add(f)
		}
		if _, ok := c.membershipTable(f); ok {
			add(f)
		}
	}
	return out
}
