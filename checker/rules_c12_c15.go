package main

import (
	"fmt"
	"go/constant"
	"go/token"
	"go/types"
	"sort"
	"strings"
	"unicode/utf8"

	"golang.org/x/tools/go/ssa"
)

func init() {
	register("C12",
		"a number token's own source text is what the evaluator converts, with SetString and the failure turned into an error; every path through the decimal number scanner ends with the identifier-follows check, which raises its diagnostic when an identifier start follows; an exponent without digits, a separator not between two digits, a doubled and a trailing separator each raise a diagnostic; on the separator path the pending text range restarts after the separator, so separators never reach the token text; number tokens are made current only by the decimal number scanner. The separator bit set by the fragment scanner is the bit the number scanner tests and nothing overwrites the token flags in between; the digit class is exactly '0'..'9' (truth table over ASCII and sampled Unicode digits).",
		"that the decimal library's SetString reads every such text as the number written (trusted), leading-zero handling, and the assembly of the three fragments as a value statement.",
		runC12)
	register("C15",
		"every node allocated by the parser gets both ends of its range on every path (finishNode, the placeholder helper, or SetPos+SetEnd); the start handed to finishNode is taken before the node's first token is consumed or from its first child; the error returned for a rejected input is the formatted FIRST diagnostic and its line/column derive from that diagnostic's Start; every way the parser rejects input after the top-level expression goes through a diagnostic (not a panic); an index guard `j < len(text)` protects the index it tests; the line-start table opens a new line exactly on LF, CR (CRLF once), U+2028, U+2029, U+0085. The column is offset - lineStarts[line] for the reported line (a byte offset).",
		"nesting and re-parse as value statements, correctness of the binary search beyond termination, column arithmetic.",
		runC15)
}

// ---------- C12 ----------

type numberScanner struct {
	Num      *ssa.Function // scans a whole number
	Frag     *ssa.Function // scans a run of digits with separators
	Check    *ssa.Function // identifier-follows check
	FragLoop *Loop
}

// numberScanners: the fragment scanner is the Scanner method whose loop tests the decoded rune against '_' and IsDigit.
func (c *Ctx) numberScanners() *numberScanner {
	ns := &numberScanner{}
	isDigit := c.fn("IsDigit")
	for _, f := range c.P.ModFuncs {
		if typeName(recvType(f)) != "Scanner" || f.Signature.Results().Len() != 1 {
			continue
		}
		ch, _ := decodedRune(f)
		if ch == nil {
			continue
		}
		arms := runeSwitchArms(f, ch)
		usesDigit := false
		instrs(f, func(b *ssa.BasicBlock, i int, in ssa.Instruction) {
			if call, ok := in.(*ssa.Call); ok && calleeOf(call) == isDigit && isDigit != nil {
				usesDigit = true
			}
		})
		if _, ok := arms['_']; ok && usesDigit && len(naturalLoops(f)) == 1 {
			if b, isB := f.Signature.Results().At(0).Type().Underlying().(*types.Basic); isB && b.Kind() == types.String {
				if ns.Frag == nil || f.Name() == "scanNumberFragment" {
					ns.Frag = f
					ns.FragLoop = naturalLoops(f)[0]
				}
			}
		}
	}
	if ns.Frag == nil {
		return ns
	}
	for _, f := range c.P.ModFuncs {
		if typeName(recvType(f)) != "Scanner" || f == ns.Frag {
			continue
		}
		if len(callsTo(f, ns.Frag)) >= 2 {
			ns.Num = f
		}
	}
	if ns.Num != nil {
		instrs(ns.Num, func(b *ssa.BasicBlock, i int, in ssa.Instruction) {
			call, ok := in.(*ssa.Call)
			if !ok {
				return
			}
			cal := calleeOf(call)
			if cal == nil || !c.inModule(cal) || cal == ns.Frag || peekKind(cal) != "" || c.scannerDiagFns()[cal] {
				return
			}
			if cal.Signature.Results().Len() == 0 {
				ns.Check = cal
			}
		})
	}
	return ns
}

func runC12(c *Ctx) {
	ns := c.numberScanners()
	if ns.Frag == nil || ns.Num == nil {
		c.R.Add("C12.anchor", "ANCHOR-UNRESOLVED decimal number scanner", "-", Undecided, "number / fragment scanner not found")
		return
	}
	c.R.Analysed["number_scanner"] = c.P.FuncKey(ns.Num)
	c.R.Analysed["fragment_scanner"] = c.P.FuncKey(ns.Frag)
	c04Literal(c, "C12.literal-path")
	c12IdentAfter(c, ns)
	c12Diagnostics(c, ns)
	c12Stripped(c, ns, "C12.separator-stripped")
	c12TokenOrigin(c, ns)
	c12SeparatorFlag(c, ns)
	c12DigitClass(c, ns)
	// `digits.` and `digits.digits` are recognised with the look-ahead helpers
	c14PeekHelpers(c, "C12.peek-helpers")
}

// c12SeparatorFlag: "this literal contained a separator" is a bit the fragment scanner ORs into the token flags and the
// number scanner tests to choose between the assembled (separator-free) text and the raw source range. The bit set by
// the fragment scanner must be the bit tested, and nothing in between may overwrite the flags (only OR-ing is allowed).
func c12SeparatorFlag(c *Ctx, ns *numberScanner) {
	const rule = "C12.separator-flag"
	orConst := func(v ssa.Value) (int64, bool) {
		bo, ok := v.(*ssa.BinOp)
		if !ok || bo.Op != token.OR {
			return 0, false
		}
		for _, pr := range [][2]ssa.Value{{bo.X, bo.Y}, {bo.Y, bo.X}} {
			u, isU := pr[0].(*ssa.UnOp)
			if !isU || !isScannerField(u.X, "tokenFlags") {
				continue
			}
			if n, ok := constIntArg(pr[1]); ok {
				return n, true
			}
		}
		return 0, false
	}
	ch, _ := decodedRune(ns.Frag)
	sepArm := runeSwitchArms(ns.Frag, ch)['_']
	var setBit int64 = -1
	if sepArm != nil {
		for _, b := range ns.Frag.Blocks {
			if !(b == sepArm || sepArm.Dominates(b)) {
				continue
			}
			for _, in := range b.Instrs {
				if st, ok := in.(*ssa.Store); ok && isScannerField(st.Addr, "tokenFlags") {
					if n, ok := orConst(st.Val); ok {
						setBit = n
					}
				}
			}
		}
	}
	if setBit < 0 {
		// no flag protocol: the number scanner must then always use the assembled fragments; c12Stripped decides that
		c.R.Add(rule, "protocol", c.P.Pos(ns.Frag.Pos()), OK, "")
		return
	}
	// the test in the number scanner
	tested := false
	instrs(ns.Num, func(b *ssa.BasicBlock, i int, in ssa.Instruction) {
		bo, ok := in.(*ssa.BinOp)
		if !ok || bo.Op != token.AND {
			return
		}
		u, isU := bo.X.(*ssa.UnOp)
		if !isU || !isScannerField(u.X, "tokenFlags") {
			return
		}
		if n, ok := constIntArg(bo.Y); ok && n == setBit {
			tested = true
		}
	})
	c.R.Check(rule, "bit-set-is-bit-tested", c.P.Pos(ns.Num.Pos()), tested, fmt.Sprintf("the fragment scanner marks a separator with flag bit %#x; the number scanner must test that same bit when it chooses between the assembled text and the raw source range", setBit))
	// no overwrite between the first fragment and the test
	rr := c.P.Reach([]*ssa.Function{ns.Num}, c.inModule, nil)
	n := 0
	for _, f := range rr.Order {
		per := 0
		instrs(f, func(b *ssa.BasicBlock, i int, in ssa.Instruction) {
			st, ok := in.(*ssa.Store)
			if !ok || !isScannerField(st.Addr, "tokenFlags") {
				return
			}
			n++
			per++
			_, isOr := orConst(st.Val)
			c.R.Check(rule, fmt.Sprintf("flag-writer:%s#%d", c.P.FuncKey(f), per), c.P.InstrPos(in), isOr, "while a number is scanned the token flags may only gain bits (flags |= bit); this store overwrites them, so the separator bit set by an earlier fragment is lost and the raw text - underscores included - becomes the number text (`1_000e3` then reads as NaN)")
		})
	}
	c.R.Analysed["number_flag_writers"] = n
	c.R.Floor(rule, 3)
}

// c12DigitClass: the digit test used by the fragment scanner accepts exactly '0'..'9' (truth table over ASCII and
// sampled non-ASCII decimal digits): a Unicode digit such as U+0663 is not part of a decimal literal the evaluator can read.
func c12DigitClass(c *Ctx, ns *numberScanner) {
	const rule = "C12.digit-class"
	ch, _ := decodedRune(ns.Frag)
	var pred *ssa.Function
	instrs(ns.Frag, func(b *ssa.BasicBlock, i int, in ssa.Instruction) {
		call, ok := in.(*ssa.Call)
		if !ok || len(call.Call.Args) != 1 || call.Call.Args[0] != ch {
			return
		}
		if cal := calleeOf(call); cal != nil && c.inModule(cal) && isBoolType(call.Type()) {
			pred = cal
		}
	})
	if pred == nil {
		c.R.Add(rule, "digit-test", c.P.Pos(ns.Frag.Pos()), OK, "")
		return
	}
	samples := []int64{}
	for r := int64(0); r < 128; r++ {
		samples = append(samples, r)
	}
	samples = append(samples, 0xB2, 0xB9, 0x660, 0x663, 0x6F0, 0x966, 0x9E6, 0xE50, 0xFF10, 0xFF19, 0x1D7CE, 0x2028, 0xFFFD)
	bad := ""
	fold := &Folder{P: c.P, MaxDepth: 2}
	for _, r := range samples {
		res := fold.Fold(pred, []LV{intLV(r)})
		v, ok := boolResult(res, 0)
		want := r >= '0' && r <= '9'
		if !ok {
			bad = fmt.Sprintf("U+%04X: not decidable (the test calls out of the module)", r)
			break
		}
		if v != want {
			bad = fmt.Sprintf("U+%04X: %v, expected %v", r, v, want)
			break
		}
	}
	c.R.Check(rule, c.P.FuncKey(pred), c.P.Pos(pred.Pos()), bad == "", "the digit class of a decimal literal must be exactly '0'..'9'; "+bad+": other Unicode digits would become part of a number token whose text the evaluator cannot read")
}

func c12IdentAfter(c *Ctx, ns *numberScanner) {
	const rule = "C12.ident-after-number"
	// the check: its own method, or written out at the end of the number scanner
	f := ns.Check
	if f == nil {
		f = ns.Num
	}
	var isStart *ssa.Call
	instrs(f, func(b *ssa.BasicBlock, i int, in ssa.Instruction) {
		if call, ok := in.(*ssa.Call); ok {
			if cal := calleeOf(call); cal != nil && c.inModule(cal) && cal.Signature.Results().Len() == 1 && isBoolType(cal.Signature.Results().At(0).Type()) && (strings.Contains(strings.ToLower(cal.Name()), "identifierstart") || c.reachesFn(cal, c.fn("IsIdentifierStart"))) {
				isStart = call
			}
		}
	})
	if ns.Check == nil && isStart == nil {
		c.R.Check(rule, "check-called", c.P.Pos(ns.Num.Pos()), false, "the number scanner does not call an identifier-follows check: `1abc` would scan as a number followed by a name")
		return
	}
	isCheck := func(in ssa.Instruction) bool {
		call, ok := in.(*ssa.Call)
		if !ok {
			return false
		}
		if ns.Check != nil {
			return calleeOf(call) == ns.Check
		}
		return call == isStart
	}
	// every path from the function entry to a return passes the check, after the last fragment call on that path
	missing := pathExists(ns.Num, nil, isReturn, isCheck, nil)
	c.R.Check(rule, "check-on-every-path", c.P.Pos(ns.Num.Pos()), !missing, "there is a path through the number scanner that skips the identifier-follows check")
	late := false
	var checks []ssa.Instruction
	if ns.Check != nil {
		for _, chk := range callsTo(ns.Num, ns.Check) {
			checks = append(checks, chk)
		}
	} else {
		checks = append(checks, isStart)
	}
	for _, chk := range checks {
		for _, fr := range callsTo(ns.Num, ns.Frag) {
			if pathExists(ns.Num, chk, func(x ssa.Instruction) bool { return x == ssa.Instruction(fr) }, nil, nil) {
				late = true
			}
		}
	}
	c.R.Check(rule, "check-after-last-fragment", c.P.Pos(ns.Num.Pos()), !late, "a digit fragment is scanned after the identifier-follows check: the check must see the position after the whole literal")
	if isStart == nil {
		c.R.Check(rule, "tests-identifier-start", c.P.Pos(f.Pos()), false, "the check must test the following character with the identifier-start class")
		return
	}
	for _, follows := range []bool{true, false} {
		r := c.foldWith(f, 0, pinValue(isStart, constant.MakeBool(follows)))
		diag := false
		for _, call := range r.ReachableCalls() {
			if c.isScanDiag(call.(ssa.Instruction), "M_An_identifier_or_keyword_cannot_immediately_follow_a_numeric_literal") {
				diag = true
			}
		}
		c.R.Check(rule, fmt.Sprintf("diagnostic:identifier-follows=%v", follows), c.P.Pos(f.Pos()), diag == follows, fmt.Sprintf("when an identifier start follows=%v the diagnostic must be raised=%v; found %v", follows, follows, diag))
	}
	// the tested character is the one at the current position
	atPos := false
	for _, rt := range plainOrigins.Roots(isStart.Call.Args[len(isStart.Call.Args)-1]) {
		if rt.Kind == "call" {
			pk := rt.V.(*ssa.Call)
			for _, a := range pk.Call.Args {
				if u, ok := a.(*ssa.UnOp); ok && isScannerField(u.X, "pos") {
					atPos = true
				}
			}
			for _, a := range pk.Call.Args {
				if sl, ok := a.(*ssa.Slice); ok {
					if lo, ok := sl.Low.(*ssa.UnOp); ok && isScannerField(lo.X, "pos") {
						atPos = true
					}
				}
			}
		}
	}
	c.R.Check(rule, "tests-character-at-position", c.P.InstrPos(isStart), atPos, "the character tested must be the one at the scanner position (right after the literal)")
	c.R.Floor(rule, 5)
}

func c12Diagnostics(c *Ctx, ns *numberScanner) {
	const rule = "C12.diagnostics-present"
	// exponent without digits
	num := ns.Num
	okExp := false
	instrs(num, func(b *ssa.BasicBlock, i int, in ssa.Instruction) {
		iff, ok := in.(*ssa.If)
		if !ok {
			return
		}
		bo, ok := iff.Cond.(*ssa.BinOp)
		if !ok {
			return
		}
		var subject ssa.Value
		isEmptyTest := false
		if lc, ok := bo.X.(*ssa.Call); ok && isBuiltinCall(lc, "len") {
			if z, isZ := constIntArg(bo.Y); isZ && z == 0 {
				subject, isEmptyTest = lc.Call.Args[0], true
			}
		} else if k, ok := bo.Y.(*ssa.Const); ok && k.Value != nil && k.Value.Kind() == constant.String && constant.StringVal(k.Value) == "" {
			subject, isEmptyTest = bo.X, true // fragment == ""
		}
		if !isEmptyTest {
			return
		}
		fromFrag := false
		for _, rt := range plainOrigins.Roots(subject) {
			if rt.Kind == "call" && rt.Fn == ns.Frag {
				fromFrag = true
			}
		}
		if !fromFrag {
			return
		}
		emptyEdge := -1
		switch bo.Op {
		case token.EQL:
			emptyEdge = 0
		case token.GTR, token.NEQ:
			emptyEdge = 1
		}
		if emptyEdge < 0 {
			return
		}
		for _, x := range b.Succs[emptyEdge].Instrs {
			if c.isScanDiag(x, "M_Digit_expected") {
				okExp = true
			}
		}
	})
	c.R.Check(rule, "exponent-without-digits", c.P.Pos(num.Pos()), okExp, "an exponent marker not followed by digits must raise `digit expected`")
	// the exponent fragment is scanned only after an e/E (and optional sign)
	// separators
	f := ns.Frag
	ch, _ := decodedRune(f)
	h := ns.FragLoop.Header
	var boolPhis []*ssa.Phi
	for _, in := range h.Instrs {
		if p, ok := in.(*ssa.Phi); ok && isBoolType(p.Type()) {
			boolPhis = append(boolPhis, p)
		}
	}
	if len(boolPhis) != 2 {
		c.R.Undecided(rule, "separator-state", c.P.Pos(f.Pos()), fmt.Sprintf("expected two boolean loop states (separator allowed, previous was separator); found %d", len(boolPhis)))
		return
	}
	// which phi is "allow": the one set true on the digit path
	allow, prevSep := c.separatorStates(ns, ch, boolPhis)
	if allow == nil || prevSep == nil {
		c.R.Undecided(rule, "separator-state", c.P.Pos(f.Pos()), "cannot tell the two separator states apart")
		return
	}
	type cse struct {
		allow, prev bool
		want        string
	}
	for _, cs := range []cse{{true, false, ""}, {false, true, "M_Multiple_consecutive_numeric_separators_are_not_permitted"}, {false, false, "M_Numeric_separators_are_not_allowed_here"}} {
		// fold one iteration body on '_' with the states pinned
		r := c.foldWith(f, 0, pinValue(ch, constant.MakeInt64('_')), pinValue(allow, constant.MakeBool(cs.allow)), pinValue(prevSep, constant.MakeBool(cs.prev)), pinLoopEntered(h))
		got := ""
		for _, call := range r.ReachableCalls() {
			in := call.(ssa.Instruction)
			if !ns.FragLoop.Body[in.Block()] {
				continue
			}
			for _, m := range []string{"M_Multiple_consecutive_numeric_separators_are_not_permitted", "M_Numeric_separators_are_not_allowed_here"} {
				if c.isScanDiag(in, m) {
					got = m
				}
			}
		}
		c.R.Check(rule, fmt.Sprintf("separator:allowed=%v,previous-was-separator=%v", cs.allow, cs.prev), c.P.Pos(f.Pos()), got == cs.want, fmt.Sprintf("on `_` with separator-allowed=%v and previous-was-separator=%v the scanner must raise %q; it raises %q", cs.allow, cs.prev, cs.want, got))
	}
	// trailing separator: after the loop, previous-was-separator raises a diagnostic
	trailing := false
	for _, b := range f.Blocks {
		if ns.FragLoop.Body[b] {
			continue
		}
		for _, in := range b.Instrs {
			if c.isScanDiag(in, "M_Numeric_separators_are_not_allowed_here") {
				// guarded by the previous-was-separator state
				for _, p := range b.Preds {
					if iff, ok := p.Instrs[len(p.Instrs)-1].(*ssa.If); ok && iff.Cond == ssa.Value(prevSep) && p.Succs[0] == b {
						trailing = true
					}
				}
			}
		}
	}
	c.R.Check(rule, "trailing-separator", c.P.Pos(f.Pos()), trailing, "a fragment that ends in `_` must raise a diagnostic after the loop")
	// ... and on every way out of the loop: the end of the text as well as a character that ends the fragment
	isTest := func(b *ssa.BasicBlock) bool {
		iff, ok := b.Instrs[len(b.Instrs)-1].(*ssa.If)
		if !ok || iff.Cond != ssa.Value(prevSep) {
			return false
		}
		for _, in := range b.Succs[0].Instrs {
			if c.isScanDiag(in, "M_Numeric_separators_are_not_allowed_here") {
				return true
			}
		}
		return false
	}
	nexit := 0
	for _, b := range f.Blocks {
		if !ns.FragLoop.Body[b] {
			continue
		}
		for _, s := range b.Succs {
			if ns.FragLoop.Body[s] {
				continue
			}
			nexit++
			seen := map[*ssa.BasicBlock]bool{}
			work := []*ssa.BasicBlock{s}
			var leak *ssa.BasicBlock
			for len(work) > 0 && leak == nil {
				x := work[len(work)-1]
				work = work[:len(work)-1]
				if seen[x] || isTest(x) {
					continue
				}
				seen[x] = true
				if _, ok := x.Instrs[len(x.Instrs)-1].(*ssa.Return); ok {
					leak = x
				}
				work = append(work, x.Succs...)
			}
			c.R.Check(rule, fmt.Sprintf("trailing-separator:loop-exit#%d", nexit), c.P.InstrPos(b.Instrs[len(b.Instrs)-1]), leak == nil, "from this way out of the digit loop the fragment scanner returns without testing the previous-was-separator state: a literal that ends in `_` here (e.g. at the very end of the text) is accepted without a diagnostic")
		}
	}
	// state updates: a digit allows a separator and clears previous-was-separator; an accepted separator forbids the
	// next one and records itself (otherwise `1__0` passes as 10, or a trailing `_` goes unnoticed)
	nextState := func(r *FoldResult, p *ssa.Phi) (bool, bool) {
		acc := LV{K: lTop}
		for i, e := range p.Edges {
			pred := h.Preds[i]
			if !ns.FragLoop.Body[pred] || !r.Reach[pred] || !r.Edge[[2]int{pred.Index, h.Index}] {
				continue
			}
			acc = meet(acc, r.Val(e))
		}
		if acc.K != lConst || acc.C.Kind() != constant.Bool {
			return false, false
		}
		return constant.BoolVal(acc.C), true
	}
	for _, tr := range []struct {
		name              string
		ch                rune
		allow, prev       bool
		wantAllow, wantPr bool
	}{{"digit", '7', false, true, true, false}, {"digit-after-digit", '7', true, false, true, false}, {"accepted-separator", '_', true, false, false, true}} {
		r := c.foldWith(f, 1, pinValue(ch, constant.MakeInt64(int64(tr.ch))), pinValue(allow, constant.MakeBool(tr.allow)), pinValue(prevSep, constant.MakeBool(tr.prev)), pinLoopEntered(h))
		a, okA := nextState(r, allow)
		p, okP := nextState(r, prevSep)
		c.R.Check(rule, "transition:"+tr.name, c.P.Pos(f.Pos()), okA && okP && a == tr.wantAllow && p == tr.wantPr, fmt.Sprintf("after %s (in state separator-allowed=%v, previous-was-separator=%v) the state must become (%v,%v); it becomes (%v,%v) [decided=%v,%v]: a separator must be followed by a digit before the next separator or the end of the fragment", tr.name, tr.allow, tr.prev, tr.wantAllow, tr.wantPr, a, p, okA, okP))
	}
	c.R.Floor(rule, 8)
}

// separatorStates tells the two boolean loop states of the fragment scanner apart: "a separator is allowed next" is the
// one a digit sets to true, "the previous character was a separator" the one a digit clears. Decided first by the
// shape (the constant true arrives over the true edge of the digit test), then by folding one iteration on a digit.
func (c *Ctx) separatorStates(ns *numberScanner, ch ssa.Value, boolPhis []*ssa.Phi) (allow, prevSep *ssa.Phi) {
	h := ns.FragLoop.Header
	for _, p := range boolPhis {
		for i, e := range p.Edges {
			if k, ok := e.(*ssa.Const); ok && k.Value != nil && constant.BoolVal(k.Value) {
				if c.blockAfterCall(h.Preds[i], c.fn("IsDigit")) {
					allow = p
				}
			}
		}
	}
	if allow == nil && len(boolPhis) == 2 {
		r := c.foldWith(ns.Frag, 1, pinValue(ch, constant.MakeInt64('7')), pinLoopEntered(h))
		next := func(p *ssa.Phi) (bool, bool) {
			acc := LV{K: lTop}
			for i, e := range p.Edges {
				pred := h.Preds[i]
				if !ns.FragLoop.Body[pred] || !r.Reach[pred] || !r.Edge[[2]int{pred.Index, h.Index}] {
					continue
				}
				acc = meet(acc, r.Val(e))
			}
			if acc.K != lConst || acc.C.Kind() != constant.Bool {
				return false, false
			}
			return constant.BoolVal(acc.C), true
		}
		a0, ok0 := next(boolPhis[0])
		a1, ok1 := next(boolPhis[1])
		if ok0 && ok1 && a0 != a1 {
			if a0 {
				allow = boolPhis[0]
			} else {
				allow = boolPhis[1]
			}
		}
	}
	for _, p := range boolPhis {
		if p != allow && allow != nil {
			prevSep = p
		}
	}
	return allow, prevSep
}

// blockAfterCall: block b (or its unique predecessors chain) is entered on the true edge of a call to f.
func (c *Ctx) blockAfterCall(b *ssa.BasicBlock, f *ssa.Function) bool {
	for x := b; x != nil; {
		for _, p := range x.Preds {
			if iff, ok := p.Instrs[len(p.Instrs)-1].(*ssa.If); ok {
				if call, ok := iff.Cond.(*ssa.Call); ok && calleeOf(call) == f && p.Succs[0] == x {
					return true
				}
			}
		}
		if len(x.Preds) != 1 {
			return false
		}
		x = x.Preds[0]
		if x == b {
			return false
		}
	}
	return false
}

// pinLoopEntered pins the header's exit test `pos < end` to true.
func pinLoopEntered(h *ssa.BasicBlock) Pin {
	return func(v ssa.Value) (constant.Value, bool) {
		iff, ok := h.Instrs[len(h.Instrs)-1].(*ssa.If)
		if !ok || iff.Cond != v {
			return nil, false
		}
		return constant.MakeBool(true), true
	}
}

func c12Stripped(c *Ctx, ns *numberScanner, rule string) {
	f := ns.Frag
	h := ns.FragLoop.Header
	ch, _ := decodedRune(f)
	// the pending-range start: the int header phi used as the low bound of a text slice that is written
	var start *ssa.Phi
	instrs(f, func(b *ssa.BasicBlock, i int, in ssa.Instruction) {
		sl, ok := in.(*ssa.Slice)
		if !ok {
			return
		}
		if p, ok := sl.Low.(*ssa.Phi); ok && p.Block() == h {
			start = p
		}
	})
	if start == nil {
		c.R.Undecided(rule, "pending-range-start", c.P.Pos(f.Pos()), "no loop-carried start of the pending text range found")
		return
	}
	sepArm := runeSwitchArms(f, ch)['_']
	if sepArm == nil {
		c.R.Undecided(rule, "separator-arm", c.P.Pos(f.Pos()), "no `_` arm")
		return
	}
	// back edges that come from the separator arm
	n := 0
	for i, pred := range h.Preds {
		if !ns.FragLoop.Body[pred] {
			continue
		}
		if !(sepArm == pred || sepArm.Dominates(pred)) {
			continue
		}
		n++
		v := start.Edges[i]
		ok := false
		why := "the new start is " + describeValue(v)
		switch x := v.(type) {
		case *ssa.BinOp:
			ok = c.isAdvanceValue(x, func(y ssa.Value) bool {
				u, isU := y.(*ssa.UnOp)
				return isU && isScannerField(u.X, "pos")
			})
		case *ssa.UnOp:
			if isScannerField(x.X, "pos") {
				// a load of the position: it must come after the advance over the separator
				adv := false
				for _, in := range x.Block().Instrs {
					if in == ssa.Instruction(x) {
						break
					}
					if c.isAdvanceStore(in) {
						adv = true
					}
				}
				for b := x.Block().Idom(); b != nil && !adv; b = b.Idom() {
					if !(sepArm == b || sepArm.Dominates(b)) {
						break
					}
					for _, in := range b.Instrs {
						if c.isAdvanceStore(in) {
							adv = true
						}
					}
				}
				ok = adv
				if !adv {
					why = "the new start is the position of the `_` itself (read before the scanner advances over it)"
				}
			}
		}
		c.R.Check(rule, fmt.Sprintf("separator-path#%d", n), c.P.InstrPos(pred.Instrs[len(pred.Instrs)-1]), ok, "after a separator the pending text range must restart behind it, so that `_` never reaches the token text; "+why+": `1_0` would carry the underscore into the number text")
	}
	if n == 0 {
		// the arms join before the back edge: follow an accepted separator through one folded iteration and read what
		// the range start has become when the loop comes round
		var boolPhis []*ssa.Phi
		for _, in := range h.Instrs {
			if p, ok := in.(*ssa.Phi); ok && isBoolType(p.Type()) {
				boolPhis = append(boolPhis, p)
			}
		}
		if allow, prevSep := c.separatorStates(ns, ch, boolPhis); allow != nil && prevSep != nil && len(boolPhis) == 2 {
			r := c.foldWith(f, 0, pinValue(ch, constant.MakeInt64('_')), pinValue(allow, constant.MakeBool(true)), pinValue(prevSep, constant.MakeBool(false)), pinLoopEntered(h))
			var resolve func(v ssa.Value, depth int) []ssa.Value
			resolve = func(v ssa.Value, depth int) []ssa.Value {
				phi, isPhi := v.(*ssa.Phi)
				if !isPhi || phi.Block() == h || depth > 4 {
					return []ssa.Value{v}
				}
				var out []ssa.Value
				for i, e := range phi.Edges {
					pb := phi.Block().Preds[i]
					if r.Reach[pb] && r.Edge[[2]int{pb.Index, phi.Block().Index}] {
						out = append(out, resolve(e, depth+1)...)
					}
				}
				return out
			}
			for i, pred := range h.Preds {
				if !ns.FragLoop.Body[pred] || !r.Reach[pred] || !r.Edge[[2]int{pred.Index, h.Index}] {
					continue
				}
				for _, v := range resolve(start.Edges[i], 0) {
					n++
					ok := false
					why := "the new start is " + describeValue(v)
					switch x := v.(type) {
					case *ssa.BinOp:
						ok = c.isAdvanceValue(x, func(y ssa.Value) bool {
							u, isU := y.(*ssa.UnOp)
							return isU && isScannerField(u.X, "pos")
						})
						// computed from the position before this iteration's advance
						if ok {
							if u, isU := x.X.(*ssa.UnOp); isU && isScannerField(u.X, "pos") {
								if !pathExistsIn(r, h.Instrs[0], func(in ssa.Instruction) bool { return in == ssa.Instruction(u) }, c.isAdvanceStore) {
									ok = false
									why = "the new start adds the separator's size to a position that has already moved past it"
								}
							}
						}
					case *ssa.UnOp:
						if isScannerField(x.X, "pos") {
							// read after the advance over the separator on every folded path
							ok = !pathExistsIn(r, h.Instrs[0], func(in ssa.Instruction) bool { return in == ssa.Instruction(x) }, c.isAdvanceStore)
							if !ok {
								why = "the new start is the position of the `_` itself (read before the scanner advances over it)"
							}
						}
					}
					c.R.Check(rule, fmt.Sprintf("separator-path#%d", n), c.P.InstrPos(pred.Instrs[len(pred.Instrs)-1]), ok, "after a separator the pending text range must restart behind it, so that `_` never reaches the token text; "+why+": `1_0` would carry the underscore into the number text")
				}
			}
		}
	}
	if n == 0 {
		c.R.Undecided(rule, "separator-path", c.P.Pos(f.Pos()), "no loop edge from the separator arm")
	}
	// the text before the separator is flushed on the allowed path
	flush := false
	for _, b := range f.Blocks {
		if !(sepArm == b || sepArm.Dominates(b)) {
			continue
		}
		for _, in := range b.Instrs {
			if call, ok := in.(*ssa.Call); ok {
				if cal := calleeOf(call); cal != nil && strings.HasSuffix(cal.Name(), "Write") || cal != nil && cal.Name() == "WriteString" {
					flush = true
				}
			}
		}
	}
	c.R.Check(rule, "flush-before-separator", c.P.Pos(f.Pos()), flush, "the digits before an accepted separator must be copied to the result before the range restarts")
	// the number scanner assembles the fragments (not the raw source range) when a separator was seen
	usesFrag := false
	var rewriter *ssa.Function
	var rewriterAt *ssa.Call
	instrs(ns.Num, func(b *ssa.BasicBlock, i int, in ssa.Instruction) {
		st, ok := in.(*ssa.Store)
		if !ok || !isScannerField(st.Addr, "tokenValue") {
			return
		}
		// through phis and string concatenations
		seen := map[ssa.Value]bool{}
		var parts func(v ssa.Value)
		parts = func(v ssa.Value) {
			if v == nil || seen[v] {
				return
			}
			seen[v] = true
			switch x := v.(type) {
			case *ssa.Phi:
				for _, e := range x.Edges {
					parts(e)
				}
			case *ssa.BinOp:
				if x.Op == token.ADD {
					parts(x.X)
					parts(x.Y)
				}
			case *ssa.UnOp:
				if a, ok := x.X.(*ssa.Alloc); ok {
					for _, ref := range *a.Referrers() {
						if s2, ok := ref.(*ssa.Store); ok && s2.Addr == ssa.Value(a) {
							parts(s2.Val)
						}
					}
				}
			case *ssa.Call:
				if calleeOf(x) == ns.Frag {
					usesFrag = true
				} else if cal := calleeOf(x); cal != nil && !isBuiltinValue(x.Call.Value) && cal.Signature.Results().Len() == 1 && cal.Signature.Results().At(0).Type().String() == "string" {
					// the text passes through a string -> string function on its way into the token (a function that
					// is handed no text - a sub-scanner, a builder's String() - produces text, it does not rewrite it)
					takesText := false
					for i := 0; i < cal.Signature.Params().Len(); i++ {
						if cal.Signature.Params().At(i).Type().String() == "string" {
							takesText = true
						}
					}
					if takesText && !strings.HasPrefix(cal.String(), "strings.Join") && !strings.HasPrefix(cal.String(), "strings.Repeat") {
						rewriter = cal
						rewriterAt = x
					}
					for _, a := range x.Call.Args {
						parts(a)
					}
				}
			}
		}
		parts(st.Val)
		for _, rt := range plainOrigins.Roots(st.Val) {
			if rt.Kind == "call" && rt.Fn == ns.Frag {
				usesFrag = true
			}
		}
	})
	c.R.Check(rule, "assembled-from-fragments", c.P.Pos(ns.Num.Pos()), usesFrag, "when separators occur the token text must be assembled from the (separator-free) fragments")
	if rewriter != nil {
		// not provably wrong: a canonical spelling can denote the same number; the analysis does not reason about text
		c.R.Undecided(rule, "token-text-rewritten", c.P.InstrPos(rewriterAt), "the text of a number token passes through "+c.P.FuncKey(rewriter)+" before it is stored: whether the rewritten text still denotes exactly the number written (`0e5` with its integer part trimmed away is `e5`, not a number) cannot be decided")
	}
	// the exponent marker (e / E and the optional sign) is copied as text[end:p] where p is the position
	// right before the exponent digits: no advance may lie between sampling p and scanning the digits
	frs := callsTo(ns.Num, ns.Frag)
	if len(frs) >= 3 {
		expFrag := frs[len(frs)-1]
		okMarker, found, okLow := true, false, true
		instrs(ns.Num, func(b *ssa.BasicBlock, i int, in ssa.Instruction) {
			sl, isSl := in.(*ssa.Slice)
			if !isSl || sl.High == nil || sl.Low == nil {
				return
			}
			hi, isU := sl.High.(*ssa.UnOp)
			if !isU || !isScannerField(hi.X, "pos") {
				return
			}
			// used in a concatenation with the exponent fragment
			usedWithExp := false
			for _, ref := range *sl.Referrers() {
				if cv, isCv := ref.(*ssa.Convert); isCv {
					for _, r2 := range *cv.Referrers() {
						if bo, isB := r2.(*ssa.BinOp); isB && bo.Op == token.ADD && (bo.Y == ssa.Value(expFrag) || bo.X == ssa.Value(expFrag)) {
							usedWithExp = true
						}
					}
				}
			}
			if !usedWithExp {
				return
			}
			found = true
			// an advance between the sample and the exponent digit scan?
			adv := false
			instrs(ns.Num, func(b2 *ssa.BasicBlock, j int, q ssa.Instruction) {
				if st, isSt := q.(*ssa.Store); isSt && isScannerField(st.Addr, "pos") {
					if pathExists(ns.Num, hi, func(x ssa.Instruction) bool { return x == q }, nil, nil) && pathExists(ns.Num, q, func(x ssa.Instruction) bool { return x == ssa.Instruction(expFrag) }, nil, nil) {
						adv = true
					}
				}
			})
			if adv {
				okMarker = false
			}
			// ... and start where the mantissa ended: the low bound is a position read with nothing consumed since the
			// last fragment scan (read after the `e` has been consumed, the marker itself is lost: 1_5e3 becomes 153)
			if lo, isLo := sl.Low.(*ssa.UnOp); isLo && isScannerField(lo.X, "pos") {
				isFrag := func(x ssa.Instruction) bool {
					call, isC := x.(*ssa.Call)
					return isC && calleeOf(call) == ns.Frag
				}
				instrs(ns.Num, func(b2 *ssa.BasicBlock, j int, q ssa.Instruction) {
					if st, isSt := q.(*ssa.Store); isSt && isScannerField(st.Addr, "pos") {
						if pathExists(ns.Num, q, func(x ssa.Instruction) bool { return x == ssa.Instruction(lo) }, isFrag, nil) {
							okLow = false
						}
					}
				})
			} else {
				okLow = false
			}
		})
		if found {
			c.R.Check(rule, "exponent-marker-start", c.P.InstrPos(expFrag), okLow, "the text of the exponent marker must start where the mantissa ended; here its start is read after the `e` has been consumed, so the marker is lost when the literal is re-assembled (1_5e3 becomes 153, 1_5e-3 is no number)")
		}
		c.R.Check(rule, "exponent-marker-text", c.P.InstrPos(expFrag), found && okMarker, "the text of the exponent marker (e/E and its sign) must run up to the position right before the exponent digits; here the position is sampled before the sign is consumed, so a `-` is lost when the literal is re-assembled (1_0e-2 becomes 10e2)")
	}
	c.R.Floor(rule, 3)
}

func c12TokenOrigin(c *Ctx, ns *numberScanner) {
	const rule = "C12.number-token-origin"
	scan := c.scanFn()
	numTok := c.SK("SK_NumberLiteral")
	per := map[string]int{}
	instrs(scan, func(b *ssa.BasicBlock, i int, in ssa.Instruction) {
		st, ok := in.(*ssa.Store)
		if !ok || !isScannerField(st.Addr, "token") {
			return
		}
		isNum := false
		fromScanner := false
		for _, rt := range plainOrigins.Roots(st.Val) {
			switch rt.Kind {
			case "const":
				if n, ok := constIntArg(rt.V); ok && n == numTok {
					isNum = true
				}
			case "call":
				if rt.Fn == ns.Num {
					isNum, fromScanner = true, true
				}
			}
		}
		if !isNum {
			return
		}
		arm := c.scanArmOf(b)
		per[arm]++
		c.R.Check(rule, fmt.Sprintf("arm %s store#%d", arm, per[arm]), c.P.InstrPos(in), fromScanner, "a number token is made current here without going through the decimal number scanner: its text is not a decimal literal the evaluator can read, and the identifier-follows / separator rules are not applied (a `0x..` literal evaluates to NaN instead of being a syntax error)")
	})
	c.R.Floor(rule, 3)
}

// ---------- C15 ----------

func runC15(c *Ctx) {
	ro := c.needRoles("C15.roles")
	if ro == nil {
		return
	}
	c15RangeSet(c, ro)
	c15StartBeforeConsume(c, ro)
	c15FirstDiagnostic(c)
	kind := c01EOF(c, ro, "C15.eof-check-present")
	c.R.Check("C15.rejection-by-diagnostic", "end-of-input check", c.P.Pos(ro.Worker.Pos()), kind == "diagnostic", "input left over after the top-level expression is rejected through "+kind+", not through a diagnostic: the error then lacks the `pos(line, column) error(code) message` form and the source with its diagnostics is discarded")
	c15Guards(c)
	c15LineBreakSet(c)
	c15Column(c)
	c15Speculation(c)
	c15ExplicitSpans(c)
}

// c15Speculation: look-ahead must put back every piece of scanner state that scanning changes;
// the parser reads node positions (start of trivia) from that state right after a look-ahead.
func c15Speculation(c *Ctx) { c15SpeculationAs(c, "C15.speculation-restores-state") }

func c15SpeculationAs(c *Ctx, rule string) {
	scan := c.scanFn()
	rr := c.ReachFrom("scan", scan)
	written := map[string]bool{}
	for _, f := range rr.Order {
		if typeName(recvType(f)) != "Scanner" {
			continue
		}
		instrs(f, func(b *ssa.BasicBlock, i int, in ssa.Instruction) {
			if st, ok := in.(*ssa.Store); ok {
				if fa, ok := st.Addr.(*ssa.FieldAddr); ok && isScannerField(fa, fieldName(fa)) {
					written[fieldName(fa)] = true
				}
			}
		})
	}
	// the speculation helper: calls a function-typed parameter, then stores scanner fields
	n := 0
	for _, f := range c.P.ModFuncs {
		if len(f.Blocks) == 0 || f.Synthetic != "" && !strings.Contains(f.Synthetic, "instance") {
			continue
		}
		var cb *ssa.Call
		instrs(f, func(b *ssa.BasicBlock, i int, in ssa.Instruction) {
			if call, ok := in.(*ssa.Call); ok && call.Call.StaticCallee() == nil && !call.Call.IsInvoke() {
				if _, isParam := call.Call.Value.(*ssa.Parameter); isParam {
					cb = call
				}
			}
		})
		if cb == nil || len(f.Params) == 0 || typeName(f.Params[0].Type()) != "Scanner" {
			continue
		}
		if f.TypeParams().Len() > 0 && len(f.TypeArgs()) == 0 {
			continue // the generic template; its instances are checked
		}
		n++
		restored := map[string]bool{}
		instrs(f, func(b *ssa.BasicBlock, i int, in ssa.Instruction) {
			st, ok := in.(*ssa.Store)
			if !ok {
				return
			}
			fa, ok := st.Addr.(*ssa.FieldAddr)
			if !ok || typeName(fa.X.Type()) != "Scanner" {
				return
			}
			// the stored value was loaded from the same field before the callback ran
			if u, ok := st.Val.(*ssa.UnOp); ok {
				if fa2, ok := u.X.(*ssa.FieldAddr); ok && fieldName(fa2) == fieldName(fa) && instrDominates(u, cb) && instrDominates(cb, st) {
					restored[fieldName(fa)] = true
					// an embedded struct put back whole restores each of its fields (`s.scanState = saved`)
					if stt, isS := deref(fa.X.Type()).Underlying().(*types.Struct); isS && fa.Field < stt.NumFields() && stt.Field(fa.Field).Embedded() {
						if inner, isIS := stt.Field(fa.Field).Type().Underlying().(*types.Struct); isIS {
							for k := 0; k < inner.NumFields(); k++ {
								restored[canonFieldName(inner.Field(k))] = true
							}
						}
					}
				}
			}
		})
		// ... or the state is kept in a snapshot struct: `saved := s.saveState(); ...; s.restoreState(saved)`
		for fld := range c.snapshotRestores(f, cb) {
			restored[fld] = true
		}
		if len(restored) == 0 {
			n--
			continue // calls a callback but restores nothing: a look-ahead predicate helper, not the speculation helper
		}
		var missing []string
		for fld := range written {
			if fld == "onError" || fld == "text" || fld == "end" {
				continue
			}
			if !restored[fld] {
				missing = append(missing, fld)
			}
		}
		sort.Strings(missing)
		c.R.Check(rule, c.P.FuncKey(f), c.P.Pos(f.Pos()), len(missing) == 0, "scanning writes the scanner fields "+strings.Join(sortedKeys(written), ", ")+" but the look-ahead helper does not restore "+strings.Join(missing, ", ")+": after a look-ahead the parser takes node positions from stale state (a member name on the line after its `.` gets an empty range)")
	}
	c.R.Floor(rule, 1)
}

func c15RangeSet(c *Ctx, ro *ParserRoles) {
	const rule = "C15.range-set"
	sites := c.nodeAllocs(ro.Reach.In)
	per := map[string]int{}
	for _, s := range sites {
		if s.Type == "SourceCode" {
			continue
		}
		key := c.P.FuncKey(s.Fn) + ":" + s.Type
		per[key]++
		cons := fmt.Sprintf("%s#%d", key, per[key])
		setsBoth := func(in ssa.Instruction) bool {
			call, ok := in.(ssa.CallInstruction)
			if !ok {
				return false
			}
			cc := call.Common()
			uses := false
			var args []ssa.Value
			if cc.IsInvoke() {
				args = append([]ssa.Value{cc.Value}, cc.Args...)
			} else {
				args = cc.Args
			}
			for _, a := range args {
				for _, rt := range c.nodeOrigins().Roots(a) {
					if rt.V == ssa.Value(s.Alloc) {
						uses = true
					}
				}
			}
			if !uses {
				return false
			}
			cal := calleeOf(call)
			if cal != nil && c.setsBothEnds(cal) {
				return true
			}
			return false
		}
		// SetPos and SetEnd separately: treat the SetEnd (after a SetPos) as completing
		var setPos, setEnd []ssa.Instruction
		instrs(s.Fn, func(b *ssa.BasicBlock, i int, in ssa.Instruction) {
			call, ok := in.(*ssa.Call)
			if !ok {
				return
			}
			cal := calleeOf(call)
			if cal == nil || len(call.Call.Args) == 0 {
				return
			}
			on := false
			for _, rt := range plainOrigins.Roots(call.Call.Args[0]) {
				if rt.V == ssa.Value(s.Alloc) {
					on = true
				}
			}
			if !on {
				return
			}
			switch fnBase(cal) {
			case "SetPos":
				setPos = append(setPos, in)
			case "SetEnd":
				setEnd = append(setEnd, in)
			}
		})
		done := func(in ssa.Instruction) bool {
			if setsBoth(in) {
				return true
			}
			for _, e := range setEnd {
				if in == e {
					for _, p := range setPos {
						if instrDominates(p, e) {
							return true
						}
					}
				}
			}
			return false
		}
		missing := pathExists(s.Fn, s.Alloc, isReturn, done, nil)
		c.R.Check(rule, cons, c.P.InstrPos(s.Alloc), !missing, "there is a path from this allocation to the return on which the node's source range is not set (both ends)")
	}
	c.R.Floor(rule, 8)
}

// setsBothEnds: f sets Pos and End of one of its parameters on every path.
func (c *Ctx) setsBothEnds(f *ssa.Function) bool {
	if f == nil || len(f.Blocks) == 0 || !c.inModule(f) {
		return false
	}
	isSet := func(name string) func(ssa.Instruction) bool {
		return func(in ssa.Instruction) bool {
			call, ok := in.(ssa.CallInstruction)
			if !ok {
				return false
			}
			cc := call.Common()
			if cc.IsInvoke() {
				return cc.Method.Name() == name
			}
			cal := calleeOf(call)
			return cal != nil && fnBase(cal) == name
		}
	}
	return !pathExists(f, nil, isReturn, isSet("SetPos"), nil) && !pathExists(f, nil, isReturn, isSet("SetEnd"), nil)
}

func c15StartBeforeConsume(c *Ctx, ro *ParserRoles) {
	const rule = "C15.start-before-consume"
	n := 0
	per := map[string]int{}
	for _, f := range ro.Reach.Order {
		instrs(f, func(b *ssa.BasicBlock, i int, in ssa.Instruction) {
			call, ok := in.(*ssa.Call)
			if !ok {
				return
			}
			cal := calleeOf(call)
			if cal == nil || fnBase(cal) != "finishNode" {
				return
			}
			n++
			per[c.P.FuncKey(f)]++
			cons := fmt.Sprintf("%s: finishNode#%d", c.P.FuncKey(f), per[c.P.FuncKey(f)])
			// the start: the argument that reaches SetPos in finishNode - a parameter of its own (`pos int, end
			// ...int`), or the first element of the variadic positions
			var startVal ssa.Value
			if pi := startParamOf(cal); pi >= 0 && pi < len(call.Call.Args) {
				if _, isSlice := call.Call.Args[pi].Type().Underlying().(*types.Slice); !isSlice {
					startVal = call.Call.Args[pi]
				}
			}
			if sl, ok := call.Call.Args[len(call.Call.Args)-1].(*ssa.Slice); ok && startVal == nil {
				if a, ok := sl.X.(*ssa.Alloc); ok {
					for _, ref := range *a.Referrers() {
						if ia, ok := ref.(*ssa.IndexAddr); ok {
							if k, ok := constIntArg(ia.Index); ok && k == 0 {
								for _, r2 := range *ia.Referrers() {
									if st, ok := r2.(*ssa.Store); ok {
										startVal = st.Val
									}
								}
							}
						}
					}
				}
			}
			if startVal == nil {
				c.R.Undecided(rule, cons, c.P.InstrPos(in), "start argument not recognised")
				return
			}
			good := false
			why := describeValue(startVal)
			switch x := startVal.(type) {
			case *ssa.Call:
				if x.Call.IsInvoke() && x.Call.Method.Name() == "Pos" {
					// X.Pos() of the node stored as the first child: the receiver is a parameter / operand of this node
					good = true
				} else if cal2 := calleeOf(x); cal2 != nil && c.inModule(cal2) && c.returnsStartPos(cal2) {
					// evaluated before any consumer in this function
					before := true
					instrs(f, func(b2 *ssa.BasicBlock, j int, q ssa.Instruction) {
						qc, ok := q.(ssa.CallInstruction)
						if !ok {
							return
						}
						qcal := calleeOf(qc)
						if qcal != nil && c.MayConsume()[qcal] && q != in {
							if pathExists(f, q, func(y ssa.Instruction) bool { return y == ssa.Instruction(x) }, nil, nil) {
								before = false
								why = "the start position is read after " + c.P.FuncKey(qcal) + " may have consumed the node's first token"
							}
						}
					})
					good = before
				}
			}
			c.R.Check(rule, cons, c.P.InstrPos(in), good, "a node's start must be taken before its first token is consumed, or from its first child; "+why)
		})
	}
	c.R.Floor(rule, 6)
}

// returnsStartPos: f returns the scanner's start-of-trivia position.
func (c *Ctx) returnsStartPos(f *ssa.Function) bool {
	ok := false
	seen := map[*ssa.Function]bool{}
	var walk func(g *ssa.Function)
	walk = func(g *ssa.Function) {
		if g == nil || seen[g] {
			return
		}
		seen[g] = true
		instrs(g, func(b *ssa.BasicBlock, i int, in ssa.Instruction) {
			ret, isRet := in.(*ssa.Return)
			if !isRet || len(ret.Results) != 1 {
				return
			}
			switch x := ret.Results[0].(type) {
			case *ssa.UnOp:
				if isScannerField(x.X, "startPos") {
					ok = true
				}
			case *ssa.Call:
				walk(calleeOf(x))
			}
		})
	}
	walk(f)
	return ok
}

func c15FirstDiagnostic(c *Ctx) {
	const rule = "C15.first-diagnostic"
	entry := c.fn("ParseSourceCode")
	info := c.recoverShape(entry)
	fd := c.fn("FormatDiagnostic")
	if info.Closure == nil || !c.need(rule, fd, "FormatDiagnostic") {
		c.R.Check(rule, "formats-first", c.P.Pos(entry.Pos()), false, "no deferred function formats the diagnostics")
		return
	}
	g := info.Closure
	ok := false
	// in the deferred function, or in the entry itself after the worker has returned (still under the recover)
	scanBoth := func(visit func(b *ssa.BasicBlock, i int, in ssa.Instruction)) {
		instrs(g, visit)
		instrs(entry, visit)
	}
	scanBoth(func(b *ssa.BasicBlock, i int, in ssa.Instruction) {
		call, isC := in.(*ssa.Call)
		if !isC || calleeOf(call) != fd {
			return
		}
		// second argument: Diagnostics[0], directly or through a helper that returns it (nil when there is none)
		if hc, isHC := call.Call.Args[1].(*ssa.Call); isHC && c.firstDiagnosticHelper(calleeOf(hc)) {
			ok = true
		}
		if u, isU := call.Call.Args[1].(*ssa.UnOp); isU {
			if ia, isIA := u.X.(*ssa.IndexAddr); isIA {
				if k, isK := constIntArg(ia.Index); isK && k == 0 {
					for _, rt := range plainOrigins.Roots(ia.X) {
						if len(rt.Path) > 0 && rt.Path[len(rt.Path)-1] == "Diagnostics" {
							ok = true
						}
					}
				}
			}
		}
		// and its result becomes the error
	})
	c.R.Check(rule, "formats-first", c.P.Pos(g.Pos()), ok, "the returned error must be the formatted FIRST diagnostic (Diagnostics[0])")
	// FormatDiagnostic: line/column from diagnostic.Start, category/code/message from the diagnostic
	startOK := false
	instrs(fd, func(b *ssa.BasicBlock, i int, in ssa.Instruction) {
		call, isC := in.(*ssa.Call)
		if !isC {
			return
		}
		cal := calleeOf(call)
		if cal == nil || !c.inModule(cal) {
			return
		}
		for _, a := range call.Call.Args {
			for _, rt := range plainOrigins.Roots(a) {
				if rt.Kind == "param" && rt.Idx == 1 && len(rt.Path) == 1 && rt.Path[0] == "Start" {
					startOK = true
				}
			}
		}
	})
	c.R.Check(rule, "position-from-start", c.P.Pos(fd.Pos()), startOK, "line and column must be computed from the diagnostic's Start offset")
	// the format: pos(%d, %d) %s(%d) %s with (Line, Column, category, Code, MessageText)
	fmtOK := false
	instrs(fd, func(b *ssa.BasicBlock, i int, in ssa.Instruction) {
		call, isC := in.(*ssa.Call)
		if !isC {
			return
		}
		if cal := calleeOf(call); cal != nil && cal.String() == "fmt.Sprintf" {
			if k, isK := call.Call.Args[0].(*ssa.Const); isK && k.Value != nil && constant.StringVal(k.Value) == "pos(%d, %d) %s(%d) %s" {
				fmtOK = true
			}
		}
	})
	if !fmtOK {
		// the same text assembled otherwise (concatenation, Itoa): compare the skeleton of constant pieces and holes
		instrs(fd, func(b *ssa.BasicBlock, i int, in ssa.Instruction) {
			if ret, isR := in.(*ssa.Return); isR && len(ret.Results) == 1 {
				if sk, ok := stringSkeleton(ret.Results[0], 0); ok && sk == "pos(\x00, \x00) \x00(\x00) \x00" {
					fmtOK = true
				}
			}
		})
	}
	c.R.Check(rule, "message-form", c.P.Pos(fd.Pos()), fmtOK, "the error must have the form `pos(line, column) error(code) message`")
	// ... with line, column, code and message text in those places
	fieldsOK := false
	instrs(fd, func(b *ssa.BasicBlock, i int, in ssa.Instruction) {
		ret, isR := in.(*ssa.Return)
		if !isR || len(ret.Results) != 1 {
			return
		}
		holes := stringHoles(ret.Results[0], 0)
		if len(holes) != 5 {
			return
		}
		endsWith := func(v ssa.Value, fld string) bool {
			rs := plainOrigins.Roots(v)
			if len(rs) == 0 {
				return false
			}
			for _, rt := range rs {
				if len(rt.Path) == 0 || rt.Path[len(rt.Path)-1] != fld {
					return false
				}
			}
			return true
		}
		if endsWith(holes[0], "Line") && endsWith(holes[1], "Column") && endsWith(holes[3], "Code") && endsWith(holes[4], "MessageText") {
			fieldsOK = true
		}
	})
	c.R.Check(rule, "message-fields", c.P.Pos(fd.Pos()), fieldsOK, "the five places of `pos(L, C) category(code) message` must be filled with the position's Line, its Column, the category, the diagnostic's Code and its MessageText, in that order")
	c.R.Floor(rule, 3)
}

func c15Guards(c *Ctx) {
	const rule = "C15.guard-matches-use"
	roots := []*ssa.Function{c.fn("ParseSourceCode"), c.fn("FormatDiagnostic"), c.fn("ComputeLineStarts")}
	rr := c.ReachFrom("parse+format+lines", roots...)
	n := 0
	for _, f := range rr.Order {
		per := 0
		instrs(f, func(b *ssa.BasicBlock, i int, in ssa.Instruction) {
			ia, ok := in.(*ssa.IndexAddr)
			if !ok {
				return
			}
			if _, isConst := ia.Index.(*ssa.Const); isConst {
				return
			}
			if ia.X.Type().String() != "[]byte" {
				return
			}
			// dominating guards of the form J < len(X)
			for d := b; d != nil; d = d.Idom() {
				for _, p := range d.Preds {
					if !(p.Dominates(b)) && p != b {
						continue
					}
					iff, ok := p.Instrs[len(p.Instrs)-1].(*ssa.If)
					if !ok || p.Succs[0] != d || len(d.Preds) != 1 {
						continue
					}
					bo, ok := iff.Cond.(*ssa.BinOp)
					if !ok || bo.Op != token.LSS {
						continue
					}
					lc, ok := bo.Y.(*ssa.Call)
					shrink := int64(0)
					if !ok {
						// index < len(text) - c  is  index + c < len(text)
						if sub, isSub := bo.Y.(*ssa.BinOp); isSub && sub.Op == token.SUB {
							if k, isK := constIntArg(sub.Y); isK {
								if l2, isL := sub.X.(*ssa.Call); isL {
									lc, ok, shrink = l2, true, k
								}
							}
						}
					}
					if !ok || !isBuiltinCall(lc, "len") || lc.Call.Args[0] != ia.X {
						continue
					}
					n++
					per++
					cons := fmt.Sprintf("%s: guarded index#%d", c.P.FuncKey(f), per)
					j := bo.X
					if shrink > 0 && (sameExpr(j, ia.Index) || j == ia.Index) {
						c.R.Check(rule, cons, c.P.InstrPos(in), false, fmt.Sprintf("the guard tests index < len(text)-%d but text[index] is what is read: the last byte(s) of the text are never examined here (a CR LF pair at the very end of the input is counted as two line breaks)", shrink))
						continue
					}
					if sameExpr(j, ia.Index) || j == ia.Index {
						c.R.Add(rule, cons, c.P.InstrPos(in), OK, "")
						continue
					}
					// J = index + c ?
					off := int64(0)
					isOff := false
					if jb, ok := j.(*ssa.BinOp); ok && jb.Op == token.ADD && (jb.X == ia.Index || sameExpr(jb.X, ia.Index)) {
						if k, ok := constIntArg(jb.Y); ok {
							off, isOff = k, true
						}
					}
					if !isOff {
						// both sides as base + constant: `pos+2 < len(text)` in front of text[pos+1]
						lin := func(v ssa.Value) (ssa.Value, int64) {
							k := int64(0)
							for {
								b2, ok := v.(*ssa.BinOp)
								if !ok || b2.Op != token.ADD {
									return v, k
								}
								if n, isK := constIntArg(b2.Y); isK {
									v, k = b2.X, k+n
									continue
								}
								if n, isK := constIntArg(b2.X); isK {
									v, k = b2.Y, k+n
									continue
								}
								return v, k
							}
						}
						bj, kj := lin(j)
						bi, ki := lin(ia.Index)
						if (bj == bi || sameExpr(bj, bi)) && kj > ki {
							off, isOff = kj-ki, true
						}
					}
					if isOff && off > 0 {
						// is text[J] accessed under the guard as well?
						other := false
						instrs(f, func(b2 *ssa.BasicBlock, i2 int, in2 ssa.Instruction) {
							if ia2, ok := in2.(*ssa.IndexAddr); ok && ia2.X == ia.X && (sameExpr(ia2.Index, j) || ia2.Index == j) && (d == b2 || d.Dominates(b2)) {
								other = true
							}
						})
						c.R.Check(rule, cons, c.P.InstrPos(in), other, fmt.Sprintf("the guard tests index+%d < len(text) but only text[index] is read: the last byte of the text is never examined here (a CR LF pair at the very end of the input is counted as two line breaks)", off))
						continue
					}
					c.R.Add(rule, cons, c.P.InstrPos(in), OK, "")
				}
			}
		})
	}
	c.R.Analysed["guarded_index_expressions"] = n
	c.R.Floor(rule, 1)
}

func c15LineBreakSet(c *Ctx) {
	const rule = "C15.linebreak-set"
	f := c.fn("ComputeLineStarts")
	if !c.need(rule, f, "ComputeLineStarts") {
		return
	}
	loops := naturalLoops(f)
	if len(loops) != 1 {
		c.R.Undecided(rule, "loop", c.P.Pos(f.Pos()), "expected one loop")
		return
	}
	l := loops[0]
	ch, _ := decodedRuneAny(f)
	if ch == nil {
		c.R.Undecided(rule, "decode", c.P.Pos(f.Pos()), "no rune decode")
		return
	}
	want := map[rune]bool{}
	for _, r := range specLineBreaks {
		want[r] = true
	}
	// a table builder that walks bytes and decodes only where a multi-byte terminator can start reads the byte at the
	// loop position as well: that byte is the first byte of the sample's encoding
	var byteLoads []ssa.Value
	instrs(f, func(b *ssa.BasicBlock, i int, in ssa.Instruction) {
		u, ok := in.(*ssa.UnOp)
		if !ok || u.Op != token.MUL || !l.Body[b] {
			return
		}
		ia, ok := u.X.(*ssa.IndexAddr)
		if !ok {
			return
		}
		if _, isPhi := ia.Index.(*ssa.Phi); !isPhi {
			return
		}
		if bt, ok := u.Type().Underlying().(*types.Basic); ok && bt.Kind() == types.Uint8 {
			byteLoads = append(byteLoads, u)
		}
	})
	samples := []rune{'\n', '\r', 0x2028, 0x2029, 0x85, ' ', '\t', '\v', '\f', 'a', '0', 0xA0, 0x2027, 0x202A, 0x84, 0x86, 0x3000, 0xFEFF, 0x0B, 0x1C, 0x1D, 0x1E}
	for _, r := range samples {
		pins := []Pin{pinValue(ch, constant.MakeInt64(int64(r))), pinLoopEntered(l.Header)}
		var enc [4]byte
		utf8.EncodeRune(enc[:], r)
		for _, bl := range byteLoads {
			pins = append(pins, pinValue(bl, constant.MakeInt64(int64(enc[0]))))
		}
		res := c.foldWith(f, 2, pins...)
		newLine := false
		for _, b := range f.Blocks {
			if !res.Reach[b] || !l.Body[b] {
				continue
			}
			for _, in := range b.Instrs {
				if isBuiltinCall(in, "append") {
					newLine = true
				}
			}
		}
		c.R.Check(rule, fmt.Sprintf("U+%04X", r), c.P.Pos(f.Pos()), newLine == want[r], fmt.Sprintf("U+%04X starts a new line in the line table = %v; the line-break set of the statement says %v", r, newLine, want[r]))
	}
	c.R.Floor(rule, 20)
}

// decodedRuneAny: like decodedRune but also accepts decodes of a parameter slice.
func decodedRuneAny(f *ssa.Function) (ch, size ssa.Value) {
	return decodedRune(f)
}

// c15Column: the reported column is a byte offset within the line: offset - lineStarts[line], with `line` the very
// index reported as the line. Counting runes, UTF-16 units or display cells gives a different column on every line
// that holds a non-ASCII character before the error.
func c15Column(c *Ctx) {
	const rule = "C15.column-is-byte-offset"
	n := 0
	for _, f := range c.P.ModFuncs {
		var colSt, lineSt *ssa.Store
		instrs(f, func(b *ssa.BasicBlock, i int, in ssa.Instruction) {
			st, ok := in.(*ssa.Store)
			if !ok {
				return
			}
			fa, ok := st.Addr.(*ssa.FieldAddr)
			if !ok || typeName(fa.X.Type()) != "Position" {
				return
			}
			switch fieldName(fa) {
			case "Column":
				colSt = st
			case "Line":
				lineSt = st
			}
		})
		if colSt == nil {
			continue
		}
		if k, ok := constIntArg(colSt.Val); ok && k == 0 {
			continue // the zero Position of an error return
		}
		n++
		good, why := false, "the column is "+describeValue(colSt.Val)
		if bo, ok := colSt.Val.(*ssa.BinOp); ok && bo.Op == token.SUB {
			_, isParam := bo.X.(*ssa.Parameter)
			if u, ok := bo.Y.(*ssa.UnOp); ok && isParam && u.Op == token.MUL {
				if ia, ok := u.X.(*ssa.IndexAddr); ok && ia.X.Type().String() == "[]int" {
					if lineSt != nil && lineSt.Val == ia.Index {
						good = true
					} else {
						why = "the line start subtracted is not the start of the line that is reported"
					}
				}
			}
		}
		c.R.Check(rule, c.P.FuncKey(f), c.P.InstrPos(colSt), good, "the column of a position must be the byte offset within its line (offset - lineStarts[line]); "+why)
	}
	c.R.Floor(rule, 1)
}

// reachesFn: g is f or is reachable from f through module functions.
func (c *Ctx) reachesFn(f, g *ssa.Function) bool {
	if f == nil || g == nil {
		return false
	}
	return c.P.Reach([]*ssa.Function{f}, c.inModule, nil).In[g]
}

// stringSkeleton renders a string-valued expression as its constant pieces with \x00 for every computed piece:
// concatenations, fmt.Sprintf with a constant format (each verb is a hole), strconv / Sprint conversions (a hole).
func stringSkeleton(v ssa.Value, depth int) (string, bool) {
	if depth > 12 {
		return "", false
	}
	switch x := v.(type) {
	case *ssa.Const:
		if x.Value != nil && x.Value.Kind() == constant.String {
			return constant.StringVal(x.Value), true
		}
		return "", false
	case *ssa.BinOp:
		if x.Op != token.ADD {
			return "", false
		}
		l, ok1 := stringSkeleton(x.X, depth+1)
		r, ok2 := stringSkeleton(x.Y, depth+1)
		return l + r, ok1 && ok2
	case *ssa.Call:
		cal := calleeOf(x)
		if cal != nil && cal.String() == "fmt.Sprintf" {
			if k, ok := x.Call.Args[0].(*ssa.Const); ok && k.Value != nil && k.Value.Kind() == constant.String {
				f := constant.StringVal(k.Value)
				var out []byte
				for i := 0; i < len(f); i++ {
					if f[i] == '%' && i+1 < len(f) {
						if f[i+1] == '%' {
							out = append(out, '%')
						} else {
							out = append(out, 0)
						}
						i++
						continue
					}
					out = append(out, f[i])
				}
				return string(out), true
			}
		}
		return "\x00", true
	}
	return "\x00", true
}

// stringHoles: the computed pieces of a string expression, in order (see stringSkeleton); conversions such as
// strconv.Itoa(x), fmt.Sprint(x) and Sprintf arguments yield x.
func stringHoles(v ssa.Value, depth int) []ssa.Value {
	if depth > 12 {
		return nil
	}
	switch x := v.(type) {
	case *ssa.Const:
		return nil
	case *ssa.BinOp:
		if x.Op == token.ADD {
			return append(stringHoles(x.X, depth+1), stringHoles(x.Y, depth+1)...)
		}
	case *ssa.Call:
		cal := calleeOf(x)
		if cal == nil {
			return []ssa.Value{v}
		}
		switch cal.String() {
		case "fmt.Sprintf":
			// the variadic arguments: elements stored into the argument array
			if len(x.Call.Args) == 2 {
				if arr := localArrayLiteral(x.Call.Args[1]); arr != nil {
					byIdx := map[int64]ssa.Value{}
					var max int64 = -1
					for _, ref := range *arr.Referrers() {
						ia, ok := ref.(*ssa.IndexAddr)
						if !ok {
							continue
						}
						k, isK := constIntArg(ia.Index)
						if !isK {
							continue
						}
						for _, r2 := range *ia.Referrers() {
							if st, ok := r2.(*ssa.Store); ok && st.Addr == ssa.Value(ia) {
								byIdx[k] = st.Val
								if k > max {
									max = k
								}
							}
						}
					}
					var out []ssa.Value
					for k := int64(0); k <= max; k++ {
						out = append(out, byIdx[k])
					}
					return out
				}
			}
			return []ssa.Value{v}
		case "strconv.Itoa", "strconv.FormatInt", "fmt.Sprint":
			if len(x.Call.Args) >= 1 {
				return []ssa.Value{x.Call.Args[0]}
			}
		}
		return []ssa.Value{v}
	}
	return []ssa.Value{v}
}

// firstDiagnosticHelper: h(source) returns nil when the source is nil or carries no diagnostics and
// source.Diagnostics[0] otherwise (decided by folding h with the length of the diagnostics list pinned).
func (c *Ctx) firstDiagnosticHelper(h *ssa.Function) bool {
	if h == nil || !c.inModule(h) || len(h.Blocks) == 0 || len(h.Params) != 1 || h.Signature.Results().Len() != 1 {
		return false
	}
	lenDiag := func(n int64) Pin {
		return func(v ssa.Value) (constant.Value, bool) {
			call, ok := v.(*ssa.Call)
			if !ok || !isBuiltinCall(call, "len") || len(call.Call.Args) != 1 {
				return nil, false
			}
			for _, rt := range plainOrigins.Roots(call.Call.Args[0]) {
				if len(rt.Path) > 0 && rt.Path[len(rt.Path)-1] == "Diagnostics" {
					return constant.MakeInt64(n), true
				}
			}
			return nil, false
		}
	}
	srcNil := func(isNil bool) Pin {
		return func(v ssa.Value) (constant.Value, bool) {
			bo, ok := v.(*ssa.BinOp)
			if !ok || (bo.Op != token.EQL && bo.Op != token.NEQ) {
				return nil, false
			}
			if !(bo.X == ssa.Value(h.Params[0]) && isNilConst(bo.Y) || bo.Y == ssa.Value(h.Params[0]) && isNilConst(bo.X)) {
				return nil, false
			}
			res := isNil
			if bo.Op == token.NEQ {
				res = !isNil
			}
			return constant.MakeBool(res), true
		}
	}
	// no diagnostics -> nil
	r0 := c.foldWith(h, 0, lenDiag(0), srcNil(false))
	if len(r0.Returns) == 0 {
		return false
	}
	for _, ret := range r0.Returns {
		if !isNilConst(ret.Results[0]) {
			return false
		}
	}
	rn := c.foldWith(h, 0, srcNil(true))
	for _, ret := range rn.Returns {
		if !isNilConst(ret.Results[0]) {
			return false
		}
	}
	// some diagnostics -> Diagnostics[0]
	r1 := c.foldWith(h, 0, lenDiag(1), srcNil(false))
	if len(r1.Returns) == 0 {
		return false
	}
	for _, ret := range r1.Returns {
		u, ok := ret.Results[0].(*ssa.UnOp)
		if !ok {
			return false
		}
		ia, ok := u.X.(*ssa.IndexAddr)
		if !ok {
			return false
		}
		if k, isK := constIntArg(ia.Index); !isK || k != 0 {
			return false
		}
		first := false
		for _, rt := range plainOrigins.Roots(ia.X) {
			if len(rt.Path) > 0 && rt.Path[len(rt.Path)-1] == "Diagnostics" {
				first = true
			}
		}
		if !first {
			return false
		}
	}
	return true
}

// snapshotRestores: scanner fields that helper f puts back after the callback cb from a snapshot struct taken before
// it. The snapshot is the result of a call made before cb whose struct result holds, field by field, loads of
// scanner fields (G <- Scanner.F); after cb a function receiving that struct stores its field G into Scanner.F'.
// A field counts as restored when F' == F.
func (c *Ctx) snapshotRestores(f *ssa.Function, cb *ssa.Call) map[string]bool {
	out := map[string]bool{}
	// the value a local struct cell holds: its single store
	cellValue := func(a *ssa.Alloc) ssa.Value {
		var v ssa.Value
		n := 0
		for _, ref := range *a.Referrers() {
			if st, ok := ref.(*ssa.Store); ok && st.Addr == ssa.Value(a) {
				v = st.Val
				n++
			}
		}
		if n == 1 {
			return v
		}
		return nil
	}
	structSource := func(v ssa.Value) ssa.Value {
		for i := 0; i < 6 && v != nil; i++ {
			switch x := v.(type) {
			case *ssa.UnOp:
				if a, ok := x.X.(*ssa.Alloc); ok {
					v = cellValue(a)
					continue
				}
				return nil
			case *ssa.Alloc:
				v = cellValue(x)
				continue
			}
			break
		}
		return v
	}
	// save functions: struct field G <- Scanner field F
	saveMap := func(g *ssa.Function) map[string]string {
		m := map[string]string{}
		instrs(g, func(b *ssa.BasicBlock, i int, in ssa.Instruction) {
			st, ok := in.(*ssa.Store)
			if !ok {
				return
			}
			fa, ok := st.Addr.(*ssa.FieldAddr)
			if !ok || typeName(fa.X.Type()) == "Scanner" {
				return
			}
			if u, ok := st.Val.(*ssa.UnOp); ok {
				if fs, ok := u.X.(*ssa.FieldAddr); ok && typeName(fs.X.Type()) == "Scanner" {
					m[fieldName(fa)] = fieldName(fs)
				}
			}
		})
		return m
	}
	instrs(f, func(b *ssa.BasicBlock, i int, in ssa.Instruction) {
		call, ok := in.(*ssa.Call)
		if !ok || !instrDominates(cb, call) {
			return
		}
		r := calleeOf(call)
		if r == nil || !c.inModule(r) || len(r.Blocks) == 0 {
			return
		}
		// which argument is a snapshot taken before the callback
		for ai, a := range call.Call.Args {
			src := structSource(a)
			sc, ok := src.(*ssa.Call)
			if !ok || !instrDominates(sc, cb) || calleeOf(sc) == nil || !c.inModule(calleeOf(sc)) {
				continue
			}
			sm := saveMap(calleeOf(sc))
			if len(sm) == 0 || ai >= len(r.Params) {
				continue
			}
			par := r.Params[ai]
			// in the restore function: Scanner.F' <- param.G
			instrs(r, func(b2 *ssa.BasicBlock, j int, in2 ssa.Instruction) {
				st, ok := in2.(*ssa.Store)
				if !ok {
					return
				}
				fa, ok := st.Addr.(*ssa.FieldAddr)
				if !ok || typeName(fa.X.Type()) != "Scanner" {
					return
				}
				g := ""
				switch x := st.Val.(type) {
				case *ssa.UnOp:
					if fs, ok := x.X.(*ssa.FieldAddr); ok {
						if structSource(fs.X) == ssa.Value(par) {
							g = fieldName(fs)
						}
					}
				case *ssa.Field:
					if x.X == ssa.Value(par) {
						g = fieldNameV(x)
					}
				}
				if g != "" && sm[g] == fieldName(fa) {
					out[fieldName(fa)] = true
				}
			})
		}
	})
	return out
}

// startParamOf: the index of the parameter of a node finisher whose value (itself, or its element 0) is handed to
// SetPos; -1 when not found.
func startParamOf(fin *ssa.Function) int {
	res := -1
	instrs(fin, func(b *ssa.BasicBlock, i int, in ssa.Instruction) {
		call, ok := in.(ssa.CallInstruction)
		if !ok {
			return
		}
		cc := call.Common()
		name := ""
		if cc.IsInvoke() {
			name = cc.Method.Name()
		} else if cal := calleeOf(call); cal != nil {
			name = fnBase(cal)
		}
		if name != "SetPos" || len(cc.Args) == 0 {
			return
		}
		a := cc.Args[len(cc.Args)-1]
		for _, rt := range plainOrigins.Roots(a) {
			if rt.Kind == "param" {
				for k, p := range fin.Params {
					if ssa.Value(p) == rt.V {
						res = k
					}
				}
			}
		}
	})
	return res
}
