package main

import (
	"fmt"
	"go/constant"

	"golang.org/x/tools/go/ssa"
)

// c18TextBase: text that reaches the evaluator as a number ("toFloat of a numeric string is that number and of other
// text NaN"; unary +/- and the bit operators on text) is decimal text. Every strconv integer parse the evaluator and
// the builtins can reach must therefore read base 10 - a constant 10, or Atoi. Base 0 "auto-detects" the base: a
// leading 0 means octal (`'010'` is 8), `0x10`, `0b1` and `1_000` are accepted where the statement wants NaN.
func c18TextBase(c *Ctx, rule string) {
	rr := c.ReachFrom("eval+builtins", c.evalRoots()...)
	n := 0
	for _, f := range rr.Order {
		instrs(f, func(b *ssa.BasicBlock, i int, in ssa.Instruction) {
			call, ok := in.(*ssa.Call)
			if !ok {
				return
			}
			cal := calleeOf(call)
			if cal == nil {
				return
			}
			switch cal.String() {
			case "strconv.Atoi":
				n++
				c.R.Add(rule, fmt.Sprintf("%s:Atoi#%d", c.P.FuncKey(f), n), c.P.InstrPos(in), OK, "")
			case "strconv.ParseInt", "strconv.ParseUint":
				n++
				cons := fmt.Sprintf("%s:%s#%d", c.P.FuncKey(f), cal.Name(), n)
				k, isConst := call.Call.Args[1].(*ssa.Const)
				base := int64(-1)
				if isConst && k.Value != nil && k.Value.Kind() == constant.Int {
					base, _ = constant.Int64Val(k.Value)
				}
				c.R.Check(rule, cons, c.P.InstrPos(in), base == 10, fmt.Sprintf("%s reads text in base %d (want the constant 10): with base 0 a leading zero means octal and 0x / 0b / 0o prefixes and `_` are accepted, so `'010'` is 8 and `'0x10'` is 16 instead of 10 and NaN", cal.Name(), base))
			}
		})
	}
	// no floor: a tree that reads text through the decimal parser only has nothing to check here (the self-test mutant
	// c18-text-read-with-base-detection keeps the detector honest)
	c.R.Analysed["strconv_integer_parses_in_evaluator"] = n
}
