package main

import (
	"sort"
	"strings"

	"golang.org/x/tools/go/ssa"
)

// WriteEffect is one instruction that writes memory: a store, a map update /
// delete, or a call of a function known to write into one of its arguments.
type WriteEffect struct {
	Fn     *ssa.Function
	In     ssa.Instruction
	What   string    // store | mapupdate | delete | copy | call <callee>
	Target ssa.Value // the address / map / written argument
}

// externalWrittenArgs: for calls that leave the module, the indices of the
// arguments (receiver = 0) whose pointee the callee writes. The decimal
// library's entries are computed from its own `z` naming convention; the
// standard-library entries are the documented mutators the repository uses
// or could plausibly use on shared data.
func (c *Ctx) externalWrittenArgs(cal *ssa.Function) []int {
	if cal == nil {
		return nil
	}
	name := cal.String()
	if k, ok := c.DecimalWriters()[name]; ok {
		return []int{k}
	}
	switch {
	case strings.HasPrefix(name, "(*sync.Map)."):
		switch cal.Name() {
		case "Store", "Delete", "LoadOrStore", "LoadAndDelete", "Swap", "CompareAndSwap", "CompareAndDelete", "Clear":
			return []int{0}
		}
	case strings.HasPrefix(name, "(*sync.") || strings.HasPrefix(name, "(*sync/atomic."):
		return []int{0}
	case strings.HasPrefix(name, "(reflect.Value).Set") || name == "(reflect.Value).Clear" || name == "(reflect.Value).Grow":
		return []int{0}
	case strings.HasPrefix(name, "sort."):
		return []int{0}
	case strings.HasPrefix(name, "slices.Sort") || strings.HasPrefix(name, "slices.Reverse"):
		return []int{0}
	case strings.HasPrefix(name, "(*strings.Builder).") || strings.HasPrefix(name, "(*bytes.Buffer)."):
		if strings.HasPrefix(cal.Name(), "Write") || cal.Name() == "Reset" || cal.Name() == "Grow" || cal.Name() == "Truncate" {
			return []int{0}
		}
	case strings.HasPrefix(name, "(*math/big.Int).") || strings.HasPrefix(name, "(*math/big.Float).") || strings.HasPrefix(name, "(*math/big.Rat)."):
		// math/big uses the same z convention: receiver is the result
		n := cal.Name()
		if strings.HasPrefix(n, "Set") || n == "Add" || n == "Sub" || n == "Mul" || n == "Quo" || n == "Rem" || n == "Neg" || n == "Abs" || n == "Not" || n == "And" || n == "Or" || n == "Xor" || n == "Lsh" || n == "Rsh" || n == "Exp" || n == "Div" || n == "Mod" {
			return []int{0}
		}
	case name == "encoding/json.Unmarshal":
		return []int{1}
	case name == "(*time.Time).UnmarshalJSON" || name == "(*time.Time).UnmarshalText":
		return []int{0}
	}
	return nil
}

// localEffects enumerates the write effects of f's own instructions.
func (c *Ctx) localEffects(f *ssa.Function) []WriteEffect {
	var out []WriteEffect
	instrs(f, func(b *ssa.BasicBlock, i int, in ssa.Instruction) {
		switch x := in.(type) {
		case *ssa.Store:
			out = append(out, WriteEffect{f, in, "store", x.Addr})
		case *ssa.MapUpdate:
			out = append(out, WriteEffect{f, in, "mapupdate", x.Map})
		case *ssa.Send:
			out = append(out, WriteEffect{f, in, "send", x.Chan})
		case ssa.CallInstruction:
			cc := x.Common()
			if bi, ok := cc.Value.(*ssa.Builtin); ok {
				switch bi.Name() {
				case "delete":
					out = append(out, WriteEffect{f, in, "delete", cc.Args[0]})
				case "copy":
					out = append(out, WriteEffect{f, in, "copy", cc.Args[0]})
				case "clear":
					out = append(out, WriteEffect{f, in, "clear", cc.Args[0]})
				case "append":
					// append writes into the backing array of its first argument whenever the capacity suffices
					if k, isK := cc.Args[0].(*ssa.Const); !(isK && k.Value == nil) && len(cc.Args) > 1 {
						out = append(out, WriteEffect{f, in, "append (writes the backing array within capacity)", cc.Args[0]})
					}
				}
				return
			}
			cal := calleeOf(x)
			if cal == nil || c.inModule(cal) {
				return
			}
			for _, k := range c.externalWrittenArgs(cal) {
				if k < len(cc.Args) {
					out = append(out, WriteEffect{f, in, "call " + cal.String(), cc.Args[k]})
				}
			}
		}
	})
	return out
}

// targetRoots: which objects an effect's target denotes.
func (c *Ctx) targetRoots(e WriteEffect) []Root {
	return decOrigins(c).Roots(e.Target)
}

// ParamWrite: evidence that a function writes memory reachable from a parameter.
type ParamWrite struct {
	In  ssa.Instruction // the store or the call passing it on
	Via *ssa.Function   // callee for indirect writes
	Idx int             // callee parameter index
}

var paramWritesCache = map[*Ctx]map[*ssa.Function]map[int]*ParamWrite{}

// ParamWrites computes, for every module function, the parameters through
// which it may write (directly, or by handing the parameter - or something
// loaded from it - to a callee that writes through the corresponding
// parameter). Flow-insensitive, field-insensitive, closed over the module by
// fixpoint; interface calls go to every module implementation.
func (c *Ctx) ParamWrites() map[*ssa.Function]map[int]*ParamWrite {
	if m, ok := paramWritesCache[c]; ok {
		return m
	}
	res := map[*ssa.Function]map[int]*ParamWrite{}
	paramWritesCache[c] = res
	add := func(f *ssa.Function, idx int, pw *ParamWrite) bool {
		if res[f] == nil {
			res[f] = map[int]*ParamWrite{}
		}
		if _, ok := res[f][idx]; ok {
			return false
		}
		res[f][idx] = pw
		return true
	}
	or := decOrigins(c)
	// direct
	for _, f := range c.P.ModFuncs {
		for _, e := range c.localEffects(f) {
			for _, rt := range or.Roots(e.Target) {
				if rt.Kind == "param" {
					// a store into the parameter variable's own cell is not a write through it
					if e.What == "store" && len(rt.Path) == 0 {
						continue
					}
					add(f, rt.Idx, &ParamWrite{In: e.In})
				}
			}
		}
	}
	// closures: a write through a free variable is attributed to nothing here (locals of the parent)
	for changed := true; changed; {
		changed = false
		for _, f := range c.P.ModFuncs {
			instrs(f, func(b *ssa.BasicBlock, i int, in ssa.Instruction) {
				call, ok := in.(ssa.CallInstruction)
				if !ok {
					return
				}
				cc := call.Common()
				var targets []*ssa.Function
				var args []ssa.Value
				if cc.IsInvoke() {
					targets = c.P.implementations(cc)
					args = append([]ssa.Value{cc.Value}, cc.Args...)
				} else if cal := calleeOf(call); cal != nil && c.inModule(cal) {
					targets = []*ssa.Function{cal}
					args = cc.Args
				} else if cal == nil {
					// dynamic call of a closure value created in this function
					if g := fnValue(cc.Value); g != nil && c.inModule(g) {
						targets = []*ssa.Function{g}
						args = cc.Args
					}
				}
				for _, g := range targets {
					for idx := range res[g] {
						if idx >= len(args) {
							continue
						}
						for _, rt := range or.Roots(args[idx]) {
							if rt.Kind == "param" {
								if add(f, rt.Idx, &ParamWrite{In: in, Via: g, Idx: idx}) {
									changed = true
								}
							}
						}
					}
				}
			})
		}
	}
	return res
}

// writeChain renders how f comes to write through parameter idx.
func (c *Ctx) writeChain(f *ssa.Function, idx int) string {
	var parts []string
	seen := map[*ssa.Function]bool{}
	for f != nil && !seen[f] {
		seen[f] = true
		pw := c.ParamWrites()[f][idx]
		if pw == nil {
			break
		}
		if pw.Via == nil {
			parts = append(parts, c.P.FuncKey(f)+" writes at "+c.P.InstrPos(pw.In))
			break
		}
		parts = append(parts, c.P.FuncKey(f)+" ("+c.P.InstrPos(pw.In)+")")
		f, idx = pw.Via, pw.Idx
	}
	return strings.Join(parts, " -> ")
}

// GlobalWrite: a write whose target is (reachable from) a package-level variable.
type GlobalWrite struct {
	Fn     *ssa.Function
	In     ssa.Instruction
	Global string
	How    string
}

// globalWritesIn lists writes to package-level state made by f: direct
// (store / map update / mutator call on something rooted at a global) and
// indirect (a value rooted at a global handed to a callee that writes through
// that parameter).
func (c *Ctx) globalWritesIn(f *ssa.Function) []GlobalWrite {
	var out []GlobalWrite
	or := decOrigins(c)
	gname := func(rt Root) string {
		if g, ok := rt.V.(*ssa.Global); ok {
			if g.Pkg != nil && g.Pkg != c.P.Pkg {
				return g.Pkg.Pkg.Path() + "." + g.Name()
			}
			return g.Name()
		}
		return "?"
	}
	for _, e := range c.localEffects(f) {
		for _, rt := range or.Roots(e.Target) {
			if rt.Kind == "global" {
				out = append(out, GlobalWrite{f, e.In, gname(rt), e.What})
			}
		}
	}
	pw := c.ParamWrites()
	instrs(f, func(b *ssa.BasicBlock, i int, in ssa.Instruction) {
		call, ok := in.(ssa.CallInstruction)
		if !ok {
			return
		}
		cc := call.Common()
		var targets []*ssa.Function
		var args []ssa.Value
		if cc.IsInvoke() {
			targets = c.P.implementations(cc)
			args = append([]ssa.Value{cc.Value}, cc.Args...)
		} else if cal := calleeOf(call); cal != nil && c.inModule(cal) {
			targets = []*ssa.Function{cal}
			args = cc.Args
		}
		for _, g := range targets {
			for idx := range pw[g] {
				if idx >= len(args) {
					continue
				}
				for _, rt := range or.Roots(args[idx]) {
					if rt.Kind == "global" {
						out = append(out, GlobalWrite{f, in, gname(rt), "passed to " + c.writeChain(g, idx)})
					}
				}
			}
		}
	})
	sort.Slice(out, func(i, j int) bool { return out[i].In.Pos() < out[j].In.Pos() })
	return out
}

func isInitFn(f *ssa.Function) bool {
	for f != nil {
		if f.Name() == "init" || strings.HasPrefix(f.Name(), "init#") {
			return true
		}
		f = f.Parent()
	}
	return false
}

// exportedRoots: every exported function and every method of an exported type of the module.
func (c *Ctx) exportedRoots() []*ssa.Function {
	var out []*ssa.Function
	for _, f := range c.P.ModFuncs {
		if f.Parent() != nil || f.Synthetic != "" && !strings.Contains(f.Synthetic, "instance") {
			continue
		}
		obj := f.Object()
		if obj == nil || !obj.Exported() {
			continue
		}
		out = append(out, f)
	}
	return out
}
