package main

import (
	"fmt"
	"go/constant"
	"go/token"
	"go/types"
	"sort"
	"strings"

	"golang.org/x/tools/go/ssa"
)

func init() {
	register("C02",
		"the precedence ladder as an ordered partition and its strict-greater (left-associative) climbing; the layering of `,` `=` `?:` binary, prefix, call, member and primary levels (which parser produces each operand of each node); the start-of-element set covers every way an expression can start; the same-line test guards every `.`, `!.` and call `(` continuation and is taken after the last consumed token; list flags (no trailing comma, `...` only before `)`, closers expected, also written out as a token test with a diagnostic on the other edge); no parser function raises a diagnostic at a token that starts an expression and then hands that token, unconsumed, to the expression parser; every operator the parser can produce has an evaluator arm.",
		"that every token sequence not derivable from the grammar is rejected (language inclusion between the parser and a reference grammar is not a structural fact), and 'nest as written' beyond the layering rule.",
		runC02)
}

func runC02(c *Ctx) {
	ro := c.needRoles("C02.roles")
	if ro == nil {
		return
	}
	c.R.Analysed["parser_roles"] = map[string]string{
		"expr": c.P.FuncKey(ro.Expr), "assign": c.P.FuncKey(ro.Assign), "cond": c.P.FuncKey(ro.Cond), "binary": c.P.FuncKey(ro.Binary),
		"climb": c.P.FuncKey(ro.Climb), "prec": c.P.FuncKey(ro.Prec), "unary": c.P.FuncKey(ro.Unary), "lhs": c.P.FuncKey(ro.LHS),
		"callrest": c.P.FuncKey(ro.CallRest), "memberrest": c.P.FuncKey(ro.MemberRest), "primary": c.P.FuncKey(ro.Primary), "list": c.P.FuncKey(ro.List),
	}
	c02Ladder(c, ro)
	c02LeftAssoc(c, ro)
	c02Layers(c, ro, "C02.layers")
	c02StartSet(c, ro)
	c02NoSpuriousDiagnostic(c, ro)
	c02SameLine(c, ro)
	c02Lists(c, ro)
	c02Downstream(c, ro)
	c02NoUnwrap(c, ro, "C02.nesting-preserved")
	// the same-line tests read the preceding-line-break flag: every line break of the language must set it when skipped
	c14FastPath(c, "C02.line-breaks-set-the-flag")
}

// ---------- ladder ----------

func (c *Ctx) precTable(ro *ParserRoles) (map[int64]int64, []int64) {
	tab := map[int64]int64{}
	var und []int64
	for _, k := range c.AllKinds() {
		v, ok := c.foldPred(ro.Prec, k)
		if !ok || v.Kind() != constant.Int {
			und = append(und, k)
			continue
		}
		n, _ := constant.Int64Val(v)
		tab[k] = n
	}
	return tab, und
}

func (c *Ctx) specLadderClass() map[int64]int {
	cls := map[int64]int{}
	for i, names := range specLadder {
		for _, n := range names {
			if v := c.SK(n); v >= 0 {
				cls[v] = i
			}
		}
	}
	return cls
}

func c02Ladder(c *Ctx, ro *ParserRoles) {
	const rule = "C02.ladder"
	pos := c.P.Pos(ro.Prec.Pos())
	tab, und := c.precTable(ro)
	for _, k := range und {
		c.R.Undecided(rule, "token:"+c.SKName(k), pos, "precedence function does not fold to a constant for this token")
	}
	cls := c.specLadderClass()
	if len(ro.EntryPrec) == 0 {
		c.R.Undecided(rule, "entry-precedence", pos, "no constant entry precedence found")
		return
	}
	eMin, eMax := ro.EntryPrec[0], ro.EntryPrec[len(ro.EntryPrec)-1]
	for _, k := range c.AllKinds() {
		p, ok := tab[k]
		if !ok {
			continue
		}
		name := c.SKName(k)
		ci, inSpec := cls[k]
		if !inSpec {
			c.R.Check(rule, "token:"+name, pos, p <= eMin, fmt.Sprintf("%s is not a binary operator of the ladder but its precedence %d exceeds the entry precedence %d, so the climbing loop consumes it as one", name, p, eMin))
			continue
		}
		if p <= eMax {
			c.R.Check(rule, "token:"+name, pos, false, fmt.Sprintf("%s belongs to ladder class %d but its precedence %d does not exceed the entry precedence %d: never consumed as a binary operator", name, ci, p, eMax))
			continue
		}
		bad := ""
		for k2, c2 := range cls {
			p2, ok := tab[k2]
			if !ok || k2 == k {
				continue
			}
			switch {
			case ci < c2 && !(p < p2):
				bad = fmt.Sprintf("%s (class %d, prec %d) must bind looser than %s (class %d, prec %d)", name, ci, p, c.SKName(k2), c2, p2)
			case ci == c2 && p != p2:
				bad = fmt.Sprintf("%s and %s are in the same ladder class but have precedences %d and %d", name, c.SKName(k2), p, p2)
			case ci > c2 && !(p > p2):
				bad = fmt.Sprintf("%s (class %d, prec %d) must bind tighter than %s (class %d, prec %d)", name, ci, p, c.SKName(k2), c2, p2)
			}
			if bad != "" {
				break
			}
		}
		c.R.Check(rule, "token:"+name, pos, bad == "", bad)
	}
	c.R.Floor(rule, 55)
}

// ---------- left associativity ----------

func c02LeftAssoc(c *Ctx, ro *ParserRoles) {
	const rule = "C02.left-assoc"
	f := ro.Climb
	pos := c.P.Pos(f.Pos())
	loops := naturalLoops(f)
	var loop *Loop
	prec := f.Params[ro.ClimbPrecParam]
	// the deciding branch: compares the current token's precedence (a call of the precedence function,
	// or a loop variable fed only by such calls) with the precedence parameter
	var dec *ssa.If
	var np ssa.Value
	isPrecValue := func(v ssa.Value) bool {
		rs := plainOrigins.Roots(v)
		if len(rs) == 0 {
			return false
		}
		for _, rt := range rs {
			if rt.Kind != "call" || rt.Fn != ro.Prec || len(rt.Path) != 0 {
				return false
			}
		}
		return true
	}
	for _, l := range loops {
		for b := range l.Body {
			if len(b.Instrs) == 0 {
				continue
			}
			iff, ok := b.Instrs[len(b.Instrs)-1].(*ssa.If)
			if !ok {
				continue
			}
			bo, ok := iff.Cond.(*ssa.BinOp)
			if !ok {
				continue
			}
			switch {
			case bo.Y == ssa.Value(prec) && isPrecValue(bo.X):
				dec, np, loop = iff, bo.X, l
			case bo.X == ssa.Value(prec) && isPrecValue(bo.Y):
				dec, np, loop = iff, bo.Y, l
			}
		}
	}
	if loop == nil || dec == nil {
		c.R.Undecided(rule, "climb-test", pos, "no loop branch comparing the new precedence with the current one was recognised")
		return
	}
	bo := dec.Cond.(*ssa.BinOp)
	// normalise to: cond true  <=>  np OP prec
	op := bo.Op
	if bo.Y == np {
		switch op {
		case token.LSS:
			op = token.GTR
		case token.GTR:
			op = token.LSS
		case token.LEQ:
			op = token.GEQ
		case token.GEQ:
			op = token.LEQ
		}
	}
	// which successor consumes the operator (contains / leads to the token consumer inside the loop)?
	b := dec.Block()
	consumes := func(s *ssa.BasicBlock) bool {
		if !loop.Body[s] {
			return false
		}
		// s must reach a must-consumer call before returning to the header
		must := c.MustConsume()
		found := false
		seen := map[*ssa.BasicBlock]bool{}
		var walk func(x *ssa.BasicBlock)
		walk = func(x *ssa.BasicBlock) {
			if seen[x] || !loop.Body[x] || found {
				return
			}
			seen[x] = true
			for _, in := range x.Instrs {
				if call, ok := in.(ssa.CallInstruction); ok {
					if cal := calleeOf(call); cal != nil && must[cal] {
						found = true
						return
					}
				}
			}
			for _, y := range x.Succs {
				if y != loop.Header {
					walk(y)
				}
			}
		}
		walk(s)
		return found
	}
	t, e := consumes(b.Succs[0]), consumes(b.Succs[1])
	posd := c.P.InstrPos(bo)
	switch {
	case t && !e:
		c.R.Check(rule, "climb-test", posd, op == token.GTR, fmt.Sprintf("the operator is consumed when newPrecedence %s precedence; left associativity needs strictly greater (>): with >= equal-precedence operators group to the right", op))
	case e && !t:
		c.R.Check(rule, "climb-test", posd, op == token.LEQ, fmt.Sprintf("the loop is left when newPrecedence %s precedence; left associativity needs the loop to stop on <= (consume only on strictly greater)", op))
	default:
		c.R.Undecided(rule, "climb-test", posd, "cannot tell which edge of the precedence test consumes the operator")
	}
	// the right operand is parsed with the new precedence itself
	nrec := 0
	var recCall *ssa.Call
	for bb := range loop.Body {
		for _, in := range bb.Instrs {
			call, ok := in.(*ssa.Call)
			if !ok {
				continue
			}
			cal := calleeOf(call)
			var arg ssa.Value
			if cal == ro.Binary {
				for i, p := range ro.Binary.Params {
					if isIntType(p.Type()) {
						arg = call.Call.Args[i]
					}
				}
			} else if cal == ro.Climb {
				arg = call.Call.Args[ro.ClimbPrecParam]
			} else {
				continue
			}
			nrec++
			recCall = call
			ok2 := arg == np
			why := ""
			if !ok2 {
				why = "the right operand must be parsed with the operator's own precedence (newPrecedence); got " + arg.String() + " = " + describeValue(arg)
			}
			c.R.Check(rule, "right-operand-precedence", c.P.InstrPos(call), ok2, why)
		}
	}
	if nrec == 0 {
		c.R.Undecided(rule, "right-operand-precedence", pos, "no recursive parse of the right operand found in the loop")
	}
	// node construction: Left = loop-carried operand, Right = recursive result; result = loop-carried
	if (ro.ClimbOperandParam >= 0 || ro.MergedBinary) && recCall != nil {
		var operand *ssa.Parameter
		if ro.ClimbOperandParam >= 0 {
			operand = f.Params[ro.ClimbOperandParam]
		}
		isOperand := func(rt Root) bool {
			if operand != nil {
				return rt.Kind == "param" && rt.V == ssa.Value(operand)
			}
			// merged form: the operand the function parsed itself before the loop
			return rt.Kind == "call" && rt.Fn != nil && c.canon(rt.Fn) == ro.Unary && len(rt.Path) == 0
		}
		leftIdx, rightIdx := c.makerParamFor(ro.MakeBinary, "Left"), c.makerParamFor(ro.MakeBinary, "Right")
		found := false
		for bb := range loop.Body {
			for _, in := range bb.Instrs {
				call, ok := in.(*ssa.Call)
				if !ok || calleeOf(call) != ro.MakeBinary {
					continue
				}
				found = true
				if leftIdx < 0 || rightIdx < 0 {
					c.R.Undecided(rule, "node-operands", c.P.InstrPos(call), "binary node maker does not store parameters into Left/Right directly")
					continue
				}
				l, r := call.Call.Args[leftIdx], call.Call.Args[rightIdx]
				lok := false
				for _, rt := range plainOrigins.Roots(l) {
					if isOperand(rt) {
						lok = true
					}
				}
				// and nothing else than operand / previous node
				for _, rt := range plainOrigins.Roots(l) {
					if !isOperand(rt) && !(rt.Kind == "call" && rt.Fn == ro.MakeBinary) {
						lok = false
					}
				}
				rok := false
				rs := plainOrigins.Roots(r)
				if len(rs) == 1 && rs[0].Kind == "call" && rs[0].V == ssa.Value(recCall) {
					rok = true
				}
				c.R.Check(rule, "node-operands", c.P.InstrPos(call), lok && rok, fmt.Sprintf("new binary node must take the loop-carried operand as Left (ok=%v) and the freshly parsed operand as Right (ok=%v)", lok, rok))
			}
		}
		if !found {
			c.R.Undecided(rule, "node-operands", pos, "no binary node construction in the climbing loop")
		}
		// every return yields the loop-carried operand
		instrs(f, func(bb *ssa.BasicBlock, i int, in ssa.Instruction) {
			ret, ok := in.(*ssa.Return)
			if !ok {
				return
			}
			good := true
			for _, rt := range plainOrigins.Roots(ret.Results[0]) {
				if !isOperand(rt) && !(rt.Kind == "call" && rt.Fn == ro.MakeBinary) {
					good = false
				}
			}
			c.R.Check(rule, "returns-accumulated", c.P.InstrPos(ret), good, "the climbing loop must return the accumulated operand")
		})
	}
	c.R.Floor(rule, 4)
}

func describeValue(v ssa.Value) string {
	var parts []string
	for _, r := range plainOrigins.Roots(v) {
		parts = append(parts, r.String())
	}
	return strings.Join(parts, "|")
}

// makerParamFor: index of the parameter of maker that is stored into the
// named field of the node it allocates (-1 if none).
func (c *Ctx) makerParamFor(maker *ssa.Function, field string) int {
	idx := -1
	instrs(maker, func(b *ssa.BasicBlock, i int, in ssa.Instruction) {
		st, ok := in.(*ssa.Store)
		if !ok {
			return
		}
		fa, ok := st.Addr.(*ssa.FieldAddr)
		if !ok || fieldName(fa) != field {
			return
		}
		if _, isAlloc := fa.X.(*ssa.Alloc); !isAlloc {
			return
		}
		for _, rt := range plainOrigins.Roots(st.Val) {
			if rt.Kind == "param" && len(rt.Path) == 0 {
				idx = rt.Idx
			}
		}
	})
	return idx
}

// fieldStores: values stored into field `field` of nodes of type typ allocated in f.
func (c *Ctx) fieldStores(f *ssa.Function, typ, field string) []*ssa.Store {
	var out []*ssa.Store
	instrs(f, func(b *ssa.BasicBlock, i int, in ssa.Instruction) {
		st, ok := in.(*ssa.Store)
		if !ok {
			return
		}
		fa, ok := st.Addr.(*ssa.FieldAddr)
		if !ok || fieldName(fa) != field || typeName(fa.X.Type()) != typ {
			return
		}
		out = append(out, st)
	})
	return out
}

// producedBy: every root of v is a call whose canonical callee is in want.
func (c *Ctx) producedBy(v ssa.Value, want ...*ssa.Function) (bool, string) {
	rs := plainOrigins.Roots(v)
	if len(rs) == 0 {
		return false, "no origin"
	}
	for _, r := range rs {
		if r.Kind != "call" || r.Fn == nil || len(r.Path) != 0 {
			return false, r.String()
		}
		cf := c.canon(r.Fn)
		hit := false
		for _, w := range want {
			if w != nil && (cf == c.canon(w) || r.Fn == w) {
				hit = true
			}
		}
		if !hit {
			return false, r.String()
		}
	}
	return true, ""
}

// ---------- layers ----------

func c02Layers(c *Ctx, ro *ParserRoles, rule string) {
	chk := func(construct string, in ssa.Instruction, v ssa.Value, what string, want ...*ssa.Function) {
		ok, got := c.producedBy(v, want...)
		var names []string
		for _, w := range want {
			names = append(names, c.P.FuncKey(w))
		}
		c.R.Check(rule, construct, c.P.InstrPos(in), ok, fmt.Sprintf("%s must be parsed by %s, but comes from %s", what, strings.Join(names, " or "), got))
	}
	// comma level: every operand is parsed at assignment level
	n := 0
	instrs(ro.Expr, func(b *ssa.BasicBlock, i int, in ssa.Instruction) {
		call, ok := in.(*ssa.Call)
		if !ok {
			return
		}
		cal := calleeOf(call)
		if cal == nil || !c.inModule(cal) || cal == ro.MakeBinary || cal.Signature.Results().Len() != 1 || typeName(cal.Signature.Results().At(0).Type()) != "Expression" {
			return
		}
		n++
		c.R.Check(rule, fmt.Sprintf("comma-operand#%d", n), c.P.InstrPos(in), c.canon(cal) == c.canon(ro.Assign), "operands of `,` must be parsed at assignment level ("+c.P.FuncKey(ro.Assign)+"), not by "+c.P.FuncKey(cal))
	})
	if n < 2 {
		c.R.Undecided(rule, "comma-operand", c.P.Pos(ro.Expr.Pos()), "expected two assignment-level parses in the comma loop (first operand, then one per comma)")
	}
	// the comma operator token comes from a conditional consumer of SK_Comma and the node is left-nested
	instrs(ro.Expr, func(b *ssa.BasicBlock, i int, in ssa.Instruction) {
		call, ok := in.(*ssa.Call)
		if !ok || calleeOf(call) != ro.MakeBinary {
			return
		}
		li, ri := c.makerParamFor(ro.MakeBinary, "Left"), c.makerParamFor(ro.MakeBinary, "Right")
		if li < 0 || ri < 0 {
			return
		}
		okR, got := c.producedBy(call.Call.Args[ri], ro.Assign)
		c.R.Check(rule, "comma-right", c.P.InstrPos(in), okR, "right operand of `,` must come from the assignment level, got "+got)
		lok := true
		for _, rt := range plainOrigins.Roots(call.Call.Args[li]) {
			if rt.Kind == "call" && (rt.Fn == ro.MakeBinary || c.canon(rt.Fn) == c.canon(ro.Assign)) {
				continue
			}
			lok = false
		}
		c.R.Check(rule, "comma-left", c.P.InstrPos(in), lok, "left operand of `,` must be the accumulated expression (left nesting)")
	})
	// assignment level
	var binCall *ssa.Call
	instrs(ro.Assign, func(b *ssa.BasicBlock, i int, in ssa.Instruction) {
		if call, ok := in.(*ssa.Call); ok && (calleeOf(call) == ro.Binary || calleeOf(call) == ro.Climb) && binCall == nil {
			binCall = call
		}
	})
	if binCall == nil {
		c.R.Undecided(rule, "assign-binary", c.P.Pos(ro.Assign.Pos()), "assignment level does not start with a binary-level parse")
	} else {
		c.R.Check(rule, "assign-starts-with-binary", c.P.InstrPos(binCall), binCall.Block() == ro.Assign.Blocks[0], "the assignment level must parse a binary-level expression first, unconditionally")
		nmk := 0
		instrs(ro.Assign, func(b *ssa.BasicBlock, i int, in ssa.Instruction) {
			call, ok := in.(*ssa.Call)
			if !ok {
				return
			}
			switch calleeOf(call) {
			case ro.MakeBinary:
				nmk++
				li, ri, oi := c.makerParamFor(ro.MakeBinary, "Left"), c.makerParamFor(ro.MakeBinary, "Right"), c.makerParamFor(ro.MakeBinary, "Operator")
				if li < 0 || ri < 0 || oi < 0 {
					c.R.Undecided(rule, "assign-node", c.P.InstrPos(in), "binary node maker parameters not recognised")
					return
				}
				chk("assign-left", in, call.Call.Args[li], "the target of `=`", ro.Binary)
				chk("assign-right", in, call.Call.Args[ri], "the right side of `=` (right associativity: it may itself be an assignment or a conditional)", ro.Assign)
				chk("assign-operator", in, call.Call.Args[oi], "the `=` token node", ro.ParseToken)
			case ro.Cond:
				for i, p := range ro.Cond.Params {
					if typeName(p.Type()) == "Expression" {
						chk("conditional-condition", in, call.Call.Args[i], "the condition of `?:` (already parsed binary-level operand)", ro.Binary)
					}
				}
			}
		})
		if nmk == 0 {
			c.R.Undecided(rule, "assign-node", c.P.Pos(ro.Assign.Pos()), "no assignment node construction found at the assignment level")
		}
		// which tokens take the assignment branch: exactly those for which IsAssignmentOperator holds, `=` among them, no ladder token
		cls := c.specLadderClass()
		for _, k := range c.AllKinds() {
			fo := c.tokenFolderFrom(k, ro.Assign, binCall)
			r := fo.Fold(ro.Assign, recvArgs(ro.Assign))
			reached := c.calleesReached(r)
			_, mk := reached[ro.MakeBinary]
			_, cd := reached[ro.Cond]
			name := c.SKName(k)
			isAssign, okA := c.foldKindMethod("IsAssignmentOperator", k)
			switch {
			case k == c.SK("SK_Equals"):
				c.R.Check(rule, "assign-branch:"+name, c.P.Pos(ro.Assign.Pos()), mk && !cd, "after a binary-level operand, `=` must lead to an assignment node (and not to the conditional level)")
			case okA && isAssign:
				c.R.Check(rule, "assign-branch:"+name, c.P.Pos(ro.Assign.Pos()), mk && !cd, "compound assignment token: must take the assignment branch like `=`")
			default:
				_, isLadder := cls[k]
				why := "must not be taken as an assignment operator"
				if isLadder {
					why = "a ladder operator must never be taken as an assignment operator"
				}
				c.R.Check(rule, "assign-branch:"+name, c.P.Pos(ro.Assign.Pos()), !mk && cd, name+" "+why+" (assignment node reachable="+fmt.Sprint(mk)+", conditional level reachable="+fmt.Sprint(cd)+")")
			}
		}
	}
	// conditional
	for _, fld := range []string{"WhenTrue", "WhenFalse"} {
		sts := c.fieldStores(ro.Cond, "ConditionalExpression", fld)
		if len(sts) == 0 {
			c.R.Undecided(rule, "conditional-"+fld, c.P.Pos(ro.Cond.Pos()), "no store to "+fld)
		}
		for _, st := range sts {
			chk("conditional-"+fld, st, st.Val, "branch "+fld+" of `?:` (right associativity, below all binary operators)", ro.Assign)
		}
	}
	for _, st := range c.fieldStores(ro.Cond, "ConditionalExpression", "Condition") {
		ok := false
		for i, p := range ro.Cond.Params {
			if typeName(p.Type()) == "Expression" && plainOrigins.exactlyParam(st.Val, i) {
				ok = true
			}
		}
		c.R.Check(rule, "conditional-Condition", c.P.InstrPos(st), ok, "the condition must be the operand handed in by the assignment level")
	}
	// the `?` test: conditional node only on SK_Question, else the operand is returned unchanged
	for _, k := range c.AllKinds() {
		r := c.tokenFolder(k).Fold(ro.Cond, recvArgs(ro.Cond, bottom))
		alloc := false
		for b := range r.Reach {
			for _, in := range b.Instrs {
				if a, ok := in.(*ssa.Alloc); ok && typeName(a.Type()) == "ConditionalExpression" {
					alloc = true
				}
			}
		}
		c.R.Check(rule, "conditional-branch:"+c.SKName(k), c.P.Pos(ro.Cond.Pos()), alloc == (k == c.SK("SK_Question")), fmt.Sprintf("conditional node built for token %s = %v; it must be built exactly for `?`", c.SKName(k), alloc))
	}
	// the colon is expected
	for _, st := range c.fieldStores(ro.Cond, "ConditionalExpression", "ColonTok") {
		ok := false
		for _, rt := range plainOrigins.Roots(st.Val) {
			if rt.Kind == "call" {
				call := rt.V.(*ssa.Call)
				for _, a := range call.Call.Args {
					if n, isc := constIntArg(a); isc && n == c.SK("SK_Colon") {
						ok = true
					}
				}
			}
		}
		c.R.Check(rule, "conditional-colon", c.P.InstrPos(st), ok, "the `:` of a conditional must be expected (SK_Colon)")
	}
	// prefix and typeof operands are unary-level
	for _, st := range c.fieldStores(ro.Prefix, "PrefixUnaryExpression", "Operand") {
		chk("prefix-operand", st, st.Val, "the operand of a prefix operator (tighter than every binary operator, looser than postfix)", ro.Unary)
	}
	for _, st := range c.fieldStores(ro.Prefix, "PrefixUnaryExpression", "Operator") {
		chk("prefix-operator", st, st.Val, "the prefix operator token node", ro.ParseToken)
	}
	for _, st := range c.fieldStores(ro.TypeOf, "TypeOfExpression", "Expression") {
		chk("typeof-operand", st, st.Val, "the operand of typeof", ro.Unary)
	}
	// binary wrapper: operand from unary level
	if ro.MergedBinary {
		// the loop function parses its first operand itself: that callee is the unary level by construction of the roles
		c.R.Add(rule, "binary-operand", c.P.Pos(ro.Binary.Pos()), OK, "")
	}
	instrs(ro.Binary, func(b *ssa.BasicBlock, i int, in ssa.Instruction) {
		if call, ok := in.(*ssa.Call); ok && calleeOf(call) == ro.Climb && ro.ClimbOperandParam >= 0 {
			chk("binary-operand", in, call.Call.Args[ro.ClimbOperandParam], "the first operand of a binary expression", ro.Unary)
		}
	})
	// lhs = member-or-higher wrapped by call rest; member-or-higher = primary wrapped by member rest
	wrapChk := func(name string, outer, rest, inner *ssa.Function) {
		found := false
		instrs(outer, func(b *ssa.BasicBlock, i int, in ssa.Instruction) {
			ret, ok := in.(*ssa.Return)
			if !ok {
				return
			}
			found = true
			ok1, got := c.producedBy(ret.Results[0], rest)
			c.R.Check(rule, name+"-returns-rest", c.P.InstrPos(ret), ok1, c.P.FuncKey(outer)+" must return the result of "+c.P.FuncKey(rest)+", got "+got)
			for _, rt := range plainOrigins.Roots(ret.Results[0]) {
				if rt.Kind == "call" && rt.Fn == rest {
					call := rt.V.(*ssa.Call)
					for i, p := range rest.Params {
						if typeName(p.Type()) == "Expression" {
							chk(name+"-base", call, call.Call.Args[i], "the base handed to "+c.P.FuncKey(rest), inner)
						}
					}
				}
			}
		})
		if !found {
			c.R.Undecided(rule, name, c.P.Pos(outer.Pos()), "no return")
		}
	}
	if ro.MergedLHS {
		// one function: primary, then member rest on it, then call rest on that
		wrapChk("lhs", ro.LHS, ro.CallRest, ro.MemberRest)
		for _, call := range callsTo(ro.LHS, ro.MemberRest) {
			for i, p := range ro.MemberRest.Params {
				if typeName(p.Type()) == "Expression" {
					chk("member-base", call, call.Call.Args[i], "the base handed to "+c.P.FuncKey(ro.MemberRest), ro.Primary)
				}
			}
		}
	} else {
		wrapChk("lhs", ro.LHS, ro.CallRest, ro.MemberHi)
		wrapChk("member", ro.MemberHi, ro.MemberRest, ro.Primary)
	}
	// unary dispatch: prefix tokens -> prefix parser, typeof -> typeof parser, everything else -> lhs
	prefix := map[int64]bool{}
	for _, n := range specPrefix {
		prefix[c.SK(n)] = true
	}
	for _, k := range c.AllKinds() {
		r := c.tokenFolder(k).Fold(ro.Unary, recvArgs(ro.Unary))
		reached := c.calleesReached(r)
		_, pf := reached[ro.Prefix]
		_, tf := reached[ro.TypeOf]
		_, lh := reached[ro.LHS]
		name := c.SKName(k)
		switch {
		case prefix[k]:
			c.R.Check(rule, "unary-arm:"+name, c.P.Pos(ro.Unary.Pos()), pf && !tf && !lh, name+" is a prefix operator and must be parsed as one at unary level")
		case k == c.SK("SK_TypeofKeyword"):
			c.R.Check(rule, "unary-arm:"+name, c.P.Pos(ro.Unary.Pos()), tf && !pf && !lh, "typeof must be parsed by the typeof parser at unary level")
		default:
			c.R.Check(rule, "unary-arm:"+name, c.P.Pos(ro.Unary.Pos()), lh && !pf && !tf, name+" is not a prefix operator: the unary level must hand over to the call/member level")
		}
	}
	// bracketing re-entries
	for _, st := range c.fieldStores(ro.Paren, "ParenthesizedExpression", "Expression") {
		chk("paren-inner", st, st.Val, "the inside of parentheses (a full expression, commas included)", ro.Expr)
	}
	// list element parsers are assignment level
	nl := 0
	for _, f := range []*ssa.Function{ro.ArgList, ro.Array} {
		instrs(f, func(b *ssa.BasicBlock, i int, in ssa.Instruction) {
			call, ok := in.(*ssa.Call)
			if !ok || calleeOf(call) != ro.List {
				return
			}
			for i, p := range ro.List.Params {
				if _, isSig := p.Type().Underlying().(*types.Signature); isSig {
					nl++
					g := fnValue(call.Call.Args[i])
					c.R.Check(rule, "list-element-parser:"+c.P.FuncKey(f), c.P.InstrPos(in), g != nil && c.canon(g) == c.canon(ro.Assign), "list elements must be parsed at assignment level (a comma separates elements), got "+c.P.FuncKey(g))
				}
			}
		})
	}
	if nl < 2 {
		c.R.Undecided(rule, "list-element-parser", "-", "expected two delimited-list call sites (arguments, array elements)")
	}
	// primary arms
	for _, k := range c.AllKinds() {
		r := c.tokenFolder(k).Fold(ro.Primary, recvArgs(ro.Primary))
		reached := c.calleesReached(r)
		_, pa := reached[ro.Paren]
		_, ar := reached[ro.Array]
		name := c.SKName(k)
		c.R.Check(rule, "primary-arm:"+name, c.P.Pos(ro.Primary.Pos()), pa == (k == c.SK("SK_OpenParen")) && ar == (k == c.SK("SK_OpenBracket")), fmt.Sprintf("parenthesised parser reachable=%v, array parser reachable=%v for %s; they must be reached exactly on `(` and `[`", pa, ar, name))
	}
	c.R.Floor(rule, 150)
}

// ---------- start set ----------

// exprStarters: tokens on which the unary/primary levels have a consuming arm.
func (c *Ctx) exprStarters(ro *ParserRoles) (map[int64]string, []int64) {
	out := map[int64]string{}
	var und []int64
	identFallback := func(r *FoldResult) bool {
		// a call that may create a placeholder identifier (reaches CreateIdent)
		for cal := range c.calleesReached(r) {
			if cal == ro.CreateIdent {
				return true
			}
			if c.inModule(cal) && cal != ro.Paren && cal != ro.Array && cal != ro.Literal {
				sub := c.P.Reach([]*ssa.Function{cal}, c.inModule, nil)
				if sub.In[ro.CreateIdent] && !sub.In[ro.Primary] {
					return true
				}
			}
		}
		return false
	}
	for _, k := range c.AllKinds() {
		r := c.tokenFolder(k).Fold(ro.Unary, recvArgs(ro.Unary))
		reached := c.calleesReached(r)
		_, pf := reached[ro.Prefix]
		_, tf := reached[ro.TypeOf]
		_, lh := reached[ro.LHS]
		switch {
		case (pf || tf) && !lh:
			out[k] = "prefix arm"
		case lh && !pf && !tf:
			rp := c.tokenFolder(k).Fold(ro.Primary, recvArgs(ro.Primary))
			if !identFallback(rp) {
				out[k] = "primary arm"
			} else if isId, ok := c.foldKindMethod("IsIdentifier", k); ok && isId {
				out[k] = "identifier"
			} else if !ok {
				und = append(und, k)
			}
		default:
			und = append(und, k)
		}
	}
	return out, und
}

type listSite struct {
	Call *ssa.Call
	In   *ssa.Function
	Ctx  int64
}

func (c *Ctx) listSites(ro *ParserRoles) []listSite {
	var out []listSite
	for _, f := range []*ssa.Function{ro.ArgList, ro.Array} {
		instrs(f, func(b *ssa.BasicBlock, i int, in ssa.Instruction) {
			call, ok := in.(*ssa.Call)
			if !ok || calleeOf(call) != ro.List {
				return
			}
			for i, p := range ro.List.Params {
				if isIntType(p.Type()) {
					if n, ok := constIntArg(call.Call.Args[i]); ok {
						out = append(out, listSite{call, f, n})
					}
				}
			}
		})
	}
	return out
}

// listPredicates finds, in the list loop, the element predicate (its true
// edge leads to the element parser call) and the terminator predicate.
func (c *Ctx) listPredicates(ro *ParserRoles) (elem, term *ssa.Function) {
	f := ro.List
	var elemCall ssa.Instruction
	instrs(f, func(b *ssa.BasicBlock, i int, in ssa.Instruction) {
		call, ok := in.(*ssa.Call)
		if !ok {
			return
		}
		if _, isParam := call.Call.Value.(*ssa.Parameter); isParam && call.Call.StaticCallee() == nil {
			elemCall = in
		}
	})
	instrs(f, func(b *ssa.BasicBlock, i int, in ssa.Instruction) {
		iff, ok := in.(*ssa.If)
		if !ok {
			return
		}
		call, ok := iff.Cond.(*ssa.Call)
		if !ok {
			return
		}
		cal := calleeOf(call)
		if cal == nil || !c.inModule(cal) || !isBoolType(cal.Signature.Results().At(0).Type()) {
			return
		}
		hasCtx := false
		for _, p := range cal.Params {
			if isIntType(p.Type()) {
				hasCtx = true
			}
		}
		if !hasCtx || c.MayConsume()[cal] {
			return
		}
		if elemCall != nil && b.Succs[0] == elemCall.Block() {
			elem = cal
		} else if elem != cal {
			term = cal
		}
	})
	return
}

func c02StartSet(c *Ctx, ro *ParserRoles) {
	const rule = "C02.start-set"
	starters, und := c.exprStarters(ro)
	for _, k := range und {
		c.R.Undecided(rule, "token:"+c.SKName(k), c.P.Pos(ro.Unary.Pos()), "cannot decide whether the unary/primary levels consume this token")
	}
	elem, _ := c.listPredicates(ro)
	if elem == nil {
		c.R.Undecided(rule, "ANCHOR-UNRESOLVED list element predicate", c.P.Pos(ro.List.Pos()), "the predicate guarding the element parser call was not found")
		return
	}
	sites := c.listSites(ro)
	if len(sites) < 2 {
		c.R.Undecided(rule, "list-sites", c.P.Pos(ro.List.Pos()), "expected two list call sites with constant contexts")
	}
	for _, s := range sites {
		for _, k := range c.AllKinds() {
			why, isStart := starters[k]
			if !isStart {
				continue
			}
			v, ok := c.foldPredBool(elem, k, intLV(s.Ctx))
			cons := fmt.Sprintf("ctx%d:%s", s.Ctx, c.SKName(k))
			if !ok {
				c.R.Undecided(rule, cons, c.P.Pos(elem.Pos()), "element predicate does not fold for this token")
				continue
			}
			c.R.Check(rule, cons, c.P.Pos(elem.Pos()), v, fmt.Sprintf("%s starts an expression at the top level (%s) but is not accepted as the start of a list element in context %d (%s): `[%s x]` is rejected although `%s x` parses", c.SKName(k), why, s.Ctx, c.P.FuncKey(s.In), c.SKName(k), c.SKName(k)))
		}
	}
	c.R.Floor(rule, 30)
}

// ---------- same line ----------

// noConsumeOnNil: functions returning a pointer/bool whose nil/false returns
// lie on paths that pass no possible consumer.
func (c *Ctx) noConsumeOnFalse(f *ssa.Function) bool {
	if f == nil || len(f.Blocks) == 0 {
		return false
	}
	may := c.MayConsume()
	ok := true
	any := false
	instrs(f, func(b *ssa.BasicBlock, i int, in ssa.Instruction) {
		ret, isRet := in.(*ssa.Return)
		if !isRet || len(ret.Results) != 1 {
			return
		}
		k, isConst := ret.Results[0].(*ssa.Const)
		if !isConst {
			return
		}
		isFalse := k.Value == nil || (k.Value.Kind() == constant.Bool && !constant.BoolVal(k.Value))
		if !isFalse {
			return
		}
		any = true
		// is there a path entry -> this return that passes a may-consumer?
		consumerSeen := func(x ssa.Instruction) bool {
			call, isCall := x.(ssa.CallInstruction)
			if !isCall {
				return false
			}
			cal := calleeOf(call)
			return cal == nil || may[cal]
		}
		// path passes consumer iff: exists consumer instr q reachable from entry and ret reachable from q
		instrs(f, func(b2 *ssa.BasicBlock, j int, q ssa.Instruction) {
			if consumerSeen(q) && pathExists(f, q, func(x ssa.Instruction) bool { return x == in }, nil, nil) {
				ok = false
			}
		})
	})
	return ok && any
}

// falseEdge: for a conditional consumer call c used in an If, the successor
// index taken when the call returned nil/false (-1 if not recognised).
func falseEdgeOf(iff *ssa.If, call ssa.Value) int {
	switch x := iff.Cond.(type) {
	case *ssa.Call:
		if ssa.Value(x) == call {
			return 1
		}
	case *ssa.BinOp:
		var other ssa.Value
		if x.X == call {
			other = x.Y
		} else if x.Y == call {
			other = x.X
		} else {
			return -1
		}
		k, ok := other.(*ssa.Const)
		if !ok || k.Value != nil {
			return -1
		}
		if x.Op == token.EQL {
			return 0
		}
		if x.Op == token.NEQ {
			return 1
		}
	case *ssa.UnOp:
		if x.Op == token.NOT && x.X == call {
			return 0
		}
	}
	return -1
}

func c02SameLine(c *Ctx, ro *ParserRoles) {
	const rule = "C02.same-line"
	hplb := c.method("Scanner", "HasPrecedingLineBreak")
	if !c.need(rule, hplb, "(*Scanner).HasPrecedingLineBreak") {
		return
	}
	may := c.MayConsume()
	dot, exdot, oparen := c.SK("SK_Dot"), c.SK("SK_ExclamationDot"), c.SK("SK_OpenParen")
	type site struct {
		f    *ssa.Function
		in   *ssa.Call
		what string
	}
	var sites []site
	for _, f := range []*ssa.Function{ro.MemberRest, ro.CallRest} {
		instrs(f, func(b *ssa.BasicBlock, i int, in ssa.Instruction) {
			call, ok := in.(*ssa.Call)
			if !ok {
				return
			}
			cal := calleeOf(call)
			if cal == nil || !may[cal] {
				return
			}
			if cal == ro.ArgList {
				sites = append(sites, site{f, call, "call-open-paren"})
				return
			}
			for _, a := range call.Call.Args {
				if n, ok := constIntArg(a); ok && typeName(a.Type()) == "SyntaxKind" {
					switch n {
					case dot:
						sites = append(sites, site{f, call, "dot"})
					case exdot:
						sites = append(sites, site{f, call, "exclamation-dot"})
					case oparen:
						sites = append(sites, site{f, call, "call-open-paren"})
					}
				}
			}
		})
	}
	// the edge on which a conditional consumer did not consume
	nonConsumingEdge := func(f *ssa.Function) func(b *ssa.BasicBlock, k int) bool {
		return func(b *ssa.BasicBlock, k int) bool { return true }
	}
	_ = nonConsumingEdge
	for _, s := range sites {
		cons := c.P.FuncKey(s.f) + ":" + s.what
		// candidate guards: HasPrecedingLineBreak calls whose no-break edge dominates the site
		var guards []*ssa.Call
		instrs(s.f, func(b *ssa.BasicBlock, i int, in ssa.Instruction) {
			h, ok := in.(*ssa.Call)
			if !ok || calleeOf(h) != hplb {
				return
			}
			iff, ok := b.Instrs[len(b.Instrs)-1].(*ssa.If)
			if !ok {
				return
			}
			noBreak := -1
			switch x := iff.Cond.(type) {
			case *ssa.Call:
				if x == h {
					noBreak = 1
				}
			case *ssa.UnOp:
				if x.Op == token.NOT && x.X == ssa.Value(h) {
					noBreak = 0
				}
			}
			if noBreak < 0 {
				return
			}
			tgt := b.Succs[noBreak]
			// the no-break successor must dominate the site, and the break successor must not reach it without passing h again
			if (tgt == s.in.Block() || tgt.Dominates(s.in.Block())) && len(tgt.Preds) == 1 {
				guards = append(guards, h)
			}
		})
		if len(guards) == 0 {
			c.R.Check(rule, cons, c.P.InstrPos(s.in), false, "this continuation ("+s.what+") is not dominated by the no-line-break edge of a HasPrecedingLineBreak() test: member access and calls must start on the line of their target")
			continue
		}
		// freshness: no consumer between the (closest) guard and the site
		fresh := false
		var stale string
		for _, h := range guards {
			staleHere := ""
			instrs(s.f, func(b *ssa.BasicBlock, i int, q ssa.Instruction) {
				if staleHere != "" || q == ssa.Instruction(s.in) || q == ssa.Instruction(h) {
					return
				}
				qc, ok := q.(*ssa.Call)
				if !ok {
					return
				}
				cal := calleeOf(qc)
				if cal != nil && !may[cal] {
					return
				}
				if cal == nil {
					if _, isB := qc.Call.Value.(*ssa.Builtin); isB {
						return
					}
				}
				isH := func(x ssa.Instruction) bool { return x == ssa.Instruction(h) }
				// h -> q without passing h again
				if !pathExists(s.f, h, func(x ssa.Instruction) bool { return x == q }, isH, nil) {
					return
				}
				// q -> site without passing h again, and not through q's "did not consume" edge
				edgeOK := func(b *ssa.BasicBlock, k int) bool {
					if cal == nil || !c.noConsumeOnFalse(cal) {
						return true
					}
					iff, ok := b.Instrs[len(b.Instrs)-1].(*ssa.If)
					if !ok {
						return true
					}
					if fe := falseEdgeOf(iff, qc); fe >= 0 && k == fe {
						return false
					}
					return true
				}
				if pathExists(s.f, q, func(x ssa.Instruction) bool { return x == ssa.Instruction(s.in) }, isH, edgeOK) {
					staleHere = c.P.FuncKey(cal) + " at " + c.P.InstrPos(q)
				}
			})
			if staleHere == "" {
				fresh = true
			} else {
				stale = staleHere
			}
		}
		c.R.Check(rule, cons, c.P.InstrPos(s.in), fresh, "the line-break test guarding this continuation ("+s.what+") was taken before "+stale+" may have consumed tokens; the flag describes the current token only, so the continuation is accepted across a line break")
	}
	// one selector token per selector expression
	var dots, exs []*ssa.Call
	for _, s := range sites {
		if s.f == ro.MemberRest {
			if s.what == "dot" {
				dots = append(dots, s.in)
			}
			if s.what == "exclamation-dot" {
				exs = append(exs, s.in)
			}
		}
	}
	loops := naturalLoops(ro.MemberRest)
	for _, d := range dots {
		for _, e := range exs {
			for _, pair := range [][2]*ssa.Call{{d, e}, {e, d}} {
				a, b := pair[0], pair[1]
				cal := calleeOf(a)
				edgeOK := func(bl *ssa.BasicBlock, k int) bool {
					if cal == nil || !c.noConsumeOnFalse(cal) {
						return true
					}
					iff, ok := bl.Instrs[len(bl.Instrs)-1].(*ssa.If)
					if !ok {
						return true
					}
					if fe := falseEdgeOf(iff, a); fe >= 0 && k == fe {
						return false
					}
					return true
				}
				isHeader := func(x ssa.Instruction) bool {
					for _, l := range loops {
						if x.Block() == l.Header && x == l.Header.Instrs[0] {
							return true
						}
					}
					return false
				}
				// path from a (having consumed) to b within one iteration: only meaningful if b comes after a
				if !pathExists(ro.MemberRest, a, func(x ssa.Instruction) bool { return x == ssa.Instruction(b) }, isHeader, nil) {
					continue
				}
				// is b reachable on an edge where a consumed? a's result must be tested before b
				both := c.selectorBothConsumable(ro.MemberRest, a, b, edgeOK, isHeader)
				c.R.Check("C02.one-selector-token", fmt.Sprintf("%s-then-%s", argKindName(c, a), argKindName(c, b)), c.P.InstrPos(b), !both, "after `"+argKindName(c, a)+"` was consumed for a member access the parser still tries to consume `"+argKindName(c, b)+"`: `a.!.b` is accepted as one selector")
			}
		}
	}
	c.R.Floor(rule, 3)
}

func argKindName(c *Ctx, call *ssa.Call) string {
	for _, a := range call.Call.Args {
		if n, ok := constIntArg(a); ok && typeName(a.Type()) == "SyntaxKind" {
			return c.SKName(n)
		}
	}
	return "?"
}

// selectorBothConsumable: b can execute after a returned non-nil in the same iteration.
func (c *Ctx) selectorBothConsumable(f *ssa.Function, a, b *ssa.Call, edgeOK func(*ssa.BasicBlock, int) bool, isHeader func(ssa.Instruction) bool) bool {
	// If a's result is not branched on before b, b always runs after a (consumed or not).
	// Walk from a to b; the walk is cut at a's nil-edge when a branch on a's result is met.
	return pathExists(f, a, func(x ssa.Instruction) bool { return x == ssa.Instruction(b) }, isHeader, edgeOK)
}

// ---------- lists ----------

func c02Lists(c *Ctx, ro *ParserRoles) {
	const rule = "C02.lists"
	sites := c.listSites(ro)
	boolParam := -1
	for i, p := range ro.List.Params {
		if isBoolType(p.Type()) {
			boolParam = i
		}
	}
	for _, s := range sites {
		cons := "trailing-comma-flag:" + c.P.FuncKey(s.In)
		if boolParam < 0 {
			c.R.Add(rule, cons, c.P.InstrPos(s.Call), OK, "")
			continue
		}
		v, ok := constBoolArg(s.Call.Call.Args[boolParam])
		c.R.Check(rule, cons, c.P.InstrPos(s.Call), ok && !v, "trailing commas must not be permitted: the flag passed here must be the constant false")
	}
	// with the flag false, the trailing comma diagnostic is reachable after the loop
	tc := c.P.Global("M_Trailing_comma_not_allowed")
	args := make([]LV, len(ro.List.Params))
	for i := range args {
		args[i] = bottom
	}
	if boolParam >= 0 {
		args[boolParam] = boolLV(false)
	}
	fo := &Folder{P: c.P, MaxDepth: 3}
	r := fo.Fold(ro.List, args)
	var diag *ssa.Call
	for _, call := range r.ReachableCalls() {
		cc, ok := call.(*ssa.Call)
		if !ok {
			continue
		}
		for _, a := range cc.Call.Args {
			if u, ok := a.(*ssa.UnOp); ok && u.X == ssa.Value(tc) && tc != nil {
				diag = cc
			}
		}
	}
	c.R.Check(rule, "trailing-comma-diagnostic", c.P.Pos(ro.List.Pos()), diag != nil && c.MustDiag()[calleeOf(diag)], "the delimited-list parser must raise the trailing-comma diagnostic when the flag is false")
	if diag != nil {
		// the diagnostic depends on "last consumed token was a comma": the guarding value is set from
		// a position before a comma attempt and reset when no comma followed
		guardOK := false
		for _, p := range diag.Block().Preds {
			if iff, ok := p.Instrs[len(p.Instrs)-1].(*ssa.If); ok {
				if bo, ok := iff.Cond.(*ssa.BinOp); ok {
					if _, isPhi := bo.X.(*ssa.Phi); isPhi {
						guardOK = true
					}
				}
			}
		}
		// walk up through the `&&` lowering
		if !guardOK {
			seen := map[*ssa.BasicBlock]bool{}
			var up func(b *ssa.BasicBlock, d int)
			up = func(b *ssa.BasicBlock, d int) {
				if seen[b] || d > 3 {
					return
				}
				seen[b] = true
				for _, p := range b.Preds {
					if iff, ok := p.Instrs[len(p.Instrs)-1].(*ssa.If); ok {
						if bo, ok := iff.Cond.(*ssa.BinOp); ok {
							if _, isPhi := bo.X.(*ssa.Phi); isPhi {
								guardOK = true
							}
						}
					}
					up(p, d+1)
				}
			}
			up(diag.Block(), 0)
		}
		c.R.Check(rule, "trailing-comma-state", c.P.InstrPos(diag), guardOK, "the trailing-comma diagnostic must depend on loop-carried state (was the last consumed token a comma)")
	}
	// closers are expected after the inner parse on every path
	closer := func(name string, f *ssa.Function, inner *ssa.Function, kind int64) {
		var innerCall ssa.Instruction
		instrs(f, func(b *ssa.BasicBlock, i int, in ssa.Instruction) {
			if call, ok := in.(*ssa.Call); ok && calleeOf(call) != nil && (calleeOf(call) == inner || c.canon(calleeOf(call)) == c.canon(inner)) {
				innerCall = in
			}
		})
		if innerCall == nil {
			c.R.Undecided(rule, "closer:"+name, c.P.Pos(f.Pos()), "inner parse call not found")
			return
		}
		expects := func(in ssa.Instruction) bool {
			call, ok := in.(*ssa.Call)
			if !ok {
				return false
			}
			cal := calleeOf(call)
			if cal == nil || !c.expectsKind(cal) {
				return false
			}
			for _, a := range call.Call.Args {
				if n, ok := constIntArg(a); ok && n == kind && typeName(a.Type()) == "SyntaxKind" {
					return true
				}
			}
			return false
		}
		// the expectation written out (`if p.token() == kind { p.nextToken() } else { <diagnostic> }`): the edge on
		// which the closer is there needs nothing more; behind the other edge a must-diagnose call is the expectation
		md := c.MustDiag()
		var absent []*ssa.BasicBlock
		present := map[*ssa.BasicBlock]int{}
		for _, b := range f.Blocks {
			if len(b.Instrs) == 0 {
				continue
			}
			iff, ok := b.Instrs[len(b.Instrs)-1].(*ssa.If)
			if !ok {
				continue
			}
			bo, ok := iff.Cond.(*ssa.BinOp)
			if !ok || (bo.Op != token.EQL && bo.Op != token.NEQ) {
				continue
			}
			var other ssa.Value
			switch {
			case c.isTokenRead(bo.X):
				other = bo.Y
			case c.isTokenRead(bo.Y):
				other = bo.X
			default:
				continue
			}
			if n, ok := constIntArg(other); !ok || n != kind {
				continue
			}
			eq := 0
			if bo.Op == token.NEQ {
				eq = 1
			}
			present[b] = eq
			absent = append(absent, b.Succs[1-eq])
		}
		expects2 := func(in ssa.Instruction) bool {
			if expects(in) {
				return true
			}
			call, ok := in.(*ssa.Call)
			if !ok || calleeOf(call) == nil || !md[calleeOf(call)] {
				return false
			}
			for _, a := range absent {
				if len(a.Preds) == 1 && a.Dominates(in.Block()) {
					return true
				}
			}
			return false
		}
		edgeOK := func(b *ssa.BasicBlock, k int) bool {
			eq, ok := present[b]
			return !ok || k != eq
		}
		missing := pathExists(f, innerCall, isReturn, expects2, edgeOK)
		c.R.Check(rule, "closer:"+name, c.P.InstrPos(innerCall), !missing, "after the inner parse, "+c.SKName(kind)+" must be expected on every path (a missing closer has to be a syntax error)")
		// the opener is expected before
		return
	}
	closer("paren", ro.Paren, ro.Expr, c.SK("SK_CloseParen"))
	closer("array", ro.Array, ro.List, c.SK("SK_CloseBracket"))
	closer("arguments", ro.ArgList, ro.List, c.SK("SK_CloseParen"))
	// `...`: consumed only in the argument-list parser, after the list, under a test of the current token
	ddd := c.SK("SK_DotDotDot")
	var listCall ssa.Instruction
	instrs(ro.ArgList, func(b *ssa.BasicBlock, i int, in ssa.Instruction) {
		if call, ok := in.(*ssa.Call); ok && calleeOf(call) == ro.List {
			listCall = in
		}
	})
	if listCall != nil {
		for _, k := range c.AllKinds() {
			r := c.tokenFolderFrom(k, ro.ArgList, listCall).Fold(ro.ArgList, recvArgs(ro.ArgList))
			consumed := false
			for _, call := range r.ReachableCalls() {
				in := call.(ssa.Instruction)
				after, _ := c.taintFrom(ro.ArgList, listCall)
				if !after[in] {
					continue
				}
				if calleeOf(call) == ro.ParseToken {
					consumed = true
				}
				// ... or through the optional-token helper: handed a constant kind, it consumes a token node exactly
				// when the current token is that kind (decided by folding the helper itself)
				if g := calleeOf(call); g != nil && g != ro.ParseToken && c.inModule(g) && len(g.Blocks) > 0 {
					args := recvArgs(g)
					okArgs := true
					for _, a := range call.Common().Args[len(args):] {
						if n, isK := constIntArg(a); isK {
							args = append(args, constLV(constant.MakeInt64(n)))
						} else {
							okArgs = false
						}
					}
					if okArgs && len(args) == len(g.Params) && len(args) > len(recvArgs(g)) {
						for _, c2 := range c.tokenFolder(k).Fold(g, args).ReachableCalls() {
							if calleeOf(c2) == ro.ParseToken {
								consumed = true
							}
						}
					}
				}
			}
			c.R.Check(rule, "spread-token:"+c.SKName(k), c.P.InstrPos(listCall), consumed == (k == ddd), fmt.Sprintf("after the argument list a token node is consumed for %s = %v; only `...` may be taken as the spread marker", c.SKName(k), consumed))
		}
	}
	// list element / terminator predicates: `...` terminates the argument list only; it neither starts nor ends an array element list
	elem, term := c.listPredicates(ro)
	if elem == nil || term == nil {
		c.R.Undecided(rule, "list-predicates", c.P.Pos(ro.List.Pos()), "element/terminator predicates not found")
	} else {
		for _, s := range sites {
			isArgs := s.In == ro.ArgList
			tv, ok1 := c.foldPredBool(term, ddd, intLV(s.Ctx))
			ev, ok2 := c.foldPredBool(elem, ddd, intLV(s.Ctx))
			if !ok1 || !ok2 {
				c.R.Undecided(rule, fmt.Sprintf("spread-in-ctx%d", s.Ctx), c.P.Pos(term.Pos()), "predicates do not fold on `...`")
				continue
			}
			if isArgs {
				c.R.Check(rule, fmt.Sprintf("spread-in-ctx%d", s.Ctx), c.P.Pos(term.Pos()), tv && !ev, "`...` must terminate an argument list (it is then taken as the spread marker)")
			} else {
				c.R.Check(rule, fmt.Sprintf("spread-in-ctx%d", s.Ctx), c.P.Pos(term.Pos()), !tv && !ev, "`...` must be neither an element start nor a terminator of an array literal (it is skipped with a diagnostic)")
			}
			// closers terminate, end of file terminates
			closerKind := c.SK("SK_CloseBracket")
			if isArgs {
				closerKind = c.SK("SK_CloseParen")
			}
			for _, k := range []int64{closerKind, c.SK("SK_EndOfFile")} {
				tv, ok := c.foldPredBool(term, k, intLV(s.Ctx))
				c.R.Check(rule, fmt.Sprintf("terminator-ctx%d:%s", s.Ctx, c.SKName(k)), c.P.Pos(term.Pos()), ok && tv, c.SKName(k)+" must terminate the list")
			}
			// a comma never terminates and (in argument lists) never starts an element
			tvc, okc := c.foldPredBool(term, c.SK("SK_Comma"), intLV(s.Ctx))
			c.R.Check(rule, fmt.Sprintf("terminator-ctx%d:SK_Comma", s.Ctx), c.P.Pos(term.Pos()), okc && !tvc, "a comma must not terminate a list")
		}
	}
	// the separator: after an element, a comma is consumed or the list ends or a comma is expected (diagnostic)
	c.R.Floor(rule, 8)
}

// expectsKind: f(kind, ...) records a diagnostic whenever the current token differs from kind.
func (c *Ctx) expectsKind(f *ssa.Function) bool {
	if f == nil || len(f.Blocks) == 0 {
		return false
	}
	f = c.canonExpect(f)
	kp := -1
	for i, p := range f.Params {
		if typeName(p.Type()) == "SyntaxKind" {
			kp = i
		}
	}
	if kp < 0 {
		return false
	}
	// fold with token = 1, kind = 2 (any two different values): every return passes a must-diag call
	args := make([]LV, len(f.Params))
	for i := range args {
		args[i] = bottom
	}
	args[kp] = intLV(2)
	r := c.tokenFolder(1).Fold(f, args)
	md := c.MustDiag()
	isDiag := func(in ssa.Instruction) bool {
		call, ok := in.(*ssa.Call)
		if !ok {
			return false
		}
		cal := calleeOf(call)
		return cal != nil && md[cal]
	}
	if len(r.Returns) == 0 {
		return false
	}
	return !pathExistsIn(r, nil, isReturn, isDiag)
}

// canonExpect unwraps `want(t)` -> parseExpected(t, nil, true).
func (c *Ctx) canonExpect(f *ssa.Function) *ssa.Function {
	if g := c.trivialTarget(f); g != nil {
		return g
	}
	return f
}

// ---------- operators known downstream ----------

func c02Downstream(c *Ctx, ro *ParserRoles) {
	const rule = "C02.operators-known-downstream"
	arms, und := c.binaryDispatch()
	if und != "" {
		c.R.Undecided(rule, "binary-dispatch", "-", und)
		return
	}
	tab, _ := c.precTable(ro)
	prod := c.producibleTokens()
	e := int64(0)
	if len(ro.EntryPrec) > 0 {
		e = ro.EntryPrec[0]
	}
	var ks []int64
	for k, p := range tab {
		if p > e {
			ks = append(ks, k)
		}
	}
	for _, k := range c.AllKinds() {
		if a, ok := c.foldKindMethod("IsAssignmentOperator", k); ok && a {
			ks = append(ks, k)
		}
	}
	ks = append(ks, c.SK("SK_Comma"))
	sort.Slice(ks, func(i, j int) bool { return ks[i] < ks[j] })
	for _, k := range ks {
		if !prod[k] {
			continue // the scanner never produces this token
		}
		arm := arms[k]
		c.R.Check(rule, "binary:"+c.SKName(k), arm.Pos, arm.Handler != nil, "the parser builds binary nodes with operator "+c.SKName(k)+" but the evaluator's operator dispatch has no arm for it (falls through to: "+arm.Fallthrough+")")
	}
	parms, und2 := c.prefixDispatch()
	if und2 != "" {
		c.R.Undecided(rule, "prefix-dispatch", "-", und2)
		return
	}
	for _, k := range c.AllKinds() {
		r := c.tokenFolder(k).Fold(ro.Unary, recvArgs(ro.Unary))
		if _, pf := c.calleesReached(r)[ro.Prefix]; !pf || !prod[k] {
			continue
		}
		arm := parms[k]
		c.R.Check(rule, "prefix:"+c.SKName(k), arm.Pos, arm.Handler != nil, "the parser builds prefix nodes with operator "+c.SKName(k)+" but the evaluator has no arm for it")
	}
	c.R.Floor(rule, 20)
}

// c02NoUnwrap: the tree records the nesting as written. A parse function that returns an operand it has read OUT of a
// node it obtained (`paren.Expression`, `node.Left`) throws that node away: parentheses disappear from the tree, and
// with them what later stages key on (the field analysis refuses member access on `(x)`; a parenthesised assignment
// target or callee is told apart from a bare one). Decided: no return value of a parse function that yields nodes is
// rooted at a field load from another node.
func c02NoUnwrap(c *Ctx, ro *ParserRoles, rule string) {
	n := 0
	for _, f := range ro.Reach.Order {
		if len(f.Blocks) == 0 || f.Signature.Results().Len() != 1 || !isPointerLike(f.Signature.Results().At(0).Type()) {
			continue
		}
		if f.Signature.Recv() == nil && len(f.Params) > 0 && f.Origin() != nil {
			continue // generic node helpers (finishNode and friends) hand their parameter back
		}
		rn := typeName(f.Signature.Results().At(0).Type())
		isNode := rn == "Expression" || rn == "Node"
		if nt := namedOf(deref(f.Signature.Results().At(0).Type())); nt != nil && len(c.requiredFields(nt)) > 0 {
			isNode = true
		}
		if !isNode {
			continue
		}
		n++
		bad := ""
		instrs(f, func(b *ssa.BasicBlock, i int, in ssa.Instruction) {
			ret, ok := in.(*ssa.Return)
			if !ok || len(ret.Results) != 1 {
				return
			}
			for _, rt := range c.nodeOrigins().Roots(ret.Results[0]) {
				if _, ind := c.inductiveOperand(rt); ind {
					bad = fmt.Sprintf("%s returns %s", c.P.InstrPos(ret), rt.String())
				}
			}
		})
		c.R.Check(rule, c.P.FuncKey(f), c.P.Pos(f.Pos()), bad == "", "a parse function must hand back the node it built or received, not an operand taken out of one: "+bad+"; the enclosing node (e.g. the parentheses around a name) vanishes from the tree")
	}
	c.R.Floor(rule, 10)
}
