package main

import (
	"go/constant"
	"go/types"
	"unicode/utf8"

	"golang.org/x/tools/go/ssa"
)

// Folding (*Scanner).Scan for a concrete text prefix: "which token does the
// scanner's switch produce, and how far does it advance, when the input
// starts with T?". The first rune and the results of the peek helpers are
// pinned from T; the SSA of Scan is then constant-folded. No code runs.

type ScanOutcome struct {
	Fold    *FoldResult
	Results []ScanReturn
}

type ScanReturn struct {
	Ret      *ssa.Return
	Token    LV // value stored to Scanner.token before the return
	TokStore *ssa.Store
	Adv      LV // value stored to Scanner.pos (with pos pinned to 0: the advance in bytes)
	PosStore *ssa.Store
	RetVal   LV
	Calls    []*ssa.Function // module callees on the way (sub-scanners)
}

func isScannerField(v ssa.Value, field string) bool {
	fa, ok := v.(*ssa.FieldAddr)
	if !ok || fieldName(fa) != field {
		return false
	}
	if typeName(fa.X.Type()) == "Scanner" {
		return true
	}
	// a field of a struct embedded in the scanner (`type Scanner struct { ..; scanState }`): s.pos is s.scanState.pos
	if outer, isFA := fa.X.(*ssa.FieldAddr); isFA && typeName(outer.X.Type()) == "Scanner" {
		if st, isS := deref(outer.X.Type()).Underlying().(*types.Struct); isS && outer.Field < st.NumFields() && st.Field(outer.Field).Embedded() {
			return true
		}
	}
	return false
}

// peekKind classifies the scanner's look-ahead helpers by signature:
// (int, rune) int  -> "equal";  (int, func(rune) bool) int -> "check".
func peekKind(f *ssa.Function) string {
	if f == nil || f.Signature.Recv() == nil || typeName(f.Signature.Recv().Type()) != "Scanner" {
		return ""
	}
	ps, rs := f.Signature.Params(), f.Signature.Results()
	if ps.Len() != 2 || rs.Len() != 1 || !isIntType(rs.At(0).Type()) || !isIntType(ps.At(0).Type()) {
		return ""
	}
	if b, ok := ps.At(1).Type().Underlying().(*types.Basic); ok && b.Kind() == types.Int32 {
		return "equal"
	}
	if sg, ok := ps.At(1).Type().Underlying().(*types.Signature); ok && sg.Params().Len() == 1 && sg.Results().Len() == 1 {
		return "check"
	}
	return ""
}

var posWriterCache = map[*Ctx]map[*ssa.Function]bool{}

// PosWriters: scanner functions that may store to Scanner.pos (transitively).
func (c *Ctx) PosWriters() map[*ssa.Function]bool {
	if m, ok := posWriterCache[c]; ok {
		return m
	}
	res := map[*ssa.Function]bool{}
	posWriterCache[c] = res
	for _, f := range c.P.ModFuncs {
		instrs(f, func(b *ssa.BasicBlock, i int, in ssa.Instruction) {
			if st, ok := in.(*ssa.Store); ok && isScannerField(st.Addr, "pos") {
				res[f] = true
			}
		})
	}
	for changed := true; changed; {
		changed = false
		for _, f := range c.P.ModFuncs {
			if res[f] {
				continue
			}
			instrs(f, func(b *ssa.BasicBlock, i int, in ssa.Instruction) {
				if call, ok := in.(ssa.CallInstruction); ok {
					if cal := calleeOf(call); cal != nil && res[cal] && !res[f] {
						res[f] = true
						changed = true
					}
				}
			})
		}
	}
	return res
}

// posTaint: instructions of f that may run after pos was written.
func (c *Ctx) posTaint(f *ssa.Function) map[ssa.Instruction]bool {
	pw := c.PosWriters()
	taint := map[ssa.Instruction]bool{}
	writes := func(in ssa.Instruction) bool {
		if st, ok := in.(*ssa.Store); ok && isScannerField(st.Addr, "pos") {
			return true
		}
		if call, ok := in.(ssa.CallInstruction); ok {
			if cal := calleeOf(call); cal != nil {
				return pw[cal]
			}
			if _, isB := call.Common().Value.(*ssa.Builtin); !isB && !call.Common().IsInvoke() {
				return false // callbacks (error handler, predicates) do not own the scanner
			}
		}
		return false
	}
	seen := map[*ssa.BasicBlock]bool{}
	var work []*ssa.BasicBlock
	for _, b := range f.Blocks {
		after := false
		for _, in := range b.Instrs {
			if after {
				taint[in] = true
			}
			if writes(in) {
				after = true
			}
		}
		if after {
			work = append(work, b.Succs...)
		}
	}
	for len(work) > 0 {
		b := work[len(work)-1]
		work = work[:len(work)-1]
		if seen[b] {
			continue
		}
		seen[b] = true
		for _, in := range b.Instrs {
			taint[in] = true
		}
		work = append(work, b.Succs...)
	}
	return taint
}

// runeFolder folds a rune predicate (IsDigit, a closure `ch == 'x' || ch == 'X'`).
func (c *Ctx) foldRunePred(fv ssa.Value, r rune) (bool, bool) {
	f := fnValue(fv)
	if f == nil || len(f.Blocks) == 0 {
		return false, false
	}
	if mc, ok := fv.(*ssa.MakeClosure); ok && len(mc.Bindings) > 0 {
		// bound method value such as s.isIdentifierPart: receiver binding only
		_ = mc
	}
	fo := &Folder{P: c.P, MaxDepth: 4}
	args := make([]LV, len(f.Params))
	for i := range args {
		args[i] = bottom
	}
	// the rune parameter is the last one
	args[len(args)-1] = intLV(int64(r))
	res := fo.Fold(f, args)
	v, ok := res.ReturnConst(0)
	if !ok || v.Kind() != constant.Bool {
		return false, false
	}
	return constant.BoolVal(v), true
}

func byteOffset(t []rune, n int) int {
	off := 0
	for i := 0; i < n && i < len(t); i++ {
		off += utf8.RuneLen(t[i])
	}
	return off
}

// scanFolder builds the folder for a text prefix. Values in `taint` are not
// pinned; every value that does get pinned is recorded in `pinned`.
func (c *Ctx) scanFolder(text string, taint map[ssa.Instruction]bool, pinned map[ssa.Instruction]bool, clean map[*ssa.Function]bool) *Folder {
	scan := c.scanFn()
	t := []rune(text)
	const bigEnd = 1 << 20
	var inner func(v ssa.Value) (constant.Value, bool)
	fo := &Folder{P: c.P, MaxDepth: 3,
		Opaque: func(f *ssa.Function) bool { return peekKind(f) != "" }}
	// look-ahead helpers whose distance / character are parameters of an arm helper: constants only in this fold
	fo.CallHook = func(call *ssa.Call, args []LV) (LV, bool) {
		cal := calleeOf(call)
		kind := peekKind(cal)
		if kind != "equal" || len(args) != 3 {
			return LV{}, false
		}
		in := ssa.Instruction(call)
		if in.Parent() == scan {
			return LV{}, false // handled by the pins (with their taint bookkeeping)
		}
		if !clean[in.Parent()] || c.posTaint(in.Parent())[in] {
			return LV{}, false
		}
		if args[1].K != lConst || args[2].K != lConst {
			return LV{}, false
		}
		n, _ := constant.Int64Val(args[1].C)
		ch, _ := constant.Int64Val(args[2].C)
		if n < 0 {
			return LV{}, false
		}
		if int(n) >= len(t) || t[n] != rune(ch) {
			return intLV(-1), true
		}
		return intLV(int64(byteOffset(t, int(n)+1))), true
	}
	fo.Input = func(v ssa.Value) (constant.Value, bool) {
		cv, ok := inner(v)
		if ok {
			pinned[v.(ssa.Instruction)] = true
		}
		return cv, ok
	}
	inner = func(v ssa.Value) (constant.Value, bool) {
		in, _ := v.(ssa.Instruction)
		if in == nil {
			return nil, false
		}
		if in.Parent() != scan {
			// a helper of one arm (`return s.scanOneOrTwo(size, ...)`), entered before the position was written:
			// the input is the same there, up to the helper's own first write of the position
			if !clean[in.Parent()] || c.posTaint(in.Parent())[in] {
				return nil, false
			}
		}
		switch x := v.(type) {
		case *ssa.Extract:
			call, ok := x.Tuple.(*ssa.Call)
			if !ok {
				return nil, false
			}
			cal := calleeOf(call)
			if cal == nil || cal.String() != "unicode/utf8.DecodeRune" || taint[in] {
				return nil, false
			}
			if len(t) == 0 {
				return nil, false
			}
			if x.Index == 0 {
				return constant.MakeInt64(int64(t[0])), true
			}
			return constant.MakeInt64(int64(utf8.RuneLen(t[0]))), true
		case *ssa.UnOp:
			if isScannerField(x.X, "pos") && !taint[in] {
				return constant.MakeInt64(0), true
			}
			if isScannerField(x.X, "end") {
				return constant.MakeInt64(bigEnd), true
			}
		case *ssa.Call:
			cal := calleeOf(x)
			kind := peekKind(cal)
			if kind == "" || taint[in] {
				return nil, false
			}
			n, ok := constIntArg(x.Call.Args[1])
			if !ok || n < 0 {
				return nil, false
			}
			if int(n) >= len(t) {
				return constant.MakeInt64(-1), true
			}
			switch kind {
			case "equal":
				ch, ok := constIntArg(x.Call.Args[2])
				if !ok {
					return nil, false
				}
				if t[n] == rune(ch) {
					return constant.MakeInt64(int64(byteOffset(t, int(n)+1))), true
				}
				return constant.MakeInt64(-1), true
			case "check":
				hit, ok := c.foldRunePred(x.Call.Args[2], t[n])
				if !ok {
					return nil, false
				}
				if hit {
					return constant.MakeInt64(int64(byteOffset(t, int(n)+1))), true
				}
				return constant.MakeInt64(-1), true
			}
		}
		return nil, false
	}
	return fo
}

// posTaintIn: instructions that may run after a write to Scanner.pos, along
// the edges a fold left executable.
func (c *Ctx) posTaintIn(res *FoldResult) map[ssa.Instruction]bool {
	pw := c.PosWriters()
	f := res.Fn
	taint := map[ssa.Instruction]bool{}
	writes := func(in ssa.Instruction) bool {
		if st, ok := in.(*ssa.Store); ok && isScannerField(st.Addr, "pos") {
			return true
		}
		if call, ok := in.(ssa.CallInstruction); ok {
			if cal := calleeOf(call); cal != nil {
				return pw[cal]
			}
		}
		return false
	}
	seen := map[*ssa.BasicBlock]bool{}
	var work []*ssa.BasicBlock
	push := func(b *ssa.BasicBlock) {
		for _, s := range b.Succs {
			if res.Edge[[2]int{b.Index, s.Index}] {
				work = append(work, s)
			}
		}
	}
	for _, b := range f.Blocks {
		if !res.Reach[b] {
			continue
		}
		after := false
		for _, in := range b.Instrs {
			if after {
				taint[in] = true
			}
			if writes(in) {
				after = true
			}
		}
		if after {
			push(b)
		}
	}
	for len(work) > 0 {
		b := work[len(work)-1]
		work = work[:len(work)-1]
		if seen[b] {
			continue
		}
		seen[b] = true
		for _, in := range b.Instrs {
			taint[in] = true
		}
		push(b)
	}
	return taint
}

var scanOnCache = map[*Ctx]map[string]*ScanOutcome{}

// ScanOn folds Scan for input starting with text. Pins (first rune, pos = 0,
// peek results) apply to the first pass through the trivia loop only: a
// pinned value that may execute after a write to Scanner.pos along the edges
// the fold keeps executable is unpinned and the fold repeated (monotone).
func (c *Ctx) ScanOn(text string) *ScanOutcome {
	if m := scanOnCache[c]; m != nil {
		if o, ok := m[text]; ok {
			return o
		}
	} else {
		scanOnCache[c] = map[string]*ScanOutcome{}
	}
	scan := c.scanFn()
	unpinned := map[ssa.Instruction]bool{}
	// helpers of single arms: scanner methods (not look-ahead helpers, not diagnostics) called from Scan
	cands := map[*ssa.Function]bool{}
	instrs(scan, func(b *ssa.BasicBlock, i int, in ssa.Instruction) {
		if call, ok := in.(*ssa.Call); ok {
			if g := calleeOf(call); g != nil && c.inModule(g) && g != scan && typeName(recvType(g)) == "Scanner" && peekKind(g) == "" && !c.scannerDiagFns()[g] && len(g.Blocks) > 0 {
				cands[g] = true
			}
		}
	})
	dirty := map[*ssa.Function]bool{}
	var res *FoldResult
	var fo *Folder
	for iter := 0; iter < 20; iter++ {
		pinned := map[ssa.Instruction]bool{}
		clean := map[*ssa.Function]bool{}
		for g := range cands {
			if !dirty[g] {
				clean[g] = true
			}
		}
		fo = c.scanFolder(text, unpinned, pinned, clean)
		res = fo.Fold(scan, []LV{bottom})
		taint := c.posTaintIn(res)
		more := false
		for in := range pinned {
			if in.Parent() == scan && taint[in] && !unpinned[in] {
				unpinned[in] = true
				more = true
			}
		}
		// a helper called after the position was written does not see the pinned input
		for _, call := range res.ReachableCalls() {
			if cc, ok := call.(*ssa.Call); ok {
				if g := calleeOf(cc); g != nil && clean[g] && taint[cc] {
					dirty[g] = true
					more = true
				}
			}
		}
		if !more {
			break
		}
	}
	out := &ScanOutcome{Fold: res}
	scanOnCache[c][text] = out
	type unit struct {
		res *FoldResult
		ret *ssa.Return
	}
	var units []unit
	for _, ret := range res.Returns {
		// `return s.armHelper(...)`: the helper's returns are the outcome
		if len(ret.Results) == 1 {
			if call, ok := ret.Results[0].(*ssa.Call); ok {
				if g := calleeOf(call); g != nil && cands[g] && !dirty[g] {
					args := make([]LV, len(call.Call.Args))
					for i, a := range call.Call.Args {
						args[i] = fo.operand(res, a)
					}
					sub := fo.Fold(g, args)
					if len(sub.Returns) > 0 {
						for _, r2 := range sub.Returns {
							units = append(units, unit{sub, r2})
						}
						continue
					}
				}
			}
		}
		units = append(units, unit{res, ret})
	}
	for _, u := range units {
		res, ret := u.res, u.ret
		sr := ScanReturn{Ret: ret, Token: LV{K: lTop}, Adv: LV{K: lTop}}
		if len(ret.Results) == 1 {
			sr.RetVal = res.Val(ret.Results[0])
		}
		// walk back through the dominator chain for the closest stores
		visitedBack := map[*ssa.BasicBlock]bool{}
		b := ret.Block()
		idx := len(b.Instrs) - 1
		for b != nil {
			for i := idx; i >= 0; i-- {
				switch x := b.Instrs[i].(type) {
				case *ssa.Store:
					if sr.TokStore == nil && isScannerField(x.Addr, "token") {
						sr.TokStore = x
						sr.Token = res.Val(x.Val)
						if sr.Token.K != lConst {
							// token obtained from a sub-scanner: fold its constant result
							for _, rt := range plainOrigins.Roots(x.Val) {
								if rt.Kind == "call" && rt.Fn != nil && c.inModule(rt.Fn) {
									args := make([]LV, len(rt.Fn.Params))
									for k := range args {
										args[k] = bottom
									}
									sub := (&Folder{P: c.P, MaxDepth: 2}).Fold(rt.Fn, args)
									if v, ok := sub.ReturnConst(rt.Idx); ok {
										sr.Token = constLV(v)
									}
								}
							}
						}
					}
					if sr.PosStore == nil && isScannerField(x.Addr, "pos") {
						sr.PosStore = x
						sr.Adv = res.Val(x.Val)
					}
				case *ssa.Call:
					if cal := calleeOf(x); cal != nil && c.inModule(cal) && peekKind(cal) == "" {
						sr.Calls = append(sr.Calls, cal)
					}
				}
			}
			// the block control came from: the one predecessor whose edge the fold left executable, else the dominator
			var only *ssa.BasicBlock
			n := 0
			for _, p := range b.Preds {
				if res.Reach[p] && res.Edge[[2]int{p.Index, b.Index}] {
					only = p
					n++
				}
			}
			if n == 1 && !visitedBack[only] {
				b = only
			} else {
				b = b.Idom()
			}
			if b != nil {
				visitedBack[b] = true
				idx = len(b.Instrs) - 1
			}
		}
		out.Results = append(out.Results, sr)
	}
	return out
}
