package main

import (
	"fmt"
	"go/constant"
	"go/token"
	"go/types"
	"strings"

	"golang.org/x/tools/go/ssa"
)

// c08NoAddressInText: "the same value or the same error every time" - a value of unknown dynamic type printed with
// %v (or %+v, %#v, %s, %d ..; Sprint / Sprintln) prints the ADDRESS when it is a pointer to something that is not a
// struct, a function, a channel, or a map / slice holding such: two deep-equal data maps built separately give
// different texts. Every formatting call reachable from evaluation is an obligation: each operand printed by a value
// verb has a static type that cannot carry an address (basic types, strings, errors, reflect.Type / reflect.Kind,
// *decimal.Big, time.Time, fmt.Stringer implementations of the module), or is the value recovered from a panic.
// %T and %q-of-string print no address.
func c08NoAddressInText(c *Ctx) {
	const rule = "C08.no-address-in-text"
	rr := c.ReachFrom("eval+builtins", c.evalRoots()...)
	safeType := func(t types.Type) bool {
		s := t.String()
		switch {
		case s == "error", strings.HasSuffix(s, "reflect.Type"), strings.HasSuffix(s, "reflect.Kind"), strings.HasSuffix(s, "decimal.Big"), s == "time.Time", s == "*time.Location", s == "time.Duration", s == "time.Month", s == "time.Weekday":
			return true
		}
		if nt, ok := t.(*types.Named); ok && nt.Obj().Pkg() == c.P.Types {
			if _, isStruct := nt.Underlying().(*types.Struct); !isStruct {
				if _, isIface := nt.Underlying().(*types.Interface); !isIface {
					return true // SyntaxKind and the like
				}
			}
		}
		switch u := t.Underlying().(type) {
		case *types.Basic:
			return u.Kind() != types.UnsafePointer
		case *types.Slice:
			if b, ok := u.Elem().Underlying().(*types.Basic); ok {
				return b.Kind() != types.UnsafePointer
			}
		}
		return false
	}
	fromRecover := func(v ssa.Value) bool {
		for _, rt := range plainOrigins.Roots(v) {
			if call, ok := rt.V.(*ssa.Call); ok {
				if b, isB := call.Call.Value.(*ssa.Builtin); isB && b.Name() == "recover" {
					continue
				}
			}
			return false
		}
		return true
	}
	n := 0
	seenCons := map[string]bool{}
	isMapKey := func(v ssa.Value) bool {
		rs := plainOrigins.Roots(v)
		if len(rs) == 0 {
			return false
		}
		for _, rt := range rs {
			if rt.Kind != "call" || rt.Fn == nil || rt.Fn.String() != "(reflect.Value).Interface" {
				return false
			}
			recv := rt.V.(*ssa.Call).Call.Args[0]
			isKey := false
			for _, q := range plainOrigins.Roots(recv) {
				if q.Kind == "call" && q.Fn != nil && (q.Fn.String() == "(reflect.Value).MapKeys" || q.Fn.String() == "(*reflect.MapIter).Key") {
					isKey = true
				}
			}
			if !isKey {
				return false
			}
		}
		return true
	}
	for _, f := range rr.Order {
		per := 0
		instrs(f, func(b *ssa.BasicBlock, i int, in ssa.Instruction) {
			call, ok := in.(*ssa.Call)
			if !ok {
				return
			}
			cal := calleeOf(call)
			if cal == nil {
				return
			}
			fmtIdx, argIdx := -1, -1
			switch cal.String() {
			case "fmt.Sprintf", "fmt.Errorf":
				fmtIdx, argIdx = 0, 1
			case "fmt.Sprint", "fmt.Sprintln":
				argIdx = 0
			default:
				return
			}
			// the operands: the elements stored into the variadic slice
			var ops []ssa.Value
			if sl, isSl := call.Call.Args[argIdx].(*ssa.Slice); isSl {
				if al, isAl := sl.X.(*ssa.Alloc); isAl && al.Referrers() != nil {
					byIdx := map[int64]ssa.Value{}
					max := int64(-1)
					for _, r := range *al.Referrers() {
						ia, ok := r.(*ssa.IndexAddr)
						if !ok || ia.Referrers() == nil {
							continue
						}
						k, isK := constIntArg(ia.Index)
						if !isK {
							continue
						}
						for _, u := range *ia.Referrers() {
							if st, ok := u.(*ssa.Store); ok && st.Addr == ssa.Value(ia) {
								byIdx[k] = st.Val
								if k > max {
									max = k
								}
							}
						}
					}
					for k := int64(0); k <= max; k++ {
						ops = append(ops, byIdx[k])
					}
				}
			}
			if len(ops) == 0 {
				return
			}
			// a text that is only compared (the fixed visiting order of map entries) is not part of any result
			if refs := call.Referrers(); refs != nil && len(*refs) > 0 {
				onlyCompared := true
				for _, r := range *refs {
					bo, isB := r.(*ssa.BinOp)
					if !isB || (bo.Op != token.LSS && bo.Op != token.GTR && bo.Op != token.LEQ && bo.Op != token.GEQ) {
						onlyCompared = false
					}
				}
				if onlyCompared {
					return
				}
			}
			// the verb each operand is printed with
			verbs := make([]byte, len(ops))
			for k := range verbs {
				verbs[k] = 'v'
			}
			if fmtIdx >= 0 {
				kf, isK := call.Call.Args[fmtIdx].(*ssa.Const)
				if !isK || kf.Value == nil || kf.Value.Kind() != constant.String {
					return
				}
				format := constant.StringVal(kf.Value)
				k := 0
				for p := 0; p < len(format); p++ {
					if format[p] != '%' {
						continue
					}
					p++
					for p < len(format) && strings.IndexByte("+-# 0123456789.", format[p]) >= 0 {
						p++
					}
					if p >= len(format) {
						break
					}
					if format[p] == '%' {
						continue
					}
					if k < len(verbs) {
						verbs[k] = format[p]
					}
					k++
				}
			}
			for k, op := range ops {
				if op == nil || verbs[k] == 'T' {
					continue
				}
				v := stripIface(op)
				n++
				per++
				// keyed by the function's pinned name and by what is printed (a recorded finding survives renames,
				// `Sprintf("%v", v)` rewritten as `Sprint(v)`, and formatting calls added in front of it)
				fname := c.P.FuncKey(f)
				if f.Parent() == nil {
					fname = pinnedNameOf(c.P, f)
				}
				what := describeValue(v)
				if p, isP := v.(*ssa.Parameter); isP {
					for pi, q := range f.Params {
						if q == p {
							what = fmt.Sprintf("param#%d", pi)
						}
					}
				}
				cons := fmt.Sprintf("%s: prints %s", fname, what)
				if seenCons[cons] {
					continue
				}
				seenCons[cons] = true
				// a map key: its identity (an address, when it is a pointer) is part of the data itself
				if isMapKey(v) {
					c.R.Add(rule, cons, c.P.InstrPos(in), OK, "")
					continue
				}
				if safeType(v.Type()) || fromRecover(v) {
					c.R.Add(rule, cons, c.P.InstrPos(in), OK, "")
					continue
				}
				c.R.Add(rule, cons, c.P.InstrPos(in), Violation, fmt.Sprintf("%s prints %s (static type %s) with %%%c: when the value is a pointer to a number or a string, a function, or a map or slice holding pointers, the text contains an address, which differs between two equal data maps built separately: equal formula, equal data, different text", cal.Name(), describeValue(v), v.Type(), verbs[k]))
			}
		})
	}
	c.R.Analysed["formatted_operands_checked"] = n
	c.R.Floor(rule, 10)
}
