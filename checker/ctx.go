package main

import (
	"fmt"
	"go/constant"
	"go/types"
	"sort"
	"strings"

	"golang.org/x/tools/go/ssa"
)

// Ctx carries the loaded program, the report under construction and the
// roles discovered in the program (section 2.2 of DESIGN.md).
type Ctx struct {
	P    *Prog
	R    *Report
	Tier string

	skByVal  map[int64]string
	skByName map[string]int64
	skCount  int64

	nodeTypes []*types.Named // struct types whose pointer implements Expression

	tokenAcc    map[*ssa.Function]bool
	mayConsume  map[*ssa.Function]bool
	mustConsume map[*ssa.Function]bool
	taintCache  map[*ssa.Function]map[ssa.Instruction]bool

	reachCache map[string]*ReachResult
}

func NewCtx(p *Prog, r *Report, tier string) *Ctx {
	c := &Ctx{P: p, R: r, Tier: tier, taintCache: map[*ssa.Function]map[ssa.Instruction]bool{}, reachCache: map[string]*ReachResult{}}
	c.skByVal, c.skByName = p.EnumNames("SyntaxKind")
	if n, ok := p.Const("SK_Count"); ok {
		c.skCount = n
	}
	return c
}

func (c *Ctx) recordAnalysed() {
	nf := 0
	for range c.P.ModFuncs {
		nf++
	}
	c.R.Analysed["repo"] = c.P.RepoDir
	c.R.Analysed["packages_loaded"] = len(c.P.Pkgs)
	c.R.Analysed["root_package"] = c.P.Root.PkgPath
	c.R.Analysed["files"] = c.P.Files
	c.R.Analysed["module_functions"] = nf
	c.R.Analysed["program_functions"] = len(c.P.AllFuncs)
	c.R.Analysed["syntax_kinds"] = c.skCount
}

// ---------- anchors ----------

// need resolves an anchor function; an unresolved anchor fails the check loudly.
func (c *Ctx) need(rule string, f *ssa.Function, what string) bool {
	if f == nil || len(f.Blocks) == 0 {
		c.R.Add(rule, "ANCHOR-UNRESOLVED "+what, "-", Undecided, "anchor "+what+" could not be resolved in the loaded program")
		return false
	}
	return true
}

func (c *Ctx) fn(name string) *ssa.Function { return c.P.Func(name) }

func (c *Ctx) method(typ, name string) *ssa.Function { return c.P.Method(typ, name) }

// SK returns the value of a SyntaxKind constant by name (-1 if absent).
func (c *Ctx) SK(name string) int64 {
	if v, ok := c.skByName[name]; ok {
		return v
	}
	return -1
}

func (c *Ctx) SKName(v int64) string {
	if n, ok := c.skByVal[v]; ok {
		return n
	}
	return fmt.Sprintf("SyntaxKind(%d)", v)
}

// AllKinds enumerates 0..SK_Count-1.
func (c *Ctx) AllKinds() []int64 {
	var out []int64
	for i := int64(0); i < c.skCount; i++ {
		out = append(out, i)
	}
	return out
}

// NodeTypes: named struct types whose pointer implements Expression.
func (c *Ctx) NodeTypes() []*types.Named {
	if c.nodeTypes != nil {
		return c.nodeTypes
	}
	exprT := c.P.NamedType("Expression")
	if exprT == nil {
		return nil
	}
	iface, _ := exprT.Underlying().(*types.Interface)
	if iface == nil {
		return nil
	}
	sc := c.P.Types.Scope()
	for _, n := range sc.Names() {
		tn, ok := sc.Lookup(n).(*types.TypeName)
		if !ok || tn.IsAlias() {
			continue
		}
		nt, ok := tn.Type().(*types.Named)
		if !ok || nt.TypeParams().Len() > 0 || !tn.Exported() {
			continue
		}
		if _, ok := nt.Underlying().(*types.Struct); !ok {
			continue
		}
		if types.Implements(types.NewPointer(nt), iface) {
			c.nodeTypes = append(c.nodeTypes, nt)
		}
	}
	sort.Slice(c.nodeTypes, func(i, j int) bool { return c.nodeTypes[i].Obj().Name() < c.nodeTypes[j].Obj().Name() })
	return c.nodeTypes
}

func (c *Ctx) isNodeTypeName(name string) bool {
	for _, n := range c.NodeTypes() {
		if n.Obj().Name() == name {
			return true
		}
	}
	return false
}

// ---------- token accessors, consumers ----------

// TokenAccessors: functions that just return the scanner's current token
// ((*Scanner).GetToken, (*Parser).token and anything shaped like them).
func (c *Ctx) TokenAccessors() map[*ssa.Function]bool {
	if c.tokenAcc != nil {
		return c.tokenAcc
	}
	acc := map[*ssa.Function]bool{}
	isTokenLoad := func(v ssa.Value) bool {
		u, ok := v.(*ssa.UnOp)
		if !ok {
			return false
		}
		fa, ok := u.X.(*ssa.FieldAddr)
		if !ok {
			return false
		}
		return isScannerField(fa, "token")
	}
	for changed := true; changed; {
		changed = false
		for _, f := range c.P.ModFuncs {
			if acc[f] || len(f.Blocks) == 0 || f.Signature.Results().Len() != 1 || f.Signature.Params().Len() != 0 {
				continue
			}
			if typeName(f.Signature.Results().At(0).Type()) != "SyntaxKind" {
				continue
			}
			ok := true
			nret := 0
			instrs(f, func(b *ssa.BasicBlock, i int, in ssa.Instruction) {
				switch x := in.(type) {
				case *ssa.Store, *ssa.MapUpdate, *ssa.Go, *ssa.Defer, *ssa.Send:
					ok = false
				case *ssa.Call:
					cal := calleeOf(x)
					if cal == nil || !acc[cal] {
						ok = false
					}
				case *ssa.Return:
					nret++
					v := x.Results[0]
					if isTokenLoad(v) {
						return
					}
					if call, isCall := v.(*ssa.Call); isCall {
						if cal := calleeOf(call); cal != nil && acc[cal] {
							return
						}
					}
					ok = false
				}
			})
			if ok && nret > 0 {
				acc[f] = true
				changed = true
			}
		}
	}
	c.tokenAcc = acc
	return acc
}

// isTokenRead: v is the current token of the scanner (accessor call or field load).
func (c *Ctx) isTokenRead(v ssa.Value) bool {
	switch x := v.(type) {
	case *ssa.Call:
		cal := calleeOf(x)
		return cal != nil && c.TokenAccessors()[cal]
	case *ssa.UnOp:
		if fa, ok := x.X.(*ssa.FieldAddr); ok {
			return isScannerField(fa, "token")
		}
	}
	return false
}

func (c *Ctx) scanFn() *ssa.Function { return c.method("Scanner", "Scan") }

// MayConsume: module functions from which (*Scanner).Scan is reachable, or
// which write the scanner's token / position state directly.
func (c *Ctx) MayConsume() map[*ssa.Function]bool {
	if c.mayConsume != nil {
		return c.mayConsume
	}
	scan := c.scanFn()
	res := map[*ssa.Function]bool{}
	if scan == nil {
		c.mayConsume = res
		return res
	}
	res[scan] = true
	// direct writers of Scanner.token
	for _, f := range c.P.ModFuncs {
		instrs(f, func(b *ssa.BasicBlock, i int, in ssa.Instruction) {
			if st, ok := in.(*ssa.Store); ok {
				if fa, ok := st.Addr.(*ssa.FieldAddr); ok && isScannerField(fa, "token") {
					res[f] = true
				}
			}
		})
	}
	for changed := true; changed; {
		changed = false
		for _, f := range c.P.ModFuncs {
			if res[f] {
				continue
			}
			hit := false
			var ops []*ssa.Value
			instrs(f, func(b *ssa.BasicBlock, i int, in ssa.Instruction) {
				if hit {
					return
				}
				ops = in.Operands(ops[:0])
				for _, op := range ops {
					if op == nil || *op == nil {
						continue
					}
					if g := fnValue(*op); g != nil && res[g] {
						hit = true
					}
					if g, ok := (*op).(*ssa.Function); ok && res[g] {
						hit = true
					}
				}
				if call, ok := in.(ssa.CallInstruction); ok {
					cc := call.Common()
					if cc.IsInvoke() {
						for _, g := range c.P.implementations(cc) {
							if res[g] {
								hit = true
							}
						}
					} else if cc.StaticCallee() == nil {
						if _, isB := cc.Value.(*ssa.Builtin); !isB {
							// dynamic call of a function value: conservatively a consumer
							// when its type is a niladic callback (the speculation helpers)
							hit = true
						}
					}
				}
			})
			if hit {
				res[f] = true
				changed = true
			}
		}
	}
	c.mayConsume = res
	return res
}

// MustConsume: functions every returning path of which passes a call that
// must consume a token (fixpoint from (*Scanner).Scan).
func (c *Ctx) MustConsume() map[*ssa.Function]bool {
	if c.mustConsume != nil {
		return c.mustConsume
	}
	scan := c.scanFn()
	res := map[*ssa.Function]bool{}
	if scan != nil {
		res[scan] = true
	}
	for changed := true; changed; {
		changed = false
		for _, f := range c.P.ModFuncs {
			if res[f] || len(f.Blocks) == 0 {
				continue
			}
			consumer := func(in ssa.Instruction) bool {
				call, ok := in.(ssa.CallInstruction)
				if !ok {
					return false
				}
				if _, isDefer := in.(*ssa.Defer); isDefer {
					return false
				}
				if _, isGo := in.(*ssa.Go); isGo {
					return false
				}
				cal := calleeOf(call)
				return cal != nil && res[cal]
			}
			hasReturn := false
			instrs(f, func(b *ssa.BasicBlock, i int, in ssa.Instruction) {
				if isReturn(in) {
					hasReturn = true
				}
			})
			if !hasReturn {
				continue
			}
			if !pathExists(f, nil, isReturn, consumer, nil) {
				res[f] = true
				changed = true
			}
		}
	}
	c.mustConsume = res
	return res
}

// consumerTaint: the instructions of f that may execute after a call that may
// consume a token. A token read at such a point is not "the token the
// function was entered with".
func (c *Ctx) consumerTaint(f *ssa.Function) map[ssa.Instruction]bool {
	if t, ok := c.taintCache[f]; ok {
		return t
	}
	may := c.MayConsume()
	taint := map[ssa.Instruction]bool{}
	c.taintCache[f] = taint
	isCons := func(in ssa.Instruction) bool {
		call, ok := in.(ssa.CallInstruction)
		if !ok {
			return false
		}
		cc := call.Common()
		if cal := calleeOf(call); cal != nil {
			return may[cal]
		}
		if cc.IsInvoke() {
			for _, g := range c.P.implementations(cc) {
				if may[g] {
					return true
				}
			}
			return false
		}
		if _, isB := cc.Value.(*ssa.Builtin); isB {
			return false
		}
		return true // dynamic call
	}
	taintedBlocks := map[*ssa.BasicBlock]bool{}
	var work []*ssa.BasicBlock
	for _, b := range f.Blocks {
		after := false
		for _, in := range b.Instrs {
			if after {
				taint[in] = true
			}
			if isCons(in) {
				after = true
			}
		}
		if after {
			work = append(work, b.Succs...)
		}
	}
	for len(work) > 0 {
		b := work[len(work)-1]
		work = work[:len(work)-1]
		if taintedBlocks[b] {
			continue
		}
		taintedBlocks[b] = true
		for _, in := range b.Instrs {
			taint[in] = true
		}
		work = append(work, b.Succs...)
	}
	return taint
}

// tokenFolder builds a folder in which "the current token" is pinned to k
// (as long as no consumer may have run in between).
func (c *Ctx) tokenFolder(k int64) *Folder {
	kc := constant.MakeInt64(k)
	return &Folder{P: c.P, MaxDepth: 6, Input: func(v ssa.Value) (constant.Value, bool) {
		if !c.isTokenRead(v) {
			return nil, false
		}
		in, ok := v.(ssa.Instruction)
		if !ok {
			return nil, false
		}
		if c.consumerTaint(in.Parent())[in] {
			return nil, false
		}
		return kc, true
	}}
}

// nodeTokenFolder pins loads of a SyntaxKind-typed field of a tree node
// (expr.Operator.Token, expr.Token) to k. Tree nodes are immutable during
// evaluation (C08.tree-immutable), so every such load in one evaluation of
// a handler sees the same value.
func (c *Ctx) nodeTokenFolder(k int64) *Folder {
	kc := constant.MakeInt64(k)
	return &Folder{P: c.P, MaxDepth: 4, Input: func(v ssa.Value) (constant.Value, bool) {
		u, ok := v.(*ssa.UnOp)
		if !ok {
			return nil, false
		}
		fa, ok := u.X.(*ssa.FieldAddr)
		if !ok {
			return nil, false
		}
		if fieldName(fa) == "Token" && typeName(u.Type()) == "SyntaxKind" {
			return kc, true
		}
		return nil, false
	}}
}

// ---------- reachability shortcuts ----------

func (c *Ctx) inModule(f *ssa.Function) bool { return c.P.InModule(f) }

func (c *Ctx) ReachFrom(key string, roots ...*ssa.Function) *ReachResult {
	if r, ok := c.reachCache[key]; ok {
		return r
	}
	var rs []*ssa.Function
	for _, r := range roots {
		if r != nil {
			rs = append(rs, r)
		}
	}
	r := c.P.Reach(rs, c.inModule, nil)
	c.reachCache[key] = r
	return r
}

// Builtins: name -> function registered in the global sync.Map by init.
type Builtin struct {
	Name string
	Fn   *ssa.Function // nil for non-function values
	Val  ssa.Value
	Pos  string
}

func (c *Ctx) Registry() (reg *ssa.Global, entries []Builtin, other []string) {
	// the registry is the package-level sync.Map the initialiser fills; other sync.Map globals (caches ...) are
	// not its business (C08/C09 judge them)
	initStores := map[*ssa.Global]int{}
	var cands []*ssa.Global
	for _, m := range c.P.Pkg.Members {
		g, ok := m.(*ssa.Global)
		if ok && deref(g.Type()).String() == "sync.Map" {
			cands = append(cands, g)
		}
	}
	sort.Slice(cands, func(i, j int) bool { return cands[i].Name() < cands[j].Name() })
	for _, f := range c.P.ModFuncs {
		if !strings.HasPrefix(f.Name(), "init") {
			continue
		}
		instrs(f, func(b *ssa.BasicBlock, i int, in ssa.Instruction) {
			if call, ok := in.(*ssa.Call); ok {
				if cal := calleeOf(call); cal != nil && cal.String() == "(*sync.Map).Store" {
					if g, isG := call.Call.Args[0].(*ssa.Global); isG {
						initStores[g]++
					}
				}
			}
		})
	}
	for _, g := range cands {
		if initStores[g] == 0 {
			continue
		}
		if reg != nil {
			other = append(other, "more than one sync.Map global is filled by init: "+g.Name())
			continue
		}
		reg = g
	}
	if reg == nil && len(cands) == 1 {
		reg = cands[0]
	}
	if reg == nil {
		return nil, nil, other
	}
	for _, f := range c.P.ModFuncs {
		instrs(f, func(b *ssa.BasicBlock, i int, in ssa.Instruction) {
			call, ok := in.(*ssa.Call)
			if !ok {
				return
			}
			cal := calleeOf(call)
			if cal == nil || cal.String() != "(*sync.Map).Store" {
				return
			}
			if call.Call.Args[0] != ssa.Value(reg) {
				return
			}
			if !strings.HasPrefix(f.Name(), "init") {
				if es, okH := c.registrarEntries(f, call); okH {
					entries = append(entries, es...)
					return
				}
				other = append(other, "Store on registry outside init in "+c.P.FuncKey(f))
				return
			}
			k := call.Call.Args[1]
			if mi, ok := k.(*ssa.MakeInterface); ok {
				k = mi.X
			}
			kc, ok := k.(*ssa.Const)
			if !ok || kc.Value == nil || kc.Value.Kind() != constant.String {
				// `for name, fn := range table { reg.Store(name, fn) }` over a local table with constant keys
				if es, okT := c.rangedTableEntries(k, call.Call.Args[2], c.P.InstrPos(in)); okT {
					entries = append(entries, es...)
					return
				}
				other = append(other, "non-constant registry key at "+c.P.InstrPos(in))
				return
			}
			v := call.Call.Args[2]
			if mi, ok := v.(*ssa.MakeInterface); ok {
				v = mi.X
			}
			e := Builtin{Name: constant.StringVal(kc.Value), Val: v, Pos: c.P.InstrPos(in)}
			e.Fn = fnValue(v)
			entries = append(entries, e)
		})
	}
	sort.Slice(entries, func(i, j int) bool { return entries[i].Name < entries[j].Name })
	return reg, entries, other
}

func (c *Ctx) BuiltinFn(name string) *ssa.Function {
	_, es, _ := c.Registry()
	var found *ssa.Function
	for _, e := range es {
		if e.Name == name {
			found = e.Fn // last store wins at run time; entries sorted by name keeps source order among equals? use last
		}
	}
	return found
}

// rangedTableEntries: key and value are the two results of ranging over a map made locally and filled with
// constant string keys and function values; returns one entry per element of that table.
func (c *Ctx) rangedTableEntries(k, v ssa.Value, pos string) ([]Builtin, bool) {
	strip := func(x ssa.Value) ssa.Value {
		for {
			switch y := x.(type) {
			case *ssa.MakeInterface:
				x = y.X
				continue
			case *ssa.ChangeInterface:
				x = y.X
				continue
			}
			return x
		}
	}
	if es, ok := c.rangedStructTableEntries(strip(k), strip(v)); ok {
		return es, true
	}
	ke, ok1 := strip(k).(*ssa.Extract)
	ve, ok2 := strip(v).(*ssa.Extract)
	if !ok1 || !ok2 || ke.Tuple != ve.Tuple || ke.Index != 1 || ve.Index != 2 {
		return nil, false
	}
	nx, ok := ke.Tuple.(*ssa.Next)
	if !ok {
		return nil, false
	}
	rg, ok := nx.Iter.(*ssa.Range)
	if !ok {
		return nil, false
	}
	mk, ok := rg.X.(*ssa.MakeMap)
	if !ok {
		return nil, false
	}
	var out []Builtin
	for _, ref := range *mk.Referrers() {
		switch x := ref.(type) {
		case *ssa.MapUpdate:
			kc, ok := x.Key.(*ssa.Const)
			if !ok || kc.Value == nil || kc.Value.Kind() != constant.String {
				return nil, false
			}
			val := strip(x.Value)
			e := Builtin{Name: constant.StringVal(kc.Value), Val: val, Pos: c.P.InstrPos(x)}
			e.Fn = fnValue(val)
			out = append(out, e)
		case *ssa.Range, *ssa.DebugRef:
		default:
			return nil, false
		}
	}
	return out, len(out) > 0
}

// rangedStructTableEntries: key and value are two fields of the element of a locally built slice of structs that is
// being ranged over (`for _, e := range []struct{name string; fn interface{}}{{"abs", funAbs}, ...} { reg.Store(e.name, e.fn) }`).
// tableElemField: x is field #fld of the element being visited in a ranged slice of structs; base is the slice.
func tableElemField(x ssa.Value) (base ssa.Value, fld int, ok bool) {
	// field access on the ranged element: ssa.Field on a loaded struct, or a load of FieldAddr(IndexAddr)
	{
		switch y := x.(type) {
		case *ssa.Field:
			if u, isU := y.X.(*ssa.UnOp); isU {
				if ia, isIA := u.X.(*ssa.IndexAddr); isIA {
					return ia.X, y.Field, true
				}
			}
		case *ssa.UnOp:
			if fa, isFA := y.X.(*ssa.FieldAddr); isFA {
				if ia, isIA := fa.X.(*ssa.IndexAddr); isIA {
					return ia.X, fa.Field, true
				}
				// the element copied into the range variable first: `f := arr[i]; f.name`
				if cell, isCell := fa.X.(*ssa.Alloc); isCell {
					var src ssa.Value
					n := 0
					for _, ref := range *cell.Referrers() {
						if st, ok := ref.(*ssa.Store); ok && st.Addr == ssa.Value(cell) {
							src = st.Val
							n++
						}
					}
					if n == 1 {
						if u, isU := src.(*ssa.UnOp); isU {
							if ia, isIA := u.X.(*ssa.IndexAddr); isIA {
								return ia.X, fa.Field, true
							}
						}
					}
				}
			}
		}
		return nil, 0, false
	}
}

func (c *Ctx) rangedStructTableEntries(k, v ssa.Value) ([]Builtin, bool) {
	bk, fk, ok1 := tableElemField(k)
	bv, fv, ok2 := tableElemField(v)
	if !ok1 || !ok2 || bk != bv {
		return nil, false
	}
	ak := localArrayLiteral(bk)
	if ak == nil {
		return nil, false
	}
	return c.structTableEntries(ak, fk, fv)
}

// structTableEntries: the (name, value) pairs of a slice-of-structs literal whose backing array is ak.
func (c *Ctx) structTableEntries(ak *ssa.Alloc, fk, fv int) ([]Builtin, bool) {
	keys := map[int64]string{}
	vals := map[int64]ssa.Value{}
	poss := map[int64]string{}
	for _, ref := range *ak.Referrers() {
		ia, ok := ref.(*ssa.IndexAddr)
		if !ok || ia.X != ssa.Value(ak) {
			continue
		}
		idx, isK := constIntArg(ia.Index)
		if !isK {
			continue
		}
		for _, r2 := range *ia.Referrers() {
			fa, ok := r2.(*ssa.FieldAddr)
			if !ok {
				continue
			}
			for _, r3 := range *fa.Referrers() {
				st, ok := r3.(*ssa.Store)
				if !ok || st.Addr != ssa.Value(fa) {
					continue
				}
				if fa.Field == fk {
					if kc, ok := st.Val.(*ssa.Const); ok && kc.Value != nil && kc.Value.Kind() == constant.String {
						keys[idx] = constant.StringVal(kc.Value)
						poss[idx] = c.P.InstrPos(st)
					}
				}
				if fa.Field == fv {
					val := st.Val
					if mi, ok := val.(*ssa.MakeInterface); ok {
						val = mi.X
					}
					vals[idx] = val
				}
			}
		}
	}
	var out []Builtin
	for idx, name := range keys {
		val, ok := vals[idx]
		if !ok {
			return nil, false
		}
		e := Builtin{Name: name, Val: val, Pos: poss[idx]}
		e.Fn = fnValue(val)
		out = append(out, e)
	}
	if len(out) == 0 || len(out) != len(vals) {
		return nil, false
	}
	return out, true
}

// registrarEntries: f is a registration helper - it stores into the registry what it is handed, and it is called from
// init functions only: `func register(name string, fn interface{})`, or `func storeAll(list []entry)` ranging over its
// parameter. The entries are read off the call sites.
func (c *Ctx) registrarEntries(f *ssa.Function, store *ssa.Call) ([]Builtin, bool) {
	strip := func(x ssa.Value) ssa.Value {
		for {
			switch y := x.(type) {
			case *ssa.MakeInterface:
				x = y.X
				continue
			case *ssa.ChangeInterface:
				x = y.X
				continue
			}
			return x
		}
	}
	var sites []*ssa.Call
	for _, g := range c.P.ModFuncs {
		for _, cs := range callsTo(g, f) {
			if !isInitFn(g) {
				return nil, false
			}
			sites = append(sites, cs)
		}
	}
	if len(sites) == 0 {
		return nil, false
	}
	// no other use of the helper as a value
	k, v := strip(store.Call.Args[1]), strip(store.Call.Args[2])
	var out []Builtin
	if pk, ok := k.(*ssa.Parameter); ok {
		pv, ok := v.(*ssa.Parameter)
		if !ok {
			return nil, false
		}
		ik, iv := paramIndex(pk), paramIndex(pv)
		for _, cs := range sites {
			kc, ok := strip(cs.Call.Args[ik]).(*ssa.Const)
			if !ok || kc.Value == nil || kc.Value.Kind() != constant.String {
				return nil, false
			}
			val := strip(cs.Call.Args[iv])
			e := Builtin{Name: constant.StringVal(kc.Value), Val: val, Pos: c.P.InstrPos(cs)}
			e.Fn = fnValue(val)
			out = append(out, e)
		}
		return out, true
	}
	bk, fk, ok1 := tableElemField(k)
	bv, fv, ok2 := tableElemField(v)
	if !ok1 || !ok2 || bk != bv {
		return nil, false
	}
	p, ok := bk.(*ssa.Parameter)
	if !ok {
		return nil, false
	}
	for _, cs := range sites {
		ak := localArrayLiteral(cs.Call.Args[paramIndex(p)])
		if ak == nil {
			return nil, false
		}
		es, ok := c.structTableEntries(ak, fk, fv)
		if !ok {
			return nil, false
		}
		out = append(out, es...)
	}
	return out, true
}
