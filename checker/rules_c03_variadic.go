package main

import (
	"fmt"
	"go/token"

	"golang.org/x/tools/go/ssa"
)

// c03VariadicUsed: "a wrong argument count is reported through the returned error". The call bridge checks the count of
// a builtin against its signature; for a variadic builtin (`func(s string, opt ...string)`) the signature admits any
// number of trailing arguments, so the check has moved into the builtin: either it takes all of them (a loop or a
// range over the slice, the slice handed on whole), or it rejects a longer slice than it reads (a test of len(opt)
// whose "too many" edge returns an error). A builtin that reads opt[0] and never looks at the length accepts
// `f(a, b, c, d)` and silently ignores c and d.
func c03VariadicUsed(c *Ctx) {
	const rule = "C03.variadic-arguments-all-used"
	_, entries, _ := c.Registry()
	nvar := 0
	for _, e := range entries {
		f := e.Fn
		if f == nil || len(f.Blocks) == 0 || !f.Signature.Variadic() || len(f.Params) == 0 {
			continue
		}
		nvar++
		xs := f.Params[len(f.Params)-1]
		cons := "builtin:" + e.Name
		refs := xs.Referrers()
		takesAll, guarded := false, false
		loops := blocksInLoops(f)
		var lens []ssa.Value
		if refs != nil {
			for _, r := range *refs {
				switch x := r.(type) {
				case *ssa.Range:
					takesAll = true
				case *ssa.IndexAddr:
					if _, isConst := x.Index.(*ssa.Const); !isConst && loops[x.Block()] {
						takesAll = true
					}
				case *ssa.Slice:
					// xs[k:] - the rest - looped over or handed on whole: together with the elements read by
					// constant index in front of it that is all of them
					if x.High != nil || x.X != ssa.Value(xs) || x.Referrers() == nil {
						continue
					}
					for _, u := range *x.Referrers() {
						switch y := u.(type) {
						case *ssa.Range:
							takesAll = true
						case *ssa.IndexAddr:
							if _, isConst := y.Index.(*ssa.Const); !isConst && loops[y.Block()] {
								takesAll = true
							}
						case ssa.CallInstruction:
							cc := y.Common()
							if b, isB := cc.Value.(*ssa.Builtin); isB && b.Name() == "len" {
								continue
							}
							for _, a := range cc.Args {
								if a == ssa.Value(x) {
									takesAll = true
								}
							}
						}
					}
				case ssa.CallInstruction:
					cc := x.Common()
					if b, isB := cc.Value.(*ssa.Builtin); isB && b.Name() == "len" {
						if v, ok := x.(ssa.Value); ok {
							lens = append(lens, v)
						}
						continue
					}
					for _, a := range cc.Args {
						if a == ssa.Value(xs) {
							takesAll = true // handed on whole (append(dst, xs...), helper(xs...))
						}
					}
				}
			}
		}
		// a test of len(xs) one of whose edges returns an error
		for _, lv := range lens {
			lr := lv.Referrers()
			if lr == nil {
				continue
			}
			for _, r := range *lr {
				bo, ok := r.(*ssa.BinOp)
				if !ok {
					continue
				}
				switch bo.Op {
				case token.GTR, token.GEQ, token.LSS, token.LEQ, token.NEQ, token.EQL:
				default:
					continue
				}
				br := bo.Referrers()
				if br == nil {
					continue
				}
				for _, u := range *br {
					iff, ok := u.(*ssa.If)
					if !ok {
						continue
					}
					// the edge on which the slice is LONGER than the constant
					var k *ssa.Const
					lenLeft := true
					if kc, ok := bo.Y.(*ssa.Const); ok && bo.X == lv {
						k = kc
					} else if kc, ok := bo.X.(*ssa.Const); ok && bo.Y == lv {
						k, lenLeft = kc, false
					}
					if k == nil {
						continue
					}
					op := bo.Op
					if !lenLeft {
						switch op {
						case token.GTR:
							op = token.LSS
						case token.GEQ:
							op = token.LEQ
						case token.LSS:
							op = token.GTR
						case token.LEQ:
							op = token.GEQ
						}
					}
					longer := -1
					switch op {
					case token.GTR, token.GEQ, token.NEQ:
						longer = 0
					case token.LSS, token.LEQ, token.EQL:
						longer = 1
					}
					if longer >= 0 && c.blockReturnsError(iff.Block().Succs[longer]) {
						guarded = true
					}
				}
			}
		}
		c.R.Check(rule, cons, c.P.Pos(f.Pos()), takesAll || guarded, fmt.Sprintf("%s is variadic, so the call bridge admits any number of trailing arguments; the builtin neither takes all of %s (no loop or range over it, not handed on whole) nor rejects a longer slice (no test of len(%s) with an error edge): extra arguments are silently ignored instead of being an argument-count error", c.P.FuncKey(f), xs.Name(), xs.Name()))
	}
	c.R.Analysed["variadic_builtins"] = nvar
	c.R.Floor(rule, 2)
}

// blocksInLoops: the blocks of f that lie on a cycle.
func blocksInLoops(f *ssa.Function) map[*ssa.BasicBlock]bool {
	res := map[*ssa.BasicBlock]bool{}
	for _, b := range f.Blocks {
		seen := map[*ssa.BasicBlock]bool{}
		work := append([]*ssa.BasicBlock{}, b.Succs...)
		for len(work) > 0 {
			x := work[len(work)-1]
			work = work[:len(work)-1]
			if seen[x] {
				continue
			}
			seen[x] = true
			work = append(work, x.Succs...)
		}
		res[b] = seen[b]
	}
	return res
}
