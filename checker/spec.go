package main

// Tables transcribed from /verif/properties.jsonl (the statements of the
// properties). They are the only "expected values" the checker carries; every
// other slot of every rule is filled from the repository itself.

// C02: the binary operator ladder, loosest class first.
var specLadder = [][]string{
	{"SK_BarBar", "SK_QuestionQuestion"},
	{"SK_AmpersandAmpersand"},
	{"SK_Bar"},
	{"SK_Caret"},
	{"SK_Ampersand"},
	{"SK_EqualsEquals", "SK_ExclamationEquals", "SK_EqualsEqualsEquals", "SK_ExclamationEqualsEquals"},
	{"SK_LessThan", "SK_GreaterThan", "SK_LessThanEquals", "SK_GreaterThanEquals"},
	{"SK_Plus", "SK_Minus"},
	{"SK_Asterisk", "SK_Slash", "SK_Percent"},
}

// C02: prefix operators.
var specPrefix = []string{"SK_Plus", "SK_Minus", "SK_Exclamation", "SK_ExclamationExclamation", "SK_Tilde"}

// C14: operator / punctuation lexemes and the token each denotes.
var specLexemes = map[string]string{
	"(": "SK_OpenParen", ")": "SK_CloseParen", "[": "SK_OpenBracket", "]": "SK_CloseBracket",
	".": "SK_Dot", "...": "SK_DotDotDot", ",": "SK_Comma",
	"<": "SK_LessThan", ">": "SK_GreaterThan", "<=": "SK_LessThanEquals", ">=": "SK_GreaterThanEquals",
	"==": "SK_EqualsEquals", "===": "SK_EqualsEqualsEquals", "!=": "SK_ExclamationEquals", "!==": "SK_ExclamationEqualsEquals",
	"+": "SK_Plus", "-": "SK_Minus", "*": "SK_Asterisk", "/": "SK_Slash", "%": "SK_Percent",
	"&": "SK_Ampersand", "|": "SK_Bar", "^": "SK_Caret", "&&": "SK_AmpersandAmpersand", "||": "SK_BarBar",
	"??": "SK_QuestionQuestion", "!": "SK_Exclamation", "!.": "SK_ExclamationDot", "!!": "SK_ExclamationExclamation",
	"~": "SK_Tilde", "?": "SK_Question", ":": "SK_Colon", "=": "SK_Equals",
}

// C13: escape letters and the text they denote.
var specEscapes = map[rune]string{
	'0': "\x00", 'b': "\b", 't': "\t", 'n': "\n", 'v': "\v", 'f': "\f", 'r': "\r", '\'': "'", '"': "\"",
}

// C17 / C18 / C19: builtin names of the statements.
var specStringBuiltins = []string{"startWith", "endWith", "contains", "find", "left", "right", "mid", "lpad", "rpad", "replace", "trim", "lower", "upper", "len", "join", "includes", "regexp", "mapToArr"}
var specNumericBuiltins = []string{"abs", "ceil", "floor", "round", "roundBank", "max", "min", "sqrt", "exp", "ln", "log", "toInt", "toFloat", "toString", "finite"}
var specDateBuiltins = []string{"now", "toDay", "date", "addDate", "year", "month", "day", "hour", "minute", "second", "millSecond", "weekDay", "timeFormat", "useTimezone"}

// C15: the line-break set of the statement.
var specLineBreaks = []rune{'\n', '\r', 0x2028, 0x2029, 0x0085}

// C11 / C16: Go numeric kinds that become formula numbers.
var specNormalisedKinds = []string{"int", "int32", "int64", "float32", "float64"}
var specDataNumberKinds = []string{"int", "int32", "int64", "float64"}
