package main

import (
	"go/constant"
	"go/token"
	"unicode/utf8"

	"golang.org/x/tools/go/ssa"
)

// First-path walk of the scanner on a concrete text prefix: starting at the
// entry of (*Scanner).Scan with the first runes of the input pinned, follow
// the one control-flow path those runes determine (folding every branch
// condition with the constant folder) until the scanner position is
// definitely advanced, a return is reached, or a branch cannot be decided.
// Sub-scanner calls are entered. This is "folding the first iteration" of
// the scanner loops; it executes no code of the repository.

type walkOutcome struct {
	Kind string // advanced | returned | undecided | looped
	At   ssa.Instruction
	Why  string
	Path []string
}

type scanWalker struct {
	c     *Ctx
	text  []rune
	steps int
	forks int
}

// textPins: values that are determined by the text while Scanner.pos is unchanged.
func (w *scanWalker) pin(v ssa.Value) (constant.Value, bool) {
	t := w.text
	const bigEnd = 1 << 20
	switch x := v.(type) {
	case *ssa.Extract:
		call, ok := x.Tuple.(*ssa.Call)
		if !ok {
			return nil, false
		}
		cal := calleeOf(call)
		if cal == nil || cal.String() != "unicode/utf8.DecodeRune" {
			return nil, false
		}
		// only decodes of text[pos:] at the unchanged position
		if sl, ok := call.Call.Args[0].(*ssa.Slice); ok {
			if lo, ok := sl.Low.(*ssa.UnOp); !ok || !isScannerField(lo.X, "pos") {
				return nil, false
			}
		} else {
			return nil, false
		}
		if len(t) == 0 {
			return nil, false
		}
		if x.Index == 0 {
			return constant.MakeInt64(int64(t[0])), true
		}
		return constant.MakeInt64(int64(utf8.RuneLen(t[0]))), true
	case *ssa.UnOp:
		if x.Op != token.MUL {
			return nil, false
		}
		if isScannerField(x.X, "pos") {
			return constant.MakeInt64(0), true
		}
		if isScannerField(x.X, "end") {
			return constant.MakeInt64(int64(byteOffset(t, len(t)))), true
		}
	case *ssa.Call:
		cal := calleeOf(x)
		kind := peekKind(cal)
		if kind == "" {
			if isBuiltinCall(x, "len") {
				// len(s.text)
				if u, ok := x.Call.Args[0].(*ssa.UnOp); ok && isScannerField(u.X, "text") {
					return constant.MakeInt64(int64(byteOffset(t, len(t)))), true
				}
			}
			return nil, false
		}
		n, ok := constIntArg(x.Call.Args[1])
		if !ok || n < 0 {
			return nil, false
		}
		if int(n) >= len(t) {
			return constant.MakeInt64(-1), true
		}
		switch kind {
		case "equal":
			ch, ok := constIntArg(x.Call.Args[2])
			if !ok {
				return nil, false
			}
			if t[n] == rune(ch) {
				return constant.MakeInt64(int64(byteOffset(t, int(n)+1))), true
			}
			return constant.MakeInt64(-1), true
		case "check":
			hit, ok := w.c.foldRunePred(x.Call.Args[2], t[n])
			if !ok {
				return nil, false
			}
			if hit {
				return constant.MakeInt64(int64(byteOffset(t, int(n)+1))), true
			}
			return constant.MakeInt64(-1), true
		}
	}
	return nil, false
}

// isAdvanceStore: a store to Scanner.pos of a value that is definitely larger
// than the current position: pos + size (size from a rune decode), pos + c
// (c >= 1), or a non-negative look-ahead result.
func (c *Ctx) isAdvanceStore(in ssa.Instruction) bool {
	st, ok := in.(*ssa.Store)
	if !ok || !isScannerField(st.Addr, "pos") {
		return false
	}
	return c.isAdvanceValue(st.Val, func(v ssa.Value) bool {
		u, ok := v.(*ssa.UnOp)
		return ok && isScannerField(u.X, "pos")
	})
}

// isAdvanceValue: v = base + positive, where isBase recognises the current position.
func (c *Ctx) isAdvanceValue(v ssa.Value, isBase func(ssa.Value) bool) bool {
	switch x := v.(type) {
	case *ssa.BinOp:
		if x.Op != token.ADD {
			return false
		}
		for _, pr := range [][2]ssa.Value{{x.X, x.Y}, {x.Y, x.X}} {
			base, inc := pr[0], pr[1]
			if !(isBase(base) || c.isAdvanceValue(base, isBase)) {
				continue
			}
			if positiveStep(inc, 0) {
				return true
			}
		}
	case *ssa.Call:
		// a look-ahead result is a position beyond the current one when it is >= 0
		return peekKind(calleeOf(x)) != ""
	case *ssa.Phi:
		if isBase(x) {
			return false
		}
		for _, e := range x.Edges {
			if e == ssa.Value(x) || !c.isAdvanceValue(e, isBase) {
				return false
			}
		}
		return len(x.Edges) > 0
	}
	return false
}

// positiveStep: a constant >= 1, the size DecodeRune returns for a non-empty slice, or a phi of such values (a width
// chosen between the decoded size and a fixed width for a pair).
func positiveStep(inc ssa.Value, depth int) bool {
	if n, ok := constIntArg(inc); ok {
		return n >= 1
	}
	if ex, ok := inc.(*ssa.Extract); ok && ex.Index == 1 {
		if call, ok := ex.Tuple.(*ssa.Call); ok {
			if cal := calleeOf(call); cal != nil && (cal.String() == "unicode/utf8.DecodeRune" || cal.String() == "unicode/utf8.DecodeRuneInString") {
				return true // size >= 1 on a non-empty slice
			}
		}
	}
	if phi, ok := inc.(*ssa.Phi); ok && depth < 3 && len(phi.Edges) > 0 {
		for _, e := range phi.Edges {
			if !positiveStep(e, depth+1) {
				return false
			}
		}
		return true
	}
	return false
}

func (w *scanWalker) walk(f *ssa.Function, depth int, args ...LV) walkOutcome {
	res := &FoldResult{Fn: f, Reach: map[*ssa.BasicBlock]bool{}, Edge: map[[2]int]bool{}, Vals: map[ssa.Value]LV{}}
	for i, p := range f.Params {
		res.Vals[p] = bottom
		if i < len(args) && args[i].K == lConst {
			res.Vals[p] = args[i] // e.g. the decoded size or the token kinds handed to an arm helper
		}
	}
	for _, fv := range f.FreeVars {
		res.Vals[fv] = bottom
	}
	return w.walkFrom(f, depth, res, map[*ssa.BasicBlock]int{}, nil, f.Blocks[0], nil)
}

// walkFrom continues a walk at block b (entered from prev). A branch whose condition does not fold
// from the pinned input (a class predicate on a non-ASCII rune backed by a range table) forks: both
// successors are explored and every fork has to reach an advance.
func (w *scanWalker) walkFrom(f *ssa.Function, depth int, res *FoldResult, visits map[*ssa.BasicBlock]int, prev, b *ssa.BasicBlock, path []string) walkOutcome {
	c := w.c
	fo := &Folder{P: c.P, MaxDepth: 4, Input: w.pin, Opaque: func(g *ssa.Function) bool { return peekKind(g) != "" }}
	for {
		w.steps++
		if w.steps > 5000 {
			return walkOutcome{Kind: "undecided", Why: "walk too long", Path: path}
		}
		visits[b]++
		path = append(path, c.P.FuncKey(f)+"#"+itoa(b.Index))
		if visits[b] > 1 {
			return walkOutcome{Kind: "looped", At: b.Instrs[0], Why: "the path determined by the input returns to block " + itoa(b.Index) + " of " + c.P.FuncKey(f) + " without having advanced the position", Path: path}
		}
		for _, in := range b.Instrs {
			switch x := in.(type) {
			case *ssa.Phi:
				lv := bottom
				for i, p := range b.Preds {
					if p == prev {
						lv = fo.operand(res, x.Edges[i])
					}
				}
				if lv.K == lTop {
					lv = bottom
				}
				res.Vals[x] = lv
			case *ssa.Store:
				if isScannerField(x.Addr, "pos") {
					if c.isAdvanceStore(in) {
						// with pos pinned to 0 a folded value must also be positive
						lv := fo.operand(res, x.Val)
						if lv.K == lConst && lv.C.Kind() == constant.Int && constant.Sign(lv.C) <= 0 {
							return walkOutcome{Kind: "undecided", At: in, Why: "position store folds to a non-positive value", Path: path}
						}
						return walkOutcome{Kind: "advanced", At: in, Path: path}
					}
					lv := fo.operand(res, x.Val)
					if lv.K == lConst && lv.C.Kind() == constant.Int && constant.Sign(lv.C) > 0 {
						return walkOutcome{Kind: "advanced", At: in, Path: path}
					}
					return walkOutcome{Kind: "undecided", At: in, Why: "a store to the scanner position that is not recognisably an advance (expected pos+size, pos+c with c>=1, or a look-ahead result)", Path: path}
				}
			case *ssa.If:
				cv := fo.operand(res, x.Cond)
				if cv.K != lConst || cv.C.Kind() != constant.Bool {
					w.forks++
					if w.forks > 12 {
						return walkOutcome{Kind: "undecided", At: in, Why: "too many branches before the first advance do not fold from the pinned input: " + x.Cond.String(), Path: path}
					}
					var worst walkOutcome
					for k := 0; k < 2; k++ {
						r2 := &FoldResult{Fn: f, Reach: res.Reach, Edge: res.Edge, Vals: map[ssa.Value]LV{}}
						for kk, vv := range res.Vals {
							r2.Vals[kk] = vv
						}
						v2 := map[*ssa.BasicBlock]int{}
						for kk, vv := range visits {
							v2[kk] = vv
						}
						out := w.walkFrom(f, depth, r2, v2, b, b.Succs[k], append([]string{}, path...))
						switch out.Kind {
						case "advanced":
							if worst.Kind == "" {
								worst = out
							}
						case "returned":
							worst = out
						default:
							return out
						}
					}
					return worst
				}
				prev = b
				if constant.BoolVal(cv.C) {
					b = b.Succs[0]
				} else {
					b = b.Succs[1]
				}
			case *ssa.Jump:
				prev = b
				b = b.Succs[0]
			case *ssa.Return:
				return walkOutcome{Kind: "returned", At: in, Path: path}
			case *ssa.Panic:
				return walkOutcome{Kind: "returned", At: in, Why: "panic", Path: path}
			case *ssa.Call:
				cal := calleeOf(x)
				if cal != nil && c.inModule(cal) && c.PosWriters()[cal] && peekKind(cal) == "" && depth < 5 {
					var cargs []LV
					for _, a := range x.Call.Args {
						cargs = append(cargs, fo.operand(res, a))
					}
					sub := w.walk(cal, depth+1, cargs...)
					path = append(path, sub.Path...)
					switch sub.Kind {
					case "advanced", "undecided", "looped":
						sub.Path = path
						return sub
					}
					// returned without advancing: go on in the caller; its results are unknown
					res.Vals[x] = bottom
					continue
				}
				lv := fo.eval(res, x, 0)
				if lv.K == lTop {
					lv = bottom
				}
				res.Vals[x] = lv
			default:
				if v, ok := in.(ssa.Value); ok {
					lv := fo.eval(res, v, 0)
					if lv.K == lTop {
						lv = bottom
					}
					res.Vals[v] = lv
				}
			}
		}
	}
}

// ScanFirstPath walks Scan on the given text.
func (c *Ctx) ScanFirstPath(text string) walkOutcome {
	w := &scanWalker{c: c, text: []rune(text)}
	return w.walk(c.scanFn(), 0)
}
