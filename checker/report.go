package main

import (
	"encoding/json"
	"fmt"
	"os"
	"path/filepath"
	"sort"
	"strings"
	"time"
)

const (
	OK        = "ok"
	Violation = "violation"
	Undecided = "undecided"
)

// Obligation is one rule instance: a rule applied to one construct of the
// program. Obligations are keyed by Rule + Construct (never by line).
type Obligation struct {
	Rule      string `json:"rule"`
	Construct string `json:"construct"`
	Pos       string `json:"pos"`
	Verdict   string `json:"verdict"`
	Reason    string `json:"reason,omitempty"`
	Path      string `json:"path,omitempty"`
}

func (o *Obligation) Key() string { return o.Rule + " @ " + o.Construct }

type KnownFinding struct {
	Property  string `json:"property"`
	Rule      string `json:"rule"`
	Construct string `json:"construct"`
	Status    string `json:"status"` // "known" | "fixed"
	What      string `json:"what"`
	Commit    string `json:"commit,omitempty"`
	Line      string `json:"line,omitempty"` // the "fixed: property=.." line, documentation only
}

type Report struct {
	Prop        string
	Tier        string
	Seed        int64
	Obs         []*Obligation
	seen        map[string]*Obligation
	Analysed    map[string]interface{}
	Floors      map[string][2]int // rule -> {required, found}
	NotDecided  string
	Decides     string
	Assumptions []string
	Selftest    map[string]interface{}
	start       time.Time
}

func NewReport(prop, tier string, seed int64) *Report {
	return &Report{Prop: prop, Tier: tier, Seed: seed, seen: map[string]*Obligation{}, Analysed: map[string]interface{}{}, Floors: map[string][2]int{}, start: time.Now()}
}

// Add records an obligation. A second obligation with the same key is merged:
// the worse verdict wins (violation > undecided > ok).
func (r *Report) Add(rule, construct, pos, verdict, reason string) *Obligation {
	o := &Obligation{Rule: rule, Construct: construct, Pos: pos, Verdict: verdict, Reason: reason}
	if prev, ok := r.seen[o.Key()]; ok {
		if rank(verdict) > rank(prev.Verdict) {
			prev.Verdict, prev.Reason, prev.Pos = verdict, reason, pos
		}
		return prev
	}
	r.seen[o.Key()] = o
	r.Obs = append(r.Obs, o)
	return o
}

func rank(v string) int {
	switch v {
	case Violation:
		return 2
	case Undecided:
		return 1
	}
	return 0
}

// Check is the common form: ok when cond holds, violation otherwise.
func (r *Report) Check(rule, construct, pos string, cond bool, reason string) bool {
	if cond {
		r.Add(rule, construct, pos, OK, "")
	} else {
		r.Add(rule, construct, pos, Violation, reason)
	}
	return cond
}

func (r *Report) Undecided(rule, construct, pos, reason string) {
	r.Add(rule, construct, pos, Undecided, reason)
}

// Floor demands that rule matched at least n constructs; a rule matching
// nothing passes vacuously forever, so falling below the floor is a failure.
func (r *Report) Floor(rule string, n int) {
	c := 0
	for _, o := range r.Obs {
		if o.Rule == rule {
			c++
		}
	}
	r.Floors[rule] = [2]int{n, c}
	if c < n {
		r.Add(rule, "VACUOUS", "-", Violation, fmt.Sprintf("rule matched %d constructs, floor confirmed by hand is %d: an anchor disappeared or the rule no longer recognises the code", c, n))
	}
}

// failing: number of obligations that are neither discharged nor listed as known findings.
func (r *Report) failing(verifDir string) int {
	known, _ := loadKnown(verifDir)
	ks := map[string]bool{}
	for _, k := range known {
		if k.Status == "known" && k.Property == r.Prop {
			ks[k.Rule+" @ "+k.Construct] = true
		}
	}
	n := 0
	for _, o := range r.Obs {
		if o.Verdict == OK {
			continue
		}
		if o.Verdict == Violation && ks[o.Key()] {
			continue
		}
		n++
	}
	return n
}

// definiteViolations: violations that are not floor failures and not known findings.
func (r *Report) definiteViolations(verifDir string) int {
	known, _ := loadKnown(verifDir)
	ks := map[string]bool{}
	for _, k := range known {
		if k.Status == "known" && k.Property == r.Prop {
			ks[k.Rule+" @ "+k.Construct] = true
		}
	}
	n := 0
	for _, o := range r.Obs {
		if o.Verdict == Violation && o.Construct != "VACUOUS" && !ks[o.Key()] {
			n++
		}
	}
	return n
}

func loadKnown(verifDir string) ([]KnownFinding, error) {
	b, err := os.ReadFile(filepath.Join(verifDir, "known_findings.json"))
	if err != nil {
		if os.IsNotExist(err) {
			return nil, nil
		}
		return nil, err
	}
	var doc struct {
		Findings []KnownFinding `json:"findings"`
	}
	if err := json.Unmarshal(b, &doc); err != nil {
		return nil, fmt.Errorf("known_findings.json: %v", err)
	}
	return doc.Findings, nil
}

// Finish writes the evidence file and prints the verdict lines. It returns the
// process exit code.
func (r *Report) Finish(verifDir string, writeEvidence bool) int {
	known, err := loadKnown(verifDir)
	if err != nil {
		fmt.Println("CHECKER-BROKEN:", err)
		return 2
	}
	knownSet := map[string]KnownFinding{}
	for _, k := range known {
		if k.Status == "known" && k.Property == r.Prop {
			knownSet[k.Rule+" @ "+k.Construct] = k
		}
	}
	sort.SliceStable(r.Obs, func(i, j int) bool {
		if r.Obs[i].Rule != r.Obs[j].Rule {
			return r.Obs[i].Rule < r.Obs[j].Rule
		}
		return r.Obs[i].Construct < r.Obs[j].Construct
	})
	var bad []*Obligation
	var knownHit []*Obligation
	discharged := 0
	for _, o := range r.Obs {
		switch o.Verdict {
		case OK:
			discharged++
		default:
			if _, ok := knownSet[o.Key()]; ok && o.Verdict == Violation {
				knownHit = append(knownHit, o)
			} else {
				bad = append(bad, o)
			}
		}
	}
	evDir := filepath.Join(verifDir, "evidence")
	replayDir := filepath.Join(evDir, "replay")
	if writeEvidence {
		os.MkdirAll(replayDir, 0o755)
		// remove stale replay files of this property
		if ents, err := os.ReadDir(replayDir); err == nil {
			for _, e := range ents {
				if strings.HasPrefix(e.Name(), r.Prop+"-") {
					os.Remove(filepath.Join(replayDir, e.Name()))
				}
			}
		}
	}
	for _, o := range knownHit {
		k := knownSet[o.Key()]
		fmt.Printf("KNOWN-FINDING: property=%s %s %s %s\n", r.Prop, o.Rule, o.Construct, k.What)
	}
	for i, o := range bad {
		rp := filepath.Join(replayDir, fmt.Sprintf("%s-%d.json", r.Prop, i+1))
		if writeEvidence {
			b, _ := json.MarshalIndent(map[string]interface{}{"property": r.Prop, "tier": r.Tier, "obligation": o}, "", " ")
			os.WriteFile(rp, b, 0o644)
		}
		fmt.Printf("VIOLATION property=%s replay=%s\n", r.Prop, rp)
		cls := "VIOLATION"
		if o.Verdict == Undecided {
			cls = "UNDECIDED"
		}
		fmt.Printf("  %s: %s: %s: %s: %s\n", o.Pos, cls, o.Rule, o.Construct, o.Reason)
		if o.Path != "" {
			fmt.Printf("    path: %s\n", o.Path)
		}
	}
	// evidence
	rules := map[string]int{}
	for _, o := range r.Obs {
		rules[o.Rule]++
	}
	var samples []interface{}
	perRule := map[string]int{}
	for _, o := range r.Obs {
		if perRule[o.Rule] < 2 && len(samples) < 40 {
			samples = append(samples, o)
			perRule[o.Rule]++
		}
	}
	for _, o := range bad {
		samples = append(samples, o)
	}
	distinct := 0
	for _, o := range r.Obs {
		if o.Construct != "VACUOUS" {
			distinct++
		}
	}
	floors := map[string]interface{}{}
	for k, v := range r.Floors {
		floors[k] = map[string]int{"required": v[0], "found": v[1]}
	}
	cov := map[string]interface{}{
		"explanation": "Static analysis of /repo's working tree (go/packages type-checked program + go/ssa form; nothing under /repo is executed). " +
			"Decided: " + r.Decides + " Not decided (out of reach of a sound static argument here): " + r.NotDecided,
		"obligations":         len(r.Obs),
		"discharged":          discharged,
		"evaluations":         len(r.Obs),
		"distinct_nontrivial": distinct,
		"rule":                "one obligation per (rule, construct) pair; constructs are discovered in the loaded program (functions, call sites, enum values, table rows), keyed by resolved objects, never by line; non-trivial = the rule matched a real construct (floor placeholders excluded); all constructs are enumerated, none sampled",
		"samples":             samples,
		"rules":               rules,
		"analysed":            r.Analysed,
		"floors":              floors,
		"known_findings_hit":  len(knownHit),
		"exhaustive":          true,
		"trusted_base":        []string{"go/types and go/ssa of golang.org/x/tools v0.29.0", "documented behaviour of the Go standard library and github.com/ericlagergren/decimal", "spec tables transcribed from properties.jsonl into checker/spec.go"},
		"checker_cmd":         fmt.Sprintf("bin/fcheck -prop %s -tier %s", r.Prop, r.Tier),
	}
	if r.Selftest != nil {
		cov["selftest"] = r.Selftest
	}
	ev := map[string]interface{}{
		"property_id": r.Prop,
		"tier":        r.Tier,
		"seed":        r.Seed,
		"level":       "other",
		"coverage":    cov,
		"assumptions": append([]string{
			"the Go type checker and the go/ssa builder are faithful to the compiler",
			"library functions behave as documented (decimal Add adds, Cmp returns -1/0/+1, receiver-z methods are the only writers)",
			"each rule is a necessary condition of the property, not the property itself",
		}, r.Assumptions...),
		"wall_s":     time.Since(r.start).Seconds(),
		"violations": len(bad),
	}
	if writeEvidence {
		b, _ := json.MarshalIndent(ev, "", " ")
		if err := os.WriteFile(filepath.Join(evDir, r.Prop+".json"), b, 0o644); err != nil {
			fmt.Println("CHECKER-BROKEN: cannot write evidence:", err)
			return 2
		}
	}
	fmt.Printf("property=%s tier=%s obligations=%d discharged=%d known=%d violations=%d wall=%.1fs\n", r.Prop, r.Tier, len(r.Obs), discharged, len(knownHit), len(bad), time.Since(r.start).Seconds())
	if len(bad) > 0 {
		return 1
	}
	return 0
}
