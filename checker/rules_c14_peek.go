package main

import (
	"fmt"
	"go/constant"
	"go/token"
	"go/types"
	"sort"

	"golang.org/x/tools/go/ssa"
)

// The scanner's look-ahead helpers peekEqual(n, ch) / peekCheck(n, pred) are treated as specified
// ("offset behind the (n+1)-th rune from the current position if that rune exists before `end` and passes the
// test, else -1") by every fold of Scan on a text prefix. This rule checks that the helpers have that meaning, from
// their shape: one loop whose cursor starts at the position and advances by the decoded size, a counter that starts
// at n and is decremented once per rune, a hit exactly when the counter has run out, the test applied to the rune
// decoded in that iteration, the advanced cursor returned on success, -1 on every other exit, and an early bail-out
// (if any) that can only fire when fewer than n+1 bytes remain (linear arithmetic over position, end and n).

func c14PeekHelpers(c *Ctx, rule string) {
	var hs []*ssa.Function
	for _, f := range c.P.ModFuncs {
		if peekKind(f) != "" && len(f.Blocks) > 0 {
			hs = append(hs, f)
		}
	}
	sort.Slice(hs, func(i, j int) bool { return c.P.FuncKey(hs[i]) < c.P.FuncKey(hs[j]) })
	for _, f := range hs {
		why := c.peekHelperShape(f)
		c.R.Check(rule, c.P.FuncKey(f), c.P.Pos(f.Pos()), why == "", "the look-ahead helper must return the offset behind the (n+1)-th rune from the current position when that rune lies before the end of the text and passes the test, and -1 otherwise (every operator, number and identifier decision of Scan relies on it): "+why)
	}
	c.R.Floor(rule, 1)
}

type linForm struct {
	coef map[string]int64
	k    int64
}

func (c *Ctx) linearise(v ssa.Value, n ssa.Value, depth int) (linForm, bool) {
	out := linForm{coef: map[string]int64{}}
	if depth > 6 {
		return out, false
	}
	if v == n {
		out.coef["n"] = 1
		return out, true
	}
	if k, ok := constIntArg(v); ok {
		out.k = k
		return out, true
	}
	switch x := v.(type) {
	case *ssa.UnOp:
		if x.Op == token.MUL {
			for _, fld := range []string{"pos", "end"} {
				if isScannerField(x.X, fld) {
					out.coef[fld] = 1
					return out, true
				}
			}
		}
	case *ssa.Call:
		if isBuiltinCall(x, "len") && len(x.Call.Args) == 1 {
			if u, ok := x.Call.Args[0].(*ssa.UnOp); ok && isScannerField(u.X, "text") {
				out.coef["end"] = 1 // len(text) is the end of a scanner set up over the whole text
				return out, true
			}
		}
	case *ssa.BinOp:
		if x.Op != token.ADD && x.Op != token.SUB {
			return out, false
		}
		a, ok1 := c.linearise(x.X, n, depth+1)
		b, ok2 := c.linearise(x.Y, n, depth+1)
		if !ok1 || !ok2 {
			return out, false
		}
		sign := int64(1)
		if x.Op == token.SUB {
			sign = -1
		}
		for k, v := range a.coef {
			out.coef[k] += v
		}
		for k, v := range b.coef {
			out.coef[k] += sign * v
		}
		out.k = a.k + sign*b.k
		return out, true
	}
	return out, false
}

// geZero normalises `L op R` (taken when onTrue, else its negation) to D >= 0 and returns D.
func (c *Ctx) geZero(cond ssa.Value, onTrue bool, n ssa.Value) (linForm, bool) {
	bo, ok := cond.(*ssa.BinOp)
	if !ok {
		return linForm{}, false
	}
	op := bo.Op
	if !onTrue {
		switch op {
		case token.GEQ:
			op = token.LSS
		case token.GTR:
			op = token.LEQ
		case token.LEQ:
			op = token.GTR
		case token.LSS:
			op = token.GEQ
		default:
			return linForm{}, false
		}
	}
	l, ok1 := c.linearise(bo.X, n, 0)
	r, ok2 := c.linearise(bo.Y, n, 0)
	if !ok1 || !ok2 {
		return linForm{}, false
	}
	sub := func(a, b linForm, extra int64) linForm {
		d := linForm{coef: map[string]int64{}, k: a.k - b.k + extra}
		for k, v := range a.coef {
			d.coef[k] += v
		}
		for k, v := range b.coef {
			d.coef[k] -= v
		}
		return d
	}
	switch op {
	case token.GEQ:
		return sub(l, r, 0), true
	case token.GTR:
		return sub(l, r, -1), true
	case token.LEQ:
		return sub(r, l, 0), true
	case token.LSS:
		return sub(r, l, -1), true
	case token.EQL:
		// pos == end (pos never exceeds end)
		d := sub(l, r, 0)
		if d.coef["n"] == 0 && d.k == 0 && (d.coef["pos"] == 1 && d.coef["end"] == -1 || d.coef["pos"] == -1 && d.coef["end"] == 1) {
			return linForm{coef: map[string]int64{"pos": 1, "end": -1}}, true
		}
	}
	return linForm{}, false
}

func (c *Ctx) peekHelperShape(f *ssa.Function) string {
	kind := peekKind(f)
	if len(f.Params) != 3 {
		return "unexpected signature"
	}
	nParam, test := ssa.Value(f.Params[1]), ssa.Value(f.Params[2])
	if kind == "equal" && c.peekDelegates(f) {
		return "" // the predicate form, checked on its own, does the work
	}
	loops := naturalLoops(f)
	if len(loops) != 1 {
		return fmt.Sprintf("expected one loop over the runes, found %d", len(loops))
	}
	l := loops[0]
	h := l.Header
	// the decode inside the loop
	var dec *ssa.Call
	for _, b := range f.Blocks {
		if !l.Body[b] {
			continue
		}
		for _, in := range b.Instrs {
			if call, ok := in.(*ssa.Call); ok {
				if cal := calleeOf(call); cal != nil && cal.String() == "unicode/utf8.DecodeRune" {
					if dec != nil {
						return "more than one rune decode in the loop"
					}
					dec = call
				}
			}
		}
	}
	if dec == nil {
		return "no rune decode in the loop"
	}
	var cur, size ssa.Value
	for _, ref := range *dec.Referrers() {
		if ex, ok := ref.(*ssa.Extract); ok {
			if ex.Index == 0 {
				cur = ex
			} else {
				size = ex
			}
		}
	}
	if cur == nil || size == nil {
		return "the decoded rune or its size is not used"
	}
	// cursor and counter phis
	var cursor, counter *ssa.Phi
	var adv, dec1 ssa.Value
	for _, in := range h.Instrs {
		phi, ok := in.(*ssa.Phi)
		if !ok {
			break
		}
		var outside, inside []ssa.Value
		for i, e := range phi.Edges {
			if l.Body[h.Preds[i]] {
				inside = append(inside, e)
			} else {
				outside = append(outside, e)
			}
		}
		if len(outside) == 0 || len(inside) == 0 {
			continue
		}
		isPos := true
		for _, o := range outside {
			u, ok := o.(*ssa.UnOp)
			if !ok || !isScannerField(u.X, "pos") {
				isPos = false
			}
		}
		isN := true
		for _, o := range outside {
			if o != nParam {
				isN = false
			}
		}
		switch {
		case isPos:
			for _, e := range inside {
				bo, ok := e.(*ssa.BinOp)
				if !ok || bo.Op != token.ADD || !(bo.X == ssa.Value(phi) && bo.Y == size || bo.Y == ssa.Value(phi) && bo.X == size) {
					return "the cursor must advance by exactly the decoded rune's size on every iteration"
				}
				adv = e
			}
			cursor = phi
		case isN:
			for _, e := range inside {
				bo, ok := e.(*ssa.BinOp)
				if !ok || bo.Op != token.SUB || bo.X != ssa.Value(phi) {
					return "the rune counter must be decremented by one per iteration"
				}
				if k, ok := constIntArg(bo.Y); !ok || k != 1 {
					return "the rune counter must be decremented by one per iteration"
				}
				dec1 = e
			}
			counter = phi
		}
	}
	if cursor == nil {
		return "no cursor that starts at the scanner position and is carried through the loop"
	}
	if counter == nil {
		return "no counter that starts at n and is carried through the loop"
	}
	// the decode reads text[cursor:]
	if sl, ok := dec.Call.Args[0].(*ssa.Slice); !ok || sl.Low != ssa.Value(cursor) || sl.High != nil {
		return "the rune must be decoded from text[cursor:]"
	} else if u, ok := sl.X.(*ssa.UnOp); !ok || !isScannerField(u.X, "text") {
		return "the rune must be decoded from the scanner's text"
	}
	// header condition: cursor < end
	hif, ok := h.Instrs[len(h.Instrs)-1].(*ssa.If)
	if !ok {
		return "the loop header does not test the cursor against the end"
	}
	{
		inLoopOnTrue := l.Body[h.Succs[0]] && !l.Body[h.Succs[1]]
		inLoopOnFalse := l.Body[h.Succs[1]] && !l.Body[h.Succs[0]]
		if !inLoopOnTrue && !inLoopOnFalse {
			return "the loop header's test does not leave the loop"
		}
		bo, ok := hif.Cond.(*ssa.BinOp)
		if !ok {
			return "the loop header does not compare the cursor with the end"
		}
		isEnd := func(v ssa.Value) bool {
			u, ok := v.(*ssa.UnOp)
			return ok && isScannerField(u.X, "end")
		}
		good := false
		switch {
		case bo.X == ssa.Value(cursor) && isEnd(bo.Y):
			good = inLoopOnTrue && bo.Op == token.LSS || inLoopOnFalse && bo.Op == token.GEQ
		case bo.Y == ssa.Value(cursor) && isEnd(bo.X):
			good = inLoopOnTrue && bo.Op == token.GTR || inLoopOnFalse && bo.Op == token.LEQ
		}
		if !good {
			return "the loop must run exactly while cursor < end"
		}
	}
	// the hit condition on the counter: true exactly when counter == 0 before the decrement
	dominatedByEdge := func(b *ssa.BasicBlock, cond func(ssa.Value) (onTrue bool, ok bool)) bool {
		for d := b; d != nil; d = d.Idom() {
			id := d.Idom()
			if id == nil {
				break
			}
			iff, ok := id.Instrs[len(id.Instrs)-1].(*ssa.If)
			if !ok {
				continue
			}
			want, ok := cond(iff.Cond)
			if !ok {
				continue
			}
			var via *ssa.BasicBlock
			if want {
				via = id.Succs[0]
			} else {
				via = id.Succs[1]
			}
			other := id.Succs[0]
			if want {
				other = id.Succs[1]
			}
			if via != other && (via == d || via.Dominates(d)) && len(via.Preds) == 1 {
				return true
			}
		}
		return false
	}
	hitCond := func(v ssa.Value) (bool, bool) {
		bo, ok := v.(*ssa.BinOp)
		if !ok {
			return false, false
		}
		// express as k*phi + c (op) 0
		lin := func(x ssa.Value) (int64, int64, bool) {
			if x == ssa.Value(counter) {
				return 1, 0, true
			}
			if x == dec1 && dec1 != nil {
				return 1, -1, true
			}
			if k, ok := constIntArg(x); ok {
				return 0, k, true
			}
			return 0, 0, false
		}
		a1, c1, ok1 := lin(bo.X)
		a2, c2, ok2 := lin(bo.Y)
		if !ok1 || !ok2 {
			return false, false
		}
		a, k := a1-a2, c1-c2
		op := bo.Op
		if a == -1 {
			// flip sides
			a, k = 1, -k
			switch op {
			case token.LSS:
				op = token.GTR
			case token.LEQ:
				op = token.GEQ
			case token.GTR:
				op = token.LSS
			case token.GEQ:
				op = token.LEQ
			}
		}
		if a != 1 {
			return false, false
		}
		// phi + k op 0, phi >= 0; "hit" <=> phi == 0
		switch op {
		case token.LSS: // phi < -k  : hit iff -k == 1
			if k == -1 {
				return true, true
			}
		case token.LEQ: // phi <= -k : hit iff k == 0
			if k == 0 {
				return true, true
			}
		case token.EQL:
			if k == 0 {
				return true, true
			}
		case token.GEQ: // phi >= -k : not hit; hit on false edge iff -k == 1
			if k == -1 {
				return false, true
			}
		case token.GTR: // phi > -k: hit on false edge iff k == 0
			if k == 0 {
				return false, true
			}
		case token.NEQ:
			if k == 0 {
				return false, true
			}
		}
		return false, false
	}
	testCond := func(v ssa.Value) (bool, bool) {
		switch x := v.(type) {
		case *ssa.BinOp:
			if kind == "equal" && (x.X == cur && x.Y == test || x.Y == cur && x.X == test) {
				if x.Op == token.EQL {
					return true, true
				}
				if x.Op == token.NEQ {
					return false, true
				}
			}
		case *ssa.Call:
			if kind == "check" && x.Call.Value == test && len(x.Call.Args) == 1 && x.Call.Args[0] == cur {
				return true, true
			}
		case *ssa.UnOp:
			if x.Op == token.NOT {
				if call, ok := x.X.(*ssa.Call); ok && kind == "check" && call.Call.Value == test && len(call.Call.Args) == 1 && call.Call.Args[0] == cur {
					return false, true
				}
			}
		}
		return false, false
	}
	// the hit condition must exist in the loop
	var hitBlock *ssa.BasicBlock // successor taken on a hit
	for _, b := range f.Blocks {
		if !l.Body[b] {
			continue
		}
		if iff, ok := b.Instrs[len(b.Instrs)-1].(*ssa.If); ok {
			if want, ok := hitCond(iff.Cond); ok {
				if hitBlock != nil {
					return "the counter is tested more than once"
				}
				if want {
					hitBlock = b.Succs[0]
				} else {
					hitBlock = b.Succs[1]
				}
			}
		}
	}
	if hitBlock == nil {
		return "no test that the counter has run out (n-- ; n < 0) in the loop: the helper does not look exactly n runes ahead"
	}
	// after the hit the loop is not continued
	{
		seen := map[*ssa.BasicBlock]bool{}
		var stack []*ssa.BasicBlock
		stack = append(stack, hitBlock)
		for len(stack) > 0 {
			b := stack[len(stack)-1]
			stack = stack[:len(stack)-1]
			if seen[b] {
				continue
			}
			seen[b] = true
			if b == h {
				return "after the n-th rune has been examined the loop continues: a later rune can satisfy the test"
			}
			for _, s := range b.Succs {
				stack = append(stack, s)
			}
		}
	}
	// returns
	nret := 0
	for _, b := range f.Blocks {
		ret, ok := b.Instrs[len(b.Instrs)-1].(*ssa.Return)
		if !ok || len(ret.Results) != 1 {
			continue
		}
		nret++
		if k, ok := constIntArg(ret.Results[0]); ok {
			if k != -1 {
				return fmt.Sprintf("returns the constant %d", k)
			}
			if h.Dominates(b) {
				continue
			}
			// an early bail-out: only when fewer than n+1 bytes remain
			okGuard := false
			for d := b; d != nil && !okGuard; d = d.Idom() {
				id := d.Idom()
				if id == nil {
					break
				}
				iff, isIf := id.Instrs[len(id.Instrs)-1].(*ssa.If)
				if !isIf || !(id.Succs[0] == d || id.Succs[1] == d) || len(d.Preds) != 1 {
					continue
				}
				D, ok := c.geZero(iff.Cond, id.Succs[0] == d, nParam)
				if !ok {
					return "the early bail-out is not a linear comparison of position, end and n: " + describeExpr(iff.Cond)
				}
				// D = pos - end + a*n + k >= 0  <=>  end - pos <= a*n + k; sound iff a*n + k <= n for all n >= 0
				a, k := D.coef["n"], D.k
				if D.coef["pos"] != 1 || D.coef["end"] != -1 || a < 0 || a > 1 || k > 0 {
					return fmt.Sprintf("the early bail-out fires when end - pos <= %d*n%+d, i.e. also when n+1 characters do remain: the last character(s) of the text are never matched (`a!=` at the end of the input scans as `!` `=`)", a, k)
				}
				okGuard = true
			}
			if !okGuard {
				// the -1 return is shared with the paths that come out of the loop: judge the tests in front of the loop
				// one of whose sides leads here without entering the loop while the other goes on to it
				reachAvoid := func(from, to *ssa.BasicBlock) bool {
					seen := map[*ssa.BasicBlock]bool{}
					var walk func(x *ssa.BasicBlock) bool
					walk = func(x *ssa.BasicBlock) bool {
						if x == to {
							return true
						}
						if x == h || seen[x] {
							return false
						}
						seen[x] = true
						for _, s := range x.Succs {
							if walk(s) {
								return true
							}
						}
						return false
					}
					return walk(from)
				}
				reachLoop := func(from *ssa.BasicBlock) bool {
					seen := map[*ssa.BasicBlock]bool{}
					var walk func(x *ssa.BasicBlock) bool
					walk = func(x *ssa.BasicBlock) bool {
						if x == h {
							return true
						}
						if seen[x] {
							return false
						}
						seen[x] = true
						for _, s := range x.Succs {
							if walk(s) {
								return true
							}
						}
						return false
					}
					return walk(from)
				}
				nguards := 0
				for _, id := range f.Blocks {
					if id == h || h.Dominates(id) || len(id.Succs) != 2 {
						continue
					}
					iff, isIf := id.Instrs[len(id.Instrs)-1].(*ssa.If)
					if !isIf {
						continue
					}
					for k := 0; k < 2; k++ {
						if !(reachAvoid(id.Succs[k], b) && !reachLoop(id.Succs[k]) && reachLoop(id.Succs[1-k])) {
							continue
						}
						D, ok := c.geZero(iff.Cond, k == 0, nParam)
						if !ok {
							return "the early bail-out is not a linear comparison of position, end and n: " + describeExpr(iff.Cond)
						}
						a, kk := D.coef["n"], D.k
						if D.coef["pos"] != 1 || D.coef["end"] != -1 || a < 0 || a > 1 || kk > 0 {
							return fmt.Sprintf("the early bail-out fires when end - pos <= %d*n%+d, i.e. also when n+1 characters do remain: the last character(s) of the text are never matched", a, kk)
						}
						nguards++
					}
				}
				okGuard = nguards > 0
			}
			if !okGuard {
				return "a -1 return before the loop is not controlled by a test of the remaining length"
			}
			continue
		}
		// a position: the advanced cursor, after the hit test and the rune test
		if ret.Results[0] != adv {
			return "the success result must be the cursor advanced behind the examined rune"
		}
		if !(b == hitBlock || hitBlock.Dominates(b)) {
			return "a position is returned without the counter having run out"
		}
		if !dominatedByEdge(b, testCond) {
			return "a position is returned without the examined rune having passed the test (on the rune decoded in this iteration)"
		}
	}
	if nret == 0 {
		return "no return"
	}
	return ""
}

// c14TriviaStep: between tokens the scanner skips exactly one classified character per trip through its main loop.
// Every store to the position from which the main loop can be re-entered without a token having been stored (a
// "skip") must be `pos + size` with size the width of the rune decoded at the top of that very trip; a skip inside an
// inner loop, or by a constant, moves over characters the trip never classified (a line break swallowed in a run of
// blanks loses the preceding-line-break flag; a multi-byte rune is split).
func c14TriviaStep(c *Ctx) {
	const rule = "C14.trivia-single-step"
	scan := c.scanFn()
	loops := naturalLoops(scan)
	if len(loops) == 0 {
		c.R.Undecided(rule, "main-loop", c.P.Pos(scan.Pos()), "Scan has no loop")
		return
	}
	main := loops[0]
	for _, l := range loops {
		if len(l.Body) > len(main.Body) {
			main = l
		}
	}
	// the per-trip decode: the DecodeRune call in a block that dominates all other in-loop decodes
	var dec *ssa.Call
	for _, b := range scan.DomPreorder() {
		if !main.Body[b] || dec != nil {
			continue
		}
		for _, in := range b.Instrs {
			if call, ok := in.(*ssa.Call); ok {
				if cal := calleeOf(call); cal != nil && cal.String() == "unicode/utf8.DecodeRune" {
					dec = call
					break
				}
			}
		}
	}
	if dec == nil {
		c.R.Undecided(rule, "decode", c.P.Pos(scan.Pos()), "no per-trip rune decode in Scan's main loop")
		return
	}
	isTokStore := func(in ssa.Instruction) bool {
		st, ok := in.(*ssa.Store)
		return ok && isScannerField(st.Addr, "token")
	}
	inner := map[*ssa.BasicBlock]bool{}
	for _, l := range loops {
		if l == main {
			continue
		}
		for b := range l.Body {
			inner[b] = true
		}
	}
	n := 0
	for _, b := range scan.Blocks {
		if !main.Body[b] {
			continue
		}
		for _, in := range b.Instrs {
			st, ok := in.(*ssa.Store)
			if !ok || !isScannerField(st.Addr, "pos") {
				continue
			}
			// can the header be re-entered from here without a token store?
			reenters := pathExists(scan, in, func(x ssa.Instruction) bool { return x.Block() == main.Header && x == main.Header.Instrs[0] }, isTokStore, func(bb *ssa.BasicBlock, k int) bool {
				return main.Body[bb.Succs[k]]
			})
			if !reenters {
				continue
			}
			n++
			good := false
			why := "the new position is " + describeValue(st.Val)
			if bo, ok := st.Val.(*ssa.BinOp); ok && bo.Op == token.ADD {
				for _, pr := range [][2]ssa.Value{{bo.X, bo.Y}, {bo.Y, bo.X}} {
					u, isU := pr[0].(*ssa.UnOp)
					ex, isEx := pr[1].(*ssa.Extract)
					if isU && isScannerField(u.X, "pos") && isEx && ex.Index == 1 && ex.Tuple == ssa.Value(dec) {
						good = true
					}
				}
			}
			if inner[b] {
				good = false
				why = "the skip sits in an inner loop, so it moves over characters the trip did not classify"
				// a run of single-byte blanks skipped under a constant byte table: every byte the loop steps over is
				// classified by the table, and every byte the table admits is plain white space (not a line break)
				if tw := c.blankRunSkip(scan, st, loops); tw == "" {
					good = true
				} else if tw != "-" {
					why += "; " + tw
				}
			}
			c.R.Check(rule, fmt.Sprintf("skip#%d", n), c.P.InstrPos(in), good, "between tokens the scanner must skip exactly the one rune it decoded and classified in this trip (pos += size); "+why)
		}
	}
	c.R.Floor(rule, 2)
}

// peekDelegates: peekEqual(n, ch) is `return s.peekCheck(n, func(r rune) bool { return r == ch })`.
func (c *Ctx) peekDelegates(f *ssa.Function) bool {
	if len(f.Blocks) != 1 {
		return false
	}
	var call *ssa.Call
	for _, in := range f.Blocks[0].Instrs {
		if cl, ok := in.(*ssa.Call); ok {
			if call != nil {
				return false
			}
			call = cl
		}
	}
	if call == nil || peekKind(calleeOf(call)) != "check" || len(call.Call.Args) != 3 {
		return false
	}
	if call.Call.Args[0] != ssa.Value(f.Params[0]) || call.Call.Args[1] != ssa.Value(f.Params[1]) {
		return false
	}
	ret, ok := f.Blocks[0].Instrs[len(f.Blocks[0].Instrs)-1].(*ssa.Return)
	if !ok || len(ret.Results) != 1 || ret.Results[0] != ssa.Value(call) {
		return false
	}
	mc, ok := call.Call.Args[2].(*ssa.MakeClosure)
	if !ok || len(mc.Bindings) != 1 {
		return false
	}
	// the binding is the rune parameter (or the cell holding it, stored once)
	bound := false
	switch b := mc.Bindings[0].(type) {
	case *ssa.Parameter:
		bound = b == f.Params[2]
	case *ssa.Alloc:
		n := 0
		for _, ref := range *b.Referrers() {
			if st, isSt := ref.(*ssa.Store); isSt && st.Addr == ssa.Value(b) {
				n++
				bound = st.Val == ssa.Value(f.Params[2])
			}
		}
		bound = bound && n == 1
	}
	if !bound {
		return false
	}
	g, ok := mc.Fn.(*ssa.Function)
	if !ok || len(g.Blocks) != 1 || len(g.Params) != 1 || len(g.FreeVars) != 1 {
		return false
	}
	gr, ok := g.Blocks[0].Instrs[len(g.Blocks[0].Instrs)-1].(*ssa.Return)
	if !ok || len(gr.Results) != 1 {
		return false
	}
	bo, ok := gr.Results[0].(*ssa.BinOp)
	if !ok || bo.Op != token.EQL {
		return false
	}
	isFree := func(v ssa.Value) bool {
		if v == ssa.Value(g.FreeVars[0]) {
			return true
		}
		u, ok := v.(*ssa.UnOp)
		return ok && u.Op == token.MUL && u.X == ssa.Value(g.FreeVars[0])
	}
	return bo.X == ssa.Value(g.Params[0]) && isFree(bo.Y) || bo.Y == ssa.Value(g.Params[0]) && isFree(bo.X)
}

// c14RangeLookup: membership in a table of inclusive [lo, hi] pairs. The function that searches it must (1) report a
// hit exactly for lo <= code <= hi of one pair (both comparisons inclusive, indices m and m+1), (2) bail out early
// only below the first lower bound (code < t[0]) or above the last upper bound (code > t[len-1]) - a non-strict test
// there drops the boundary code point of the table - and (3) narrow to the half that can still contain the code.
func c14RangeLookup(c *Ctx) {
	const rule = "C14.range-lookup"
	n := 0
	for _, f := range c.P.ModFuncs {
		if len(f.Params) != 2 || len(f.Blocks) == 0 || f.Signature.Results().Len() != 1 || !isBoolType(f.Signature.Results().At(0).Type()) {
			continue
		}
		if bt, ok := f.Params[0].Type().Underlying().(*types.Basic); !ok || bt.Kind() != types.Int32 {
			continue
		}
		if f.Params[1].Type().String() != "[]rune" && f.Params[1].Type().String() != "[]int32" {
			continue
		}
		loops := naturalLoops(f)
		if why, applies := c.rangeLookupSearchShape(f); applies {
			n++
			c.R.Check(rule, c.P.FuncKey(f), c.P.Pos(f.Pos()), why == "", "the range-table lookup behind the identifier classes must be an inclusive pair search: "+why)
			continue
		}
		if len(loops) != 1 {
			continue
		}
		n++
		why := c.rangeLookupShape(f, loops[0])
		c.R.Check(rule, c.P.FuncKey(f), c.P.Pos(f.Pos()), why == "", "the range-table lookup behind the identifier classes must be an inclusive pair search: "+why)
	}
	c.R.Floor(rule, 1)
}

func (c *Ctx) rangeLookupShape(f *ssa.Function, l *Loop) string {
	code, tab := ssa.Value(f.Params[0]), ssa.Value(f.Params[1])
	// loads of table elements: value -> index expression
	elemIdx := func(v ssa.Value) (ssa.Value, bool) {
		u, ok := v.(*ssa.UnOp)
		if !ok || u.Op != token.MUL {
			return nil, false
		}
		ia, ok := u.X.(*ssa.IndexAddr)
		if !ok || ia.X != tab {
			return nil, false
		}
		return ia.Index, true
	}
	isLen := func(v ssa.Value) bool {
		lc, isC := v.(*ssa.Call)
		return isC && isBuiltinCall(lc, "len") && lc.Call.Args[0] == tab
	}
	// the number of entries that form complete pairs: len(t), or len(t) - len(t)%2
	isPairedLen := func(v ssa.Value) bool {
		if isLen(v) {
			return true
		}
		bo, ok := v.(*ssa.BinOp)
		if !ok || bo.Op != token.SUB || !isLen(bo.X) {
			return false
		}
		m, ok := bo.Y.(*ssa.BinOp)
		if !ok || m.Op != token.REM || !isLen(m.X) {
			return false
		}
		k, isK := constIntArg(m.Y)
		return isK && k == 2
	}
	isLastIdx := func(v ssa.Value) bool {
		bo, ok := v.(*ssa.BinOp)
		if !ok || bo.Op != token.SUB {
			return false
		}
		k, isK := constIntArg(bo.Y)
		return isK && k == 1 && isPairedLen(bo.X)
	}
	// `len(t) == 0`, `len(t) < 2`, `len(t) - len(t)%2 == 0`: a table without a complete pair contains nothing
	isEmptyTest := func(cond ssa.Value, takenTrue bool) bool {
		bo, ok := cond.(*ssa.BinOp)
		if !ok || !isPairedLen(bo.X) {
			return false
		}
		k, isK := constIntArg(bo.Y)
		if !isK {
			return false
		}
		switch {
		case takenTrue && bo.Op == token.EQL && k == 0, takenTrue && bo.Op == token.LSS && k <= 2 && k >= 1, takenTrue && bo.Op == token.LEQ && k <= 1 && k >= 0:
			return true
		case !takenTrue && bo.Op == token.NEQ && k == 0, !takenTrue && bo.Op == token.GEQ && k <= 2 && k >= 1, !takenTrue && bo.Op == token.GTR && k <= 1 && k >= 0:
			return true
		}
		return false
	}
	// normalise a comparison to "code OP elem[idx]" (OP as seen with code on the left)
	type cmp struct {
		op  token.Token
		idx ssa.Value
	}
	flip := map[token.Token]token.Token{token.LSS: token.GTR, token.GTR: token.LSS, token.LEQ: token.GEQ, token.GEQ: token.LEQ, token.EQL: token.EQL, token.NEQ: token.NEQ}
	neg := map[token.Token]token.Token{token.LSS: token.GEQ, token.GEQ: token.LSS, token.GTR: token.LEQ, token.LEQ: token.GTR, token.EQL: token.NEQ, token.NEQ: token.EQL}
	asCmp := func(v ssa.Value) (cmp, bool) {
		bo, ok := v.(*ssa.BinOp)
		if !ok {
			return cmp{}, false
		}
		if bo.X == code {
			if idx, ok := elemIdx(bo.Y); ok {
				return cmp{bo.Op, idx}, true
			}
		}
		if bo.Y == code {
			if idx, ok := elemIdx(bo.X); ok {
				if op, ok := flip[bo.Op]; ok {
					return cmp{op, idx}, true
				}
			}
		}
		return cmp{}, false
	}
	// conditions that hold on entry to block b (edge conditions of the dominator chain)
	holds := func(b *ssa.BasicBlock) []cmp {
		var out []cmp
		for d := b; d != nil; d = d.Idom() {
			id := d.Idom()
			if id == nil {
				break
			}
			iff, ok := id.Instrs[len(id.Instrs)-1].(*ssa.If)
			if !ok || len(d.Preds) != 1 {
				continue
			}
			cm, ok := asCmp(iff.Cond)
			if !ok {
				continue
			}
			if id.Succs[0] == d {
				out = append(out, cm)
			} else if id.Succs[1] == d {
				out = append(out, cmp{neg[cm.op], cm.idx})
			}
		}
		return out
	}
	plusOne := func(a, b ssa.Value) bool { // b == a + 1
		bo, ok := b.(*ssa.BinOp)
		if !ok || bo.Op != token.ADD {
			return false
		}
		k, isK := constIntArg(bo.Y)
		return isK && k == 1 && (bo.X == a || sameExpr(bo.X, a))
	}
	hits := 0
	for _, b := range f.Blocks {
		ret, ok := b.Instrs[len(b.Instrs)-1].(*ssa.Return)
		if !ok {
			continue
		}
		k, isK := constBoolArg(ret.Results[0])
		if !isK {
			return "a result that is not a constant true/false"
		}
		conds := holds(b)
		if k {
			// hit: code >= t[m] and code <= t[m+1]
			var lo, hi *cmp
			for i := range conds {
				switch conds[i].op {
				case token.GEQ:
					if lo == nil {
						lo = &conds[i]
					}
				case token.LEQ:
					if hi == nil {
						hi = &conds[i]
					}
				}
			}
			if lo == nil || hi == nil {
				return "a hit is reported without both inclusive tests t[m] <= code and code <= t[m+1] (a strict comparison loses the first or last code point of every range)"
			}
			if !plusOne(lo.idx, hi.idx) {
				return "a hit compares against elements that are not a (lower, upper) pair t[m], t[m+1]"
			}
			hits++
			continue
		}
		if l.Header.Dominates(b) {
			continue // exhaustion of the search
		}
		// early bail-out
		okGuard := false
		for _, cm := range conds {
			if k0, isK0 := constIntArg(cm.idx); isK0 && k0 == 0 && cm.op == token.LSS {
				okGuard = true
			}
			if isLastIdx(cm.idx) && cm.op == token.GTR {
				okGuard = true
			}
		}
		if !okGuard && len(b.Preds) == 1 {
			p := b.Preds[0]
			if iff, ok := p.Instrs[len(p.Instrs)-1].(*ssa.If); ok && isEmptyTest(iff.Cond, p.Succs[0] == b) {
				okGuard = true
			}
		}
		// a disjunction `a || b` reaches the return over two edges: accept when every predecessor edge is one of the two sound tests
		if !okGuard && len(b.Preds) > 1 {
			all := true
			for _, p := range b.Preds {
				iff, ok := p.Instrs[len(p.Instrs)-1].(*ssa.If)
				if !ok {
					all = false
					break
				}
				if isEmptyTest(iff.Cond, p.Succs[0] == b) {
					continue
				}
				cm, ok := asCmp(iff.Cond)
				if !ok {
					all = false
					break
				}
				if p.Succs[1] == b && p.Succs[0] != b {
					cm = cmp{neg[cm.op], cm.idx}
				}
				k0, isK0 := constIntArg(cm.idx)
				sound := isK0 && k0 == 0 && cm.op == token.LSS || isLastIdx(cm.idx) && cm.op == token.GTR
				if !sound {
					all = false
				}
			}
			okGuard = all
		}
		if !okGuard {
			return "an early `false` that is neither `code < t[0]` nor `code > t[len(t)-1]`: the boundary code point of the table would be reported as absent"
		}
	}
	if hits == 0 {
		return "no hit return"
	}
	return ""
}

// c14LookaheadGuards: a test of the remaining length that stands in front of a look-ahead must not demand more bytes
// than the shortest lexeme the look-ahead can start. A look-ahead at constant offset k examines the byte at pos+k, so
// it needs k+1 bytes; when its success branch goes on to scan a run with a constant minimum of d characters the lexeme
// needs k+1+d. A guard `end - pos >= m` with m larger than that sends the shortest lexeme, when it is the very last
// thing in the text, down the other branch (`0xF` at the end of the input scans as `0` followed by an identifier), and
// appending a blank changes the token sequence.
func c14LookaheadGuards(c *Ctx) {
	const rule = "C14.lookahead-guard-admits-shortest-lexeme"
	pw := c.PosWriters()
	per := map[string]int{}
	n := 0
	for _, f := range c.P.ModFuncs {
		if len(f.Blocks) == 0 || f.Signature.Recv() == nil || typeName(f.Signature.Recv().Type()) != "Scanner" {
			continue
		}
		f := f
		instrs(f, func(b *ssa.BasicBlock, i int, in ssa.Instruction) {
			call, ok := in.(*ssa.Call)
			if !ok || peekKind(calleeOf(call)) == "" || len(call.Call.Args) < 2 {
				return
			}
			k, ok := constIntArg(call.Call.Args[1])
			if !ok {
				return
			}
			// minimum run scanned after the look-ahead: the largest constant count handed to a scanner method that
			// advances the position and can run after this call (the digits scanner of `0x`)
			d := int64(0)
			instrs(f, func(_ *ssa.BasicBlock, _ int, x ssa.Instruction) {
				cl, ok := x.(*ssa.Call)
				if !ok || x == in {
					return
				}
				cal := calleeOf(cl)
				if cal == nil || !pw[cal] || len(cl.Call.Args) < 2 || peekKind(cal) != "" {
					return
				}
				m, isK := constIntArg(cl.Call.Args[1])
				if !isK || !isIntType(cl.Call.Args[1].Type()) || m <= d {
					return
				}
				if pathExists(f, in, func(y ssa.Instruction) bool { return y == x }, nil, nil) {
					d = m
				}
			})
			// dominating remaining-length guards
			for dd := b; dd != nil; dd = dd.Idom() {
				id := dd.Idom()
				if id == nil {
					break
				}
				iff, isIf := id.Instrs[len(id.Instrs)-1].(*ssa.If)
				if !isIf || len(dd.Preds) != 1 || !(id.Succs[0] == dd || id.Succs[1] == dd) {
					continue
				}
				D, ok := c.geZero(iff.Cond, id.Succs[0] == dd, nil)
				if !ok || D.coef["end"] != 1 || D.coef["pos"] != -1 || D.coef["n"] != 0 {
					continue
				}
				// the guard's operands must be current: no position write between the guard and the look-ahead
				stale := false
				instrs(f, func(_ *ssa.BasicBlock, _ int, w ssa.Instruction) {
					if stale {
						return
					}
					isW := false
					if st, ok := w.(*ssa.Store); ok && isScannerField(st.Addr, "pos") {
						isW = true
					} else if wc, ok := w.(ssa.CallInstruction); ok {
						if cal := calleeOf(wc); cal != nil && pw[cal] {
							isW = true
						}
					}
					if isW && w != in && pathExists(f, w, func(x ssa.Instruction) bool { return x == in }, func(x ssa.Instruction) bool { return x == ssa.Instruction(iff) }, nil) {
						stale = true
					}
				})
				if stale {
					continue
				}
				need := -D.k // end - pos >= need
				n++
				key := c.P.FuncKey(f)
				per[key]++
				c.R.Check(rule, fmt.Sprintf("%s: guard#%d", key, per[key]), c.P.InstrPos(iff), need <= k+1+d, fmt.Sprintf("this test lets the look-ahead at offset %d run only when at least %d bytes remain, but the shortest lexeme it starts has %d (offset+1, plus a minimum run of %d): that lexeme at the very end of the text is scanned as something else, and appending a blank changes the tokens", k, need, k+1+d, d))
			}
		})
	}
	c.R.Floor(rule, 1)
}

// blankRunSkip judges a position store inside an inner loop of Scan: "" when it is `pos++` in a loop whose every
// iteration is entered through a test `T[text[pos]]` on a package-level constant [N]bool table T all of whose true
// entries are ASCII bytes for which IsWhiteSpace holds and IsLineBreak does not; "-" when the store has no such form;
// otherwise what is wrong with the table.
func (c *Ctx) blankRunSkip(scan *ssa.Function, st *ssa.Store, loops []*Loop) string {
	bo, ok := st.Val.(*ssa.BinOp)
	if !ok || bo.Op != token.ADD {
		return "-"
	}
	u, isU := bo.X.(*ssa.UnOp)
	k, isK := constIntArg(bo.Y)
	if !isU || !isScannerField(u.X, "pos") || !isK || k != 1 {
		return "-"
	}
	// the innermost loop that holds the store
	var l *Loop
	for _, x := range loops {
		if x.Body[st.Block()] && (l == nil || len(x.Body) < len(l.Body)) {
			l = x
		}
	}
	if l == nil {
		return "-"
	}
	// the table test that guards the block of the store
	var table *ssa.Global
	for d := st.Block(); d != nil && l.Body[d]; d = d.Idom() {
		id := d.Idom()
		if id == nil || len(id.Instrs) == 0 || len(d.Preds) != 1 {
			continue
		}
		iff, isIf := id.Instrs[len(id.Instrs)-1].(*ssa.If)
		if !isIf || id.Succs[0] != d {
			continue
		}
		conds := conjunctsOf(iff.Cond, 0)
		if conds == nil {
			conds = []ssa.Value{iff.Cond}
		}
		for _, cd := range conds {
			ld, ok := cd.(*ssa.UnOp)
			if !ok || ld.Op != token.MUL {
				continue
			}
			ia, ok := ld.X.(*ssa.IndexAddr)
			if !ok {
				continue
			}
			g, ok := ia.X.(*ssa.Global)
			if !ok {
				continue
			}
			// indexed by the byte at the scanner position
			idx := ia.Index
			if cv, isC := idx.(*ssa.Convert); isC {
				idx = cv.X
			}
			bl, ok := idx.(*ssa.UnOp)
			if !ok || bl.Op != token.MUL {
				continue
			}
			bia, ok := bl.X.(*ssa.IndexAddr)
			if !ok {
				continue
			}
			tl, ok1 := bia.X.(*ssa.UnOp)
			pl, ok2 := bia.Index.(*ssa.UnOp)
			if ok1 && ok2 && isScannerField(tl.X, "text") && isScannerField(pl.X, "pos") {
				table = g
			}
		}
	}
	if table == nil {
		return "-"
	}
	ents, ok := (&Folder{P: c.P}).globalArray(table)
	if !ok {
		return "the table " + table.Name() + " is not a constant array"
	}
	for b, v := range ents {
		if v.K != lConst || v.C == nil || v.C.Kind() != constant.Bool || !constant.BoolVal(v.C) {
			continue
		}
		if b >= 0x80 {
			return fmt.Sprintf("the table %s admits byte 0x%02X, a part of a multi-byte character", table.Name(), b)
		}
		ws, ok1 := c.foldRuneFn("IsWhiteSpace", rune(b))
		lb, ok2 := c.foldRuneFn("IsLineBreak", rune(b))
		if !ok1 || !ok2 {
			return "the class predicates do not fold"
		}
		if lb {
			return fmt.Sprintf("the table %s admits U+%04X, a line break: swallowed in a run of blanks it does not set the preceding-line-break flag", table.Name(), b)
		}
		if !ws {
			return fmt.Sprintf("the table %s admits U+%04X, which is not white space", table.Name(), b)
		}
	}
	return ""
}
