package main

import (
	"fmt"
	"go/constant"
	"go/token"
	"go/types"
	"strings"

	"golang.org/x/tools/go/ssa"
)

func init() {
	register("C07",
		"the only write evaluation makes to the data map is the binder, called from one place that is dominated by `target is a bare identifier` and `name starts with $` (failing edges return an error), storing and yielding the very evaluation of the right operand; left is evaluated before right and handlers receive (left, right) in that order; comma yields its right operand; argument and element loops run 0..Len() in order after the callee; every decimal / reflect mutator in evaluator-reachable code (builtins included) writes only into a number or container created in the same function; no store, map update, append-in-place or sort reaches an object obtained from caller data. The binder stores (key, value) on every path, null included. A call is refused for what its callee is only after its arguments have been evaluated; a defensive copy of a stored number is an exact one ((*Big).Copy).",
		"what host functions do with the values they are handed.",
		runC07)
}

func runC07(c *Ctx) {
	d := c.EvalDispatcher()
	if d == nil {
		c.R.Add("C07.anchor", "ANCHOR-UNRESOLVED evaluator dispatcher", "-", Undecided, "not found")
		return
	}
	c07Binding(c, d, "C07.guarded-binding")
	// `$a = $b = e` binds both (assignment is right-associative) and `,` sequences assignment-level operands:
	// the parser's layering of `,` and `=` (shared with C02)
	if ro := c.needRoles("C07.roles"); ro != nil {
		c02Layers(c, ro, "C07.assignment-and-sequence-parsing")
	}
	c07Order(c, d)
	// a local bound in a call argument or array element is bound in THE runner, not in a copy of it
	if o, ok := c.P.Types.Scope().Lookup("Runner").(*types.TypeName); ok {
		if nt, ok := o.Type().(*types.Named); ok {
			c.byReference("C07.runner-by-reference", nt, "runner", c.method("Runner", "Resolve"))
		}
	}
	c07Fresh(c, "C07.fresh-results")
	c07NoDataWrites(c)
}

// thisMapWrites: effects whose target is the map held in Runner.this.
func (c *Ctx) isThisMap(v ssa.Value) bool {
	for _, rt := range plainOrigins.Roots(v) {
		if rt.Kind == "param" && typeName(rt.V.Type()) == "Runner" && len(rt.Path) >= 1 && rt.Path[0] == "this" {
			return true
		}
	}
	return false
}

func c07Binding(c *Ctx, d *Dispatcher, rule string) {
	rr := c.ReachFrom("eval+builtins", c.evalRoots()...)
	binder := c.method("Runner", "SetThisValue")
	if !c.need(rule, binder, "(*Runner).SetThisValue") {
		return
	}
	c.entrySetterRule(rule, binder)
	// (a) sole writer of the data map among evaluator-reachable functions
	nw := 0
	for _, f := range rr.Order {
		for _, e := range c.localEffects(f) {
			if (e.What == "mapupdate" || e.What == "delete" || e.What == "clear") && c.isThisMap(e.Target) {
				nw++
				c.R.Check(rule, "data-map-writer:"+c.P.FuncKey(f), c.P.InstrPos(e.In), f == binder, "the data map is written by "+c.P.FuncKey(f)+" during evaluation; only the `$` binder may do that")
			}
			// replacing the map itself during evaluation
			if e.What == "store" {
				if fa, ok := e.Target.(*ssa.FieldAddr); ok && typeName(fa.X.Type()) == "Runner" && fieldName(fa) == "this" && f != binder {
					c.R.Check(rule, "data-map-replaced:"+c.P.FuncKey(f), c.P.InstrPos(e.In), false, "the runner's data map is replaced during evaluation")
				}
			}
		}
	}
	if nw == 0 {
		c.R.Check(rule, "data-map-writer", "-", false, "no writer of the data map found: `$name = e` cannot bind")
	}
	// (b) call sites of the binder inside the evaluator
	var sites []*ssa.Call
	for _, f := range rr.Order {
		for _, cs := range callsTo(f, binder) {
			sites = append(sites, cs)
		}
	}
	c.R.Check(rule, "binder-call-sites", "-", len(sites) == 1, fmt.Sprintf("the binder must be called from exactly one place in the evaluator (the assignment handler); found %d", len(sites)))
	for _, cs := range sites {
		h := cs.Parent()
		pos := c.P.InstrPos(cs)
		key, val := cs.Call.Args[1], cs.Call.Args[2]
		// the assignment handler's left / right expression parameters
		var exprParams []*ssa.Parameter
		for _, p := range h.Params {
			if typeName(p.Type()) == "Expression" {
				exprParams = append(exprParams, p)
			}
		}
		// it is reached from the `=` arm with (Left, Right)
		var left, right *ssa.Parameter
		barms, _ := c.binaryDispatch()
		if arm, ok := barms[c.SK("SK_Equals")]; ok && arm.Call != nil && arm.Handler == h {
			for i, a := range arm.Call.Call.Args {
				for _, rt := range plainOrigins.Roots(a) {
					if rt.Kind == "param" && len(rt.Path) == 1 && i < len(h.Params) {
						if rt.Path[0] == "Left" {
							left = h.Params[i]
						}
						if rt.Path[0] == "Right" {
							right = h.Params[i]
						}
					}
				}
			}
		}
		if left == nil || right == nil {
			c.R.Check(rule, "assignment-operands", pos, false, "the `=` arm must hand the node's Left and Right children to the assignment handler that calls the binder")
			continue
		}
		// key = left.(*Identifier).Value
		keyOK := false
		for _, rt := range plainOrigins.Roots(key) {
			if rt.Kind == "param" && rt.V == ssa.Value(left) && len(rt.Path) == 1 && rt.Path[0] == "Value" {
				keyOK = true
			}
		}
		c.R.Check(rule, "key-is-target-name", pos, keyOK, "the bound name must be the Value of the assignment's left identifier")
		// values known to be the left operand where the binder is called: `v == left` tested on the way (a helper that
		// looks through parentheses for its error message and then insists on `target == left`)
		leftAlias := map[ssa.Value]bool{ssa.Value(left): true}
		forEachTest(h, func(b *ssa.BasicBlock, in ssa.Instruction, tcond ssa.Value, conj bool) {
			bo, ok := tcond.(*ssa.BinOp)
			if !ok || bo.Op != token.EQL {
				return
			}
			var other ssa.Value
			switch {
			case stripIface(bo.X) == ssa.Value(left):
				other = stripIface(bo.Y)
			case stripIface(bo.Y) == ssa.Value(left):
				other = stripIface(bo.X)
			default:
				return
			}
			if t := b.Succs[0]; len(t.Preds) == 1 && (t == cs.Block() || t.Dominates(cs.Block())) {
				leftAlias[other] = true
			}
		})
		// guard 1: bare identifier
		idGuard := false
		var guardTests []ssa.Instruction
		forEachTest(h, func(b *ssa.BasicBlock, in ssa.Instruction, cond ssa.Value, conj bool) {
			negated := false
			if u, ok := cond.(*ssa.UnOp); ok && u.Op == token.NOT {
				if conj {
					return
				}
				cond, negated = u.X, true
			}
			isIdTest := false
			switch x := cond.(type) {
			case *ssa.Call:
				if cal := calleeOf(x); cal != nil && fnBase(cal) == "Is" && strings.Contains(cal.String(), "Identifier") && len(x.Call.Args) == 1 && stripIface(x.Call.Args[0]) == ssa.Value(left) {
					isIdTest = true
				}
			case *ssa.Extract:
				if ta, ok := x.Tuple.(*ssa.TypeAssert); ok && x.Index == 1 && leftAlias[ta.X] && typeName(ta.AssertedType) == "Identifier" {
					isIdTest = true
				}
			}
			if !isIdTest {
				return
			}
			okEdge, failEdge := b.Succs[0], b.Succs[1]
			failIdx := 1
			if negated {
				okEdge, failEdge = failEdge, okEdge
				failIdx = 0
			}
			if (okEdge == cs.Block() || okEdge.Dominates(cs.Block())) && len(okEdge.Preds) == 1 && (c.blockReturnsError(failEdge) || c.rejects(b, failIdx, nil, cs)) {
				idGuard = true
				guardTests = append(guardTests, in)
			}
		})
		c.R.Check(rule, "guard:bare-identifier", pos, idGuard, "the binder call must be dominated by the test that the assignment target is a bare identifier, whose failing edge returns an error")
		// guard 2: `$` prefix on the same name
		dollar := false
		forEachTest(h, func(b *ssa.BasicBlock, in ssa.Instruction, cond ssa.Value, conj bool) {
			negated := false
			if u, ok := cond.(*ssa.UnOp); ok && u.Op == token.NOT {
				if conj {
					return
				}
				cond, negated = u.X, true
			}
			call, ok := cond.(*ssa.Call)
			if !ok {
				return
			}
			cal := calleeOf(call)
			if cal == nil || cal.String() != "strings.HasPrefix" {
				return
			}
			k, isK := call.Call.Args[1].(*ssa.Const)
			if !isK || k.Value == nil || constant.StringVal(k.Value) != "$" {
				return
			}
			if call.Call.Args[0] != key {
				// another read of the very field the key is read from: the Value of the left identifier
				same := keyOK
				rs := plainOrigins.Roots(call.Call.Args[0])
				for _, rt := range rs {
					if !(rt.Kind == "param" && rt.V == ssa.Value(left) && len(rt.Path) == 1 && rt.Path[0] == "Value") {
						same = false
					}
				}
				// the Value of the identifier asserted out of a value known to be the left operand
				if !same && keyOK {
					if u, isU := call.Call.Args[0].(*ssa.UnOp); isU && u.Op == token.MUL {
						if fa, isFA := u.X.(*ssa.FieldAddr); isFA && fieldName(fa) == "Value" {
							var tav ssa.Value = fa.X
							if ex, isEx := tav.(*ssa.Extract); isEx && ex.Index == 0 {
								tav = ex.Tuple
							}
							if ta, isTA := tav.(*ssa.TypeAssert); isTA && leftAlias[ta.X] && ta.X != ssa.Value(left) && typeName(ta.AssertedType) == "Identifier" {
								same = true
							}
						}
					}
				}
				if !same || len(rs) == 0 {
					return
				}
			}
			okEdge, failEdge := b.Succs[0], b.Succs[1]
			failIdx := 1
			if negated {
				okEdge, failEdge = failEdge, okEdge
				failIdx = 0
			}
			if (okEdge == cs.Block() || okEdge.Dominates(cs.Block())) && len(okEdge.Preds) == 1 && (c.blockReturnsError(failEdge) || c.rejects(b, failIdx, nil, cs)) {
				dollar = true
				guardTests = append(guardTests, in)
			}
		})
		c.R.Check(rule, "guard:dollar-prefix", pos, dollar, "the binder call must be dominated by strings.HasPrefix(<the bound name>, \"$\"), whose failing edge returns an error: evaluation may only add `$` entries to the caller's map")
		// value: the evaluation of the right operand, stored and returned unchanged
		var ev *ssa.Call
		for _, rt := range plainOrigins.Roots(val) {
			if rt.Kind == "call" && rt.Fn == d.Fn && rt.Idx == 0 && len(rt.Path) == 0 && !rt.Conv {
				call := rt.V.(*ssa.Call)
				for _, a := range call.Call.Args {
					if a == ssa.Value(right) {
						ev = call
					}
				}
			}
		}
		roots := plainOrigins.Roots(val)
		c.R.Check(rule, "stores-evaluated-right-operand", pos, ev != nil && len(roots) == 1, "the bound value must be exactly the evaluation of the right operand; it is "+describeValue(val))
		retOK := false
		instrs(h, func(b *ssa.BasicBlock, i int, in ssa.Instruction) {
			ret, ok := in.(*ssa.Return)
			if !ok || !(cs.Block() == b || cs.Block().Dominates(b)) {
				return
			}
			if ret.Results[0] == val {
				if k, ok := ret.Results[1].(*ssa.Const); ok && k.Value == nil {
					retOK = true
				}
			}
		})
		c.R.Check(rule, "yields-bound-value", pos, retOK, "`$name = e` must yield the very value it bound")
		// a rejected target has no effects: both tests come before the right operand is evaluated (an assignment inside
		// it would otherwise stay bound although the formula failed)
		if ev != nil && idGuard && dollar {
			before := true
			for _, g := range guardTests {
				if !instrDominates(g, ev) {
					before = false
				}
			}
			c.R.Check(rule, "target-checked-before-right-operand", c.P.InstrPos(ev), before, "the assignment target must be validated before the right operand is evaluated: a rejected assignment must not leave the locals its right side assigned")
		}
		// an evaluation error of the right operand is returned before binding
		if ev != nil {
			c.R.Check(rule, "right-operand-error-propagated", c.P.InstrPos(ev), c.errCheckedTuple(h, ev, 1), "an error evaluating the right operand must be returned (and nothing bound)")
		}
	}
	c.R.Floor(rule, 8)
}

// blockReturnsError: the block (a failing edge) returns with a non-nil last result.
func (c *Ctx) blockReturnsError(b *ssa.BasicBlock) bool {
	for _, in := range b.Instrs {
		if ret, ok := in.(*ssa.Return); ok && len(ret.Results) > 0 {
			last := ret.Results[len(ret.Results)-1]
			if k, ok := last.(*ssa.Const); ok && k.Value == nil {
				return false
			}
			return true
		}
	}
	return false
}

func c07Order(c *Ctx, d *Dispatcher) {
	const rule = "C07.order"
	bh := d.Handlers["BinaryExpression"]
	if !c.need(rule, bh, "binary expression handler") {
		return
	}
	node := c.nodeParamOf(bh, "BinaryExpression")
	vs := c.visitsOf(bh, d.Fn, node)
	var le, ri *ssa.Call
	for _, v := range vs {
		if v.Field == "Left" {
			le = v.Call
		}
		if v.Field == "Right" {
			ri = v.Call
		}
	}
	if le == nil || ri == nil {
		c.R.Check(rule, "binary-operands-evaluated", c.P.Pos(bh.Pos()), false, "the binary handler must evaluate both children")
		return
	}
	c.R.Check(rule, "left-before-right", c.P.InstrPos(ri), instrDominates(le, ri), "the left operand must be evaluated before the right one on every path")
	c.R.Check(rule, "left-error-stops", c.P.InstrPos(le), c.errCheckedTuple(bh, le, 1), "an error of the left operand must be returned before the right operand is evaluated")
	// operator handlers get (left value, right value)
	arms, _ := c.binaryDispatch()
	n := 0
	for _, k := range c.AllKinds() {
		arm := arms[k]
		if !arm.Present || arm.Call == nil || k == c.SK("SK_Equals") {
			continue
		}
		var vals []ssa.Value
		for _, a := range arm.Call.Call.Args {
			if a.Type().String() == "interface{}" || a.Type().String() == "any" {
				vals = append(vals, a)
			}
		}
		okOrder := len(vals) == 2
		if okOrder {
			okOrder = isResultOf(vals[0], le, 0) && isResultOf(vals[1], ri, 0)
		}
		n++
		c.R.Check(rule, "handler-args:"+c.SKName(k), c.P.InstrPos(arm.Call), okOrder, "the operator handler must receive (value of Left, value of Right) in that order")
	}
	// comma yields its right operand
	if arm, ok := arms[c.SK("SK_Comma")]; ok && arm.Handler != nil {
		h := arm.Handler
		ops := operandParams(h)
		good := len(ops) == 2
		instrs(h, func(b *ssa.BasicBlock, i int, in ssa.Instruction) {
			if ret, isRet := in.(*ssa.Return); isRet && good {
				if ret.Results[0] != ssa.Value(ops[1]) {
					good = false
				}
			}
		})
		c.R.Check(rule, "comma-yields-right", c.P.Pos(h.Pos()), good, "`a, b` must yield b itself")
	} else {
		c.R.Check(rule, "comma-yields-right", c.P.Pos(bh.Pos()), false, "no handler for the comma operator")
	}
	// arguments and elements in source order
	for _, spec := range []struct{ typ, fld string }{{"CallExpression", "Arguments"}, {"ArrayLiteralExpression", "Elements"}} {
		h := d.Handlers[spec.typ]
		if h == nil {
			continue
		}
		nd := c.nodeParamOf(h, spec.typ)
		var hit *visit
		vv := c.visitsOf(h, d.Fn, nd)
		for i := range vv {
			if vv[i].Field == spec.fld && vv[i].ViaAt {
				hit = &vv[i]
			}
		}
		cons := spec.typ + "." + spec.fld
		if hit == nil {
			c.R.Check(rule, cons, c.P.Pos(h.Pos()), false, "elements are not evaluated")
			continue
		}
		var at *ssa.Call
		for _, a := range hit.Call.Call.Args {
			for _, rt := range plainOrigins.Roots(a) {
				if rt.Kind == "call" {
					at, _ = rt.V.(*ssa.Call)
				}
			}
		}
		okLoop, why := false, ""
		if hit.Full {
			// `for _, e := range list.Array()`: index -1+1, +1 per iteration, bounded by the slice's length (loopVisitsAll)
			okLoop = true
		} else {
			okLoop, why = c.countingLoopOver(hit.Fn, at)
		}
		c.R.Check(rule, cons+":ascending", c.P.InstrPos(hit.Call), okLoop, "elements must be evaluated in source order: "+why)
		// appended in the same iteration, in order
		app := false
		for _, ref := range *hit.Call.Referrers() {
			if ex, ok := ref.(*ssa.Extract); ok && ex.Index == 0 {
				for _, r2 := range *ex.Referrers() {
					if st, ok := r2.(*ssa.Store); ok {
						// stored into the varargs cell of an append
						_ = st
						app = true
					}
					if call, ok := r2.(*ssa.Call); ok && isBuiltinCall(call, "append") {
						app = true
					}
				}
			}
		}
		c.R.Check(rule, cons+":appended-in-order", c.P.InstrPos(hit.Call), app, "each evaluated element must be appended to the result in the same iteration")
		if spec.typ == "CallExpression" {
			var callee *ssa.Call
			for _, v := range vv {
				if v.Field == "Expression" && !v.ViaAt {
					callee = v.Call
				}
			}
			var argsAt ssa.Instruction = hit.Call
			if hit.Via != nil {
				argsAt = hit.Via
			}
			c.R.Check(rule, "callee-before-arguments", c.P.InstrPos(hit.Call), callee != nil && instrDominates(callee, argsAt), "the callee must be evaluated before the arguments")
			// ... and the arguments before the call is refused for what the callee turned out to be: an assignment
			// inside an argument of a call that fails (`nosuch($x = 5)`) has happened, as in every other position
			if callee != nil {
				anchor := argsAt.Block()
				bad := ""
				instrs(h, func(b *ssa.BasicBlock, i int, in ssa.Instruction) {
					ret, ok := in.(*ssa.Return)
					if !ok || len(ret.Results) != 2 || bad != "" || !instrDominates(callee, ret) {
						return
					}
					fresh := false
					for _, rt := range plainOrigins.Roots(ret.Results[1]) {
						if rt.Kind == "call" && rt.Fn != nil && (rt.Fn.String() == "fmt.Errorf" || rt.Fn.String() == "errors.New") {
							fresh = true
						}
					}
					if !fresh {
						return
					}
					// the test that decides on this return
					t := b.Idom()
					if t == nil || len(t.Instrs) == 0 {
						return
					}
					if iff, isIf := t.Instrs[len(t.Instrs)-1].(*ssa.If); isIf {
						// `if err != nil { return nil, fmt.Errorf("..: %w", err) }`: an evaluation error handed on
						if bo, isB := iff.Cond.(*ssa.BinOp); isB && (isNilConst(bo.X) || isNilConst(bo.Y)) {
							other := bo.X
							if isNilConst(bo.X) {
								other = bo.Y
							}
							if ex, isEx := other.(*ssa.Extract); isEx {
								if _, isCall := ex.Tuple.(*ssa.Call); isCall && ex.Type().String() == "error" {
									return
								}
							}
						}
					}
					// decided on the way to the arguments: the test dominates their evaluation
					if t != anchor && t.Dominates(anchor) {
						bad = c.P.InstrPos(ret)
					}
				})
				c.R.Check(rule, "arguments-before-the-call-is-refused", c.P.InstrPos(hit.Call), bad == "", "the call is refused at "+bad+" (an error made on the spot) before its arguments have been evaluated: a local assigned inside an argument is lost, and an argument's own error is masked")
			}
		}
	}
	c.R.Floor(rule, 12)
}

func isResultOf(v ssa.Value, call *ssa.Call, idx int) bool {
	rs := plainOrigins.Roots(v)
	if len(rs) != 1 {
		return false
	}
	r := rs[0]
	return r.Kind == "call" && r.V == ssa.Value(call) && r.Idx == idx && len(r.Path) == 0 && !r.Conv
}

func c07Fresh(c *Ctx, rule string) {
	rr := c.ReachFrom("eval+builtins", c.evalRoots()...)
	n := 0
	sliceOr := &Origins{PassThrough: func(call *ssa.Call) int {
		if b, ok := call.Call.Value.(*ssa.Builtin); ok && b.Name() == "append" {
			return 0
		}
		return -1
	}}
	for _, f := range rr.Order {
		perFn := map[string]int{}
		instrs(f, func(b *ssa.BasicBlock, i int, in ssa.Instruction) {
			call, ok := in.(ssa.CallInstruction)
			if !ok {
				return
			}
			cc := call.Common()
			cal := calleeOf(call)
			// decimal writers
			if k := c.decWrittenArg(call); k >= 0 && k < len(cc.Args) {
				n++
				perFn[cal.Name()]++
				cons := fmt.Sprintf("%s: %s#%d", c.P.FuncKey(f), cal.Name(), perFn[cal.Name()])
				fresh, why := c.isFreshDecimal(cc.Args[k])
				c.R.Check(rule, cons, c.P.InstrPos(in), fresh, "decimal operation "+cal.Name()+" writes its result into a number that was not created here ("+why+"): an operand - possibly a number held in the caller's data or bound to a `$` local - would be overwritten")
				return
			}
			if cal != nil && !c.inModule(cal) {
				name := cal.String()
				// reflect setters / appenders: only on containers made here
				if strings.HasPrefix(name, "(reflect.Value).Set") || name == "reflect.Append" || name == "reflect.AppendSlice" || name == "reflect.Copy" {
					n++
					perFn[cal.Name()]++
					cons := fmt.Sprintf("%s: reflect.%s#%d", c.P.FuncKey(f), cal.Name(), perFn[cal.Name()])
					made := true
					why := ""
					for _, rt := range sliceOr.Roots(cc.Args[0]) {
						if rt.Kind == "call" && rt.Fn != nil {
							switch rt.Fn.String() {
							case "reflect.MakeMap", "reflect.MakeSlice", "reflect.New", "reflect.Zero", "reflect.MakeMapWithSize", "reflect.Append":
								continue
							}
						}
						made = false
						why = rt.String()
					}
					c.R.Check(rule, cons, c.P.InstrPos(in), made, "reflective write into a value not made in this function ("+why+")")
					return
				}
				if strings.HasPrefix(name, "sort.") || strings.HasPrefix(name, "slices.Sort") || strings.HasPrefix(name, "slices.Reverse") {
					n++
					perFn["sort"]++
					cons := fmt.Sprintf("%s: sort#%d", c.P.FuncKey(f), perFn["sort"])
					okLocal := true
					for _, rt := range sliceOr.Roots(cc.Args[0]) {
						if rt.Kind == "call" && rt.Fn != nil && rt.Fn.String() == "(reflect.Value).MapKeys" {
							continue // MapKeys returns a new slice
						}
						if !(rt.Kind == "alloc" || rt.Kind == "const") {
							okLocal = false
						}
					}
					c.R.Check(rule, cons, c.P.InstrPos(in), okLocal, "in-place sort of a slice not created here")
				}
			}
			// append whose base comes from caller data
			if b, ok := cc.Value.(*ssa.Builtin); ok && b.Name() == "append" {
				for _, rt := range sliceOr.Roots(cc.Args[0]) {
					bad := ""
					switch {
					case rt.Kind == "param" && len(rt.Path) == 0 && !isOwnStateParam(c, rt.V.Type()):
						bad = "a slice parameter"
					case rt.Kind == "call" && rt.Fn != nil && strings.HasPrefix(rt.Fn.String(), "(reflect.Value).Interface"):
						bad = "reflect.Value.Interface()"
					case rt.Kind == "param" && len(rt.Path) > 0 && rt.V.Type().String() == "interface{}":
						bad = "a caller value"
					}
					if bad != "" {
						n++
						perFn["append"]++
						c.R.Check(rule, fmt.Sprintf("%s: append#%d", c.P.FuncKey(f), perFn["append"]), c.P.InstrPos(in), false, "append onto "+bad+": with spare capacity this writes into the caller's backing array")
					}
				}
			}
		})
	}
	c.R.Analysed["mutator_calls_checked"] = n
	c.R.Floor(rule, 12)
}

// isOwnStateParam: parameter types that are the module's own state, not caller data.
func isOwnStateParam(c *Ctx, t types.Type) bool {
	switch typeName(t) {
	case "Runner", "Parser", "Scanner", c.P.alias("referenceResovle"):
		return true
	}
	return isTreeType(c, t)
}

func c07NoDataWrites(c *Ctx) {
	const rule = "C07.no-data-writes"
	rr := c.ReachFrom("eval+builtins", c.evalRoots()...)
	binder := c.method("Runner", "SetThisValue")
	n := 0
	for _, f := range rr.Order {
		k := 0
		for _, e := range c.localEffects(f) {
			if strings.HasPrefix(e.What, "call ") {
				if _, isDec := c.DecimalWriters()[strings.TrimPrefix(e.What, "call ")]; isDec {
					continue // C07.fresh-results
				}
				if strings.HasPrefix(e.What, "call (reflect.Value).Set") {
					continue
				}
			}
			for _, rt := range decOrigins(c).Roots(e.Target) {
				bad := ""
				switch rt.Kind {
				case "param":
					t := rt.V.Type()
					if isOwnStateParam(c, t) {
						if typeName(t) == "Runner" && len(rt.Path) >= 1 && rt.Path[0] == "this" && f != binder && (e.What == "mapupdate" || e.What == "delete") {
							bad = "the caller's data map"
						}
						break
					}
					if e.What == "store" && len(rt.Path) == 0 {
						break // assigning the parameter variable itself
					}
					if t.String() == "context.Context" {
						break
					}
					bad = "parameter " + rt.V.Name() + " (" + t.String() + "), i.e. a value supplied by the caller's data or by the formula"
				case "call":
					if rt.Fn != nil && !c.inModule(rt.Fn) {
						s := rt.Fn.String()
						if s == "(reflect.Value).Interface" || s == "(reflect.Value).MapIndex" || s == "(reflect.Value).Index" || s == "(reflect.Value).Elem" || s == "(reflect.Value).FieldByName" || s == "reflect.ValueOf" {
							bad = "a value obtained by reflection from caller data (" + s + ")"
						}
					}
				case "free":
					// closure variables of evaluator functions: locals of the parent
				}
				if bad != "" {
					k++
					n++
					c.R.Check(rule, fmt.Sprintf("%s: write#%d", c.P.FuncKey(f), k), c.P.InstrPos(e.In), false, e.What+" into "+bad+" during evaluation")
				}
			}
		}
	}
	// make the rule's coverage visible: one obligation per scanned function
	for _, f := range rr.Order {
		c.R.Add(rule, "scanned:"+c.P.FuncKey(f), c.P.Pos(f.Pos()), OK, "")
	}
	c.R.Floor(rule, 25)
}

// forEachTest calls f for every branch condition of h: for a plain `if c` once with c; for a condition that is a
// short-circuit conjunction lowered to a value (`case a && b && c:` becomes a phi over the conjuncts) once per conjunct
// with conj set - on the true edge of that branch every conjunct holds, the false edge is taken when any of them fails.
func forEachTest(h *ssa.Function, f func(b *ssa.BasicBlock, in ssa.Instruction, cond ssa.Value, conj bool)) {
	instrs(h, func(b *ssa.BasicBlock, i int, in ssa.Instruction) {
		iff, ok := in.(*ssa.If)
		if !ok {
			return
		}
		cs := conjunctsOf(iff.Cond, 0)
		if len(cs) <= 1 {
			f(b, in, iff.Cond, false)
			return
		}
		for _, cj := range cs {
			f(b, in, cj, true)
		}
	})
}

// conjunctsOf: the conjuncts of a value produced by the lowering of `a && b && ...` (a phi commented "&&" whose edges
// are the constant false, one per conjunct that can fail, and the value of the last conjunct); nil for anything else.
func conjunctsOf(v ssa.Value, depth int) []ssa.Value {
	phi, ok := v.(*ssa.Phi)
	if !ok || phi.Comment != "&&" || depth > 6 {
		return nil
	}
	var out []ssa.Value
	for i, e := range phi.Edges {
		pred := phi.Block().Preds[i]
		if k, isK := e.(*ssa.Const); isK && k.Value != nil && k.Value.String() == "false" {
			// the conjunct tested at the end of pred, whose false edge leads here
			if len(pred.Instrs) == 0 {
				return nil
			}
			iff, isIf := pred.Instrs[len(pred.Instrs)-1].(*ssa.If)
			if !isIf || len(pred.Succs) != 2 || pred.Succs[1] != phi.Block() {
				return nil
			}
			if sub := conjunctsOf(iff.Cond, depth+1); sub != nil {
				out = append(out, sub...)
			} else {
				out = append(out, iff.Cond)
			}
			continue
		}
		if sub := conjunctsOf(e, depth+1); sub != nil {
			out = append(out, sub...)
		} else {
			out = append(out, e)
		}
	}
	return out
}

// junctsOf: the operands of a short-circuit `&&` / `||` lowered to a value (a phi with that comment: the constant
// false / true on the edges of operands that decide the result early, the value of the last operand on the other).
func junctsOf(v ssa.Value, op string, depth int) []ssa.Value {
	phi, ok := v.(*ssa.Phi)
	if !ok || phi.Comment != op || depth > 6 {
		return nil
	}
	early := "false"
	idx := 1
	if op == "||" {
		early, idx = "true", 0
	}
	var out []ssa.Value
	for i, e := range phi.Edges {
		pred := phi.Block().Preds[i]
		if k, isK := e.(*ssa.Const); isK && k.Value != nil && k.Value.String() == early {
			if len(pred.Instrs) == 0 {
				return nil
			}
			iff, isIf := pred.Instrs[len(pred.Instrs)-1].(*ssa.If)
			if !isIf || len(pred.Succs) != 2 || pred.Succs[idx] != phi.Block() {
				return nil
			}
			if sub := junctsOf(iff.Cond, op, depth+1); sub != nil {
				out = append(out, sub...)
			} else {
				out = append(out, iff.Cond)
			}
			continue
		}
		if sub := junctsOf(e, op, depth+1); sub != nil {
			out = append(out, sub...)
		} else {
			out = append(out, e)
		}
	}
	return out
}
