package main

import (
	"fmt"
	"go/constant"
	"go/token"
	"go/types"
	"sort"
	"strings"

	"golang.org/x/tools/go/ssa"
)

func init() {
	register("C11",
		"one reflective call per evaluated call expression, outside every loop, on the evaluated callee, after the callee-kind test, the arity tests, the spread expansion and the per-argument conversions, each of whose failures returns an error before the call; the arity test chosen for each of (variadic?, spread?) is the right one (exact count unless variadic without spread; spread on a non-variadic function rejected); variadic-ness comes from the function type's IsVariadic; the context is prepended exactly when parameter 0 is context.Context and fixed-position target types are shifted by the same amount; the variadic tail converts to the element type of the last parameter from the same boundary the arity test uses; a null argument becomes the zero reflect.Value of the parameter type (not a wrapped one); a returned error is wrapped with the callee name; the numeric kind table agrees with the numeric converter's arms. Integer results of the numeric converter are Go conversions applied directly to Float64()/Int64() (truncation), a per-kind converter hands back its source only behind `type == target`, and an integer-kind source for a string target never takes the reflect Convert shortcut (code point instead of digits).",
		"numeric conversion results (truncation toward zero, nearest float) - value-level; what the host function does.",
		runC11)
}

func runC11(c *Ctx) {
	d := c.EvalDispatcher()
	if d == nil {
		c.R.Add("C11.anchor", "ANCHOR-UNRESOLVED evaluator dispatcher", "-", Undecided, "not found")
		return
	}
	h := d.Handlers["CallExpression"]
	if !c.need("C11.anchor", h, "call expression handler") {
		return
	}
	bridge := c11Bridge(c, h, d)
	if bridge == nil {
		return
	}
	c11SingleCall(c, bridge)
	c11Arity(c, bridge, "C11.arity")
	if barms, und := c.binaryDispatch(); und == "" {
		c04NoFloat(c, barms, "C11.numbers-exchanged-exactly")
	}
	c11Variadic(c, bridge)
	c11NoDoubleWrap(c, bridge)
	c11Context(c, bridge)
	c11TargetType(c, bridge)
	c11ErrorWrap(c, bridge)
	c11KindTables(c)
	c11ConverterShape(c, bridge)
	c11NumberArms(c)
	c11SourceReturn(c, bridge)
	c11StringByFormatting(c, bridge)
	// only null becomes nil for an interface parameter: a nil slice or map is an (empty) array / object, not null
	nullDefinition(c, "C11.null-definition")
}

// c11ConverterShape: a nil conversion result means "null for this parameter" to the call bridge (it
// passes the parameter type's zero value). Only the top-level converter's own interface{} arm may
// therefore return (nil, no error); the per-kind converters (array, struct, map, number) must
// return an error when they cannot produce a value.
func c11ConverterShape(c *Ctx, br *callBridge) {
	const rule = "C11.converter-result"
	top := calleeOf(br.Conv)
	rr := c.P.Reach([]*ssa.Function{top}, c.inModule, nil)
	n := 0
	for _, f := range rr.Order {
		if f == top {
			continue
		}
		sig := f.Signature
		if sig.Params().Len() != 2 || sig.Results().Len() != 2 || sig.Params().At(1).Type().String() != "reflect.Type" || sig.Results().At(1).Type().String() != "error" {
			continue
		}
		n++
		bad := ""
		instrs(f, func(b *ssa.BasicBlock, i int, in ssa.Instruction) {
			ret, ok := in.(*ssa.Return)
			if !ok {
				return
			}
			if isNilConst(ret.Results[0]) && isNilConst(ret.Results[1]) {
				bad = c.P.InstrPos(ret)
			}
		})
		c.R.Check(rule, c.P.FuncKey(f), c.P.Pos(f.Pos()), bad == "", "this converter returns (nil, nil) at "+bad+": the call bridge then invokes the host function with the zero value of the parameter type although the argument could not be converted (e.g. null for a slice parameter)")
	}
	c.R.Floor(rule, 3)
}

type callBridge struct {
	H             *ssa.Function
	D             *Dispatcher
	Node          *ssa.Parameter
	Call          *ssa.Call // reflect.Value.Call
	FunEval       *ssa.Call // evaluation of the callee expression
	FunType       ssa.Value // reflect.TypeOf(fun)
	VarFlag       ssa.Value // the variadic flag (bool)
	CtxFlag       ssa.Value // the context flag call (bool)
	Conv          *ssa.Call // per-argument conversion call
	Expand        *ssa.Call // spread expansion call (or, written out in the handler, the element read of its loop)
	ExpandInline  bool
	ExpandSubject ssa.Value // what is expanded
	ArgsLen       []ssa.Value
}

func c11Bridge(c *Ctx, h *ssa.Function, d *Dispatcher) *callBridge {
	const rule = "C11.anchor"
	br := &callBridge{H: h, D: d, Node: c.nodeParamOf(h, "CallExpression")}
	var calls []*ssa.Call
	instrs(h, func(b *ssa.BasicBlock, i int, in ssa.Instruction) {
		call, ok := in.(*ssa.Call)
		if !ok {
			return
		}
		cal := calleeOf(call)
		if cal != nil && cal.String() == "(reflect.Value).Call" {
			calls = append(calls, call)
		}
		if cal != nil && cal.String() == "reflect.TypeOf" && br.FunType == nil {
			br.FunType = call
		}
	})
	// module helpers taking the function type and returning bool
	instrs(h, func(b *ssa.BasicBlock, i int, in ssa.Instruction) {
		call, ok := in.(*ssa.Call)
		if !ok {
			return
		}
		cal := calleeOf(call)
		if cal == nil {
			if call.Call.IsInvoke() && call.Call.Method.Name() == "IsVariadic" && call.Call.Value == br.FunType {
				br.VarFlag = call
			}
			return
		}
		if !c.inModule(cal) {
			return
		}
		res := cal.Signature.Results()
		if res.Len() == 1 && isBoolType(res.At(0).Type()) && len(call.Call.Args) == 1 && call.Call.Args[0] == br.FunType {
			if c.mentionsContextType(cal) {
				br.CtxFlag = call
			} else {
				br.VarFlag = call
			}
		}
		if res.Len() == 2 && len(call.Call.Args) == 2 && call.Call.Args[1].Type().String() == "reflect.Type" {
			br.Conv = call
		}
		if res.Len() == 2 && len(call.Call.Args) == 1 && res.At(0).Type().String() == "[]interface{}" {
			br.Expand = call
		}
	})
	if br.Expand != nil && len(br.Expand.Call.Args) > 0 {
		br.ExpandSubject = br.Expand.Call.Args[0]
	}
	// the same parts written out in the handler itself
	if br.CtxFlag == nil && br.FunType != nil {
		instrs(h, func(b *ssa.BasicBlock, i int, in ssa.Instruction) {
			bo, ok := in.(*ssa.BinOp)
			if !ok || bo.Op != token.EQL {
				return
			}
			for _, pr := range [][2]ssa.Value{{bo.X, bo.Y}, {bo.Y, bo.X}} {
				l, okl := pr[0].(*ssa.Call)
				r, okr := pr[1].(*ssa.Call)
				if !okl || !okr || !l.Call.IsInvoke() || l.Call.Method.Name() != "In" || l.Call.Value != br.FunType {
					continue
				}
				if n, ok := constIntArg(l.Call.Args[0]); !ok || n != 0 {
					continue
				}
				if r.Call.IsInvoke() && r.Call.Method.Name() == "Elem" {
					br.CtxFlag = bo
				}
			}
		})
	}
	if br.Expand == nil {
		// a loop reading the elements of reflect.ValueOf(x) one by one
		for _, l := range naturalLoops(h) {
			for b := range l.Body {
				for _, in := range b.Instrs {
					call, ok := in.(*ssa.Call)
					if !ok || calleeOf(call) == nil || calleeOf(call).String() != "(reflect.Value).Index" {
						continue
					}
					for _, rt := range plainOrigins.Roots(call.Call.Args[0]) {
						if vc, ok := rt.V.(*ssa.Call); ok && rt.Kind == "call" && rt.Fn != nil && rt.Fn.String() == "reflect.ValueOf" {
							if br.Call != nil && vc == br.Call {
								continue
							}
							br.Expand, br.ExpandInline, br.ExpandSubject = call, true, stripIface(vc.Call.Args[0])
						}
					}
				}
			}
		}
	}
	for _, part := range []ssa.Value{br.VarFlag, br.CtxFlag, br.Conv, br.Expand} {
		if call, ok := part.(*ssa.Call); ok && call != nil {
			c.P.touch(calleeOf(call))
		}
	}
	if len(calls) != 1 {
		c.R.Add("C11.single-call", "reflective call", c.P.Pos(h.Pos()), Violation, fmt.Sprintf("the call handler must contain exactly one reflect.Value.Call; found %d: a host function could be invoked twice, or never", len(calls)))
		return nil
	}
	br.Call = calls[0]
	for _, v := range c.visitsOf(h, d.Fn, br.Node) {
		if v.Field == "Expression" && !v.ViaAt {
			br.FunEval = v.Call
		}
	}
	if br.FunEval == nil || br.FunType == nil {
		c.R.Undecided(rule, "callee evaluation", c.P.Pos(h.Pos()), "evaluation of the callee expression / its reflect type not found")
		return nil
	}
	if br.VarFlag == nil || br.CtxFlag == nil || br.Conv == nil || br.Expand == nil {
		c.R.Undecided(rule, "call bridge parts", c.P.Pos(h.Pos()), fmt.Sprintf("variadic flag=%v context flag=%v conversion=%v spread expansion=%v", br.VarFlag != nil, br.CtxFlag != nil, br.Conv != nil, br.Expand != nil))
		return nil
	}
	return br
}

func (c *Ctx) mentionsContextType(f *ssa.Function) bool {
	hit := false
	instrs(f, func(b *ssa.BasicBlock, i int, in ssa.Instruction) {
		var ops []*ssa.Value
		for _, op := range in.Operands(ops) {
			if *op != nil && strings.Contains((*op).Type().String(), "context.Context") {
				hit = true
			}
			if *op != nil {
				if g, isG := (*op).(*ssa.Global); isG && c.isContextTypeGlobal(g) {
					hit = true
				}
			}
		}
	})
	return hit
}

// isContextTypeGlobal: a package-level variable that the package initialiser sets, once, to
// reflect.TypeOf((*context.Context)(nil)).Elem() and that is written nowhere else.
func (c *Ctx) isContextTypeGlobal(g *ssa.Global) bool {
	if g == nil || g.Pkg != c.P.Pkg {
		return false
	}
	good, n := true, 0
	for _, f := range c.P.ModFuncs {
		instrs(f, func(b *ssa.BasicBlock, i int, in ssa.Instruction) {
			st, isSt := in.(*ssa.Store)
			if !isSt || st.Addr != ssa.Value(g) {
				return
			}
			n++
			el, isC := st.Val.(*ssa.Call)
			if !isInitFn(f) || !isC || !el.Call.IsInvoke() || el.Call.Method.Name() != "Elem" {
				good = false
				return
			}
			tc, isT := el.Call.Value.(*ssa.Call)
			if !isT || callName(tc) != "reflect.TypeOf" || !strings.Contains(stripIface(tc.Call.Args[0]).Type().String(), "context.Context") {
				good = false
			}
		})
	}
	return good && n == 1
}

func c11SingleCall(c *Ctx, br *callBridge) {
	const rule = "C11.single-call"
	h := br.H
	pos := c.P.InstrPos(br.Call)
	inLoop := false
	for _, l := range naturalLoops(h) {
		if l.Body[br.Call.Block()] {
			inLoop = true
		}
	}
	c.R.Check(rule, "outside-loops", pos, !inLoop, "the reflective call sits inside a loop: the host function may be invoked more than once per call expression")
	// receiver: reflect.ValueOf(<evaluated callee>)
	recvOK := false
	for _, rt := range plainOrigins.Roots(br.Call.Call.Args[0]) {
		if rt.Kind == "call" && rt.Fn != nil && rt.Fn.String() == "reflect.ValueOf" {
			if isResultOf(rt.V.(*ssa.Call).Call.Args[0], br.FunEval, 0) {
				recvOK = true
			}
		}
	}
	c.R.Check(rule, "calls-evaluated-callee", pos, recvOK, "the function invoked must be the value the callee expression evaluated to")
	// validations dominate the call and their failures return errors
	type val struct {
		name string
		in   ssa.Instruction
	}
	var vals []val
	// kind test: invoke Kind on funType compared with reflect.Func
	instrs(h, func(b *ssa.BasicBlock, i int, in ssa.Instruction) {
		call, ok := in.(*ssa.Call)
		if ok && call.Call.IsInvoke() && call.Call.Method.Name() == "Kind" && call.Call.Value == br.FunType {
			vals = append(vals, val{"callee-is-function test", in})
		}
	})
	vals = append(vals, val{"argument conversion", br.Conv}, val{"variadic detection", br.VarFlag.(ssa.Instruction)})
	for _, v := range vals {
		c.R.Check(rule, "before-call:"+v.name, c.P.InstrPos(v.in), instrDominatesOrLoopBefore(h, v.in, br.Call), "the "+v.name+" must happen on every path before the reflective call")
	}
	if len(vals) < 3 {
		c.R.Check(rule, "before-call:callee-is-function test", pos, false, "no test that the callee's kind is Func before the reflective call")
	}
	// the kind test's failing edge returns an error
	// after the call: no conversion / expansion / evaluation
	bad := ""
	instrs(h, func(b *ssa.BasicBlock, i int, in ssa.Instruction) {
		call, ok := in.(*ssa.Call)
		if !ok || in == ssa.Instruction(br.Call) {
			return
		}
		if !(br.Call.Block() == b && posOf(br.Call).I < i || br.Call.Block().Dominates(b) && br.Call.Block() != b) {
			return
		}
		cal := calleeOf(call)
		if cal != nil && c.inModule(cal) {
			bad = c.P.FuncKey(cal) + " at " + c.P.InstrPos(in)
		}
	})
	c.R.Check(rule, "nothing-but-result-handling-after-call", pos, bad == "", "after the host function has been called only its results may be inspected; found a call of "+bad)
	// every error return that does not come after the call is reached without passing it: by dominance this is
	// implied; what has to be checked is that each validation failure edge does return an error
	for _, spec := range []struct {
		name string
		call *ssa.Call
	}{{"conversion failure", br.Conv}, {"spread expansion failure", br.Expand}} {
		if spec.call == br.Expand && br.ExpandInline {
			// written out in the handler: a test of the kind of the expanded value whose failing side returns an error
			okKind := false
			instrs(h, func(b *ssa.BasicBlock, i int, in ssa.Instruction) {
				iff, isIf := in.(*ssa.If)
				if !isIf {
					return
				}
				bo, isB := iff.Cond.(*ssa.BinOp)
				if !isB || (bo.Op != token.NEQ && bo.Op != token.EQL) {
					return
				}
				kc, isC := bo.X.(*ssa.Call)
				if !isC || !kc.Call.IsInvoke() || kc.Call.Method.Name() != "Kind" {
					return
				}
				for k := range b.Succs {
					if c.rejects(b, k, nil, br.Call) && instrDominates(in, br.Expand) {
						okKind = true
					}
				}
			})
			c.R.Check(rule, "returns-error:"+spec.name, c.P.InstrPos(spec.call), okKind, "spreading a value that is not an array must return an error (before the host function is called)")
			continue
		}
		c.R.Check(rule, "returns-error:"+spec.name, c.P.InstrPos(spec.call), c.errCheckedTuple(h, spec.call, 1) || c.errorEdgeReturns(spec.call, 1), "a "+spec.name+" must return an error (before the host function is called)")
	}
	c.R.Floor(rule, 6)
}

// instrDominatesOrLoopBefore: a dominates b, or a sits in a loop all of whose exits lead to b and that is entered on every path to b.
func instrDominatesOrLoopBefore(f *ssa.Function, a, b ssa.Instruction) bool {
	if instrDominates(a, b) {
		return true
	}
	// a in a loop whose header dominates b: the loop is passed (possibly with zero iterations)
	for _, l := range naturalLoops(f) {
		if l.Body[a.Block()] && !l.Body[b.Block()] && l.Header.Dominates(b.Block()) {
			return true
		}
	}
	return false
}

// errorEdgeReturns: result #idx of call is tested != nil and the true edge returns a non-nil error.
func (c *Ctx) errorEdgeReturns(call *ssa.Call, idx int) bool {
	for _, ref := range *call.Referrers() {
		ex, ok := ref.(*ssa.Extract)
		if !ok || ex.Index != idx {
			continue
		}
		for _, r2 := range *ex.Referrers() {
			if bo, ok := r2.(*ssa.BinOp); ok && bo.Op == token.NEQ {
				for _, r3 := range *bo.Referrers() {
					if iff, ok := r3.(*ssa.If); ok && c.blockReturnsError(iff.Block().Succs[0]) {
						return true
					}
				}
			}
		}
	}
	return false
}

// pinDDD pins `expr.DotDotDotToken != nil`.
func pinDDD(node *ssa.Parameter, present bool) Pin {
	return func(v ssa.Value) (constant.Value, bool) {
		bo, ok := v.(*ssa.BinOp)
		if !ok || (bo.Op != token.NEQ && bo.Op != token.EQL) || !isNilConst(bo.Y) {
			return nil, false
		}
		u, ok := bo.X.(*ssa.UnOp)
		if !ok {
			return nil, false
		}
		fa, ok := u.X.(*ssa.FieldAddr)
		if !ok || fa.X != ssa.Value(node) || fieldName(fa) != "DotDotDotToken" {
			return nil, false
		}
		if bo.Op == token.EQL {
			return constant.MakeBool(!present), true
		}
		return constant.MakeBool(present), true
	}
}

func c11Arity(c *Ctx, br *callBridge, rule string) {
	h := br.H
	// classify arity tests: comparisons of len(<evaluated argument list>) that guard an error return
	type test struct {
		iff  *ssa.If
		op   token.Token
		kind string
	}
	classify := func(r *FoldResult) (exact, lower bool, callReach bool, allErr bool) {
		for _, b := range h.Blocks {
			if !r.Reach[b] {
				continue
			}
			for _, in := range b.Instrs {
				if in == ssa.Instruction(br.Call) {
					callReach = true
				}
			}
			iff, ok := b.Instrs[len(b.Instrs)-1].(*ssa.If)
			if !ok {
				continue
			}
			bo, ok := iff.Cond.(*ssa.BinOp)
			if !ok {
				continue
			}
			lc, ok := bo.X.(*ssa.Call)
			if !ok || !isBuiltinCall(lc, "len") || lc.Call.Args[0].Type().String() != "[]interface{}" {
				continue
			}
			if _, isConst := bo.Y.(*ssa.Const); isConst {
				continue
			}
			if !c.blockReturnsError(b.Succs[0]) && !c.rejects(b, 0, r, br.Call) {
				continue
			}
			switch bo.Op {
			case token.NEQ:
				exact = true
			case token.LSS:
				lower = true
			}
		}
		allErr = len(r.Returns) > 0
		for _, ret := range r.Returns {
			if isNilConst(ret.Results[1]) {
				allErr = false
			}
		}
		return
	}
	for _, variadic := range []bool{false, true} {
		for _, spread := range []bool{false, true} {
			ps := []Pin{pinValue(br.VarFlag, constant.MakeBool(variadic)), pinDDD(br.Node, spread), pinInvokeKindFunc(br.FunType), pinExtractNil(br.FunEval, 1)}
			r := c.foldWith(h, 0, ps...)
			exact, lower, callReach, _ := classify(r)
			cons := fmt.Sprintf("variadic=%v,spread=%v", variadic, spread)
			pos := c.P.Pos(h.Pos())
			switch {
			case !variadic && spread:
				c.R.Check(rule, cons, pos, !callReach, "spreading (`...`) into a function that is not variadic must be rejected before the call")
			case variadic && !spread:
				c.R.Check(rule, cons, pos, lower && !exact && callReach, fmt.Sprintf("a variadic function called without spread needs the lower-bound arity test (at least the fixed parameters): lower-bound test reachable=%v, exact test reachable=%v", lower, exact))
			default:
				c.R.Check(rule, cons, pos, exact && callReach, fmt.Sprintf("here the argument count must equal the parameter count exactly (with spread the array counts as the one variadic argument): exact test reachable=%v, lower-bound test reachable=%v; otherwise reflect.Call receives too few arguments", exact, lower))
			}
		}
	}
	// spread expansion: applied to the last argument, only under the `...` token
	r := c.foldWith(h, 0, pinDDD(br.Node, false))
	reach := false
	for _, call := range r.ReachableCalls() {
		if call == ssa.CallInstruction(br.Expand) {
			reach = true
		}
	}
	c.R.Check(rule, "spread-only-with-token", c.P.InstrPos(br.Expand), !reach, "the array expansion must happen only when the call was written with `...`")
	lastOK := false
	if u, ok := br.ExpandSubject.(*ssa.UnOp); ok {
		if ia, ok := u.X.(*ssa.IndexAddr); ok {
			if bo, ok := ia.Index.(*ssa.BinOp); ok && bo.Op == token.SUB {
				if n, ok := constIntArg(bo.Y); ok && n == 1 {
					if lc, ok := bo.X.(*ssa.Call); ok && isBuiltinCall(lc, "len") && lc.Call.Args[0] == ia.X {
						lastOK = true
					}
				}
			}
		}
	}
	c.R.Check(rule, "spread-last-argument", c.P.InstrPos(br.Expand), lastOK, "the expanded argument must be the last one (args[len(args)-1])")
	c.R.Floor(rule, 6)
}

// pinInvokeKindFunc pins `funType.Kind() != reflect.Func` to false (the callee is a function).
func pinInvokeKindFunc(funType ssa.Value) Pin {
	return func(v ssa.Value) (constant.Value, bool) {
		bo, ok := v.(*ssa.BinOp)
		if !ok || (bo.Op != token.NEQ && bo.Op != token.EQL) {
			return nil, false
		}
		call, ok := bo.X.(*ssa.Call)
		if !ok || !call.Call.IsInvoke() || call.Call.Method.Name() != "Kind" || call.Call.Value != funType {
			return nil, false
		}
		if bo.Op == token.NEQ {
			return constant.MakeBool(false), true
		}
		return constant.MakeBool(true), true
	}
}

func c11Variadic(c *Ctx, br *callBridge) {
	const rule = "C11.variadic-source"
	pos := c.P.InstrPos(br.VarFlag.(ssa.Instruction))
	call := br.VarFlag.(*ssa.Call)
	if call.Call.IsInvoke() {
		c.R.Add(rule, "flag", pos, OK, "")
		return
	}
	g := calleeOf(call)
	ok := len(g.Blocks) > 0
	why := ""
	instrs(g, func(b *ssa.BasicBlock, i int, in ssa.Instruction) {
		ret, isRet := in.(*ssa.Return)
		if !isRet {
			return
		}
		v := ret.Results[0]
		if k, isK := v.(*ssa.Const); isK && k.Value != nil && !constant.BoolVal(k.Value) {
			return // `return false` for functions without parameters
		}
		fromIsVariadic := false
		seen := map[ssa.Value]bool{}
		var walk func(x ssa.Value)
		walk = func(x ssa.Value) {
			if seen[x] {
				return
			}
			seen[x] = true
			switch y := x.(type) {
			case *ssa.Call:
				if y.Call.IsInvoke() && y.Call.Method.Name() == "IsVariadic" {
					fromIsVariadic = true
				}
			case *ssa.Phi:
				for _, e := range y.Edges {
					walk(e)
				}
			case *ssa.BinOp:
				walk(y.X)
				walk(y.Y)
			case *ssa.UnOp:
				walk(y.X)
			}
		}
		walk(v)
		if !fromIsVariadic {
			ok = false
			why = "the flag returned at " + c.P.InstrPos(ret) + " is computed as " + describeExpr(v)
		}
	})
	c.R.Check(rule, "flag", pos, ok, "whether the callee is variadic must come from reflect.Type.IsVariadic(); a test such as `last parameter's Kind() == Slice` cannot tell `...T` from a trailing `[]T` (a func(xs []int) would be treated as variadic); "+why)
}

func describeExpr(v ssa.Value) string {
	switch x := v.(type) {
	case *ssa.BinOp:
		return "(" + describeExpr(x.X) + " " + x.Op.String() + " " + describeExpr(x.Y) + ")"
	case *ssa.Call:
		if x.Call.IsInvoke() {
			return "." + x.Call.Method.Name() + "()"
		}
		return callName(x)
	case *ssa.Const:
		return shortVal(x)
	case *ssa.Phi:
		var ps []string
		for _, e := range x.Edges {
			ps = append(ps, describeExpr(e))
		}
		return "phi[" + strings.Join(ps, ", ") + "]"
	}
	return v.Name()
}

func c11NoDoubleWrap(c *Ctx, br *callBridge) {
	const rule = "C11.no-double-wrap"
	n := 0
	rr := c.ReachFrom("eval+builtins", c.evalRoots()...)
	for _, f := range rr.Order {
		instrs(f, func(b *ssa.BasicBlock, i int, in ssa.Instruction) {
			call, ok := in.(*ssa.Call)
			if !ok {
				return
			}
			cal := calleeOf(call)
			if cal == nil || cal.String() != "reflect.ValueOf" {
				return
			}
			n++
			arg := stripIface(call.Call.Args[0])
			isValue := arg.Type().String() == "reflect.Value"
			c.R.Check(rule, fmt.Sprintf("%s: ValueOf#%d", c.P.FuncKey(f), n), c.P.InstrPos(in), !isValue, "reflect.ValueOf is applied to a reflect.Value: the callee receives a reflect.Value object where it declared its parameter type (a null argument for an interface{} parameter arrives as a non-nil reflect.Value instead of nil)")
		})
	}
	// the null-argument arm passes the zero Value of the target type itself
	h := br.H
	zeroOK := false
	instrs(h, func(b *ssa.BasicBlock, i int, in ssa.Instruction) {
		call, ok := in.(*ssa.Call)
		if !ok {
			return
		}
		if cal := calleeOf(call); cal != nil && cal.String() == "reflect.Zero" {
			// its result is stored into the call argument list directly
			for _, ref := range *call.Referrers() {
				if st, ok := ref.(*ssa.Store); ok && st.Val == ssa.Value(call) {
					zeroOK = true
				}
			}
			// ... or through locals (a result temporary, a phi of the two argument forms)
			instrs(h, func(_ *ssa.BasicBlock, _ int, x ssa.Instruction) {
				st, ok := x.(*ssa.Store)
				if !ok || st.Val.Type().String() != "reflect.Value" {
					return
				}
				for _, rt := range plainOrigins.Roots(st.Val) {
					if rt.Kind == "call" && rt.V == ssa.Value(call) && len(rt.Path) == 0 && !rt.Conv {
						zeroOK = true
					}
				}
			})
		}
	})
	c.R.Check(rule, "null-argument-zero-value", c.P.Pos(h.Pos()), zeroOK, "a null argument must be passed as reflect.Zero(<parameter type>) itself")
	c.R.Floor(rule, 1)
}

func c11Context(c *Ctx, br *callBridge) {
	const rule = "C11.context-injection"
	h := br.H
	ctxParam := (*ssa.Parameter)(nil)
	for _, p := range h.Params {
		if p.Type().String() == "context.Context" {
			ctxParam = p
		}
	}
	if ctxParam == nil {
		c.R.Undecided(rule, "context parameter", c.P.Pos(h.Pos()), "handler has no context parameter")
		return
	}
	for _, has := range []bool{true, false} {
		r := c.foldWith(h, 0, pinValue(br.CtxFlag, constant.MakeBool(has)))
		injected := false
		for _, call := range r.ReachableCalls() {
			cc, ok := call.(*ssa.Call)
			if !ok {
				continue
			}
			if cal := calleeOf(cc); cal != nil && cal.String() == "reflect.ValueOf" && stripIface(cc.Call.Args[0]) == ssa.Value(ctxParam) {
				injected = true
				// prepended: before the conversion loop, not inside it
				inLoop := false
				for _, l := range naturalLoops(h) {
					if l.Body[cc.Block()] {
						inLoop = true
					}
				}
				if inLoop || !pathExists(h, cc, func(x ssa.Instruction) bool { return x == ssa.Instruction(br.Conv) }, nil, nil) {
					injected = false
				}
			}
		}
		c.R.Check(rule, fmt.Sprintf("declares-context=%v", has), c.P.Pos(h.Pos()), injected == has, fmt.Sprintf("with a leading context.Context parameter=%v the caller's context must be prepended=%v; found prepended=%v", has, has, injected))
	}
	// the flag function: In(0) == TypeOf((*context.Context)(nil)).Elem(), guarded by NumIn() > 0
	g := h
	if fc, isCall := br.CtxFlag.(*ssa.Call); isCall {
		g = calleeOf(fc)
	}
	cmpOK, guardOK := false, false
	instrs(g, func(b *ssa.BasicBlock, i int, in ssa.Instruction) {
		bo, ok := in.(*ssa.BinOp)
		if !ok {
			return
		}
		if bo.Op == token.EQL {
			l, okl := bo.X.(*ssa.Call)
			rr, okr := bo.Y.(*ssa.Call)
			if u, isU := bo.Y.(*ssa.UnOp); okl && isU && u.Op == token.MUL && l.Call.IsInvoke() && l.Call.Method.Name() == "In" {
				// ... with the type held in a package-level variable computed once
				if g, isG := u.X.(*ssa.Global); isG && c.isContextTypeGlobal(g) {
					if n, ok := constIntArg(l.Call.Args[0]); ok && n == 0 {
						cmpOK = true
					}
				}
			}
			if okl && okr && l.Call.IsInvoke() && l.Call.Method.Name() == "In" && rr.Call.IsInvoke() && rr.Call.Method.Name() == "Elem" {
				if n, ok := constIntArg(l.Call.Args[0]); ok && n == 0 {
					if tcall, ok := rr.Call.Value.(*ssa.Call); ok && callName(tcall) == "reflect.TypeOf" && strings.Contains(stripIface(tcall.Call.Args[0]).Type().String(), "context.Context") {
						cmpOK = true
					}
				}
			}
		}
	})
	// ... evaluated only where NumIn() >= 1 holds: some edge dominating the In(0) call implies it
	instrs(g, func(b *ssa.BasicBlock, i int, in ssa.Instruction) {
		l, ok := in.(*ssa.Call)
		if !ok || !l.Call.IsInvoke() || l.Call.Method.Name() != "In" {
			return
		}
		for _, d := range g.Blocks {
			iff, ok := d.Instrs[len(d.Instrs)-1].(*ssa.If)
			if !ok || len(d.Succs) != 2 {
				continue
			}
			bo, ok := iff.Cond.(*ssa.BinOp)
			if !ok {
				continue
			}
			for k, t := range d.Succs {
				if len(t.Preds) != 1 || !(t == b || t.Dominates(b)) {
					continue
				}
				if numInAtLeastOne(bo, k == 0) {
					guardOK = true
				}
			}
		}
	})
	c.R.Check(rule, "flag-compares-first-parameter", c.P.Pos(g.Pos()), cmpOK && guardOK, "the context test must compare the type of parameter 0 with context.Context (and only for functions that have parameters)")
	c.R.Floor(rule, 3)
}

// numInAtLeastOne: does the comparison (taken as holds) imply NumIn() >= 1?
func numInAtLeastOne(bo *ssa.BinOp, holds bool) bool {
	isNumIn := func(v ssa.Value) bool {
		l, ok := v.(*ssa.Call)
		return ok && l.Call.IsInvoke() && l.Call.Method.Name() == "NumIn"
	}
	op, x, y := bo.Op, bo.X, bo.Y
	if !isNumIn(x) && isNumIn(y) {
		x, y = y, x
		switch op {
		case token.LSS:
			op = token.GTR
		case token.GTR:
			op = token.LSS
		case token.LEQ:
			op = token.GEQ
		case token.GEQ:
			op = token.LEQ
		}
	}
	if !isNumIn(x) {
		return false
	}
	n, ok := constIntArg(y)
	if !ok {
		return false
	}
	if !holds {
		switch op {
		case token.LSS:
			op = token.GEQ
		case token.GTR:
			op = token.LEQ
		case token.LEQ:
			op = token.GTR
		case token.GEQ:
			op = token.LSS
		case token.EQL:
			op = token.NEQ
		case token.NEQ:
			op = token.EQL
		default:
			return false
		}
	}
	switch op {
	case token.GTR:
		return n >= 0
	case token.GEQ:
		return n >= 1
	case token.NEQ:
		return n == 0 // NumIn() is never negative
	case token.EQL:
		return n >= 1
	}
	return false
}

func c11TargetType(c *Ctx, br *callBridge) {
	const rule = "C11.target-type"
	h := br.H
	target := br.Conv.Call.Args[1]
	pos := c.P.InstrPos(br.Conv)
	// the converted value is args[i] with i the loop index
	var idx ssa.Value
	if u, ok := br.Conv.Call.Args[0].(*ssa.UnOp); ok {
		if ia, ok := u.X.(*ssa.IndexAddr); ok {
			idx = ia.Index
		}
	}
	c.R.Check(rule, "converts-args-i", pos, idx != nil, "each argument args[i] must be converted")
	if idx == nil {
		return
	}
	// the shift: phi(0,1) controlled by the context flag
	fixedOK, tailOK := false, false
	var tailBoundary ssa.Value
	var tailLin map[string]int64
	var tailConst int64
	haveLin := false
	// candidates: every call the target type can come from (through nested phis, e.g. an element type looked up once
	// before the loop and selected per argument)
	var cands []ssa.Value
	seenC := map[ssa.Value]bool{}
	var collect func(v ssa.Value)
	collect = func(v ssa.Value) {
		if v == nil || seenC[v] {
			return
		}
		seenC[v] = true
		if ph, ok := v.(*ssa.Phi); ok {
			for _, e := range ph.Edges {
				collect(e)
			}
			return
		}
		cands = append(cands, v)
	}
	collect(target)
	for _, e := range cands {
		call, ok := e.(*ssa.Call)
		if !ok || !call.Call.IsInvoke() {
			continue
		}
		switch call.Call.Method.Name() {
		case "In":
			// In(i + shift)
			if bo, ok := call.Call.Args[0].(*ssa.BinOp); ok && bo.Op == token.ADD {
				var other ssa.Value
				if bo.X == idx {
					other = bo.Y
				} else if bo.Y == idx {
					other = bo.X
				}
				if other != nil && c.isContextShift(other, br) {
					fixedOK = true
				}
			}
		case "Elem":
			// In(paramCount-1).Elem()
			if in, ok := call.Call.Value.(*ssa.Call); ok && in.Call.IsInvoke() && in.Call.Method.Name() == "In" {
				if bo, ok := in.Call.Args[0].(*ssa.BinOp); ok && bo.Op == token.SUB {
					if n, ok := constIntArg(bo.Y); ok && n == 1 {
						if ni, ok := bo.X.(*ssa.Call); ok && ni.Call.IsInvoke() && ni.Call.Method.Name() == "NumIn" {
							tailOK = true
						}
					}
				}
			}
			// the tail branch is guarded by variadic && i >= boundary (or the fixed branch by !variadic || i < boundary)
			instrs(h, func(bb *ssa.BasicBlock, ii int, in2 ssa.Instruction) {
				iff, ok := in2.(*ssa.If)
				if !ok {
					return
				}
				if bo, ok := iff.Cond.(*ssa.BinOp); ok && (bo.Op == token.GEQ || bo.Op == token.LSS) && bo.X == idx {
					if _, isLen := bo.Y.(*ssa.Call); !isLen { // not the loop's own `i < len(args)`
						tailBoundary = bo.Y
					}
				} else if ok && (bo.Op == token.GEQ || bo.Op == token.LSS) && tailBoundary == nil {
					// `i + shift >= NumIn()-1`: the same boundary with the shift on the other side
					if lx, kx := linearForm(bo.X); lx[linKey(idx)] == 1 {
						ly, ky := linearForm(bo.Y)
						if _, isLen := bo.Y.(*ssa.Call); !isLen || len(ly) != 1 {
							tailLin, tailConst, haveLin = map[string]int64{}, ky-kx, true
							for k, v := range ly {
								tailLin[k] += v
							}
							for k, v := range lx {
								if k != linKey(idx) {
									tailLin[k] -= v
								}
							}
						}
					}
				}
			})
		}
	}
	c.R.Check(rule, "fixed-position", pos, fixedOK, "the target type of a fixed-position argument i must be In(i + <1 if a context is injected else 0>)")
	c.R.Check(rule, "variadic-tail", pos, tailOK, "the target type of a variadic-tail argument must be In(NumIn()-1).Elem()")
	// the boundary equals the lower-bound arity test's right-hand side: minArgsCount-1
	same := false
	if tailBoundary == nil && haveLin {
		instrs(h, func(b *ssa.BasicBlock, i int, in ssa.Instruction) {
			bo, ok := in.(*ssa.BinOp)
			if !ok || bo.Op != token.LSS {
				return
			}
			if lc, ok := bo.X.(*ssa.Call); ok && isBuiltinCall(lc, "len") {
				ly, ky := linearForm(bo.Y)
				eq := ky == tailConst
				for k, v := range ly {
					if tailLin[k] != v {
						eq = false
					}
				}
				for k, v := range tailLin {
					if v != 0 && ly[k] != v {
						eq = false
					}
				}
				if eq {
					same = true
				}
			}
		})
	}
	if tailBoundary != nil {
		instrs(h, func(b *ssa.BasicBlock, i int, in ssa.Instruction) {
			bo, ok := in.(*ssa.BinOp)
			if !ok || bo.Op != token.LSS {
				return
			}
			if lc, ok := bo.X.(*ssa.Call); ok && isBuiltinCall(lc, "len") {
				if sameExpr(bo.Y, tailBoundary) {
					same = true
				}
			}
		})
	}
	c.R.Check(rule, "tail-boundary-matches-arity", pos, same, "the index from which arguments are converted to the variadic element type must be the same boundary the arity test uses (number of fixed parameters)")
	// guarded by the variadic flag
	c.R.Floor(rule, 4)
}

func (c *Ctx) isContextShift(v ssa.Value, br *callBridge) bool {
	phi, ok := v.(*ssa.Phi)
	if !ok || len(phi.Edges) < 2 {
		return false
	}
	// 1 exactly on the edges that come from under the context flag's true side, 0 on the others
	var flagIf *ssa.If
	instrs(br.H, func(b *ssa.BasicBlock, i int, in ssa.Instruction) {
		if iff, ok := in.(*ssa.If); ok && iff.Cond == br.CtxFlag {
			flagIf = iff
		}
	})
	if flagIf == nil {
		return false
	}
	t := flagIf.Block().Succs[0]
	ones, zeros := 0, 0
	for i, e := range phi.Edges {
		n, ok := constIntArg(e)
		if !ok || (n != 0 && n != 1) {
			return false
		}
		pred := phi.Block().Preds[i]
		under := len(t.Preds) == 1 && (pred == t || t.Dominates(pred))
		switch {
		case n == 1 && under:
			ones++
		case n == 0 && !under:
			zeros++
		default:
			return false
		}
	}
	return ones > 0 && zeros > 0
}

// sameExpr: structurally equal pure integer expressions.
func sameExpr(a, b ssa.Value) bool {
	if a == b {
		return true
	}
	x, ok1 := a.(*ssa.BinOp)
	y, ok2 := b.(*ssa.BinOp)
	if ok1 && ok2 && x.Op == y.Op {
		return sameExpr(x.X, y.X) && sameExpr(x.Y, y.Y)
	}
	k1, ok1 := a.(*ssa.Const)
	k2, ok2 := b.(*ssa.Const)
	if ok1 && ok2 && k1.Value != nil && k2.Value != nil {
		return constant.Compare(k1.Value, token.EQL, k2.Value)
	}
	return false
}

func c11ErrorWrap(c *Ctx, br *callBridge) { c11ErrorWrapAs(c, br, "C11.error-wrap") }

func c11ErrorWrapAs(c *Ctx, br *callBridge, rule string) {
	h := br.H
	// results[1].IsNil() false edge: err = fmt.Errorf(..., name, inner.Error())
	wrapOK := false
	nameOK := false
	wrapCalls := map[*ssa.Call]bool{}
	instrs(h, func(b *ssa.BasicBlock, i int, in ssa.Instruction) {
		call, ok := in.(*ssa.Call)
		if !ok {
			return
		}
		cal := calleeOf(call)
		if cal == nil || cal.String() != "fmt.Errorf" {
			return
		}
		if !(br.Call.Block().Dominates(b) && br.Call.Block() != b) {
			return
		}
		// gather the variadic arguments
		var parts []ssa.Value
		if sl, ok := call.Call.Args[1].(*ssa.Slice); ok {
			if a, ok := sl.X.(*ssa.Alloc); ok {
				for _, ref := range *a.Referrers() {
					if ia, ok := ref.(*ssa.IndexAddr); ok {
						for _, r2 := range *ia.Referrers() {
							if st, ok := r2.(*ssa.Store); ok {
								parts = append(parts, st.Val)
							}
						}
					}
				}
			}
		}
		for _, p := range parts {
			for _, rt := range plainOrigins.Roots(p) {
				if rt.Kind == "call" && rt.Fn != nil && rt.Fn.String() == "strings.Join" {
					nameOK = true
				}
				if rt.Kind == "call" && rt.Fn == nil {
					if ic, ok := rt.V.(*ssa.Call); ok && ic.Call.IsInvoke() && ic.Call.Method.Name() == "Error" {
						wrapOK = true
						wrapCalls[call] = true
					}
				}
			}
		}
	})
	c.R.Check(rule, "names-the-function", c.P.Pos(h.Pos()), nameOK && wrapOK, fmt.Sprintf("an error returned by the host function must be wrapped into an error that names the callee (name=%v) and carries the inner text (inner=%v)", nameOK, wrapOK))
	// the wrapped error is what the handler returns on that path (the dispatcher then drops the value)
	retOK := false
	instrs(h, func(b *ssa.BasicBlock, i int, in ssa.Instruction) {
		ret, ok := in.(*ssa.Return)
		if !ok || !(br.Call.Block().Dominates(b)) {
			return
		}
		for _, rt := range plainOrigins.Roots(ret.Results[1]) {
			if wc, ok := rt.V.(*ssa.Call); ok && rt.Kind == "call" && wrapCalls[wc] {
				retOK = true
			}
		}
	})
	c.R.Check(rule, "returned", c.P.Pos(h.Pos()), retOK, "the error that wraps the host function's error must be what the handler returns on that path (built and then dropped - e.g. assigned to a shadowing variable - the call succeeds with a zero value)")
	// result count checked
	cnt := false
	instrs(h, func(b *ssa.BasicBlock, i int, in ssa.Instruction) {
		if bo, ok := in.(*ssa.BinOp); ok && bo.Op == token.NEQ {
			if lc, ok := bo.X.(*ssa.Call); ok && isBuiltinCall(lc, "len") && lc.Call.Args[0] == ssa.Value(br.Call) {
				if n, ok := constIntArg(bo.Y); ok && n == 2 {
					cnt = true
				}
			}
		}
	})
	c.R.Check(rule, "two-results-required", c.P.InstrPos(br.Call), cnt, "a callee must return exactly (value, error); the result count must be tested before results[1] is read")
	c.R.Floor(rule, 3)
}

func c11KindTables(c *Ctx) {
	const rule = "C11.kind-tables-agree"
	conv := c.fn("convToBasicNumber")
	if conv == nil || len(conv.Params) != 2 {
		c.R.Undecided(rule, "tables", "-", "numeric converter not found")
		return
	}
	// the predicate "is this parameter kind filled by the numeric converter": a module func(reflect.Kind) bool called
	// by a function that also calls the numeric converter
	var pred *ssa.Function
	for _, f := range c.P.ModFuncs {
		if len(callsTo(f, conv)) == 0 {
			continue
		}
		instrs(f, func(b *ssa.BasicBlock, i int, in ssa.Instruction) {
			call, ok := in.(*ssa.Call)
			if !ok {
				return
			}
			g := calleeOf(call)
			if g == nil || !c.inModule(g) || g.Signature.Params().Len() != 1 || g.Signature.Results().Len() != 1 {
				return
			}
			if g.Signature.Params().At(0).Type().String() == "reflect.Kind" && isBoolType(g.Signature.Results().At(0).Type()) {
				// the one whose positive answer leads to the converter (other kind tests may sit in the same function)
				guards := false
				for _, ref := range *call.Referrers() {
					if iff, isIf := ref.(*ssa.If); isIf {
						for _, cc := range callsTo(f, conv) {
							t := iff.Block().Succs[0]
							if t == cc.Block() || t.Dominates(cc.Block()) {
								guards = true
							}
						}
					}
				}
				if guards || pred == nil {
					pred = g
				}
			}
		})
	}
	var router *ssa.Function // the function that calls the numeric converter, when the routing test is written out in it
	if pred == nil {
		for _, f := range c.P.ModFuncs {
			if len(callsTo(f, conv)) > 0 && f != conv {
				router = f
			}
		}
		if router == nil {
			c.R.Undecided(rule, "tables", "-", "the predicate that routes a parameter kind to the numeric converter was not found")
			return
		}
		pred = router
	}
	member, isTable := []int64(nil), false
	if router == nil {
		member, isTable = c.membershipTable(pred)
	}
	inTable := func(k int64) (bool, bool) {
		if router != nil {
			// by cases on the target kind: is the numeric converter reached?
			r := c.foldWith(router, 0, pinCall("Kind", cInt(k), func(call *ssa.Call) bool { return call.Call.IsInvoke() }))
			for _, call := range r.ReachableCalls() {
				if calleeOf(call) == conv {
					return true, true
				}
			}
			return false, true
		}
		if isTable {
			for _, m := range member {
				if m == k {
					return true, true
				}
			}
			return false, true
		}
		r := (&Folder{P: c.P, MaxDepth: 1}).Fold(pred, []LV{intLV(k)})
		return boolResult(r, 0)
	}
	// an arm of the converter for kind k: with a number as source and target.Kind() = k a value is returned
	src := conv.Params[0]
	hasArm := func(k int64) bool {
		r := c.foldWith(conv, 1, pinTypeCase(src, "*decimal.Big"), pinCall("Kind", cInt(k), func(call *ssa.Call) bool { return call.Call.IsInvoke() }))
		for _, ret := range r.Returns {
			if len(ret.Results) == 2 && isNilConst(ret.Results[1]) && !isNilConst(ret.Results[0]) {
				return true
			}
		}
		return false
	}
	n := 0
	for _, kn := range reflectKinds(c) {
		t, ok := inTable(kn.val)
		if !ok {
			c.R.Undecided(rule, "kind:"+kn.name, c.P.Pos(pred.Pos()), "the kind predicate does not fold for this kind")
			continue
		}
		arm := hasArm(kn.val)
		if !t && !arm {
			continue
		}
		n++
		switch {
		case t && !arm:
			c.R.Check(rule, "kind:"+kn.name, c.P.Pos(conv.Pos()), false, "kind "+kn.name+" is listed as a basic number kind but the numeric converter has no arm for it: such a parameter can never be filled")
		case !t && arm:
			c.R.Check(rule, "kind:"+kn.name, c.P.Pos(conv.Pos()), false, "the numeric converter has an arm for "+kn.name+" but the kind predicate does not accept it: the arm is dead and parameters of that kind are refused")
		default:
			c.R.Add(rule, "kind:"+kn.name, c.P.Pos(conv.Pos()), OK, "")
		}
	}
	c.R.Floor(rule, 7)
}

// globalKindList reads `var name = []reflect.Kind{...}` from the syntax tree.
func (c *Ctx) globalKindList(name string) map[int64]bool {
	vals, _ := c.sliceLiteralInts(name)
	if vals == nil {
		return nil
	}
	out := map[int64]bool{}
	for _, v := range vals {
		out[v] = true
	}
	return out
}

// c11NumberArms: the numeric converter's integer results are Go conversions applied directly to what the decimal
// yields (Float64()/Int64()): Go's float->int conversion truncates toward zero, which is what the property requires.
// Any call in between (math.Floor, math.Round, RoundToInt ...) changes the rounding for negative or fractional values.
func c11NumberArms(c *Ctx) {
	const rule = "C11.number-conversion"
	conv := c.fn("convToBasicNumber")
	if conv == nil {
		c.R.Undecided(rule, "converter", "-", "numeric converter not found")
		return
	}
	var walk func(v ssa.Value, seen map[ssa.Value]bool) string
	walk = func(v ssa.Value, seen map[ssa.Value]bool) string {
		if seen[v] {
			return ""
		}
		seen[v] = true
		switch x := v.(type) {
		case *ssa.Convert:
			return walk(x.X, seen)
		case *ssa.ChangeType:
			return walk(x.X, seen)
		case *ssa.MakeInterface:
			return walk(x.X, seen)
		case *ssa.Phi:
			for _, e := range x.Edges {
				if why := walk(e, seen); why != "" {
					return why
				}
			}
			return ""
		case *ssa.Extract:
			if call, ok := x.Tuple.(*ssa.Call); ok && x.Index == 0 {
				if cal := calleeOf(call); cal != nil {
					switch cal.String() {
					case "(*github.com/ericlagergren/decimal.Big).Float64", "(*github.com/ericlagergren/decimal.Big).Int64":
						return ""
					}
					return "a call of " + cal.String()
				}
			}
			return "an unresolved multi-value call"
		case *ssa.Call:
			if cal := calleeOf(x); cal != nil {
				return "a call of " + cal.String()
			}
			return "a dynamic call"
		case *ssa.BinOp:
			return "arithmetic (" + x.Op.String() + ")"
		case *ssa.Const:
			return "a constant"
		}
		return fmt.Sprintf("%T", v)
	}
	per := map[string]int{}
	// the per-kind conversions may live in a constant table of small functions applied to the float:
	// `conv, ok := table[target.Kind()]; return conv(f), nil`
	type unit struct {
		fn    *ssa.Function
		bound map[ssa.Value]ssa.Value // parameter of the table function -> argument at the call site
	}
	units := []unit{{conv, nil}}
	instrs(conv, func(b *ssa.BasicBlock, i int, in ssa.Instruction) {
		ret, ok := in.(*ssa.Return)
		if !ok || len(ret.Results) != 2 || !isNilConst(ret.Results[1]) {
			return
		}
		call, ok := ret.Results[0].(*ssa.Call)
		if !ok || call.Call.IsInvoke() || calleeOf(call) != nil {
			return
		}
		var lk *ssa.Lookup
		switch x := call.Call.Value.(type) {
		case *ssa.Lookup:
			lk = x
		case *ssa.Extract:
			lk, _ = x.Tuple.(*ssa.Lookup)
		}
		if lk == nil {
			return
		}
		tab, ok := (&Folder{P: c.P}).constTable(&FoldResult{Fn: conv, Vals: map[ssa.Value]LV{}}, lk.X)
		if !ok {
			return
		}
		var keys []string
		for k := range tab {
			keys = append(keys, k)
		}
		sort.Strings(keys)
		for _, k := range keys {
			g := fnValue(tab[k].V)
			if g == nil || len(g.Params) != len(call.Call.Args) {
				continue
			}
			bound := map[ssa.Value]ssa.Value{}
			for i, p := range g.Params {
				bound[p] = call.Call.Args[i]
			}
			units = append(units, unit{g, bound})
		}
	})
	var curBound map[ssa.Value]ssa.Value
	baseWalk := walk
	walk = func(v ssa.Value, seen map[ssa.Value]bool) string {
		if curBound != nil {
			if a, ok := curBound[v]; ok {
				return baseWalk(a, map[ssa.Value]bool{})
			}
		}
		return baseWalk(v, seen)
	}
	for _, u := range units {
		curBound = u.bound
		c11NumberReturns(c, rule, u.fn, u.fn.Signature.Results().Len() == 1, walk, per)
	}
	c.R.Floor(rule, 5)
}

// c11NumberReturns examines the numeric results of one function (the converter itself, or one table entry).
func c11NumberReturns(c *Ctx, rule string, f *ssa.Function, single bool, walk func(v ssa.Value, seen map[ssa.Value]bool) string, per map[string]int) {
	instrs(f, func(b *ssa.BasicBlock, i int, in ssa.Instruction) {
		ret, ok := in.(*ssa.Return)
		if !ok {
			return
		}
		if single {
			if len(ret.Results) != 1 {
				return
			}
		} else if len(ret.Results) != 2 || !isNilConst(ret.Results[1]) {
			return
		}
		mi, ok := ret.Results[0].(*ssa.MakeInterface)
		if !ok {
			return
		}
		bt, ok := mi.X.Type().Underlying().(*types.Basic)
		if !ok || bt.Info()&types.IsNumeric == 0 {
			return
		}
		per[bt.Name()]++
		why := walk(mi.X, map[ssa.Value]bool{})
		what := "truncation toward zero"
		if bt.Info()&types.IsFloat != 0 {
			what = "the nearest value"
		}
		c.R.Check(rule, fmt.Sprintf("result:%s#%d", bt.Name(), per[bt.Name()]), c.P.InstrPos(ret), why == "", "a number converted to "+bt.Name()+" must be Go's conversion of the decimal's Float64()/Int64() ("+what+"); this result passes through "+why)
	})
}

// c11SourceReturn: a per-kind converter may hand back its source unchanged only behind a test that the source's
// type IS the target type (== target or AssignableTo(target)); element-type equality is not enough (an array is
// not a slice), and the array converter's result is otherwise a slice made here.
func c11SourceReturn(c *Ctx, br *callBridge) {
	const rule = "C11.converter-identity"
	top := calleeOf(br.Conv)
	rr := c.P.Reach([]*ssa.Function{top}, c.inModule, nil)
	n := 0
	for _, f := range rr.Order {
		if f == top {
			continue
		}
		sig := f.Signature
		if sig.Params().Len() != 2 || sig.Results().Len() != 2 || sig.Params().At(1).Type().String() != "reflect.Type" || sig.Results().At(1).Type().String() != "error" {
			continue
		}
		src, tgt := f.Params[0], f.Params[1]
		instrs(f, func(b *ssa.BasicBlock, i int, in ssa.Instruction) {
			ret, ok := in.(*ssa.Return)
			if !ok || !isNilConst(ret.Results[1]) {
				return
			}
			n++
			isSrc := false
			for _, rt := range plainOrigins.Roots(ret.Results[0]) {
				if rt.Kind == "param" && rt.V == ssa.Value(src) && len(rt.Path) == 0 {
					isSrc = true
				}
			}
			if !isSrc {
				return
			}
			// a dominating true edge of `X == target` / `X.AssignableTo(target)`
			gated := false
			for d := b; d != nil; d = d.Idom() {
				id := d.Idom()
				if id == nil {
					break
				}
				ifi, ok := id.Instrs[len(id.Instrs)-1].(*ssa.If)
				if !ok || len(id.Succs) != 2 {
					continue
				}
				onTrue := id.Succs[0] == d && id.Succs[1] != d
				onFalse := id.Succs[1] == d && id.Succs[0] != d
				switch x := ifi.Cond.(type) {
				case *ssa.BinOp:
					if (x.Op == token.EQL && onTrue || x.Op == token.NEQ && onFalse) && (x.X == ssa.Value(tgt) || x.Y == ssa.Value(tgt)) {
						gated = true
					}
				case *ssa.Call:
					if onTrue && x.Call.IsInvoke() && (x.Call.Method.Name() == "AssignableTo") && len(x.Call.Args) == 1 && x.Call.Args[0] == ssa.Value(tgt) {
						gated = true
					}
				}
			}
			c.R.Check(rule, c.P.FuncKey(f)+": returns-source", c.P.InstrPos(ret), gated, "this converter returns its source unchanged without having tested that the source's type is the target type (`== target` / `AssignableTo(target)`): e.g. a Go array would reach a slice parameter unconverted and the reflective call panics or the host sees the caller's own backing store")
		})
	}
	c.R.Add(rule, "success-returns-examined", "-", OK, "")
	c.R.Analysed["converter_success_returns"] = n
}

// c11StringByFormatting: a string parameter is filled by formatting. reflect's Convert turns an integer kind into
// the one-rune string with that code point (uint8(7) -> "\a"), so the generic Convert shortcut must not be taken
// for an integer source and a string target.
func c11StringByFormatting(c *Ctx, br *callBridge) {
	const rule = "C11.string-by-formatting"
	top := calleeOf(br.Conv)
	if top == nil || len(top.Params) != 2 {
		c.R.Undecided(rule, "converter", "-", "top-level converter not found")
		return
	}
	var strKind int64 = -1
	var intKinds []kindConst
	for _, kn := range reflectKinds(c) {
		switch kn.name {
		case "String":
			strKind = kn.val
		case "Int", "Int8", "Int16", "Int32", "Int64", "Uint", "Uint8", "Uint16", "Uint32", "Uint64", "Uintptr":
			intKinds = append(intKinds, kn)
		}
	}
	sort.Slice(intKinds, func(i, j int) bool { return intKinds[i].val < intKinds[j].val })
	// the function that applies reflect's generic Convert: the top-level converter or a helper it reaches
	var convFn *ssa.Function
	rrc := c.P.Reach([]*ssa.Function{top}, c.inModule, nil)
	for _, g := range rrc.Order {
		instrs(g, func(b *ssa.BasicBlock, i int, in ssa.Instruction) {
			if call, ok := in.(*ssa.Call); ok {
				if cal := calleeOf(call); cal != nil && cal.String() == "(reflect.Value).Convert" && convFn == nil {
					convFn = g
				}
			}
		})
	}
	if convFn == nil {
		c.R.Add(rule, "no-generic-convert", c.P.Pos(top.Pos()), OK, "")
		return
	}
	top = convFn
	for _, kn := range intKinds {
		base := []Pin{
			pinCall("Kind", cInt(strKind), func(call *ssa.Call) bool { return call.Call.IsInvoke() }),
			pinCall("(reflect.Value).Kind", cInt(kn.val), nil),
			pinCall("(reflect.Value).IsValid", cTrue, nil),
			pinCall("(reflect.Value).CanConvert", cTrue, nil),
			pinCall("(reflect.Value).CanInt", boolConst(kn.val <= 6), nil),
			pinCall("(reflect.Value).CanUint", boolConst(kn.val > 6), nil),
			pinCall("formula.IsNull", cFalse, nil)}
		r := c.foldWith(top, 2, append(base, c.pinMembership(pins(base...)))...)
		bad := ""
		for _, ret := range r.Returns {
			if len(ret.Results) < 1 {
				continue
			}
			// success returns: (value, nil) or (value, true)
			if len(ret.Results) == 2 {
				if isErrorType(ret.Results[1].Type()) && !isNilConst(ret.Results[1]) {
					continue
				}
				if b, isB := constBoolArg(ret.Results[1]); isB && !b {
					continue
				}
			}
			for _, rt := range plainOrigins.Roots(ret.Results[0]) {
				if rt.Kind != "call" || rt.Fn == nil {
					continue
				}
				if rt.Fn.String() == "(reflect.Value).Convert" {
					bad = c.P.InstrPos(ret)
				}
				if call, ok := rt.V.(*ssa.Call); ok && rt.Fn.String() == "(reflect.Value).Interface" && len(call.Call.Args) > 0 {
					for _, r2 := range plainOrigins.Roots(call.Call.Args[0]) {
						if r2.Kind == "call" && r2.Fn != nil && r2.Fn.String() == "(reflect.Value).Convert" {
							bad = c.P.InstrPos(ret)
						}
					}
				}
			}
		}
		c.R.Check(rule, "source-kind:"+kn.name, c.P.Pos(top.Pos()), bad == "", "a "+strings.ToLower(kn.name)+" argument for a string parameter is converted with reflect.Value.Convert ("+bad+"), which yields the one-character string with that code point (uint8(7) becomes \"\\a\", not \"7\"); a string parameter must be filled by formatting")
	}
	c.R.Floor(rule, 8)
}

// rejects: every path that starts with the edge b -> b.Succs[k] ends in a return whose error result is not nil (or
// in a panic) without passing `avoid`. Path-sensitive on nil-ness only: a phi takes the value of the edge the walk came
// in on, and a test `x == nil` / `x != nil` on a value whose nil-ness is known that way is followed on one side. This
// sees through an error that travels in a temporary (`tmp = fmt.Errorf(..); ...; if err := tmp; err != nil { return
// nil, err }`) exactly as through a direct `return nil, fmt.Errorf(..)`.
func (c *Ctx) rejects(b *ssa.BasicBlock, k int, r *FoldResult, avoid ssa.Instruction) bool {
	return c.walkEdge(b, k, r, avoid, nil, func(ret *ssa.Return, nilness func(ssa.Value) int, st int) bool {
		if len(ret.Results) == 0 {
			return false
		}
		return nilness(ret.Results[len(ret.Results)-1]) == nnNonNil
	})
}

const (
	nnUnknown = iota
	nnNil
	nnNonNil
)

// walkEdge follows every path that starts with the edge b -> b.Succs[k]. step (optional) threads a small state through
// the instructions of a path; final judges a path at its return. A path that reaches `avoid`, loops, or runs too deep
// fails; a panic ends a path successfully. The result is the conjunction over all paths.
func (c *Ctx) walkEdge(b *ssa.BasicBlock, k int, r *FoldResult, avoid ssa.Instruction, step func(in ssa.Instruction, nilness func(ssa.Value) int, st int) int, final func(ret *ssa.Return, nilness func(ssa.Value) int, st int) bool) bool {
	type env map[ssa.Value]int
	var nilness func(v ssa.Value, e env, depth int) int
	nilness = func(v ssa.Value, e env, depth int) int {
		if depth > 8 {
			return nnUnknown
		}
		if n, ok := e[v]; ok {
			return n
		}
		switch x := v.(type) {
		case *ssa.Const:
			if x.Value == nil {
				return nnNil
			}
			return nnNonNil
		case *ssa.MakeInterface:
			if _, isPtr := x.X.Type().Underlying().(*types.Pointer); isPtr {
				return nilness(x.X, e, depth+1)
			}
			return nnNonNil
		case *ssa.Alloc, *ssa.MakeClosure, *ssa.MakeMap, *ssa.MakeSlice:
			return nnNonNil
		case *ssa.ChangeInterface:
			return nilness(x.X, e, depth+1)
		case *ssa.Call:
			if cal := calleeOf(x); cal != nil {
				switch cal.String() {
				case "fmt.Errorf", "errors.New":
					return nnNonNil
				}
			}
		case *ssa.UnOp:
			// an element of the diagnostics list: the recorder appends only diagnostics it has just built
			// (C01.diag-implies-error: recorder-appends), so an element that exists is not nil
			if ia, ok := x.X.(*ssa.IndexAddr); ok && x.Op == token.MUL {
				for _, rt := range plainOrigins.Roots(ia.X) {
					if len(rt.Path) > 0 && (rt.Path[len(rt.Path)-1] == "Diagnostics" || rt.Path[0] == "Diagnostics") {
						return nnNonNil
					}
				}
			}
		}
		return nnUnknown
	}
	seen := map[[2]*ssa.BasicBlock]bool{}
	var walk func(prev, cur *ssa.BasicBlock, e env, st int, depth int) bool
	walk = func(prev, cur *ssa.BasicBlock, e env, st int, depth int) bool {
		if depth > 64 || seen[[2]*ssa.BasicBlock{prev, cur}] {
			return false
		}
		seen[[2]*ssa.BasicBlock{prev, cur}] = true
		defer delete(seen, [2]*ssa.BasicBlock{prev, cur})
		ne := env{}
		for k2, v := range e {
			ne[k2] = v
		}
		pi := -1
		for i, p := range cur.Preds {
			if p == prev {
				pi = i
			}
		}
		for _, in := range cur.Instrs {
			phi, ok := in.(*ssa.Phi)
			if !ok {
				break
			}
			if pi >= 0 && pi < len(phi.Edges) {
				ne[phi] = nilness(phi.Edges[pi], e, 0)
			}
		}
		nn := func(v ssa.Value) int { return nilness(v, ne, 0) }
		for _, in := range cur.Instrs {
			if avoid != nil && in == avoid {
				return false
			}
			if step != nil {
				st = step(in, nn, st)
			}
			switch x := in.(type) {
			case *ssa.Return:
				return final(x, nn, st)
			case *ssa.Panic:
				return true
			case *ssa.Jump:
				return walk(cur, cur.Succs[0], ne, st, depth+1)
			case *ssa.If:
				take := -1
				if r != nil {
					if lv := r.Val(x.Cond); lv.K == lConst && lv.C.Kind() == constant.Bool {
						if constant.BoolVal(lv.C) {
							take = 0
						} else {
							take = 1
						}
					}
				}
				if bo, ok := x.Cond.(*ssa.BinOp); take < 0 && ok && (bo.Op == token.EQL || bo.Op == token.NEQ) {
					var other ssa.Value
					if isNilConst(bo.Y) {
						other = bo.X
					} else if isNilConst(bo.X) {
						other = bo.Y
					}
					if other != nil {
						if n := nn(other); n != nnUnknown {
							if (n == nnNil) == (bo.Op == token.EQL) {
								take = 0
							} else {
								take = 1
							}
						}
					}
				}
				// what each edge says about the value tested against nil
				refine := func(k int) env {
					bo, ok := x.Cond.(*ssa.BinOp)
					if !ok || (bo.Op != token.EQL && bo.Op != token.NEQ) {
						return ne
					}
					var other ssa.Value
					if isNilConst(bo.Y) {
						other = bo.X
					} else if isNilConst(bo.X) {
						other = bo.Y
					}
					if other == nil {
						return ne
					}
					e2 := env{}
					for k2, v := range ne {
						e2[k2] = v
					}
					if (bo.Op == token.EQL) == (k == 0) {
						e2[other] = nnNil
					} else {
						e2[other] = nnNonNil
					}
					return e2
				}
				if take >= 0 {
					return walk(cur, cur.Succs[take], refine(take), st, depth+1)
				}
				return walk(cur, cur.Succs[0], refine(0), st, depth+1) && walk(cur, cur.Succs[1], refine(1), st, depth+1)
			}
		}
		return false
	}
	start := env{}
	if iff, ok := b.Instrs[len(b.Instrs)-1].(*ssa.If); ok {
		if bo, ok := iff.Cond.(*ssa.BinOp); ok && (bo.Op == token.EQL || bo.Op == token.NEQ) {
			var other ssa.Value
			if isNilConst(bo.Y) {
				other = bo.X
			} else if isNilConst(bo.X) {
				other = bo.Y
			}
			if other != nil {
				if (bo.Op == token.EQL) == (k == 0) {
					start[other] = nnNil
				} else {
					start[other] = nnNonNil
				}
			}
		}
	}
	return walk(b, b.Succs[k], start, 0, 0)
}

// linearForm writes an integer expression as a sum of atoms with integer coefficients plus a constant (through +, -
// and conversions); anything else is an atom. Method calls through an interface on the same receiver are one atom.
func linearForm(v ssa.Value) (map[string]int64, int64) {
	out := map[string]int64{}
	var k int64
	var add func(x ssa.Value, sign int64, depth int)
	add = func(x ssa.Value, sign int64, depth int) {
		if n, ok := constIntArg(x); ok {
			k += sign * n
			return
		}
		switch y := x.(type) {
		case *ssa.BinOp:
			if depth < 6 && (y.Op == token.ADD || y.Op == token.SUB) {
				add(y.X, sign, depth+1)
				if y.Op == token.ADD {
					add(y.Y, sign, depth+1)
				} else {
					add(y.Y, -sign, depth+1)
				}
				return
			}
		case *ssa.Convert:
			if isIntType(y.Type()) && isIntType(y.X.Type()) {
				add(y.X, sign, depth+1)
				return
			}
		}
		out[linKey(x)] += sign
	}
	add(v, 1, 0)
	for a, c := range out {
		if c == 0 {
			delete(out, a)
		}
	}
	return out, k
}

func linKey(v ssa.Value) string {
	if call, ok := v.(*ssa.Call); ok && call.Call.IsInvoke() && len(call.Call.Args) == 0 {
		return fmt.Sprintf("%s@%p", call.Call.Method.Name(), call.Call.Value)
	}
	return fmt.Sprintf("%p", v)
}
