package main

import (
	"go/constant"
	"go/token"
	"go/types"
	"strings"

	"golang.org/x/tools/go/ssa"
)

// Pin-driven truth tables: a handler is folded with the outcomes of the
// library calls it branches on (Cmp, IsNaN, IsNull, the type-switch tests)
// pinned to each point of a small finite domain; what remains is constant
// folding of the handler's own boolean / integer glue. This extracts e.g.
// "the predicate `<` applies to Cmp's result" as a vector over {-1,0,+1}.

type Pin func(v ssa.Value) (constant.Value, bool)

func pins(ps ...Pin) func(v ssa.Value) (constant.Value, bool) {
	return func(v ssa.Value) (constant.Value, bool) {
		for _, p := range ps {
			if p == nil {
				continue
			}
			if c, ok := p(v); ok {
				return c, true
			}
		}
		return nil, false
	}
}

// pinCall pins the result of calls whose callee's full name has the given
// suffix (e.g. "decimal.Big).Cmp", "formula.IsNull"), optionally restricted
// by a predicate on the call.
func pinCall(suffix string, val constant.Value, when func(call *ssa.Call) bool) Pin {
	return func(v ssa.Value) (constant.Value, bool) {
		call, ok := v.(*ssa.Call)
		if !ok {
			return nil, false
		}
		name := ""
		if cal := calleeOf(call); cal != nil {
			name = cal.String()
		} else if call.Call.IsInvoke() {
			name = "invoke." + call.Call.Method.Name()
		}
		if !strings.HasSuffix(name, suffix) {
			return nil, false
		}
		if when != nil && !when(call) {
			return nil, false
		}
		return val, true
	}
}

func pinCallFn(f *ssa.Function, val constant.Value, when func(call *ssa.Call) bool) Pin {
	return func(v ssa.Value) (constant.Value, bool) {
		call, ok := v.(*ssa.Call)
		if !ok || f == nil || calleeOf(call) != f {
			return nil, false
		}
		if when != nil && !when(call) {
			return nil, false
		}
		return val, true
	}
}

func typeKey(t types.Type) string {
	s := t.String()
	s = strings.ReplaceAll(s, "github.com/ericlagergren/decimal.", "decimal.")
	s = strings.ReplaceAll(s, "github.com/aundis/formula.", "")
	return s
}

// pinTypeCase resolves the tests of a type switch on x as if x's dynamic
// type were dyn ("*decimal.Big", "string", "bool", "nil", or anything else
// for "some other type"). It pins the ok results of `x.(T)` comma-ok
// assertions and `x == nil` comparisons.
func pinTypeCase(x ssa.Value, dyn string) Pin {
	return func(v ssa.Value) (constant.Value, bool) {
		switch e := v.(type) {
		case *ssa.Call:
			// a type-test helper such as Is[T](x): `_, ok := n.(T); return ok`
			if len(e.Call.Args) != 1 || !dynAlias(stripIface(e.Call.Args[0]), x) && !dynAlias(e.Call.Args[0], x) {
				return nil, false
			}
			if t := typeTestHelper(calleeOf(e)); t != nil {
				if _, isIface := t.Underlying().(*types.Interface); isIface {
					return nil, false
				}
				return constant.MakeBool(typeKey(t) == dyn), true
			}
			return nil, false
		case *ssa.Extract:
			ta, ok := e.Tuple.(*ssa.TypeAssert)
			if !ok || !ta.CommaOk || !dynAlias(ta.X, x) || e.Index != 1 {
				return nil, false
			}
			if _, isIface := ta.AssertedType.Underlying().(*types.Interface); isIface {
				return nil, false
			}
			return constant.MakeBool(typeKey(ta.AssertedType) == dyn), true
		case *ssa.BinOp:
			if e.Op != token.EQL && e.Op != token.NEQ {
				return nil, false
			}
			var other ssa.Value
			if dynAlias(e.X, x) {
				other = e.Y
			} else if dynAlias(e.Y, x) {
				other = e.X
			} else {
				return nil, false
			}
			k, ok := other.(*ssa.Const)
			if !ok || k.Value != nil {
				return nil, false
			}
			isNil := dyn == "nil"
			if e.Op == token.NEQ {
				isNil = !isNil
			}
			return constant.MakeBool(isNil), true
		}
		return nil, false
	}
}

// pinValue pins one specific SSA value.
func pinValue(x ssa.Value, val constant.Value) Pin {
	return func(v ssa.Value) (constant.Value, bool) {
		if v == x {
			return val, true
		}
		return nil, false
	}
}

// assertedValue: the extract #0 of `x.(T)` comma-ok assertions for the given type key.
func assertedValues(f *ssa.Function, x ssa.Value, key string) []ssa.Value {
	var out []ssa.Value
	for _, g := range dynScope(f) {
		instrs(g, func(b *ssa.BasicBlock, i int, in ssa.Instruction) {
			ta, ok := in.(*ssa.TypeAssert)
			if !ok || !dynAlias(ta.X, x) || typeKey(ta.AssertedType) != key {
				return
			}
			if !ta.CommaOk {
				out = append(out, ta)
				return
			}
			for _, r := range *ta.Referrers() {
				if e, ok := r.(*ssa.Extract); ok && e.Index == 0 {
					out = append(out, e)
				}
			}
		})
	}
	return out
}

// dynScope: f and the module functions it calls, two levels deep (where a value of f can travel as an argument).
func dynScope(f *ssa.Function) []*ssa.Function {
	out := []*ssa.Function{f}
	seen := map[*ssa.Function]bool{f: true}
	frontier := []*ssa.Function{f}
	for depth := 0; depth < 2; depth++ {
		var next []*ssa.Function
		for _, g := range frontier {
			instrs(g, func(b *ssa.BasicBlock, i int, in ssa.Instruction) {
				call, ok := in.(ssa.CallInstruction)
				if !ok {
					return
				}
				cal := calleeOf(call)
				if cal == nil || seen[cal] || len(cal.Blocks) == 0 || cal.Pkg != f.Pkg {
					return
				}
				seen[cal] = true
				out = append(out, cal)
				next = append(next, cal)
			})
		}
		frontier = next
	}
	return out
}

var dynAliasMemo = map[[2]ssa.Value]int{}

// dynAlias: y holds the very interface value x holds: y is x, or y is a parameter of a module function within
// x's dynScope every call of which (inside that scope) passes an alias of x in that position.
func dynAlias(y, x ssa.Value) bool {
	if y == x {
		return true
	}
	p, ok := y.(*ssa.Parameter)
	if !ok || x == nil || x.Parent() == nil || p.Parent() == x.Parent() {
		return false
	}
	k := [2]ssa.Value{y, x}
	if v, hit := dynAliasMemo[k]; hit {
		return v == 1
	}
	dynAliasMemo[k] = 2 // in progress: a cycle does not establish an alias
	g := p.Parent()
	idx := paramIndex(p)
	n, all := 0, true
	for _, fn := range dynScope(x.Parent()) {
		for _, site := range callsTo(fn, g) {
			n++
			if idx >= len(site.Call.Args) {
				all = false
				continue
			}
			a := site.Call.Args[idx]
			if !dynAlias(a, x) && !dynAlias(stripIface(a), x) {
				all = false
			}
		}
	}
	res := n > 0 && all
	if res {
		dynAliasMemo[k] = 1
	} else {
		dynAliasMemo[k] = 0
	}
	return res
}

// foldWith folds f (all parameters unknown) under the given pins.
func (c *Ctx) foldWith(f *ssa.Function, depth int, ps ...Pin) *FoldResult {
	fo := &Folder{P: c.P, MaxDepth: depth, Input: pins(ps...)}
	return fo.Fold(f, makeBottoms(len(f.Params)))
}

// boolResult: the constant bool every reachable return yields for result idx.
func boolResult(r *FoldResult, idx int) (bool, bool) {
	v, ok := r.ReturnConst(idx)
	if !ok || v.Kind() != constant.Bool {
		return false, false
	}
	return constant.BoolVal(v), true
}

// boxedBoolResult: like boolResult but looks through `make interface{} <- bool`.
func boxedBoolResult(r *FoldResult, idx int) (bool, bool) {
	acc := LV{K: lTop}
	for _, ret := range r.Returns {
		if idx >= len(ret.Results) {
			return false, false
		}
		v := ret.Results[idx]
		if mi, ok := v.(*ssa.MakeInterface); ok {
			v = mi.X
		}
		acc = meet(acc, r.Val(v))
	}
	if acc.K != lConst || acc.C.Kind() != constant.Bool {
		return false, false
	}
	return constant.BoolVal(acc.C), true
}

var (
	cTrue  = constant.MakeBool(true)
	cFalse = constant.MakeBool(false)
)

func cInt(n int64) constant.Value { return constant.MakeInt64(n) }

func tf(b bool) string {
	if b {
		return "T"
	}
	return "F"
}

type constantValue = constant.Value

func boolConst(b bool) constant.Value { return constant.MakeBool(b) }

// membershipTable: f(x) is `for _, k := range G { if k == x { return true } }; return false` over a package-level
// slice literal G of constants (never written outside init). Returns the members.
func (c *Ctx) membershipTable(f *ssa.Function) ([]int64, bool) {
	if f == nil || len(f.Params) != 1 || len(f.Blocks) == 0 || f.Signature.Results().Len() != 1 || !isBoolType(f.Signature.Results().At(0).Type()) {
		return nil, false
	}
	if len(naturalLoops(f)) != 1 {
		return nil, false
	}
	var g *ssa.Global
	okShape := true
	nTrue, nFalse := 0, 0
	instrs(f, func(b *ssa.BasicBlock, i int, in ssa.Instruction) {
		switch x := in.(type) {
		case *ssa.UnOp:
			if gl, ok := x.X.(*ssa.Global); ok {
				if g != nil && g != gl {
					okShape = false
				}
				g = gl
			}
		case *ssa.Call:
			if !isBuiltinCall(x, "len") {
				okShape = false
			}
		case *ssa.BinOp:
			if x.Op == token.EQL {
				// element == param
				if x.X != ssa.Value(f.Params[0]) && x.Y != ssa.Value(f.Params[0]) {
					okShape = false
				}
			}
		case *ssa.Return:
			if k, ok := constBoolArg(x.Results[0]); ok {
				if k {
					nTrue++
				} else {
					nFalse++
				}
			} else {
				okShape = false
			}
		case *ssa.Store, *ssa.MapUpdate, *ssa.Go, *ssa.Defer:
			okShape = false
		}
	})
	if !okShape || g == nil || nTrue != 1 || nFalse != 1 || g.Pkg != c.P.Pkg {
		return nil, false
	}
	// G is written nowhere outside the package initialiser
	for _, h := range c.P.ModFuncs {
		if isInitFn(h) {
			continue
		}
		for _, gw := range c.globalWritesIn(h) {
			if gw.Global == g.Name() {
				return nil, false
			}
		}
	}
	vals, _ := c.sliceLiteralInts(g.Name())
	if vals == nil {
		return nil, false
	}
	return vals, true
}

// pinMembership resolves calls of constant-table membership functions whose argument the other pins determine.
func (c *Ctx) pinMembership(base func(v ssa.Value) (constant.Value, bool)) Pin {
	cache := map[*ssa.Function][]int64{}
	known := map[*ssa.Function]bool{}
	return func(v ssa.Value) (constant.Value, bool) {
		call, ok := v.(*ssa.Call)
		if !ok || len(call.Call.Args) != 1 {
			return nil, false
		}
		f := calleeOf(call)
		if f == nil || !c.inModule(f) {
			return nil, false
		}
		if !known[f] {
			known[f] = true
			if vals, ok := c.membershipTable(f); ok {
				cache[f] = vals
			}
		}
		vals, ok := cache[f]
		if !ok {
			return nil, false
		}
		av, ok := base(call.Call.Args[0])
		if !ok {
			if k, isK := constIntArg(call.Call.Args[0]); isK {
				av, ok = constant.MakeInt64(k), true
			}
		}
		if !ok || av.Kind() != constant.Int {
			return nil, false
		}
		n, _ := constant.Int64Val(av)
		for _, m := range vals {
			if m == n {
				return constant.MakeBool(true), true
			}
		}
		return constant.MakeBool(false), true
	}
}

// typeTestHelper: f(n any) bool is exactly `_, ok := n.(T); return ok`; returns T (nil otherwise).
func typeTestHelper(f *ssa.Function) types.Type {
	if f == nil || len(f.Params) != 1 || len(f.Blocks) != 1 || f.Signature.Results().Len() != 1 || !isBoolType(f.Signature.Results().At(0).Type()) {
		return nil
	}
	ret, ok := f.Blocks[0].Instrs[len(f.Blocks[0].Instrs)-1].(*ssa.Return)
	if !ok || len(ret.Results) != 1 {
		return nil
	}
	ex, ok := ret.Results[0].(*ssa.Extract)
	if !ok || ex.Index != 1 {
		return nil
	}
	ta, ok := ex.Tuple.(*ssa.TypeAssert)
	if !ok || !ta.CommaOk || ta.X != ssa.Value(f.Params[0]) {
		return nil
	}
	return ta.AssertedType
}
