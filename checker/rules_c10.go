package main

import (
	"fmt"
	"go/constant"
	"go/token"
	"go/types"
	"os"
	"strings"

	"golang.org/x/tools/go/ssa"
)

func init() {
	register("C10",
		"the field analysis has an arm for every node type and an error default; each arm visits every value-position child (derived from the struct declarations) on every non-error path, list children element by element from 0 to Len(), propagates child errors, and skips exactly the callee position of calls; dotted chains are collected base-first, joined with `.` and refused on other bases; identifiers contribute their name; the result is de-duplicated; the non-local variant keeps exactly the entries without `$` prefix; the evaluator reads the data map only in the identifier handler, the `this` literal and the setters. A name is any token of the identifier class: no refusal on Identifier.OriginalToken != SK_Identifier.",
		"the semantic sufficiency statement (two data maps agreeing on the reported names give the same result) and the treatment of `this.k`.",
		runC10)
}

// exprFields: fields of node type T holding value-position children.
func (c *Ctx) exprFields(nt *types.Named) (single []string, lists []string) {
	st := nt.Underlying().(*types.Struct)
	for i := 0; i < st.NumFields(); i++ {
		f := st.Field(i)
		if f.Embedded() {
			continue
		}
		switch {
		case typeName(f.Type()) == "Expression":
			single = append(single, f.Name())
		case typeName(f.Type()) == "NodeList":
			lists = append(lists, f.Name())
		}
	}
	return
}

// visitsOf: calls of the dispatcher in f with the child field (of f's node parameter) they visit.
type visit struct {
	Call  *ssa.Call     // the dispatcher call
	Field string        // the child field of the node it visits
	ViaAt bool          // through list.At(i)
	Fn    *ssa.Function // the function containing Call (the handler, or a helper it delegates to)
	Via   *ssa.Call     // the handler's call of that helper (nil when Call is in the handler itself)
	Full  bool          // the call hands the whole list to a helper that visits every element of a slice
}

func (c *Ctx) nodeParamOf(f *ssa.Function, typ string) *ssa.Parameter {
	for _, p := range f.Params {
		if typeName(p.Type()) == typ {
			return p
		}
	}
	return nil
}

// visitsOf lists the dispatcher calls that visit children of `node` in f, also inside helpers to
// which f hands the node or one of its child lists (one level of delegation per step, depth 2).
func (c *Ctx) visitsOf(f *ssa.Function, disp *ssa.Function, node *ssa.Parameter) []visit {
	return c.visitsOfDepth(f, disp, node, "", 0)
}

// fixedField: when non-empty, `node` is itself the child list (or child) named so of the original node.
func (c *Ctx) visitsOfDepth(f *ssa.Function, disp *ssa.Function, node *ssa.Parameter, fixedField string, depth int) []visit {
	var out []visit
	fieldOf := func(rt Root) (string, bool) {
		if rt.Kind != "param" || rt.V != ssa.Value(node) {
			return "", false
		}
		if fixedField != "" {
			if len(rt.Path) == 0 {
				return fixedField, true
			}
			return "", false
		}
		if len(rt.Path) == 1 {
			return rt.Path[0], true
		}
		return "", false
	}
	instrs(f, func(b *ssa.BasicBlock, i int, in ssa.Instruction) {
		call, ok := in.(*ssa.Call)
		if !ok {
			return
		}
		cal := calleeOf(call)
		if cal == disp {
			// `for _, e := range node.List.Array() { visit(e) }`
			for _, a := range call.Call.Args {
				x := a
				for {
					if ci, isCI := x.(*ssa.ChangeInterface); isCI {
						x = ci.X
						continue
					}
					if ct, isCT := x.(*ssa.ChangeType); isCT {
						x = ct.X
						continue
					}
					break
				}
				u, ok := x.(*ssa.UnOp)
				if !ok {
					continue
				}
				ia, ok := u.X.(*ssa.IndexAddr)
				if !ok {
					continue
				}
				lc, ok := ia.X.(*ssa.Call)
				if !ok || calleeOf(lc) == nil || fnBase(calleeOf(lc)) != "Array" || typeName(recvType(calleeOf(lc))) != "NodeList" {
					continue
				}
				if _, all := c.loopVisitsAll(f, call, ia.Index, nil, ssa.Value(lc)); !all {
					continue
				}
				for _, r2 := range plainOrigins.Roots(lc.Call.Args[0]) {
					if fld, ok := fieldOf(r2); ok {
						out = append(out, visit{Call: call, Field: fld, ViaAt: true, Fn: f, Full: true})
					}
				}
			}
			for _, a := range call.Call.Args {
				for _, rt := range plainOrigins.Roots(a) {
					if fld, ok := fieldOf(rt); ok && fixedField == "" {
						out = append(out, visit{Call: call, Field: fld, Fn: f})
					} else if rt.Kind == "call" && rt.Fn != nil && (fnBase(rt.Fn) == "At" || fnBase(rt.Fn) == "NodeAt") && typeName(recvType(rt.Fn)) == "NodeList" {
						at := rt.V.(*ssa.Call)
						for _, r2 := range plainOrigins.Roots(at.Call.Args[0]) {
							if fld, ok := fieldOf(r2); ok {
								out = append(out, visit{Call: call, Field: fld, ViaAt: true, Fn: f})
							}
						}
					}
				}
			}
			return
		}
		// a helper that visits every element of a slice argument: `visitAll(a, b, c)` / `visitAll(list.Array()...)`
		if cal != nil && c.inModule(cal) && cal != f && depth < 2 {
			if k := c.sliceVisitor(cal, disp); k >= 0 && k < len(call.Call.Args) {
				arg := call.Call.Args[k]
				if arr := localArrayLiteral(arg); arr != nil {
					for _, ref := range *arr.Referrers() {
						ia, ok := ref.(*ssa.IndexAddr)
						if !ok || ia.X != ssa.Value(arr) {
							continue
						}
						for _, r2 := range *ia.Referrers() {
							st, ok := r2.(*ssa.Store)
							if !ok || st.Addr != ssa.Value(ia) {
								continue
							}
							for _, rt := range plainOrigins.Roots(st.Val) {
								if fld, ok := fieldOf(rt); ok && fixedField == "" {
									out = append(out, visit{Call: call, Field: fld, Fn: f})
								}
							}
						}
					}
					return
				}
				for _, rt := range plainOrigins.Roots(arg) {
					if rt.Kind == "call" && rt.Fn != nil && fnBase(rt.Fn) == "Array" && typeName(recvType(rt.Fn)) == "NodeList" {
						lc := rt.V.(*ssa.Call)
						for _, r2 := range plainOrigins.Roots(lc.Call.Args[0]) {
							if fld, ok := fieldOf(r2); ok {
								out = append(out, visit{Call: call, Field: fld, ViaAt: true, Fn: f, Full: true})
							}
						}
					}
				}
				return
			}
		}
		// delegation to a helper
		if cal == nil || !c.inModule(cal) || depth >= 2 || len(cal.Blocks) == 0 || cal == f {
			return
		}
		for ai, a := range call.Call.Args {
			if ai >= len(cal.Params) {
				continue
			}
			for _, rt := range plainOrigins.Roots(a) {
				if rt.Kind != "param" || rt.V != ssa.Value(node) {
					continue
				}
				var sub []visit
				switch {
				case fixedField == "" && len(rt.Path) == 0:
					sub = c.visitsOfDepth(cal, disp, cal.Params[ai], "", depth+1)
				case fixedField == "" && len(rt.Path) == 1:
					sub = c.visitsOfDepth(cal, disp, cal.Params[ai], rt.Path[0], depth+1)
				case fixedField != "" && len(rt.Path) == 0:
					sub = c.visitsOfDepth(cal, disp, cal.Params[ai], fixedField, depth+1)
				}
				for _, v := range sub {
					if v.Via == nil {
						v.Via = call
					}
					out = append(out, v)
				}
			}
		}
	})
	return out
}

// errorPropagatingReturn: the return hands back a value checked `!= nil` just before (a child's error).
func errorPropagatingReturn(ret *ssa.Return, idx int) bool {
	if idx >= len(ret.Results) {
		return false
	}
	v := ret.Results[idx]
	if _, isConst := v.(*ssa.Const); isConst {
		return false
	}
	b := ret.Block()
	for _, p := range b.Preds {
		iff, ok := p.Instrs[len(p.Instrs)-1].(*ssa.If)
		if !ok {
			continue
		}
		bo, ok := iff.Cond.(*ssa.BinOp)
		if !ok || bo.Op != token.NEQ {
			continue
		}
		if k, ok := bo.Y.(*ssa.Const); ok && k.Value == nil && p.Succs[0] == b {
			if bo.X == v {
				return true
			}
			// phi / cell of the same error variable
			if reaches(v, bo.X) || reaches(bo.X, v) {
				return true
			}
		}
	}
	return false
}

// countingLoopOver: a loop in f whose index runs 0,1,2.. while index < <list>.Len(), in which `at` is called with that index.
func (c *Ctx) countingLoopOver(f *ssa.Function, at *ssa.Call) (bool, string) {
	if len(at.Call.Args) < 2 {
		return false, "no index argument"
	}
	phi, ok := at.Call.Args[1].(*ssa.Phi)
	if !ok {
		return false, "index is not a loop variable"
	}
	startOK, stepOK := false, false
	for _, e := range phi.Edges {
		if n, ok := constIntArg(e); ok {
			startOK = n == 0
			continue
		}
		if bo, ok := e.(*ssa.BinOp); ok && bo.Op == token.ADD && bo.X == ssa.Value(phi) {
			if n, ok := constIntArg(bo.Y); ok && n == 1 {
				stepOK = true
			}
		}
	}
	boundOK := false
	for _, ref := range *phi.Referrers() {
		bo, ok := ref.(*ssa.BinOp)
		if !ok || bo.Op != token.LSS || bo.X != ssa.Value(phi) {
			continue
		}
		if lc, ok := bo.Y.(*ssa.Call); ok {
			if cal := calleeOf(lc); cal != nil && fnBase(cal) == "Len" {
				// same list
				if sameListReceiver(lc.Call.Args[0], at.Call.Args[0]) {
					boundOK = true
				}
			}
		}
	}
	if startOK && stepOK && boundOK {
		return true, ""
	}
	return false, fmt.Sprintf("loop starts at 0=%v, steps by 1=%v, bounded by the same list's Len()=%v", startOK, stepOK, boundOK)
}

func sameListReceiver(a, b ssa.Value) bool {
	ra, rb := plainOrigins.Roots(a), plainOrigins.Roots(b)
	if len(ra) != 1 || len(rb) != 1 {
		return false
	}
	return ra[0].Kind == rb[0].Kind && ra[0].V == rb[0].V && strings.Join(ra[0].Path, ".") == strings.Join(rb[0].Path, ".")
}

func runC10(c *Ctx) {
	d := c.RefDispatcher()
	if d == nil {
		c.R.Add("C10.exhaustive", "ANCHOR-UNRESOLVED analysis dispatcher", "-", Undecided, "no type switch over node types reachable from ResolveReferenceFields")
		return
	}
	c.R.Analysed["analysis_dispatcher"] = c.P.FuncKey(d.Fn)
	c10Exhaustive(c, d)
	c10Children(c, d)
	c10Chain(c, d)
	c10Identifier(c, d)
	c10Dedup(c, d)
	c10ByReference(c, d)
	c10DataReads(c)
	c10NameClass(c)
	// member access on `(x)` is refused only as long as the parser keeps the parentheses in the tree
	if ro := c.needRoles("C10.parser-roles"); ro != nil {
		c02NoUnwrap(c, ro, "C10.parentheses-kept")
	}
}

// defaultReturnsError: the default arm of a dispatcher returns a non-nil error at result idx.
func defaultReturnsError(d *Dispatcher, idx int) (bool, string) {
	if d.Default == nil {
		return false, "no default arm"
	}
	stop := map[*ssa.BasicBlock]bool{}
	for _, a := range d.Arms {
		stop[a.Block] = true
	}
	reg := armRegion(d.Default, stop)
	n := 0
	for b := range reg {
		for _, in := range b.Instrs {
			ret, ok := in.(*ssa.Return)
			if !ok {
				continue
			}
			n++
			if idx >= len(ret.Results) {
				return false, "default arm returns too few results"
			}
			v := ret.Results[idx]
			if k, ok := v.(*ssa.Const); ok && k.Value == nil {
				return false, "default arm returns a nil error"
			}
			okErr := false
			for _, rt := range plainOrigins.Roots(v) {
				if rt.Kind == "call" && rt.Fn != nil && (rt.Fn.String() == "errors.New" || rt.Fn.String() == "fmt.Errorf") {
					okErr = true
				}
			}
			if !okErr {
				return false, "default arm returns " + describeValue(v)
			}
		}
	}
	if n == 0 {
		return false, "default arm does not return"
	}
	return true, ""
}

func c10Exhaustive(c *Ctx, d *Dispatcher) {
	const rule = "C10.exhaustive"
	pos := c.P.Pos(d.Fn.Pos())
	for _, nt := range c.NodeTypes() {
		name := nt.Obj().Name()
		h := d.Handlers[name]
		_, inline := d.Inline[name]
		c.R.Check(rule, "arm:"+name, pos, h != nil || inline, "the field analysis has no arm for *"+name+": formulas containing it are refused or mis-analysed")
	}
	ok, why := defaultReturnsError(d, 0)
	c.R.Check(rule, "default-error", pos, ok, "unknown node kinds must be refused with an error: "+why)
	c.R.Floor(rule, 11)
}

func c10Children(c *Ctx, d *Dispatcher) {
	const rule = "C10.child-coverage"
	nChildren := 0
	for _, nt := range c.NodeTypes() {
		name := nt.Obj().Name()
		h := d.Handlers[name]
		if h == nil {
			// the arm does its work inside the dispatcher's type switch (`case *T: return r.visit(n.Child)`)
			if arm, ok := d.Inline[name]; ok && name != "SelectorExpression" {
				single, lists := c.exprFields(nt)
				nChildren += c.inlineArmCoverage(rule, d, arm, name, single, lists)
			}
			continue
		}
		single, lists := c.exprFields(nt)
		if name == "SelectorExpression" {
			continue // handled by the chain collector (C10.chain)
		}
		node := c.nodeParamOf(h, name)
		if node == nil {
			// a handler taking the node as an interface (literals): it must visit nothing
			if len(single)+len(lists) == 0 {
				continue
			}
			c.R.Undecided(rule, name, c.P.Pos(h.Pos()), "handler does not take the node by its type")
			continue
		}
		vs := c.visitsOf(h, d.Fn, node)
		for _, fld := range single {
			cons := name + "." + fld
			nChildren++
			if name == "CallExpression" && fld == "Expression" {
				visited := false
				for _, v := range vs {
					if v.Field == fld {
						visited = true
					}
				}
				c.R.Check(rule, cons+":not-visited", c.P.Pos(h.Pos()), !visited, "the callee position of a call is not a value read and must not be reported as a field")
				continue
			}
			var calls []*ssa.Call
			for _, v := range vs {
				if v.Field == fld && !v.ViaAt {
					calls = append(calls, v.Call)
				}
			}
			if len(calls) == 0 {
				c.R.Check(rule, cons, c.P.Pos(h.Pos()), false, "child "+fld+" of *"+name+" is never handed to the analysis: names read there are not reported")
				continue
			}
			// a visit made in a loop over a slice literal of children (`for _, ch := range []Expression{a, b, c}`)
			// happens once per element before the loop is left normally: passing the loop header stands for it
			var loopHeads []ssa.Instruction
			for _, cl := range calls {
				if hd, ok := c.literalLoopVisit(h, cl); ok {
					loopHeads = append(loopHeads, hd)
				}
			}
			isVisit := func(in ssa.Instruction) bool {
				for _, cl := range calls {
					if in == ssa.Instruction(cl) {
						return true
					}
				}
				for _, hd := range loopHeads {
					if in == hd {
						return true
					}
				}
				return false
			}
			// every non-error return is preceded by the visit
			missing := ""
			instrs(h, func(b *ssa.BasicBlock, i int, in ssa.Instruction) {
				ret, ok := in.(*ssa.Return)
				if !ok || errorPropagatingReturn(ret, 0) {
					return
				}
				if pathExists(h, nil, func(x ssa.Instruction) bool { return x == in }, isVisit, nil) {
					missing = c.P.InstrPos(ret)
				}
			})
			c.R.Check(rule, cons, c.P.InstrPos(calls[0]), missing == "", "there is a path to the successful return at "+missing+" that does not visit child "+fld+" of *"+name)
			// errors are propagated
			for _, cl := range calls {
				c.R.Check("C10.child-errors", cons, c.P.InstrPos(cl), c.errChecked(h, cl), "the error of visiting "+fld+" must be returned (directly or after a `!= nil` test)")
			}
		}
		for _, fld := range lists {
			cons := name + "." + fld
			nChildren++
			var hit *visit
			for i := range vs {
				if vs[i].Field == fld && vs[i].ViaAt {
					hit = &vs[i]
				}
			}
			if hit == nil {
				c.R.Check(rule, cons, c.P.Pos(h.Pos()), false, "the elements of "+fld+" of *"+name+" are never handed to the analysis")
				continue
			}
			// find the At call
			var at *ssa.Call
			for _, a := range hit.Call.Call.Args {
				for _, rt := range plainOrigins.Roots(a) {
					if rt.Kind == "call" {
						at, _ = rt.V.(*ssa.Call)
					}
				}
			}
			okLoop, why := true, ""
			if !hit.Full {
				okLoop, why = c.countingLoopOver(hit.Fn, at)
			}
			c.R.Check(rule, cons, c.P.InstrPos(hit.Call), okLoop, "every element of "+fld+" must be visited: "+why)
			c.R.Check("C10.child-errors", cons, c.P.InstrPos(hit.Call), c.errChecked(hit.Fn, hit.Call), "the error of visiting an element of "+fld+" must be returned")
			// guards before the loop may only skip an absent / empty list
			guardsOK := true
			if hit.Via == nil {
				guardsOK = c.onlyEmptinessGuards(h, hit.Call, node, fld)
			}
			c.R.Check(rule, cons+":guards", c.P.InstrPos(hit.Call), guardsOK, "the element loop must not be skipped by a condition other than the list being absent or empty")
		}
	}
	c.R.Analysed["value_children"] = nChildren
	c.R.Floor(rule, 10)
}

// errChecked: the result of call is returned directly, or tested `!= nil` with the true edge returning it.
func (c *Ctx) errChecked(f *ssa.Function, call *ssa.Call) bool {
	for _, ref := range *call.Referrers() {
		switch x := ref.(type) {
		case *ssa.Return:
			return true
		case *ssa.BinOp:
			if x.Op == token.NEQ {
				for _, r2 := range *x.Referrers() {
					if iff, ok := r2.(*ssa.If); ok {
						tb := iff.Block().Succs[0]
						for _, in := range tb.Instrs {
							if ret, ok := in.(*ssa.Return); ok && len(ret.Results) > 0 && (ret.Results[len(ret.Results)-1] == ssa.Value(call) || reaches(ret.Results[len(ret.Results)-1], call)) {
								return true
							}
						}
					}
				}
			}
		case *ssa.Phi:
			// err variable reused: accept when the phi is tested and returned
			for _, r2 := range *x.Referrers() {
				if bo, ok := r2.(*ssa.BinOp); ok && bo.Op == token.NEQ {
					return true
				}
				if _, ok := r2.(*ssa.Return); ok {
					return true
				}
			}
		}
	}
	return false
}

// onlyEmptinessGuards: every branch that can bypass the loop containing `visit` tests the list itself (nil / Len() > 0).
func (c *Ctx) onlyEmptinessGuards(f *ssa.Function, visitCall *ssa.Call, node *ssa.Parameter, fld string) bool {
	return c.onlyEmptinessGuardsWithin(f, visitCall, node, fld, nil)
}

// onlyEmptinessGuardsWithin: the same, looking no further up than block top (the arm of a type switch).
func (c *Ctx) onlyEmptinessGuardsWithin(f *ssa.Function, visitCall *ssa.Call, node *ssa.Parameter, fld string, top *ssa.BasicBlock) bool {
	ok := true
	for b := visitCall.Block().Idom(); b != nil; b = b.Idom() {
		if top != nil && !(b == top || top.Dominates(b)) {
			break
		}
		iff, isIf := b.Instrs[len(b.Instrs)-1].(*ssa.If)
		if !isIf {
			continue
		}
		// conditions about the list or the loop index only
		good := false
		var ops []*ssa.Value
		if ci, isInstr := iff.Cond.(ssa.Instruction); isInstr {
			ops = ci.Operands(ops)
		}
		for _, op := range ops {
			for _, rt := range plainOrigins.Roots(*op) {
				if rt.Kind == "param" && rt.V == ssa.Value(node) && len(rt.Path) >= 1 && rt.Path[0] == fld {
					good = true
				}
				if rt.Kind == "call" && rt.Fn != nil && fnBase(rt.Fn) == "Len" {
					good = true
				}
			}
			// len(list.Array()) of a range loop over the list's elements
			if lc, isC := (*op).(*ssa.Call); isC && isBuiltinCall(lc, "len") && len(lc.Call.Args) == 1 {
				for _, rt := range plainOrigins.Roots(lc.Call.Args[0]) {
					if rt.Kind == "call" && rt.Fn != nil && fnBase(rt.Fn) == "Array" && typeName(recvType(rt.Fn)) == "NodeList" {
						good = true
					}
				}
			}
			if _, isPhi := (*op).(*ssa.Phi); isPhi {
				good = true
			}
		}
		if !good {
			ok = false
		}
	}
	return ok
}

func c10Chain(c *Ctx, d *Dispatcher) {
	const rule = "C10.chain"
	h := d.Handlers["SelectorExpression"]
	var nodeVal ssa.Value
	inRegion := func(b *ssa.BasicBlock) bool { return true }
	if h == nil {
		// the arm written out in the dispatcher itself
		arm, ok := d.Inline["SelectorExpression"]
		if !ok {
			return
		}
		h, nodeVal = d.Fn, arm.Val
		inRegion = func(b *ssa.BasicBlock) bool { return b == arm.Block || arm.Block.Dominates(b) }
	}
	pos := c.P.Pos(h.Pos())
	// the chain collector: callee returning ([]string, error) taking the node
	var coll *ssa.Function
	var collCall *ssa.Call
	instrs(h, func(b *ssa.BasicBlock, i int, in ssa.Instruction) {
		if !inRegion(b) {
			return
		}
		if call, ok := in.(*ssa.Call); ok {
			if cal := calleeOf(call); cal != nil && c.inModule(cal) && cal.Signature.Results().Len() == 2 && cal.Signature.Results().At(0).Type().String() == "[]string" {
				coll, collCall = cal, call
			}
		}
	})
	if coll == nil {
		c.R.Check(rule, "collector", pos, false, "member access must be analysed by collecting the dotted chain; no chain collector call found")
		return
	}
	// it is given the selector node itself
	if nodeVal == nil {
		if np := c.nodeParamOf(h, "SelectorExpression"); np != nil {
			nodeVal = np
		}
	}
	given := false
	for _, a := range collCall.Call.Args {
		if nodeVal != nil && stripIface(a) == nodeVal {
			given = true
		}
	}
	c.R.Check(rule, "collector-gets-node", c.P.InstrPos(collCall), given, "the chain collector must be given the selector node itself (so that the maximal path is collected)")
	// handler: joins with "." and appends one entry
	joinOK, appendOK := false, false
	var joinCall *ssa.Call
	var appends []*ssa.Call
	instrs(h, func(b *ssa.BasicBlock, i int, in ssa.Instruction) {
		call, ok := in.(*ssa.Call)
		if !ok || !inRegion(b) {
			return
		}
		if cal := calleeOf(call); cal != nil && cal.String() == "strings.Join" {
			if k, ok := call.Call.Args[1].(*ssa.Const); ok && k.Value != nil && constant.StringVal(k.Value) == "." {
				for _, rt := range plainOrigins.Roots(call.Call.Args[0]) {
					if rt.Kind == "call" && rt.V == ssa.Value(collCall) && rt.Idx == 0 {
						joinOK = true
						joinCall = call
					}
				}
			}
		}
		if isBuiltinCall(in, "append") {
			appendOK = true
			appends = append(appends, call)
		}
	})
	c.R.Check(rule, "joined-with-dot", pos, joinOK, "the collected chain must be joined with `.` into one reported path")
	c.R.Check(rule, "one-entry-appended", pos, appendOK, "the joined path must be appended to the collected fields")
	// every entry the member-access handler appends to a list of strings is that joined path (a path taken from
	// anywhere else - the source text, a cache - is not the dotted chain of the names: `a!.b`, `a . b`)
	if joinCall != nil {
		for k, ap := range appends {
			if len(ap.Call.Args) != 2 || ap.Call.Args[0].Type().String() != "[]string" {
				continue
			}
			bad := ""
			sl, isSl := ap.Call.Args[1].(*ssa.Slice)
			if !isSl {
				bad = "a whole list is appended"
			} else if al, isAl := sl.X.(*ssa.Alloc); !isAl {
				bad = "a whole list is appended"
			} else if refs := al.Referrers(); refs != nil {
				for _, r := range *refs {
					ia, ok := r.(*ssa.IndexAddr)
					if !ok {
						continue
					}
					if ir := ia.Referrers(); ir != nil {
						for _, u := range *ir {
							if st, ok := u.(*ssa.Store); ok && st.Addr == ssa.Value(ia) {
								fromJoin := st.Val == ssa.Value(joinCall)
								if !fromJoin {
									for _, rt := range plainOrigins.Roots(st.Val) {
										if rt.Kind == "call" && rt.V == ssa.Value(joinCall) && len(rt.Path) == 0 {
											fromJoin = true
										}
									}
								}
								if !fromJoin {
									bad = "the appended entry is " + describeValue(st.Val)
								}
							}
						}
					}
				}
			}
			cons := fmt.Sprintf("appended-entry-is-the-joined-path#%d", k+1)
			if bad == "" {
				c.R.Add(rule, cons, c.P.InstrPos(ap), OK, "")
			} else {
				// not provably wrong: a path of another origin may spell the same chain; the analysis cannot tell
				c.R.Undecided(rule, cons, c.P.InstrPos(ap), "every path the member-access handler reports must be the `.`-join of the collected names; "+bad+": whether that text is the dotted chain of the names (`a!.b`, `a . b`) cannot be decided")
			}
		}
	}
	c.R.Check("C10.child-errors", "SelectorExpression.chain", c.P.InstrPos(collCall), c.errCheckedTuple(h, collCall, 1), "an unsupported base (anything but a name or path) must be refused: the collector's error must be returned")
	// collector: type switch with selector arm (recursive, base first), identifier arm, default error
	var p *ssa.Parameter
	for _, q := range coll.Params {
		if _, ok := q.Type().Underlying().(*types.Interface); ok {
			p = q
		}
	}
	if p == nil {
		c.R.Undecided(rule, "collector-shape", c.P.Pos(coll.Pos()), "collector has no interface parameter")
		return
	}
	arms, deflt := typeSwitchArms(coll, p)
	var selArm, idArm *TSArm
	for i := range arms {
		switch typeName(arms[i].Type) {
		case "SelectorExpression":
			selArm = &arms[i]
		case "Identifier":
			idArm = &arms[i]
		}
	}
	cpos := c.P.Pos(coll.Pos())
	c.R.Check(rule, "collector-selector-arm", cpos, selArm != nil, "the chain collector needs an arm for nested member access")
	c.R.Check(rule, "collector-identifier-arm", cpos, idArm != nil, "the chain collector needs an arm for the base name")
	dd := &Dispatcher{Fn: coll, Arms: arms, Default: deflt}
	okd, why := defaultReturnsError(dd, 1)
	c.R.Check(rule, "collector-default-error", cpos, okd, "member access on anything but a name or path must be an error: "+why)
	if selArm != nil {
		// recursive call on n.Expression, then append(result, n.Name.Value)
		recOK, orderOK := false, false
		stop := map[*ssa.BasicBlock]bool{}
		for _, a := range arms {
			if a.Block != selArm.Block {
				stop[a.Block] = true
			}
		}
		stop[selArm.Next] = true
		for b := range armRegion(selArm.Block, stop) {
			for _, in := range b.Instrs {
				call, ok := in.(*ssa.Call)
				if !ok {
					continue
				}
				if calleeOf(call) == coll {
					for _, rt := range plainOrigins.Roots(call.Call.Args[0]) {
						if len(rt.Path) == 1 && rt.Path[0] == "Expression" {
							recOK = true
						}
					}
				}
				if isBuiltinCall(in, "append") && len(call.Call.Args) == 2 {
					// append(recursive result, [Name.Value])
					base := false
					for _, rt := range plainOrigins.Roots(call.Call.Args[0]) {
						if rt.Kind == "call" && rt.Fn == coll && rt.Idx == 0 {
							base = true
						}
					}
					elem := false
					for _, rt := range plainOrigins.Roots(call.Call.Args[1]) {
						_ = rt
					}
					// the appended element: a one-element slice holding n.Name.Value
					if sl, ok := call.Call.Args[1].(*ssa.Slice); ok {
						if a, ok := sl.X.(*ssa.Alloc); ok {
							for _, ref := range *a.Referrers() {
								if ia, ok := ref.(*ssa.IndexAddr); ok {
									for _, r2 := range *ia.Referrers() {
										if st, ok := r2.(*ssa.Store); ok {
											for _, rt := range plainOrigins.Roots(st.Val) {
												if len(rt.Path) == 2 && rt.Path[0] == "Name" && rt.Path[1] == "Value" {
													elem = true
												}
											}
										}
									}
								}
							}
						}
					}
					orderOK = base && elem
				}
			}
		}
		c.R.Check(rule, "collector-recurses-into-base", cpos, recOK, "the collector must recurse into the base expression of a member access")
		c.R.Check(rule, "collector-base-first", cpos, orderOK, "names must be collected base first: append(<names of the base>, <this member's name>)")
	}
	if idArm != nil {
		// returns []string{n.Value}
		okv := false
		// in the arm: its first block or any block behind it (a guard that refuses a placeholder name comes first)
		for _, ab := range coll.Blocks {
			if ab != idArm.Block && !idArm.Block.Dominates(ab) {
				continue
			}
			for _, in := range ab.Instrs {
				if st, ok := in.(*ssa.Store); ok {
					for _, rt := range plainOrigins.Roots(st.Val) {
						if len(rt.Path) == 1 && rt.Path[0] == "Value" {
							okv = true
						}
					}
				}
			}
		}
		c.R.Check(rule, "collector-identifier-value", cpos, okv, "the base name contributes its Value")
	}
	c.R.Floor(rule, 9)
}

// errCheckedTuple: result #idx of a multi-value call is tested != nil and returned.
func (c *Ctx) errCheckedTuple(f *ssa.Function, call *ssa.Call, idx int) bool {
	for _, ref := range *call.Referrers() {
		ex, ok := ref.(*ssa.Extract)
		if !ok || ex.Index != idx {
			continue
		}
		for _, r2 := range *ex.Referrers() {
			if bo, ok := r2.(*ssa.BinOp); ok && bo.Op == token.NEQ {
				for _, r3 := range *bo.Referrers() {
					if iff, ok := r3.(*ssa.If); ok {
						for _, in := range iff.Block().Succs[0].Instrs {
							if ret, ok := in.(*ssa.Return); ok {
								for _, rv := range ret.Results {
									if rv == ssa.Value(ex) {
										return true
									}
								}
							}
						}
						// ... or the error travels through locals first: every path from the error edge ends in a
						// return whose error result is known to be non-nil
						if c.rejects(iff.Block(), 0, nil, nil) {
							return true
						}
					}
				}
			}
			if _, ok := r2.(*ssa.Return); ok {
				return true
			}
		}
	}
	return false
}

func c10Identifier(c *Ctx, d *Dispatcher) {
	const rule = "C10.identifier"
	h := d.Handlers["Identifier"]
	if h == nil {
		return
	}
	node := c.nodeParamOf(h, "Identifier")
	ok := false
	instrs(h, func(b *ssa.BasicBlock, i int, in ssa.Instruction) {
		if !isBuiltinCall(in, "append") {
			return
		}
		call := in.(*ssa.Call)
		if sl, isSl := call.Call.Args[1].(*ssa.Slice); isSl {
			if a, isA := sl.X.(*ssa.Alloc); isA {
				for _, ref := range *a.Referrers() {
					if ia, isIA := ref.(*ssa.IndexAddr); isIA {
						for _, r2 := range *ia.Referrers() {
							if st, isSt := r2.(*ssa.Store); isSt {
								for _, rt := range plainOrigins.Roots(st.Val) {
									if rt.Kind == "param" && rt.V == ssa.Value(node) && len(rt.Path) == 1 && rt.Path[0] == "Value" {
										ok = true
									}
								}
							}
						}
					}
				}
			}
		}
	})
	c.R.Check(rule, "appends-name", c.P.Pos(h.Pos()), ok, "a bare name must be reported by its Value")
	// the append result is stored back into the collector's field list
	stored := false
	instrs(h, func(b *ssa.BasicBlock, i int, in ssa.Instruction) {
		if st, isSt := in.(*ssa.Store); isSt {
			if fa, isFA := st.Addr.(*ssa.FieldAddr); isFA && fieldName(fa) == "fields" {
				if call, isC := st.Val.(*ssa.Call); isC && isBuiltinCall(call, "append") {
					stored = true
				}
			}
		}
	})
	c.R.Check(rule, "stored-in-collector", c.P.Pos(h.Pos()), stored, "the extended list must be stored back into the collector")
	c.R.Floor(rule, 2)
}

func c10Dedup(c *Ctx, d *Dispatcher) {
	const rule = "C10.dedup-and-filter"
	entry := c.fn("ResolveReferenceFields")
	nl := c.fn("ResolveReferenceFieldsNotLocal")
	if !c.need(rule, entry, "ResolveReferenceFields") || !c.need(rule, nl, "ResolveReferenceFieldsNotLocal") {
		return
	}
	// the collector is a local of the entry and starts from the tree's root expression
	localColl := false
	rootOK := false
	instrs(entry, func(b *ssa.BasicBlock, i int, in ssa.Instruction) {
		call, ok := in.(*ssa.Call)
		if !ok || calleeOf(call) != d.Fn {
			return
		}
		if _, isAlloc := call.Call.Args[0].(*ssa.Alloc); isAlloc {
			localColl = true
		}
		for _, a := range call.Call.Args[1:] {
			for _, rt := range plainOrigins.Roots(a) {
				if rt.Kind == "param" && len(rt.Path) == 1 && rt.Path[0] == "Expression" {
					rootOK = true
				}
			}
		}
	})
	c.R.Check(rule, "per-call-collector", c.P.Pos(entry.Pos()), localColl, "the field collector must be a fresh local of each analysis call")
	c.R.Check(rule, "starts-at-root", c.P.Pos(entry.Pos()), rootOK, "the analysis must start at the source's root expression")
	// the successful return passes the collected slice through a de-duplicating function
	dedupOK := false
	why := ""
	instrs(entry, func(b *ssa.BasicBlock, i int, in ssa.Instruction) {
		ret, ok := in.(*ssa.Return)
		if !ok {
			return
		}
		if k, isK := ret.Results[1].(*ssa.Const); !isK || k.Value != nil {
			return
		}
		for _, rt := range plainOrigins.Roots(ret.Results[0]) {
			if rt.Kind == "call" && rt.Fn != nil && c.inModule(rt.Fn) && c.isDedup(rt.Fn) {
				call := rt.V.(*ssa.Call)
				for _, r2 := range plainOrigins.Roots(call.Call.Args[0]) {
					if len(r2.Path) >= 1 && r2.Path[len(r2.Path)-1] == "fields" || (len(r2.Path) >= 1 && r2.Path[0] == "fields") {
						dedupOK = true
					}
				}
			} else {
				why = "returns " + rt.String()
			}
		}
	})
	c.R.Check(rule, "deduplicated", c.P.Pos(entry.Pos()), dedupOK, "the reported fields must be the collected list passed through de-duplication; "+why)
	// the non-local variant: keep exactly on the false edge of HasPrefix(e, "$")
	filterOK := false
	srcOK := false
	instrs(nl, func(b *ssa.BasicBlock, i int, in ssa.Instruction) {
		call, ok := in.(*ssa.Call)
		if !ok {
			return
		}
		cal := calleeOf(call)
		if cal == entry {
			srcOK = true
		}
		if cal == nil || cal.String() != "strings.HasPrefix" {
			return
		}
		k, isK := call.Call.Args[1].(*ssa.Const)
		if !isK || k.Value == nil || constant.StringVal(k.Value) != "$" {
			return
		}
		iff, isIf := b.Instrs[len(b.Instrs)-1].(*ssa.If)
		if !isIf || iff.Cond != ssa.Value(call) {
			return
		}
		// false edge appends the element, true edge does not
		appendsElem := func(blk *ssa.BasicBlock) bool {
			for _, x := range blk.Instrs {
				if isBuiltinCall(x, "append") {
					return true
				}
			}
			return false
		}
		if appendsElem(b.Succs[1]) && !appendsElem(b.Succs[0]) {
			filterOK = true
		}
	})
	if !filterOK {
		// by cases on the prefix test: with "starts with `$`" no append is reachable, without it one is
		var tests []*ssa.Call
		instrs(nl, func(b *ssa.BasicBlock, i int, in ssa.Instruction) {
			if call, ok := in.(*ssa.Call); ok {
				if cal := calleeOf(call); cal != nil && cal.String() == "strings.HasPrefix" {
					if k, isK := call.Call.Args[1].(*ssa.Const); isK && k.Value != nil && constant.StringVal(k.Value) == "$" {
						tests = append(tests, call)
					}
				}
			}
		})
		if len(tests) == 1 {
			appendReach := func(v bool) bool {
				r := c.foldWith(nl, 0, pinValue(tests[0], constant.MakeBool(v)))
				for _, call := range r.ReachableCalls() {
					if isBuiltinCall(call.(ssa.Instruction), "append") && instrDominates(tests[0], call.(ssa.Instruction)) {
						return true
					}
				}
				return false
			}
			filterOK = !appendReach(true) && appendReach(false)
		}
	}
	if !filterOK {
		// the prefix test written on bytes: `len(e) > 0 && e[0] == '$'` (with the guard holding whenever the byte test
		// can hold); decided by cases as above
		var cmp, guard *ssa.BinOp
		var subject ssa.Value
		ncmp := 0
		instrs(nl, func(b *ssa.BasicBlock, i int, in ssa.Instruction) {
			bo, ok := in.(*ssa.BinOp)
			if !ok {
				return
			}
			if k, isK := constIntArg(bo.Y); isK && k == '$' && bo.Op == token.EQL {
				var sx, si ssa.Value
				switch lk := bo.X.(type) {
				case *ssa.Lookup:
					sx, si = lk.X, lk.Index
				case *ssa.Index:
					sx, si = lk.X, lk.Index
				}
				if sx != nil {
					if i0, isZ := constIntArg(si); isZ && i0 == 0 && sx.Type().String() == "string" {
						cmp = bo
						subject = sx
						ncmp++
					}
				}
			}
		})
		if os.Getenv("FCHECK_DEBUG") != "" {
			fmt.Println("byte prefix test: comparisons found", ncmp)
		}
		if ncmp == 1 {
			instrs(nl, func(b *ssa.BasicBlock, i int, in ssa.Instruction) {
				bo, ok := in.(*ssa.BinOp)
				if !ok {
					return
				}
				lc, isC := bo.X.(*ssa.Call)
				if !isC || !isBuiltinCall(lc, "len") || lc.Call.Args[0] != subject {
					return
				}
				if k, isK := constIntArg(bo.Y); isK && (bo.Op == token.GTR && k == 0 || bo.Op == token.GEQ && k == 1 || bo.Op == token.NEQ && k == 0) {
					guard = bo
				}
			})
			if guard != nil && instrDominates(guard, cmp) {
				appendReach := func(ps ...Pin) bool {
					r := c.foldWith(nl, 0, ps...)
					for _, call := range r.ReachableCalls() {
						if isBuiltinCall(call.(ssa.Instruction), "append") && instrDominates(guard, call.(ssa.Instruction)) {
							return true
						}
					}
					return false
				}
				t, f := constant.MakeBool(true), constant.MakeBool(false)
				if os.Getenv("FCHECK_DEBUG") != "" {
					fmt.Println("byte prefix test:", appendReach(pinValue(guard, t), pinValue(cmp, t)), appendReach(pinValue(guard, t), pinValue(cmp, f)), appendReach(pinValue(guard, f)))
				}
				filterOK = !appendReach(pinValue(guard, t), pinValue(cmp, t)) && appendReach(pinValue(guard, t), pinValue(cmp, f)) && appendReach(pinValue(guard, f))
			}
		}
	}
	if !srcOK && filterOK {
		// the full analysis written out in the non-local entry itself: a local collector started at the root, the
		// filter applied to the de-duplicated fields
		localColl, rootOK, dedup := false, false, false
		instrs(nl, func(b *ssa.BasicBlock, i int, in ssa.Instruction) {
			call, ok := in.(*ssa.Call)
			if !ok {
				return
			}
			if calleeOf(call) == d.Fn {
				if _, isAlloc := call.Call.Args[0].(*ssa.Alloc); isAlloc {
					localColl = true
				}
				for _, a := range call.Call.Args[1:] {
					for _, rt := range plainOrigins.Roots(a) {
						if rt.Kind == "param" && len(rt.Path) == 1 && rt.Path[0] == "Expression" {
							rootOK = true
						}
					}
				}
			}
			if cal := calleeOf(call); cal != nil && c.inModule(cal) && c.isDedup(cal) {
				for _, r2 := range plainOrigins.Roots(call.Call.Args[0]) {
					if len(r2.Path) >= 1 && (r2.Path[len(r2.Path)-1] == "fields" || r2.Path[0] == "fields") {
						// ... and what is filtered is that call's result
						for _, l := range naturalLoops(nl) {
							for bb := range l.Body {
								for _, x := range bb.Instrs {
									if ia, isIA := x.(*ssa.IndexAddr); isIA && ia.X == ssa.Value(call) {
										dedup = true
									}
								}
							}
						}
					}
				}
			}
		})
		if localColl && rootOK && dedup {
			srcOK = true
		}
	}
	if !srcOK && !filterOK {
		// the other design: the non-local variant runs the same analysis with a flag in the collector, and the
		// collector leaves `$` paths out as it goes
		if c.c10FilterWhileCollecting(d, entry, nl) {
			srcOK, filterOK = true, true
		}
	}
	c.R.Check(rule, "non-local-source", c.P.Pos(nl.Pos()), srcOK, "the non-local variant must filter the result of the full analysis")
	c.R.Check(rule, "dollar-filter", c.P.Pos(nl.Pos()), filterOK, "the non-local variant must keep an entry exactly when it does not start with `$`")
	c.R.Floor(rule, 5)
}

// c10FilterWhileCollecting: both entries build a local collector, start the dispatcher at the root and return the
// de-duplicated fields; they differ in a constant boolean field of the collector that is written nowhere else; with the
// non-local entry's value of that field every append to the collected fields sits on the false edge of
// strings.HasPrefix(<the appended path>, "$"), with the other entry's value every append is reached whatever the
// prefix test says.
func (c *Ctx) c10FilterWhileCollecting(d *Dispatcher, entry, nl *ssa.Function) bool {
	type setup struct {
		coll *ssa.Alloc
		flag map[string]bool
		ok   bool
	}
	read := func(f *ssa.Function) setup {
		var st setup
		st.flag = map[string]bool{}
		rootOK, dedupOK := false, false
		instrs(f, func(b *ssa.BasicBlock, i int, in ssa.Instruction) {
			switch x := in.(type) {
			case *ssa.Call:
				if calleeOf(x) != d.Fn {
					return
				}
				if al, isAlloc := x.Call.Args[0].(*ssa.Alloc); isAlloc {
					st.coll = al
				}
				for _, a := range x.Call.Args[1:] {
					for _, rt := range plainOrigins.Roots(a) {
						if rt.Kind == "param" && len(rt.Path) == 1 && rt.Path[0] == "Expression" {
							rootOK = true
						}
					}
				}
			case *ssa.Return:
				if len(x.Results) != 2 || !isNilConst(x.Results[1]) {
					return
				}
				for _, rt := range plainOrigins.Roots(x.Results[0]) {
					if rt.Kind == "call" && rt.Fn != nil && c.inModule(rt.Fn) && c.isDedup(rt.Fn) {
						for _, r2 := range plainOrigins.Roots(rt.V.(*ssa.Call).Call.Args[0]) {
							if len(r2.Path) >= 1 && (r2.Path[len(r2.Path)-1] == "fields" || r2.Path[0] == "fields") {
								dedupOK = true
							}
						}
					}
				}
			}
		})
		if st.coll == nil || !rootOK || !dedupOK {
			return st
		}
		// constant boolean fields stored into the collector here
		for _, ref := range *st.coll.Referrers() {
			fa, isFA := ref.(*ssa.FieldAddr)
			if !isFA {
				continue
			}
			for _, r2 := range *fa.Referrers() {
				if s2, isS := r2.(*ssa.Store); isS && s2.Addr == ssa.Value(fa) {
					if v, isB := constBoolArg(s2.Val); isB {
						st.flag[fieldName(fa)] = v
					} else if isBoolType(s2.Val.Type()) {
						return setup{}
					}
				}
			}
		}
		st.ok = true
		return st
	}
	se, sn := read(entry), read(nl)
	if os.Getenv("FCHECK_DEBUG") != "" {
		fmt.Println("filter-while-collecting: entries", se.ok, se.flag, sn.ok, sn.flag)
	}
	if !se.ok || !sn.ok {
		return false
	}
	collT := namedOf(sn.coll.Type())
	if collT == nil || namedOf(se.coll.Type()) != collT {
		return false
	}
	// the flag: a boolean field of the collector (absent = false, the zero value)
	st, isStruct := collT.Underlying().(*types.Struct)
	if !isStruct {
		return false
	}
	flag := ""
	for i := 0; i < st.NumFields(); i++ {
		f := st.Field(i)
		if isBoolType(f.Type()) && se.flag[f.Name()] != sn.flag[f.Name()] {
			if flag != "" {
				return false
			}
			flag = f.Name()
		}
	}
	if flag == "" {
		return false
	}
	// written nowhere but in the two entries
	clean := true
	for _, f := range c.P.ModFuncs {
		instrs(f, func(b *ssa.BasicBlock, i int, in ssa.Instruction) {
			s2, isS := in.(*ssa.Store)
			if !isS {
				return
			}
			fa, isFA := s2.Addr.(*ssa.FieldAddr)
			if isFA && fieldName(fa) == flag && namedOf(fa.X.Type()) == collT && f != entry && f != nl {
				clean = false
			}
		})
	}
	if !clean {
		return false
	}
	pinFlag := func(v bool) Pin {
		return func(x ssa.Value) (constant.Value, bool) {
			u, ok := x.(*ssa.UnOp)
			if !ok || u.Op != token.MUL {
				return nil, false
			}
			fa, ok := u.X.(*ssa.FieldAddr)
			if !ok || fieldName(fa) != flag || namedOf(fa.X.Type()) != collT {
				return nil, false
			}
			return constant.MakeBool(v), true
		}
	}
	adders := 0
	good := true
	for _, g := range c.P.ModFuncs {
		if len(g.Blocks) == 0 || g.Signature.Recv() == nil || namedOf(g.Signature.Recv().Type()) != collT {
			continue
		}
		var apps []*ssa.Call
		var tests []*ssa.Call
		instrs(g, func(b *ssa.BasicBlock, i int, in ssa.Instruction) {
			call, ok := in.(*ssa.Call)
			if !ok {
				return
			}
			if isBuiltinCall(call, "append") {
				for _, rt := range plainOrigins.Roots(call.Call.Args[0]) {
					if len(rt.Path) >= 1 && rt.Path[len(rt.Path)-1] == "fields" {
						apps = append(apps, call)
						return
					}
				}
			}
			if cal := calleeOf(call); cal != nil && cal.String() == "strings.HasPrefix" {
				if k, isK := call.Call.Args[1].(*ssa.Const); isK && k.Value != nil && constant.StringVal(k.Value) == "$" {
					tests = append(tests, call)
				}
			}
		})
		if len(apps) == 0 {
			continue
		}
		adders++
		if len(tests) != 1 {
			good = false
			continue
		}
		// the test is made on the path that is appended
		same := false
		for _, ap := range apps {
			if len(ap.Call.Args) < 2 {
				continue
			}
			// append(fields, x): x travels in the varargs array
			arr := localArrayLiteral(ap.Call.Args[1])
			if arr == nil {
				continue
			}
			for _, ref := range *arr.Referrers() {
				ia, isIA := ref.(*ssa.IndexAddr)
				if !isIA {
					continue
				}
				for _, r2 := range *ia.Referrers() {
					st, isSt := r2.(*ssa.Store)
					if !isSt || st.Addr != ssa.Value(ia) {
						continue
					}
					if st.Val == tests[0].Call.Args[0] {
						same = true
					}
					ra, rb := plainOrigins.Roots(st.Val), plainOrigins.Roots(tests[0].Call.Args[0])
					if len(ra) == 1 && len(rb) == 1 && ra[0].Kind == rb[0].Kind && ra[0].V == rb[0].V && strings.Join(ra[0].Path, ".") == strings.Join(rb[0].Path, ".") {
						same = true
					}
				}
			}
		}
		reach := func(flagV, prefix bool) bool {
			r := c.foldWith(g, 0, pinFlag(flagV), pinValue(tests[0], constant.MakeBool(prefix)))
			for _, call := range r.ReachableCalls() {
				for _, ap := range apps {
					if call == ssa.CallInstruction(ap) {
						return true
					}
				}
			}
			return false
		}
		nlV, enV := sn.flag[flag], se.flag[flag]
		if os.Getenv("FCHECK_DEBUG") != "" {
			fmt.Println("filter-while-collecting:", g.Name(), "same=", same, "reach(nl,$)=", reach(nlV, true), "reach(nl,-)=", reach(nlV, false), "reach(all,$)=", reach(enV, true), "reach(all,-)=", reach(enV, false))
			for _, ap := range apps {
				fmt.Println("   appended:", plainOrigins.Roots(ap.Call.Args[1]), "tested:", plainOrigins.Roots(tests[0].Call.Args[0]))
			}
		}
		if !same || reach(nlV, true) || !reach(nlV, false) || !reach(enV, true) || !reach(enV, false) {
			good = false
		}
	}
	return good && adders > 0
}

// isDedup: the function inserts every element of its slice parameter into a
// map keyed by the element and builds its result from that map's keys (or
// sorts and compacts).
func (c *Ctx) isDedup(f *ssa.Function) bool {
	if len(f.Params) != 1 {
		return false
	}
	keyed := false
	fromKeys := false
	instrs(f, func(b *ssa.BasicBlock, i int, in ssa.Instruction) {
		if mu, ok := in.(*ssa.MapUpdate); ok {
			for _, rt := range plainOrigins.Roots(mu.Key) {
				if rt.Kind == "param" && len(rt.Path) == 1 && rt.Path[0] == "[]" {
					keyed = true
				}
			}
		}
		if _, ok := in.(*ssa.Range); ok {
			fromKeys = true
		}
	})
	return keyed && fromKeys
}

func c10DataReads(c *Ctx) {
	const rule = "C10.data-reads"
	res := c.method("Runner", "Resolve")
	if !c.need(rule, res, "(*Runner).Resolve") {
		return
	}
	rr := c.ReachFrom("eval+builtins", c.evalRoots()...)
	d := c.EvalDispatcher()
	idH := d.Handlers["Identifier"]
	litH := d.Handlers["LiteralExpression"]
	setter := c.method("Runner", "SetThisValue")
	n := 0
	for _, f := range rr.Order {
		instrs(f, func(b *ssa.BasicBlock, i int, in ssa.Instruction) {
			u, ok := in.(*ssa.UnOp)
			if !ok {
				return
			}
			fa, ok := u.X.(*ssa.FieldAddr)
			if !ok || typeName(fa.X.Type()) != "Runner" || fieldName(fa) != "this" {
				return
			}
			n++
			cons := "read-in:" + c.P.FuncKey(f)
			switch f {
			case idH:
				// indexed by the identifier's Value
				okIdx := false
				for _, ref := range *u.Referrers() {
					if lk, isL := ref.(*ssa.Lookup); isL {
						for _, rt := range plainOrigins.Roots(lk.Index) {
							if len(rt.Path) == 1 && rt.Path[0] == "Value" {
								okIdx = true
							}
						}
					}
				}
				c.R.Check(rule, cons, c.P.InstrPos(in), okIdx, "the identifier handler must index the data map by the identifier's name")
			case litH, setter:
				c.R.Add(rule, cons, c.P.InstrPos(in), OK, "")
			default:
				c.R.Check(rule, cons, c.P.InstrPos(in), false, "the data map is read outside the identifier handler, the `this` literal and the local binder: such a read is invisible to the field analysis")
			}
		})
	}
	_ = n
	c.R.Floor(rule, 2)
}

// evalRoots: Resolve plus every registered builtin (they are invoked reflectively).
func (c *Ctx) evalRoots() []*ssa.Function {
	roots := []*ssa.Function{c.method("Runner", "Resolve")}
	_, es, _ := c.Registry()
	for _, e := range es {
		if e.Fn != nil {
			roots = append(roots, e.Fn)
		}
	}
	return roots
}

// literalLoopVisit: call sits in a loop `for i := range lit` over a slice literal built in f, takes lit[i] as its
// argument, lies on every path through the loop body, and the loop can be left only by exhausting the literal or by
// returning an error. Returns the loop header's branch: every path through it visits all elements or fails.
func (c *Ctx) literalLoopVisit(f *ssa.Function, call *ssa.Call) (ssa.Instruction, bool) {
	// the argument: *(&lit[I])
	var idx ssa.Value
	var arr *ssa.Alloc
	for _, a := range call.Call.Args {
		for {
			if ci, isCI := a.(*ssa.ChangeInterface); isCI {
				a = ci.X
				continue
			}
			if ct, isCT := a.(*ssa.ChangeType); isCT {
				a = ct.X
				continue
			}
			break
		}
		u, ok := a.(*ssa.UnOp)
		if !ok {
			continue
		}
		ia, ok := u.X.(*ssa.IndexAddr)
		if !ok {
			continue
		}
		if al := localArrayLiteral(ia.X); al != nil {
			arr, idx = al, ia.Index
		}
	}
	if arr == nil {
		return nil, false
	}
	return c.loopVisitsAll(f, call, idx, arr, nil)
}

// loopVisitsAll: the loop around call runs idx over every element of the literal array arr (or of the slice
// parameter sp), call lies on every path through the body, and the loop is left only by exhaustion or an error return.
func (c *Ctx) loopVisitsAll(f *ssa.Function, call *ssa.Call, idx ssa.Value, arr *ssa.Alloc, sp ssa.Value) (ssa.Instruction, bool) {
	var n int64 = -1
	if arr != nil {
		at, ok := deref(arr.Type()).Underlying().(*types.Array)
		if !ok {
			return nil, false
		}
		n = at.Len()
	}
	// every element 0..n-1 stored once, at a constant index
	seen := map[int64]int{}
	var refs []ssa.Instruction
	if arr != nil {
		refs = *arr.Referrers()
	}
	for _, ref := range refs {
		ia2, ok := ref.(*ssa.IndexAddr)
		if !ok || ia2.X != ssa.Value(arr) {
			continue
		}
		for _, r2 := range *ia2.Referrers() {
			if st, ok := r2.(*ssa.Store); ok && st.Addr == ssa.Value(ia2) {
				k, isK := constIntArg(ia2.Index)
				if !isK {
					return nil, false
				}
				seen[k]++
			}
		}
	}
	for k := int64(0); k < n; k++ {
		if seen[k] != 1 {
			return nil, false
		}
	}
	// the loop
	for _, l := range naturalLoops(f) {
		if !l.Body[call.Block()] {
			continue
		}
		hif, ok := l.Header.Instrs[len(l.Header.Instrs)-1].(*ssa.If)
		if !ok {
			continue
		}
		bo, ok := hif.Cond.(*ssa.BinOp)
		if !ok || bo.Op != token.LSS || bo.X != idx {
			continue
		}
		// bound: the literal's length / the slice parameter's length
		bound := false
		if k, isK := constIntArg(bo.Y); isK && arr != nil && k == n {
			bound = true
		}
		if lc, isC := bo.Y.(*ssa.Call); isC && isBuiltinCall(lc, "len") {
			if arr != nil && localArrayLiteral(lc.Call.Args[0]) == arr {
				bound = true
			}
			if sp != nil && lc.Call.Args[0] == sp {
				bound = true
			}
		}
		// index: phi(-1, idx) + 1
		inc, isInc := idx.(*ssa.BinOp)
		if !bound || !isInc || inc.Op != token.ADD {
			continue
		}
		phi, isPhi := inc.X.(*ssa.Phi)
		one, isOne := constIntArg(inc.Y)
		if !isPhi || !isOne || one != 1 || phi.Block() != l.Header {
			continue
		}
		start := false
		for _, e := range phi.Edges {
			if k, isK := constIntArg(e); isK && k == -1 {
				start = true
			} else if e != idx {
				start = false
				break
			}
		}
		if !start || !l.Body[l.Header.Succs[0]] {
			continue
		}
		// the call lies on every path from the body entry back to the header
		body := l.Header.Succs[0]
		skip := pathExists(f, body.Instrs[0], func(x ssa.Instruction) bool { return x.Block() == l.Header }, func(x ssa.Instruction) bool { return x == ssa.Instruction(call) }, func(b *ssa.BasicBlock, k int) bool {
			return l.Body[b.Succs[k]]
		})
		if body.Instrs[0] == ssa.Instruction(call) {
			skip = false
		}
		if skip {
			continue
		}
		// other exits of the loop are error returns
		okExits := true
		for b := range l.Body {
			for _, sx := range b.Succs {
				if l.Body[sx] || b == l.Header {
					continue
				}
				ret, isRet := sx.Instrs[len(sx.Instrs)-1].(*ssa.Return)
				// the error result: the last result of the function
				if !isRet || len(ret.Results) == 0 || ret.Results[len(ret.Results)-1].Type().String() != "error" || !errorPropagatingReturn(ret, len(ret.Results)-1) {
					okExits = false
				}
			}
		}
		if !okExits {
			continue
		}
		return hif, true
	}
	return nil, false
}

// sliceVisitor: g hands every element of one of its slice parameters to disp, in order, and stops only at an error
// (`for _, ch := range children { if err := r.resolve(ch); err != nil { return err } }; return nil`). Returns the
// index of that parameter, or -1.
func (c *Ctx) sliceVisitor(g, disp *ssa.Function) int {
	if g == nil || len(g.Blocks) == 0 {
		return -1
	}
	for _, call := range callsTo(g, disp) {
		for _, a := range call.Call.Args {
			for {
				if ci, isCI := a.(*ssa.ChangeInterface); isCI {
					a = ci.X
					continue
				}
				if ct, isCT := a.(*ssa.ChangeType); isCT {
					a = ct.X
					continue
				}
				break
			}
			u, ok := a.(*ssa.UnOp)
			if !ok {
				continue
			}
			ia, ok := u.X.(*ssa.IndexAddr)
			if !ok {
				continue
			}
			sp, ok := ia.X.(*ssa.Parameter)
			if !ok {
				continue
			}
			if _, isSl := sp.Type().Underlying().(*types.Slice); !isSl {
				continue
			}
			if _, ok := c.loopVisitsAll(g, call, ia.Index, nil, ssa.Value(sp)); !ok {
				continue
			}
			// after exhaustion the function succeeds: every return outside the loop is a nil error
			okTail := true
			instrs(g, func(b *ssa.BasicBlock, i int, in ssa.Instruction) {
				ret, isR := in.(*ssa.Return)
				if !isR || len(ret.Results) == 0 {
					return
				}
				last := ret.Results[len(ret.Results)-1]
				if !isNilConst(last) && !errorPropagatingReturn(ret, len(ret.Results)-1) {
					okTail = false
				}
			})
			if okTail {
				return paramIndex(sp)
			}
		}
	}
	return -1
}

// inlineArmCoverage: an arm of the dispatcher's type switch that visits its children itself. Every value child must
// be handed to the dispatcher on every path from the arm to a successful return inside the arm, with the error
// returned. Returns the number of children examined.
func (c *Ctx) inlineArmCoverage(rule string, d *Dispatcher, arm TSArm, name string, single, lists []string) int {
	f := d.Fn
	inArm := func(b *ssa.BasicBlock) bool { return b == arm.Block || arm.Block.Dominates(b) }
	vs := c.visitsOfDepth(f, f, d.Param, "", 0)
	n := 0
	for _, fld := range single {
		n++
		cons := name + "." + fld
		if name == "CallExpression" && fld == "Expression" {
			visited := false
			for _, v := range vs {
				if v.Field == fld && inArm(v.Call.Block()) {
					visited = true
				}
			}
			c.R.Check(rule, cons+":not-visited", c.P.Pos(arm.Block.Instrs[0].Pos()), !visited, "the callee position of a call is not a value read and must not be reported as a field")
			continue
		}
		var calls []*ssa.Call
		for _, v := range vs {
			if v.Field == fld && !v.ViaAt && inArm(v.Call.Block()) {
				calls = append(calls, v.Call)
			}
		}
		if len(calls) == 0 {
			c.R.Check(rule, cons, c.P.Pos(f.Pos()), false, "child "+fld+" of *"+name+" is never handed to the analysis: names read there are not reported")
			continue
		}
		isVisit := func(in ssa.Instruction) bool {
			for _, cl := range calls {
				if in == ssa.Instruction(cl) {
					return true
				}
			}
			return false
		}
		missing := ""
		for _, b := range f.Blocks {
			if !inArm(b) {
				continue
			}
			ret, ok := b.Instrs[len(b.Instrs)-1].(*ssa.Return)
			if !ok || errorPropagatingReturn(ret, 0) {
				continue
			}
			// the tail call form `return r.visit(n.Child)` returns the visit's own result
			direct := false
			for _, cl := range calls {
				if len(ret.Results) == 1 && ret.Results[0] == ssa.Value(cl) {
					direct = true
				}
			}
			if direct {
				continue
			}
			if pathExists(f, arm.Block.Instrs[0], func(x ssa.Instruction) bool { return x == ssa.Instruction(ret) }, isVisit, func(bb *ssa.BasicBlock, k int) bool { return inArm(bb.Succs[k]) }) {
				missing = c.P.InstrPos(ret)
			}
		}
		c.R.Check(rule, cons, c.P.InstrPos(calls[0]), missing == "", "there is a path to the successful return at "+missing+" that does not visit child "+fld+" of *"+name)
		for _, cl := range calls {
			c.R.Check("C10.child-errors", cons, c.P.InstrPos(cl), c.errChecked(f, cl), "the error of visiting "+fld+" must be returned (directly or after a `!= nil` test)")
		}
	}
	for _, fld := range lists {
		n++
		cons := name + "." + fld
		var hit *visit
		for i := range vs {
			v := &vs[i]
			if v.Field != fld || !v.ViaAt {
				continue
			}
			if v.Via != nil && inArm(v.Via.Block()) || v.Via == nil && inArm(v.Call.Block()) {
				hit = v
			}
		}
		if hit == nil {
			c.R.Check(rule, cons, c.P.Pos(f.Pos()), false, "the elements of "+fld+" of *"+name+" are never handed to the analysis")
			continue
		}
		var at *ssa.Call
		for _, a := range hit.Call.Call.Args {
			for _, rt := range plainOrigins.Roots(a) {
				if rt.Kind == "call" {
					at, _ = rt.V.(*ssa.Call)
				}
			}
		}
		okLoop, why := true, ""
		if !hit.Full {
			okLoop, why = c.countingLoopOver(hit.Fn, at)
		}
		c.R.Check(rule, cons, c.P.InstrPos(hit.Call), okLoop, "every element of "+fld+" must be visited: "+why)
		c.R.Check("C10.child-errors", cons, c.P.InstrPos(hit.Call), c.errChecked(hit.Fn, hit.Call), "the error of visiting an element of "+fld+" must be returned")
		if hit.Via != nil {
			c.R.Check("C10.child-errors", cons+":helper", c.P.InstrPos(hit.Via), c.errChecked(f, hit.Via), "the error of the helper that visits "+fld+" must be returned")
		} else {
			c.R.Check(rule, cons+":guards", c.P.InstrPos(hit.Call), c.onlyEmptinessGuardsWithin(f, hit.Call, d.Param, fld, arm.Block), "the element loop must not be skipped by a condition other than the list being absent or empty")
		}
		continue
		c.R.Undecided(rule, name+"."+fld, c.P.Pos(f.Pos()), "list children visited inside the dispatcher's own arm are not analysed")
	}
	return n
}

// c10ByReference: every visitor works on the one collector of the analysis call. A visitor that receives the collector
// by value (a value receiver, a struct parameter, a copy `*r`) appends to the field list of its own copy: the names
// found below it are dropped when it returns. Decided: no function reachable from the analysis entry has a parameter
// of the collector's struct type, and none loads a whole collector through a pointer.
func c10ByReference(c *Ctx, d *Dispatcher) {
	const rule = "C10.collector-by-reference"
	entry := c.fn("ResolveReferenceFields")
	if entry == nil || d == nil || d.Fn == nil || len(d.Fn.Params) == 0 {
		return
	}
	coll := namedOf(deref(d.Fn.Params[0].Type()))
	if coll == nil {
		c.R.Undecided(rule, "collector-type", c.P.Pos(d.Fn.Pos()), "the dispatcher's first parameter is not a pointer to a named collector type")
		return
	}
	if _, isPtr := d.Fn.Params[0].Type().Underlying().(*types.Pointer); !isPtr {
		c.R.Check(rule, c.P.FuncKey(d.Fn), c.P.Pos(d.Fn.Pos()), false, "the dispatcher itself takes the collector by value")
		return
	}
	isColl := func(t types.Type) bool {
		n, ok := t.(*types.Named)
		return ok && n.Obj() == coll.Obj()
	}
	rr := c.ReachFrom("fields-entry", entry, c.fn("ResolveReferenceFieldsNotLocal"))
	n := 0
	for _, f := range rr.Order {
		if len(f.Blocks) == 0 {
			continue
		}
		touches := false
		for _, p := range f.Params {
			if isColl(deref(p.Type())) {
				touches = true
			}
		}
		bad := ""
		for _, p := range f.Params {
			if isColl(p.Type()) {
				bad = "parameter `" + p.Name() + "` is a copy of the collector"
			}
		}
		instrs(f, func(b *ssa.BasicBlock, i int, in ssa.Instruction) {
			if u, ok := in.(*ssa.UnOp); ok && u.Op == token.MUL && isColl(u.Type()) {
				// a load of a whole collector; the entry's own initialisation of its local is a store, not a load
				bad = "the collector is copied at " + c.P.InstrPos(in)
				touches = true
			}
		})
		if !touches {
			continue
		}
		n++
		c.R.Check(rule, c.P.FuncKey(f), c.P.Pos(f.Pos()), bad == "", "the field collector must be shared by reference among the visitors: "+bad+"; names appended below this point land in the copy and are lost (a name read only under this construct is not reported)")
	}
	c.R.Floor(rule, 5)
}

// byReference: no function reachable from the given roots receives a value of the named struct type itself (value
// receiver, struct parameter) or loads a whole one through a pointer: the state lives in one object that everything
// shares. A helper working on a copy loses what it stores (a runner copy that has no data map yet creates the map on
// the copy: locals bound below it are gone when it returns).
func (c *Ctx) byReference(rule string, nt *types.Named, what string, roots ...*ssa.Function) {
	if nt == nil {
		return
	}
	isT := func(t types.Type) bool {
		n, ok := t.(*types.Named)
		return ok && n.Obj() == nt.Obj()
	}
	rr := c.ReachFrom("byref:"+nt.Obj().Name(), roots...)
	n := 0
	for _, f := range rr.Order {
		if len(f.Blocks) == 0 {
			continue
		}
		touches := false
		bad := ""
		for _, p := range f.Params {
			if isT(deref(p.Type())) {
				touches = true
			}
			if isT(p.Type()) {
				bad = "parameter `" + p.Name() + "` is a copy of the " + what
			}
		}
		instrs(f, func(b *ssa.BasicBlock, i int, in ssa.Instruction) {
			if u, ok := in.(*ssa.UnOp); ok && u.Op == token.MUL && isT(u.Type()) {
				bad = "the " + what + " is copied at " + c.P.InstrPos(in)
				touches = true
			}
		})
		if !touches {
			continue
		}
		n++
		c.R.Check(rule, c.P.FuncKey(f), c.P.Pos(f.Pos()), bad == "", "the "+what+" must be shared by reference: "+bad+"; what is stored through the copy (a data map created on first use, a local bound there) is lost when the function returns")
	}
	c.R.Floor(rule, 5)
}

// c10NameClass: a name in the tree is any token of the identifier class - after a dot a keyword is a name too
// (`order.this`, `row.null`, `cfg.typeof.max`), and the node records the keyword's own kind as its original token. The
// analysis (and the collector it shares with the evaluator) must therefore not take "original token is not
// SK_Identifier" for "not a name": a test of Identifier.OriginalToken for (in)equality with that one constant whose
// unequal edge ends in an error refuses paths the evaluator reads.
func c10NameClass(c *Ctx) {
	const rule = "C10.names-are-the-identifier-class"
	ident := c.SK("SK_Identifier")
	roots := []*ssa.Function{c.fn("ResolveReferenceFields"), c.fn("ResolveReferenceFieldsNotLocal")}
	rr := c.ReachFrom("c10-name-class", roots...)
	n := 0
	// the test made in a predicate (`func isMissing(id) bool { return id == nil || id.OriginalToken != SK_Identifier }`)
	// whose callers refuse on its answer
	for _, f := range rr.Order {
		if f.Signature.Results().Len() != 1 || !isBoolType(f.Signature.Results().At(0).Type()) {
			continue
		}
		var test ssa.Instruction
		instrs(f, func(b *ssa.BasicBlock, i int, in ssa.Instruction) {
			bo, ok := in.(*ssa.BinOp)
			if !ok || (bo.Op != token.EQL && bo.Op != token.NEQ) {
				return
			}
			var fld ssa.Value
			if k, isK := constIntArg(bo.Y); isK && k == ident {
				fld = bo.X
			} else if k, isK := constIntArg(bo.X); isK && k == ident {
				fld = bo.Y
			}
			if u, isU := fld.(*ssa.UnOp); isU {
				if fa, isFA := u.X.(*ssa.FieldAddr); isFA && fieldName(fa) == "OriginalToken" {
					test = in
				}
			}
		})
		if test == nil {
			continue
		}
		for _, g := range rr.Order {
			instrs(g, func(b *ssa.BasicBlock, i int, in ssa.Instruction) {
				iff, ok := in.(*ssa.If)
				if !ok {
					return
				}
				cond := iff.Cond
				if u, isU := cond.(*ssa.UnOp); isU && u.Op == token.NOT {
					cond = u.X
				}
				call, ok := cond.(*ssa.Call)
				if !ok || calleeOf(call) != f {
					return
				}
				if c.blockReturnsError(b.Succs[0]) || c.blockReturnsError(b.Succs[1]) {
					n++
					c.R.Add(rule, fmt.Sprintf("%s:refusal-on-%s#%d", c.P.FuncKey(g), f.Name(), n), c.P.InstrPos(in), Violation, "a name is refused on the answer of "+c.P.FuncKey(f)+", which compares Identifier.OriginalToken with SK_Identifier itself ("+c.P.InstrPos(test)+"): after a dot every keyword is a name (`order.this`, `row.null`), recorded with its own token kind; the class test is IsIdentifier()")
				}
			})
		}
	}
	for _, f := range rr.Order {
		instrs(f, func(b *ssa.BasicBlock, i int, in ssa.Instruction) {
			iff, ok := in.(*ssa.If)
			if !ok {
				return
			}
			conds := conjunctsOf(iff.Cond, 0)
			disj := false
			if conds == nil {
				// `a || b` lowered to a value: the true edge is taken when any of them holds
				if ds := junctsOf(iff.Cond, "||", 0); ds != nil {
					conds, disj = ds, true
				} else {
					conds = []ssa.Value{iff.Cond}
				}
			}
			for _, cd := range conds {
				bo, ok := cd.(*ssa.BinOp)
				if !ok || (bo.Op != token.EQL && bo.Op != token.NEQ) {
					continue
				}
				if disj && bo.Op != token.NEQ {
					continue
				}
				var fld ssa.Value
				if k, isK := constIntArg(bo.Y); isK && k == ident {
					fld = bo.X
				} else if k, isK := constIntArg(bo.X); isK && k == ident {
					fld = bo.Y
				}
				u, isU := fld.(*ssa.UnOp)
				if !isU {
					continue
				}
				fa, isFA := u.X.(*ssa.FieldAddr)
				if !isFA || fieldName(fa) != "OriginalToken" {
					continue
				}
				n++
				ne := 1 // successor on which the token is NOT SK_Identifier
				if bo.Op == token.NEQ {
					ne = 0
				}
				refuses := c.blockReturnsError(b.Succs[ne]) || c.rejects(b, ne, nil, nil)
				c.R.Check(rule, fmt.Sprintf("%s:original-token-test#%d", c.P.FuncKey(f), n), c.P.InstrPos(in), !refuses, "a name whose original token is not SK_Identifier is refused: after a dot every keyword is a name (`order.this`, `row.null`), recorded with its own token kind; the class test is IsIdentifier()")
			}
		})
	}
	c.R.Analysed["original_token_tests_in_analysis"] = n
}
