package main

import (
	"fmt"
	"go/constant"
	"go/token"

	"golang.org/x/tools/go/ssa"
)

// c15ExplicitSpans: a scanner diagnostic raised with an explicit (position, length) must lie within the text. For a
// constant length >= 1 that means the position is a byte the scanner has not run past: the position argument has to be
// the scanner position read under the guard `pos < end` with no write to the position since the guard, or a local that
// only ever holds such reads (its zero-value initialiser aside). A position read after the scan loop - where pos may
// equal end - puts the span [len(text), len(text)+1) outside the text and moves the reported column past the culprit.
//
// Decided: the structural shape of the position argument at each site. Not decided: spans whose length is computed.
func c15ExplicitSpans(c *Ctx) {
	const rule = "C15.explicit-span-within-text"
	// reporters that forward (message, position, length) to the error callback
	explicit := map[*ssa.Function][2]int{}
	for f := range c.scannerDiagFns() {
		instrs(f, func(b *ssa.BasicBlock, i int, in ssa.Instruction) {
			call, ok := in.(*ssa.Call)
			if !ok || call.Call.StaticCallee() != nil || call.Call.IsInvoke() || len(call.Call.Args) != 3 {
				return
			}
			if u, ok := call.Call.Value.(*ssa.UnOp); !ok || !isScannerField(u.X, "onError") {
				return
			}
			pi, li := -1, -1
			for k, p := range f.Params {
				if call.Call.Args[1] == ssa.Value(p) {
					pi = k
				}
				if call.Call.Args[2] == ssa.Value(p) {
					li = k
				}
			}
			if pi >= 0 && li >= 0 {
				explicit[f] = [2]int{pi, li}
			}
		})
	}
	if len(explicit) == 0 {
		c.R.Undecided(rule, "reporter", "-", "no scanner error reporter that takes an explicit position and length")
		return
	}
	pw := c.PosWriters()
	per := map[string]int{}
	for _, g := range c.P.ModFuncs {
		if len(g.Blocks) == 0 {
			continue
		}
		g := g
		writes := func(in ssa.Instruction) bool {
			if st, ok := in.(*ssa.Store); ok && isScannerField(st.Addr, "pos") {
				return true
			}
			if call, ok := in.(ssa.CallInstruction); ok {
				if cal := calleeOf(call); cal != nil {
					return pw[cal]
				}
			}
			return false
		}
		isLoad := func(v ssa.Value, field string) bool {
			u, ok := v.(*ssa.UnOp)
			return ok && u.Op == token.MUL && isScannerField(u.X, field)
		}
		// guards: blocks ending in `if pos < end` (or an equivalent form); the successor index that holds under it
		type guard struct {
			iff  *ssa.If
			succ int
		}
		var guards []guard
		for _, b := range g.Blocks {
			iff, ok := b.Instrs[len(b.Instrs)-1].(*ssa.If)
			if !ok {
				continue
			}
			bo, ok := iff.Cond.(*ssa.BinOp)
			if !ok {
				continue
			}
			switch {
			case bo.Op == token.LSS && isLoad(bo.X, "pos") && isLoad(bo.Y, "end"), bo.Op == token.GTR && isLoad(bo.X, "end") && isLoad(bo.Y, "pos"):
				guards = append(guards, guard{iff, 0})
			case bo.Op == token.GEQ && isLoad(bo.X, "pos") && isLoad(bo.Y, "end"), bo.Op == token.LEQ && isLoad(bo.X, "end") && isLoad(bo.Y, "pos"):
				guards = append(guards, guard{iff, 1})
			}
		}
		guarded := func(v ssa.Value) (bool, string) {
			u, ok := v.(*ssa.UnOp)
			if !ok || !isLoad(v, "pos") {
				return false, "not a read of the scanner position"
			}
			for _, gd := range guards {
				t := gd.iff.Block().Succs[gd.succ]
				if len(t.Preds) != 1 || !(t == u.Block() || t.Dominates(u.Block())) {
					continue
				}
				stale := false
				instrs(g, func(b *ssa.BasicBlock, i int, w ssa.Instruction) {
					if stale || !writes(w) {
						return
					}
					if pathExists(g, w, func(x ssa.Instruction) bool { return x == ssa.Instruction(u) }, func(x ssa.Instruction) bool { return x == ssa.Instruction(gd.iff) }, nil) {
						stale = true
					}
				})
				if !stale {
					return true, ""
				}
				return false, "the position is read after it was advanced past the byte the guard `pos < end` vouched for"
			}
			return false, "the position is read where `pos < end` is not known to hold (after the scan loop pos may equal end)"
		}
		var inText func(v ssa.Value, seen map[ssa.Value]bool) (bool, string)
		inText = func(v ssa.Value, seen map[ssa.Value]bool) (bool, string) {
			if seen[v] {
				return true, ""
			}
			seen[v] = true
			switch x := v.(type) {
			case *ssa.Phi:
				for _, e := range x.Edges {
					if k, ok := e.(*ssa.Const); ok && k.Value != nil && k.Value.Kind() == constant.Int {
						if n, _ := constant.Int64Val(k.Value); n == 0 {
							continue // the zero value the local starts with
						}
					}
					if ok, why := inText(e, seen); !ok {
						return false, why
					}
				}
				return true, ""
			}
			return guarded(v)
		}
		instrs(g, func(b *ssa.BasicBlock, i int, in ssa.Instruction) {
			call, ok := in.(*ssa.Call)
			if !ok {
				return
			}
			idx, ok := explicit[calleeOf(call)]
			if !ok {
				return
			}
			key := c.P.FuncKey(g)
			per[key]++
			cons := fmt.Sprintf("%s: span#%d", key, per[key])
			posArg, lenArg := call.Call.Args[idx[0]], call.Call.Args[idx[1]]
			if n, isConst := constIntArg(lenArg); isConst {
				if n <= 0 {
					c.R.Check(rule, cons, c.P.InstrPos(in), n == 0, "negative span length")
					return
				}
				good, why := inText(posArg, map[ssa.Value]bool{})
				c.R.Check(rule, cons, c.P.InstrPos(in), good, fmt.Sprintf("a diagnostic of length %d is raised at a position that is not known to be inside the text: %s; at the end of the text the span becomes [len(text), len(text)+%d) and the reported column points past the offending character", n, why, n))
				return
			}
			// computed length: the start must at least be a scanner position (<= end) read before the length is produced
			good := isLoad(posArg, "pos")
			if lc, ok := lenArg.(ssa.Instruction); ok && good {
				good = instrDominates(posArg.(ssa.Instruction), lc)
				// the width of the rune decoded at the position, with the position untouched since: [pos, pos+size)
				// is that rune
				if ex, isEx := lenArg.(*ssa.Extract); !good && isEx && ex.Index == 1 {
					if dec, isCall := ex.Tuple.(*ssa.Call); isCall && calleeOf(dec) != nil && calleeOf(dec).String() == "unicode/utf8.DecodeRune" && instrDominates(dec, in) {
						moved := false
						instrs(g, func(_ *ssa.BasicBlock, _ int, w ssa.Instruction) {
							if moved || !writes(w) || w == in {
								return
							}
							isW := func(x ssa.Instruction) bool { return x == w }
							isDec := func(x ssa.Instruction) bool { return x == ssa.Instruction(dec) }
							isCallIn := func(x ssa.Instruction) bool { return x == in }
							if pathExists(g, dec, isW, isCallIn, nil) && pathExists(g, w, isCallIn, isDec, nil) {
								moved = true
							}
						})
						good = !moved
					}
				}
			}
			c.R.Check(rule, cons+" (computed length)", c.P.InstrPos(in), good, "the start of a computed-length span must be the scanner position read before the spanned text is consumed")
		})
	}
	c.R.Floor(rule, 5)
}
