package main

import (
	"fmt"
	"go/token"
	"go/types"
	"os"
	"sort"
	"strings"

	"golang.org/x/tools/go/ssa"
)

// Pure memo tables.
//
// A package-level sync.Map is hidden state, and the no-global-write rules of C08/C09 report every store into one
// outside init. One use is harmless by construction: a memo of a pure function, `if v, ok := m.Load(k); ok { use v };
// v := f(k); m.Store(k, v)`, where the stored value is determined by the key alone. Whatever was evaluated before, and
// whichever goroutine filled the entry, a Load(k) yields f(k): results cannot depend on history, and sync.Map makes
// the accesses race free. The table is accepted when ALL of the following are read off the code:
//
//   - the variable is used only as the receiver of Load, Store and LoadOrStore (no Delete, Range, Swap, no address taken);
//   - at every Store / LoadOrStore the value is a function of the key: its backward slice ends in the key, in constants,
//     in package-level variables written by init only, and passes only through deterministic operations: conversions,
//     arithmetic, field reads, calls of listed library functions (regexp.Compile, strings.*, strconv.*, reflect.Type
//     methods, ...) and of module functions that are themselves pure (same discipline, no writes outside fresh objects);
//     a phi is accepted when the branch conditions that select between its edges are functions of the key too, or the
//     hit flag of a Load of this table with the same key;
//   - a fresh object in the slice (a new struct, slice or map) is written only with such values, and only in the
//     function that creates it;
//   - a value obtained by Load is never written through (no store under it, not handed to a callee that writes through
//     that parameter) and is not returned by an exported function when it is a reference (slice, map, pointer to a
//     module struct): the caller could change the shared entry.
//
// A memo keyed on too little (a call name for a plan derived from the function's type), validated by hand, or emptied
// by an invalidation protocol does not fit: it stays reported.
type PureMemo struct {
	G         *ssa.Global
	Stores    int
	Loads     int
	CompileOf bool            // every stored value is regexp.Compile/MustCompile(key)
	CompileAt map[string]bool // or a fresh struct whose field of this name is (at every store)
	Why       string          // when not a pure memo: the first reason
}

var memoCache = map[*Ctx]map[*ssa.Global]*PureMemo{}

func (c *Ctx) pureMemos() map[*ssa.Global]*PureMemo {
	if m, ok := memoCache[c]; ok {
		return m
	}
	out := map[*ssa.Global]*PureMemo{}
	memoCache[c] = out
	reg, _, _ := c.Registry()
	var cands []*ssa.Global
	for _, m := range c.P.Pkg.Members {
		if g, ok := m.(*ssa.Global); ok && g != reg && deref(g.Type()).String() == "sync.Map" {
			cands = append(cands, g)
		}
	}
	sort.Slice(cands, func(i, j int) bool { return cands[i].Name() < cands[j].Name() })
	for _, g := range cands {
		out[g] = c.judgeMemo(g)
		if os.Getenv("FCHECK_DEBUG") != "" {
			fmt.Fprintf(os.Stderr, "memo: %s: stores=%d loads=%d why=%q\n", g.Name(), out[g].Stores, out[g].Loads, out[g].Why)
		}
	}
	return out
}

// isPureMemo: g is an accepted memo table.
func (c *Ctx) isPureMemo(g *ssa.Global) *PureMemo {
	if m := c.pureMemos()[g]; m != nil && m.Why == "" {
		return m
	}
	return nil
}

func (c *Ctx) judgeMemo(g *ssa.Global) *PureMemo {
	m := &PureMemo{G: g, CompileOf: true}
	fail := func(why string) *PureMemo {
		if m.Why == "" {
			m.Why = why
		}
		return m
	}
	type access struct {
		fn   *ssa.Function
		call *ssa.Call
		kind string
	}
	var accs []access
	for _, f := range c.P.ModFuncs {
		instrs(f, func(b *ssa.BasicBlock, i int, in ssa.Instruction) {
			var ops []*ssa.Value
			uses := false
			for _, op := range in.Operands(ops) {
				if *op == ssa.Value(g) {
					uses = true
				}
			}
			if !uses {
				return
			}
			call, ok := in.(*ssa.Call)
			if !ok {
				fail("used other than as a receiver: " + in.String())
				return
			}
			cal := calleeOf(call)
			if cal == nil || len(call.Call.Args) == 0 || call.Call.Args[0] != ssa.Value(g) {
				fail("used other than as a receiver: " + in.String())
				return
			}
			switch cal.String() {
			case "(*sync.Map).Load":
				accs = append(accs, access{f, call, "load"})
			case "(*sync.Map).Store":
				accs = append(accs, access{f, call, "store"})
			case "(*sync.Map).LoadOrStore":
				accs = append(accs, access{f, call, "loadorstore"})
			default:
				fail("method " + cal.Name() + " is not part of a memo")
			}
		})
	}
	if m.Why != "" {
		return m
	}
	for _, a := range accs {
		if isInitFn(a.fn) {
			return fail("filled by init: a table, not a memo")
		}
		switch a.kind {
		case "load":
			m.Loads++
			if why := c.memoLoadedValueShared(a.fn, a.call, 0); why != "" {
				return fail(why)
			}
		case "loadorstore":
			m.Loads++
			if why := c.memoLoadedValueShared(a.fn, a.call, 0); why != "" {
				return fail(why)
			}
			fallthrough
		case "store":
			m.Stores++
			key, val := stripIface(a.call.Call.Args[1]), stripIface(a.call.Call.Args[2])
			pc := &pureCheck{c: c, memo: g, leaves: map[ssa.Value]bool{key: true, a.call.Call.Args[1]: true}, key: key, fn: a.fn, seen: map[ssa.Value]bool{}}
			if why := pc.pure(val, 0); why != "" {
				return fail("the stored value is not a function of the key alone: " + why)
			}
			// a computation that can fail is remembered only when it did not: the store sits behind the `err == nil`
			// edge of every call in the value's slice that also returns an error (otherwise the first call reports the
			// error and every later one finds the zero value under the key)
			for _, cl := range pc.calls {
				if cl.Parent() != a.fn {
					continue
				}
				tup, isTup := cl.Type().(*types.Tuple)
				if !isTup {
					continue
				}
				for i := 0; i < tup.Len(); i++ {
					if tup.At(i).Type().String() != "error" {
						continue
					}
					if !errCheckedBefore(cl, i, a.call) {
						return fail("the value is stored before the error of " + describeValue(cl) + " is checked: a failed computation is remembered as its zero value")
					}
				}
			}
			if !isCompileOf(val, key) {
				m.CompileOf = false
			}
			// a fresh struct with the compiled expression in one of its fields
			here := map[string]bool{}
			if al, isAl := val.(*ssa.Alloc); isAl {
				if refs := al.Referrers(); refs != nil {
					for _, r := range *refs {
						fa, ok := r.(*ssa.FieldAddr)
						if !ok {
							continue
						}
						nst, good := 0, true
						if fr := fa.Referrers(); fr != nil {
							for _, u := range *fr {
								if st, ok := u.(*ssa.Store); ok && st.Addr == ssa.Value(fa) {
									if instrDominates(a.call, st) {
										return fail("the record is still written after it has been stored in the table (" + c.P.InstrPos(st) + "): other goroutines already read it")
									}
									nst++
									if !isCompileOf(st.Val, key) {
										good = false
									}
								}
							}
						}
						if nst > 0 && good {
							here[fieldName(fa)] = true
						}
					}
				}
			}
			if m.CompileAt == nil {
				m.CompileAt = here
			} else {
				for k := range m.CompileAt {
					if !here[k] {
						delete(m.CompileAt, k)
					}
				}
			}
		}
	}
	if m.Stores == 0 {
		return fail("never stored to")
	}
	return m
}

func isCompileOf(val, key ssa.Value) bool {
	if ex, ok := val.(*ssa.Extract); ok {
		val = ex.Tuple
	}
	call, ok := val.(*ssa.Call)
	if !ok {
		return false
	}
	cal := calleeOf(call)
	if cal == nil || len(call.Call.Args) != 1 {
		return false
	}
	switch cal.String() {
	case "regexp.Compile", "regexp.MustCompile":
		return stripIface(call.Call.Args[0]) == key
	}
	return false
}

// memoLoadedValueShared: the value handed out by a Load / LoadOrStore is shared by everything that asks for the key;
// returns the reason when the code may change it or lets a caller of the exported API change it.
func (c *Ctx) memoLoadedValueShared(f *ssa.Function, call *ssa.Call, depth int) string {
	// the values derived from result #0 by assertions and conversions of representation
	derived := map[ssa.Value]bool{}
	var work []ssa.Value
	for _, r := range *call.Referrers() {
		if ex, ok := r.(*ssa.Extract); ok && ex.Index == 0 {
			derived[ex] = true
			work = append(work, ex)
		}
	}
	for len(work) > 0 {
		v := work[0]
		work = work[1:]
		refs := v.Referrers()
		if refs == nil {
			continue
		}
		for _, r := range *refs {
			switch x := r.(type) {
			case *ssa.TypeAssert, *ssa.ChangeType, *ssa.ChangeInterface, *ssa.MakeInterface, *ssa.Phi:
				xv := x.(ssa.Value)
				if !derived[xv] {
					derived[xv] = true
					work = append(work, xv)
				}
			case *ssa.Extract:
				if !derived[x] {
					derived[x] = true
					work = append(work, x)
				}
			}
		}
	}
	isRef := func(t types.Type) bool {
		switch u := t.Underlying().(type) {
		case *types.Slice, *types.Map:
			return true
		case *types.Pointer:
			if nt, ok := u.Elem().(*types.Named); ok && nt.Obj().Pkg() == c.P.Types {
				return true
			}
		}
		return false
	}
	pw := c.ParamWrites()
	why := ""
	for v := range derived {
		refs := v.Referrers()
		if refs == nil {
			continue
		}
		for _, r := range *refs {
			switch x := r.(type) {
			case *ssa.Store:
				if x.Addr == v {
					why = "a loaded entry is stored through at " + c.P.InstrPos(x)
				}
			case *ssa.FieldAddr, *ssa.IndexAddr:
				// an address under the shared entry: any store through it changes the entry
				av := x.(ssa.Value)
				if ar := av.Referrers(); ar != nil {
					for _, u := range *ar {
						if st, ok := u.(*ssa.Store); ok && st.Addr == av {
							why = "a loaded entry is written in place at " + c.P.InstrPos(st)
						}
					}
				}
			case *ssa.MapUpdate:
				if x.Map == v {
					why = "a loaded entry (a map) is updated at " + c.P.InstrPos(x)
				}
			case *ssa.Slice:
				// s[:0] and the like followed by append writes into the shared backing array
				if x.X == v {
					if sr := x.Referrers(); sr != nil {
						for _, u := range *sr {
							if cl, ok := u.(*ssa.Call); ok {
								if b, isB := cl.Call.Value.(*ssa.Builtin); isB && b.Name() == "append" && cl.Call.Args[0] == ssa.Value(x) {
									why = "a loaded entry is appended to in place at " + c.P.InstrPos(cl)
								}
							}
						}
					}
				}
			case *ssa.Return:
				if isRef(v.Type()) && f.Object() != nil && f.Object().Exported() {
					why = "a loaded entry (a reference) is returned by the exported " + c.P.FuncKey(f) + ": its caller can change the shared entry"
				}
			case ssa.CallInstruction:
				cc := x.Common()
				if b, isB := cc.Value.(*ssa.Builtin); isB && b.Name() == "append" && len(cc.Args) > 0 && cc.Args[0] == v {
					why = "a loaded entry is appended to at " + c.P.InstrPos(x)
				}
				cal := calleeOf(x)
				if cal == nil || !c.inModule(cal) {
					continue
				}
				for i, a := range cc.Args {
					if a == v && pw[cal][i] != nil {
						why = "a loaded entry is handed to " + c.P.FuncKey(cal) + ", which writes through that parameter"
					}
				}
			}
		}
	}
	return why
}

type pureCheck struct {
	calls  []*ssa.Call // the calls in the slice of the value judged
	c      *Ctx
	memo   *ssa.Global
	leaves map[ssa.Value]bool
	key    ssa.Value
	fn     *ssa.Function
	seen   map[ssa.Value]bool
}

var pureLibPrefixes = []string{"strings.", "strconv.", "unicode.", "unicode/utf8.", "math.", "bytes.", "regexp.", "regexp/syntax.", "errors.New", "fmt.Sprintf", "fmt.Sprint", "fmt.Errorf", "reflect.TypeOf", "(*regexp.Regexp).", "(reflect.Value).Type", "(reflect.Value).Kind", "(*strings.Builder).String"}

var pureTypeMethods = map[string]bool{"NumIn": true, "In": true, "NumOut": true, "Out": true, "IsVariadic": true, "Kind": true, "Elem": true, "String": true, "Name": true, "Implements": true, "AssignableTo": true, "ConvertibleTo": true, "Comparable": true, "NumField": true, "Field": true, "Key": true, "Len": true, "PkgPath": true}

func isPureLib(name string) bool {
	if strings.HasPrefix(name, "math/rand") || name == "(*regexp.Regexp).Longest" {
		return false
	}
	for _, p := range pureLibPrefixes {
		if strings.HasPrefix(name, p) {
			return true
		}
	}
	return false
}

// pure: "" when v is determined by the leaves; otherwise the reason.
func (pc *pureCheck) pure(v ssa.Value, depth int) string {
	if pc.leaves[v] || pc.seen[v] {
		return ""
	}
	if depth > 40 {
		return "too deep at " + v.String()
	}
	pc.seen[v] = true
	c := pc.c
	all := func(vs ...ssa.Value) string {
		for _, x := range vs {
			if x == nil {
				continue
			}
			if w := pc.pure(x, depth+1); w != "" {
				return w
			}
		}
		return ""
	}
	switch x := v.(type) {
	case *ssa.Const, *ssa.Function, *ssa.Builtin:
		return ""
	case *ssa.Global:
		return ""
	case *ssa.Parameter:
		return "depends on " + describeValue(x)
	case *ssa.FreeVar:
		return "depends on a captured variable"
	case *ssa.Convert:
		return all(x.X)
	case *ssa.ChangeType:
		return all(x.X)
	case *ssa.ChangeInterface:
		return all(x.X)
	case *ssa.MakeInterface:
		return all(x.X)
	case *ssa.TypeAssert:
		return all(x.X)
	case *ssa.SliceToArrayPointer:
		return all(x.X)
	case *ssa.BinOp:
		return all(x.X, x.Y)
	case *ssa.Extract:
		return all(x.Tuple)
	case *ssa.Field:
		return all(x.X)
	case *ssa.Index:
		return all(x.X, x.Index)
	case *ssa.Lookup:
		return all(x.X, x.Index)
	case *ssa.Slice:
		return all(x.X, x.Low, x.High, x.Max)
	case *ssa.Phi:
		if w := all(x.Edges...); w != "" {
			return w
		}
		return pc.selectors(x, depth)
	case *ssa.UnOp:
		if x.Op != token.MUL {
			return all(x.X)
		}
		// a load: from a package-level variable that only init writes, or from a fresh object of this function
		if g, ok := x.X.(*ssa.Global); ok {
			if c.globalInitOnly(g) {
				return ""
			}
			return "reads the package-level variable " + g.Name() + ", which is written outside init"
		}
		if root := freshRoot(x.X); root != nil {
			return pc.freshObject(root, depth)
		}
		return "reads memory that is not the key's: " + describeValue(x.X)
	case *ssa.Alloc, *ssa.MakeSlice, *ssa.MakeMap:
		return pc.freshObject(v, depth)
	case *ssa.FieldAddr, *ssa.IndexAddr:
		if root := freshRoot(v); root != nil {
			return pc.freshObject(root, depth)
		}
		return "an address into memory that is not fresh"
	case *ssa.MakeClosure:
		return "a closure"
	case *ssa.Call:
		pc.calls = append(pc.calls, x)
		cc := x.Call
		if cc.IsInvoke() {
			if typeName(cc.Value.Type()) == "Type" && strings.HasSuffix(cc.Value.Type().String(), "reflect.Type") && pureTypeMethods[cc.Method.Name()] {
				return all(append([]ssa.Value{cc.Value}, cc.Args...)...)
			}
			if cc.Method.Name() == "Error" && len(cc.Args) == 0 {
				return all(cc.Value)
			}
			return "a dynamic call of " + cc.Method.Name()
		}
		if b, ok := cc.Value.(*ssa.Builtin); ok {
			switch b.Name() {
			case "len", "cap", "min", "max":
				return all(cc.Args...)
			case "append":
				// appending to a fresh slice: the result is determined by the operands
				return all(cc.Args...)
			}
			return "builtin " + b.Name()
		}
		cal := calleeOf(x)
		if cal == nil {
			return "a call through a function value"
		}
		name := cal.String()
		switch {
		case isPureLib(name):
			return all(cc.Args...)
		case c.inModule(cal):
			if why := c.pureModuleFn(cal, 0); why != "" {
				return c.P.FuncKey(cal) + " is not pure: " + why
			}
			return all(cc.Args...)
		}
		return "calls " + name
	}
	return "unsupported construct " + v.String()
}

// selectors: the branch conditions that choose between the edges of a phi are determined by the leaves (or are the hit
// flag of a Load of this memo).
func (pc *pureCheck) selectors(phi *ssa.Phi, depth int) string {
	b := phi.Block()
	idom := b.Idom()
	if idom == nil {
		return ""
	}
	// blocks dominated by idom from which b is reachable without leaving the region
	reach := map[*ssa.BasicBlock]bool{}
	var back func(x *ssa.BasicBlock)
	back = func(x *ssa.BasicBlock) {
		if reach[x] {
			return
		}
		reach[x] = true
		if x == idom {
			return
		}
		for _, p := range x.Preds {
			if idom.Dominates(p) {
				back(p)
			}
		}
	}
	for _, p := range b.Preds {
		if idom.Dominates(p) {
			back(p)
		}
	}
	reach[idom] = true
	for blk := range reach {
		if blk == b && !reach[b] {
			continue
		}
		if len(blk.Instrs) == 0 {
			continue
		}
		iff, ok := blk.Instrs[len(blk.Instrs)-1].(*ssa.If)
		if !ok {
			continue
		}
		if pc.isHitFlag(iff.Cond) {
			continue
		}
		if w := pc.pure(iff.Cond, depth+1); w != "" {
			return "which value is stored is decided by a condition that " + w
		}
	}
	return ""
}

// isHitFlag: v is the `ok` of a Load of this memo.
func (pc *pureCheck) isHitFlag(v ssa.Value) bool {
	if u, ok := v.(*ssa.UnOp); ok && u.Op == token.NOT {
		v = u.X
	}
	ex, ok := v.(*ssa.Extract)
	if !ok || ex.Index != 1 {
		return false
	}
	call, ok := ex.Tuple.(*ssa.Call)
	if !ok {
		return false
	}
	cal := calleeOf(call)
	return cal != nil && (cal.String() == "(*sync.Map).Load" || cal.String() == "(*sync.Map).LoadOrStore") && len(call.Call.Args) > 0 && call.Call.Args[0] == ssa.Value(pc.memo)
}

// freshRoot: the Alloc / MakeSlice / MakeMap an address is taken under, if any.
func freshRoot(v ssa.Value) ssa.Value {
	for i := 0; i < 12; i++ {
		switch x := v.(type) {
		case *ssa.Alloc, *ssa.MakeSlice, *ssa.MakeMap:
			return v
		case *ssa.FieldAddr:
			v = x.X
		case *ssa.IndexAddr:
			v = x.X
		case *ssa.Slice:
			v = x.X
		default:
			return nil
		}
	}
	return nil
}

// freshObject: every write into the object created by root stores a pure value, and the object is not handed to code
// that could write into it.
func (pc *pureCheck) freshObject(root ssa.Value, depth int) string {
	if pc.seen[root] && depth > 0 {
		// already being judged
	}
	pc.seen[root] = true
	if ms, ok := root.(*ssa.MakeSlice); ok {
		if w := pc.pure(ms.Len, depth+1); w != "" {
			return w
		}
		if w := pc.pure(ms.Cap, depth+1); w != "" {
			return w
		}
	}
	if mm, ok := root.(*ssa.MakeMap); ok && mm.Reserve != nil {
		if w := pc.pure(mm.Reserve, depth+1); w != "" {
			return w
		}
	}
	pw := pc.c.ParamWrites()
	var visit func(addr ssa.Value, d int) string
	visit = func(addr ssa.Value, d int) string {
		if d > 8 {
			return "object nested too deeply"
		}
		refs := addr.Referrers()
		if refs == nil {
			return ""
		}
		for _, r := range *refs {
			switch x := r.(type) {
			case *ssa.Store:
				if x.Addr == addr {
					if w := pc.pure(x.Val, depth+1); w != "" {
						return w
					}
				}
			case *ssa.MapUpdate:
				if x.Map == addr {
					if w := pc.pure(x.Key, depth+1); w != "" {
						return w
					}
					if w := pc.pure(x.Value, depth+1); w != "" {
						return w
					}
				}
			case *ssa.FieldAddr, *ssa.IndexAddr:
				if w := visit(x.(ssa.Value), d+1); w != "" {
					return w
				}
				if ia, ok := x.(*ssa.IndexAddr); ok {
					if w := pc.pure(ia.Index, depth+1); w != "" {
						return w
					}
				}
			case *ssa.Slice:
				if w := visit(x, d+1); w != "" {
					return w
				}
			case ssa.CallInstruction:
				cal := calleeOf(x)
				cc := x.Common()
				if cal != nil && pc.c.inModule(cal) {
					for i, a := range cc.Args {
						if a == addr && pw[cal][i] != nil {
							return "a fresh object is filled by " + pc.c.P.FuncKey(cal)
						}
					}
				}
			}
		}
		return ""
	}
	return visit(root, 0)
}

var pureFnCache = map[*ssa.Function]string{}
var pureFnBusy = map[*ssa.Function]bool{}

// pureModuleFn: "" when every result of f is determined by its parameters and f writes nothing but fresh objects.
func (c *Ctx) pureModuleFn(f *ssa.Function, depth int) string {
	if w, ok := pureFnCache[f]; ok {
		return w
	}
	if pureFnBusy[f] {
		return "" // recursion: judged by the outer activation
	}
	if len(f.Blocks) == 0 {
		return "no body"
	}
	if depth > 6 {
		return "call chain too deep"
	}
	pureFnBusy[f] = true
	defer delete(pureFnBusy, f)
	why := ""
	leaves := map[ssa.Value]bool{}
	for _, p := range f.Params {
		leaves[p] = true
	}
	pc := &pureCheck{c: c, leaves: leaves, fn: f, seen: map[ssa.Value]bool{}}
	instrs(f, func(b *ssa.BasicBlock, i int, in ssa.Instruction) {
		if why != "" {
			return
		}
		switch x := in.(type) {
		case *ssa.Return:
			for _, r := range x.Results {
				if w := pc.pure(r, 0); w != "" {
					why = w
				}
			}
		case *ssa.If:
			// which return is taken is part of the result
			if w := pc.pure(x.Cond, 0); w != "" {
				why = "a branch condition " + w
			}
		case *ssa.Store:
			if freshRoot(x.Addr) == nil {
				why = "stores outside fresh objects at " + c.P.InstrPos(x)
			}
		case *ssa.MapUpdate:
			if freshRoot(x.Map) == nil {
				why = "updates a map that is not fresh at " + c.P.InstrPos(x)
			}
		case *ssa.Go, *ssa.Defer, *ssa.Send, *ssa.Select:
			why = "concurrency or defer"
		case *ssa.Call:
			// calls whose results are unused still have to be harmless
			if w := pc.pure(x, 0); w != "" {
				why = w
			}
		}
	})
	pureFnCache[f] = why
	return why
}

// globalInitOnly: no function of the module other than init writes g.
func (c *Ctx) globalInitOnly(g *ssa.Global) bool {
	for _, f := range c.P.ModFuncs {
		if isInitFn(f) || c.initOnly(f) {
			continue
		}
		for _, gw := range c.globalWritesIn(f) {
			if gw.Global == g.Name() {
				return false
			}
		}
	}
	return true
}

// errCheckedBefore: the instruction `at` is dominated by the edge on which result #idx of call (an error) is nil.
func errCheckedBefore(call *ssa.Call, idx int, at ssa.Instruction) bool {
	refs := call.Referrers()
	if refs == nil {
		return false
	}
	for _, r := range *refs {
		ex, ok := r.(*ssa.Extract)
		if !ok || ex.Index != idx || ex.Referrers() == nil {
			continue
		}
		for _, u := range *ex.Referrers() {
			bo, ok := u.(*ssa.BinOp)
			if !ok || (bo.Op != token.EQL && bo.Op != token.NEQ) || bo.Referrers() == nil {
				continue
			}
			if !(bo.X == ssa.Value(ex) && isNilConst(bo.Y) || bo.Y == ssa.Value(ex) && isNilConst(bo.X)) {
				continue
			}
			for _, w := range *bo.Referrers() {
				iff, ok := w.(*ssa.If)
				if !ok {
					continue
				}
				k := 0 // the successor on which the error is nil
				if bo.Op == token.NEQ {
					k = 1
				}
				nb := iff.Block().Succs[k]
				if len(nb.Preds) == 1 && (nb == at.Block() || nb.Dominates(at.Block())) {
					return true
				}
			}
		}
	}
	return false
}
