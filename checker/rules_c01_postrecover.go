package main

import (
	"fmt"
	"go/ast"
	"go/token"
	"go/types"
	"strings"

	"golang.org/x/tools/go/ssa"
)

// c01PostRecover: ParseSourceCode's deferred function formats the first diagnostic AFTER its recover() has run: a
// panic in that formatting (line table, binary search, position lookup) is not caught by anything and escapes to the
// caller. Every may-panic site reachable from the calls the deferred function makes must therefore be discharged
// locally: an index x[i] needs a dominating bound (i < len(x), a loop `for i < len(x)`, `i+k < len(x)`) or an entry in
// the short table of invariants confirmed by reading, keyed by function and indexed expression.
func c01PostRecover(c *Ctx) {
	c.postRecover("C01.formatting-cannot-panic", c.fn("ParseSourceCode"), "ParseSourceCode", "formatting of the first diagnostic", 3)
}

// postRecover: no may-panic site in what the entry point's deferred function runs (itself and the module functions it
// calls) may be left undischarged: recover() has already run, so a panic there escapes to the caller.
func (c *Ctx) postRecover(rule string, entry *ssa.Function, entryName, doing string, floor int) {
	if entry == nil {
		return
	}
	// the deferred closure and the module functions it calls
	var roots []*ssa.Function
	var closure *ssa.Function
	instrs(entry, func(b *ssa.BasicBlock, i int, in ssa.Instruction) {
		if d, ok := in.(*ssa.Defer); ok {
			if f := fnValue(d.Call.Value); f != nil {
				closure = f
			}
		}
	})
	if closure == nil {
		c.R.Add(rule, "deferred-function", c.P.Pos(entry.Pos()), OK, "")
		return
	}
	instrs(closure, func(b *ssa.BasicBlock, i int, in ssa.Instruction) {
		if call, ok := in.(ssa.CallInstruction); ok {
			if cal := calleeOf(call); cal != nil && c.inModule(cal) {
				roots = append(roots, cal)
			}
		}
	})
	if len(roots) == 0 {
		// the deferred function calls nothing of the module (the formatting happens in the entry itself, where a panic
		// is still recovered): nothing runs unprotected, the hand-confirmed floor of the pinned shape does not apply
		floor = 0
	}
	rr := c.P.Reach(append([]*ssa.Function{closure}, roots...), c.inModule, nil)
	in := map[*ssa.Function]bool{}
	for _, f := range rr.Order {
		in[f] = true
	}
	sites := c.panicSites(in, rr.Order)
	per := map[string]int{}
	for _, s := range sites {
		key := c.P.FuncKey(s.Fn) + ": " + s.Kind
		per[key]++
		cons := fmt.Sprintf("%s #%d", key, per[key])
		ok, why := c.dischargePanicSite(s)
		c.R.Check(rule, cons, c.P.InstrPos(s.In), ok, "this may-panic site runs inside "+entryName+"'s deferred function after recover() ("+doing+"): a panic here escapes to the caller of "+entryName+"; "+why)
	}
	c.R.Add(rule, "deferred-function scanned", c.P.Pos(closure.Pos()), OK, "")
	c.R.Analysed["post_recover_functions"] = len(rr.Order)
	c.R.Analysed["post_recover_may_panic_sites"] = len(sites)
	c.R.Floor(rule, floor)
}

// confirmedInvariants: index sites whose bound follows from an invariant that was confirmed by reading; keyed by
// function and "<indexed value>[<index>]" as go/ssa names them from the source.
var confirmedInvariants = map[string]string{
	"BinarySearch: array[middle]":                         "low <= middle <= high and 0 <= low, high <= len(array)-1 are loop invariants of the search",
	"PositionFromOffsetWithCache: lineStarts[lineNumber]": "lineStarts[0] == 0 <= offset, so the search result (or ^result-1) lies in [0, len(lineStarts))",
}

func valueLabel(v ssa.Value) string {
	switch x := v.(type) {
	case *ssa.Parameter:
		return x.Name()
	case *ssa.UnOp:
		if x.Op == token.MUL {
			if a, ok := x.X.(*ssa.Alloc); ok && a.Comment != "" {
				return a.Comment
			}
			if fa, ok := x.X.(*ssa.FieldAddr); ok {
				return fieldName(fa)
			}
		}
	case *ssa.Phi:
		if x.Comment != "" {
			return x.Comment
		}
	}
	return v.Name()
}

func (c *Ctx) dischargePanicSite(s panicSite) (bool, string) {
	f := s.Fn
	var base, idx ssa.Value
	switch x := s.In.(type) {
	case *ssa.IndexAddr:
		base, idx = x.X, x.Index
	case *ssa.Index:
		base, idx = x.X, x.Index
	case *ssa.Slice:
		// text[pos:] with pos bounded
		if x.High == nil && x.Max == nil && x.Low != nil {
			base, idx = x.X, x.Low
		} else {
			return false, "slice expression with computed bounds is not discharged"
		}
	default:
		return false, s.Kind + " is not discharged"
	}
	b := s.In.Block()
	isLenOf := func(v ssa.Value) bool {
		call, ok := v.(*ssa.Call)
		if !ok || !isBuiltinCall(call, "len") || len(call.Call.Args) != 1 {
			return false
		}
		a := call.Call.Args[0]
		return a == base || sameExpr(a, base)
	}
	// idx (+k, k>=0) < len(base) on a dominating edge
	matchIdx := func(v ssa.Value) bool {
		if v == idx || sameExpr(v, idx) {
			return true
		}
		if bo, ok := v.(*ssa.BinOp); ok && bo.Op == token.ADD {
			if k, isK := constIntArg(bo.Y); isK && k >= 0 && (bo.X == idx || sameExpr(bo.X, idx)) {
				return true
			}
		}
		return false
	}
	// both sides as base + constant: v = idx + k with k >= min
	lin := func(v ssa.Value) (ssa.Value, int64) {
		k := int64(0)
		for {
			b2, ok := v.(*ssa.BinOp)
			if !ok || b2.Op != token.ADD {
				return v, k
			}
			if n, isK := constIntArg(b2.Y); isK {
				v, k = b2.X, k+n
				continue
			}
			if n, isK := constIntArg(b2.X); isK {
				v, k = b2.Y, k+n
				continue
			}
			return v, k
		}
	}
	atLeast := func(v ssa.Value, min int64) bool {
		bv, kv := lin(v)
		bi, ki := lin(idx)
		return (bv == bi || sameExpr(bv, bi)) && kv-ki >= min
	}
	for d := b; d != nil; d = d.Idom() {
		id := d.Idom()
		if id == nil {
			break
		}
		iff, ok := id.Instrs[len(id.Instrs)-1].(*ssa.If)
		if !ok {
			continue
		}
		bo, ok := iff.Cond.(*ssa.BinOp)
		if !ok {
			continue
		}
		onTrue := id.Succs[0] == d && len(d.Preds) == 1
		onFalse := id.Succs[1] == d && len(d.Preds) == 1
		// idx + k <= len(base) with k >= 1 (`pos+2 <= len(text)` in front of text[pos+1])
		switch {
		case onTrue && bo.Op == token.LEQ && atLeast(bo.X, 1) && isLenOf(bo.Y),
			onTrue && bo.Op == token.GEQ && atLeast(bo.Y, 1) && isLenOf(bo.X),
			onFalse && bo.Op == token.GTR && atLeast(bo.X, 1) && isLenOf(bo.Y),
			onFalse && bo.Op == token.LSS && atLeast(bo.Y, 1) && isLenOf(bo.X),
			onTrue && bo.Op == token.LSS && atLeast(bo.X, 0) && isLenOf(bo.Y),
			onTrue && bo.Op == token.GTR && atLeast(bo.Y, 0) && isLenOf(bo.X):
			if _, isCell := idx.(*ssa.UnOp); !isCell {
				return true, ""
			}
		}
		// loop headers: the body successor may have one pred
		switch {
		case onTrue && bo.Op == token.LSS && matchIdx(bo.X) && isLenOf(bo.Y),
			onTrue && bo.Op == token.GTR && matchIdx(bo.Y) && isLenOf(bo.X),
			onFalse && bo.Op == token.GEQ && matchIdx(bo.X) && isLenOf(bo.Y),
			onFalse && bo.Op == token.LEQ && matchIdx(bo.Y) && isLenOf(bo.X):
			// the index must not be modified between the guard and the use: SSA value identity covers that,
			// for cell loads require no store to the cell in between (same block chain): conservative check
			if idx != bo.X && idx != bo.Y {
				if !c.noStoreBetween(f, iff, s.In, idx) {
					continue
				}
			}
			return true, ""
		}
	}
	if c.bisectionIndex(base, idx, b) {
		return true, ""
	}
	key := fnBase(f) + ": " + valueLabel(base) + "[" + valueLabel(idx) + "]"
	if src := c.indexExprText(s.In.Pos()); src != "" {
		key = fnBase(f) + ": " + src
	}
	if why, ok := confirmedInvariants[key]; ok {
		_ = why
		return true, ""
	}
	what := "index"
	if _, isSl := s.In.(*ssa.Slice); isSl {
		what = "slice bound"
	}
	return false, fmt.Sprintf("no dominating bound `%s < len(%s)` for this %s, and `%s` is not in the table of confirmed invariants", valueLabel(idx), valueLabel(base), what, strings.TrimSpace(key))
}

// noStoreBetween: idx is a load of a local cell; no store to that cell lies on a path from `from` to `to`.
func (c *Ctx) noStoreBetween(f *ssa.Function, from, to ssa.Instruction, idx ssa.Value) bool {
	u, ok := idx.(*ssa.UnOp)
	if !ok {
		// a binop over loads: be conservative
		return false
	}
	cell := u.X
	bad := false
	instrs(f, func(b *ssa.BasicBlock, i int, in ssa.Instruction) {
		st, ok := in.(*ssa.Store)
		if !ok || st.Addr != cell {
			return
		}
		if pathExists(f, from, func(x ssa.Instruction) bool { return x == in }, func(x ssa.Instruction) bool { return x == to }, nil) &&
			pathExists(f, in, func(x ssa.Instruction) bool { return x == to }, nil, nil) {
			bad = true
		}
	})
	return !bad
}

// indexExprText: the source text of the index expression whose `[` is at pos ("array[middle]").
func (c *Ctx) indexExprText(pos token.Pos) string {
	if !pos.IsValid() {
		return ""
	}
	out := ""
	for _, file := range c.P.Root.Syntax {
		if pos < file.Pos() || pos > file.End() {
			continue
		}
		ast.Inspect(file, func(n ast.Node) bool {
			if ix, ok := n.(*ast.IndexExpr); ok && ix.Lbrack == pos {
				out = types.ExprString(ix)
				return false
			}
			return true
		})
	}
	return out
}

// bisectionIndex: idx = low + (high-low)>>1 (or /2) used under `low <= high`, where low is only ever 0 or idx+k and
// high only ever len(base)-1 or idx-k (k >= 1): then 0 <= low <= idx <= high <= len(base)-1.
func (c *Ctx) bisectionIndex(base, idx ssa.Value, at *ssa.BasicBlock) bool {
	add, ok := idx.(*ssa.BinOp)
	if !ok || add.Op != token.ADD {
		return false
	}
	var low, high ssa.Value
	for _, pr := range [][2]ssa.Value{{add.X, add.Y}, {add.Y, add.X}} {
		half, ok := pr[1].(*ssa.BinOp)
		if !ok {
			continue
		}
		k, isK := constIntArg(half.Y)
		if !(half.Op == token.SHR && isK && k == 1 || half.Op == token.QUO && isK && k == 2) {
			continue
		}
		sub, ok := half.X.(*ssa.BinOp)
		if !ok || sub.Op != token.SUB || sub.Y != pr[0] {
			continue
		}
		low, high = pr[0], sub.X
	}
	lp, ok1 := low.(*ssa.Phi)
	hp, ok2 := high.(*ssa.Phi)
	if !ok1 || !ok2 {
		return false
	}
	// guarded by low <= high
	guarded := false
	for d := at; d != nil; d = d.Idom() {
		id := d.Idom()
		if id == nil {
			break
		}
		iff, ok := id.Instrs[len(id.Instrs)-1].(*ssa.If)
		if !ok || id.Succs[0] != d || len(d.Preds) != 1 {
			continue
		}
		if bo, ok := iff.Cond.(*ssa.BinOp); ok && (bo.Op == token.LEQ && bo.X == low && bo.Y == high || bo.Op == token.GEQ && bo.X == high && bo.Y == low) {
			guarded = true
		}
	}
	if !guarded {
		return false
	}
	stepFrom := func(v ssa.Value, op token.Token) bool {
		bo, ok := v.(*ssa.BinOp)
		if !ok || bo.Op != op {
			return false
		}
		k, isK := constIntArg(bo.Y)
		return isK && k >= 1 && (bo.X == idx || sameExpr(bo.X, idx))
	}
	for _, e := range lp.Edges {
		if k, isK := constIntArg(e); isK && k >= 0 {
			continue
		}
		if e == ssa.Value(lp) || stepFrom(e, token.ADD) {
			continue
		}
		return false
	}
	for _, e := range hp.Edges {
		if e == ssa.Value(hp) || stepFrom(e, token.SUB) {
			continue
		}
		if bo, ok := e.(*ssa.BinOp); ok && bo.Op == token.SUB {
			if k, isK := constIntArg(bo.Y); isK && k >= 1 {
				if call, isC := bo.X.(*ssa.Call); isC && isBuiltinCall(call, "len") && len(call.Call.Args) == 1 && (call.Call.Args[0] == base || sameExpr(call.Call.Args[0], base)) {
					continue
				}
			}
		}
		return false
	}
	return true
}
