package main

import (
	"fmt"
	"go/token"
	"go/types"
	"sort"
	"strings"

	"golang.org/x/tools/go/ssa"
)

func init() {
	register("C03",
		"every construct that may panic at run time in module code reachable from Resolve and from the registered builtins (explicit panics, reflect operations documented to panic, method calls on possibly-nil interface values, non-constant slice / index expressions, unchecked type assertions, interface comparisons, integer division, regexp.MustCompile, strings.Repeat) is enumerated and must be covered by a deferred recover-to-error at the evaluation entry point; nothing reachable can end the process or swallow a panic and continue; the entry and the node dispatcher return (nil, error) or (value, nil); the dispatcher has an arm per node type and error defaults (also for unknown prefix operators and literal kinds); evaluation recursion descends to children and every loop is bounded by a length. Reading a missing struct field cannot end in (value, no error); a lock taken in evaluator-reachable code is released by a deferred unlock or held over nothing that may panic. A variadic builtin takes all trailing arguments or rejects a longer slice than it reads; a result of `regexp` that does not come from the engine sits behind a guard over the complete set of syntax characters.",
		"termination and panic-freedom of host functions supplied by the caller, fatal runtime errors that bypass recover (stack or memory exhaustion), nil-pointer dereferences through method values (not enumerated individually; covered by the recover), and the wording of errors.",
		runC03)
}

// ---------- recover-to-error shape (shared with C01) ----------

type recoverInfo struct {
	OK      bool
	Why     string
	Defer   *ssa.Defer
	Closure *ssa.Function
	ErrCell *ssa.Alloc // the named error result of the entry function
}

// recoverShape checks that f starts by deferring a function literal that
// calls recover() unconditionally and, when something was recovered, stores a
// non-nil error into f's named error result on every path.
func (c *Ctx) recoverShape(f *ssa.Function) recoverInfo {
	info := recoverInfo{}
	if f == nil || len(f.Blocks) == 0 {
		info.Why = "function not found"
		return info
	}
	// the defer must precede every call in the entry block and sit in the entry block
	var def *ssa.Defer
	for _, in := range f.Blocks[0].Instrs {
		if d, ok := in.(*ssa.Defer); ok {
			def = d
			break
		}
		if call, ok := in.(*ssa.Call); ok {
			_ = call
			info.Why = "a call precedes the deferred recover: a panic in it would escape"
			return info
		}
	}
	if def == nil {
		info.Why = "no deferred function in the entry block: a panic anywhere below escapes to the caller"
		return info
	}
	info.Defer = def
	mc, ok := def.Call.Value.(*ssa.MakeClosure)
	var g *ssa.Function
	if ok {
		g, _ = mc.Fn.(*ssa.Function)
	} else if fn, isFn := def.Call.Value.(*ssa.Function); isFn {
		g = fn
	}
	if g == nil || len(g.Blocks) == 0 {
		info.Why = "the deferred value is not a function literal"
		return info
	}
	info.Closure = g
	// recover() in the closure's entry block
	var rec *ssa.Call
	for _, in := range g.Blocks[0].Instrs {
		if call, ok := in.(*ssa.Call); ok && isBuiltinCall(call, "recover") {
			rec = call
		}
	}
	if rec == nil {
		info.Why = "the deferred function does not call recover() unconditionally at its start"
		return info
	}
	// the captured error cell
	var errFree *ssa.FreeVar
	for i, fv := range g.FreeVars {
		if pt, ok := fv.Type().(*types.Pointer); ok && pt.Elem().String() == "error" {
			errFree = fv
			if mc != nil && i < len(mc.Bindings) {
				if a, ok := mc.Bindings[i].(*ssa.Alloc); ok {
					info.ErrCell = a
				}
			}
		}
	}
	if errFree == nil || info.ErrCell == nil {
		info.Why = "the deferred function does not capture a named error result of the entry function"
		return info
	}
	// the cell is what the entry returns
	returned := false
	instrs(f, func(b *ssa.BasicBlock, i int, in ssa.Instruction) {
		if ret, ok := in.(*ssa.Return); ok {
			for _, v := range ret.Results {
				if u, ok := v.(*ssa.UnOp); ok && u.X == ssa.Value(info.ErrCell) {
					returned = true
				}
			}
		}
	})
	if !returned {
		info.Why = "the captured error variable is not the entry function's returned error"
		return info
	}
	// on the recovered != nil edge every path stores a non-nil error into the cell
	var iff *ssa.If
	nonNilSucc := -1
	for _, ref := range *rec.Referrers() {
		bo, ok := ref.(*ssa.BinOp)
		if !ok {
			continue
		}
		k, isK := bo.Y.(*ssa.Const)
		if !isK || k.Value != nil {
			continue
		}
		for _, r2 := range *bo.Referrers() {
			if i2, ok := r2.(*ssa.If); ok {
				iff = i2
				if bo.Op == token.NEQ {
					nonNilSucc = 0
				} else if bo.Op == token.EQL {
					nonNilSucc = 1
				}
			}
		}
	}
	if iff == nil || nonNilSucc < 0 {
		info.Why = "the recovered value is not tested against nil"
		return info
	}
	start := iff.Block().Succs[nonNilSucc]
	storesErr := func(in ssa.Instruction) bool {
		st, ok := in.(*ssa.Store)
		if !ok || st.Addr != ssa.Value(errFree) {
			return false
		}
		if k, isK := st.Val.(*ssa.Const); isK && k.Value == nil {
			return false
		}
		return true
	}
	// path from start to the closure's return avoiding the store?
	if len(start.Instrs) == 0 {
		info.Why = "empty recovery branch"
		return info
	}
	first := start.Instrs[0]
	escapes := false
	if !storesErr(first) {
		escapes = pathExists(g, first, isReturn, storesErr, nil) || isReturn(first)
	}
	if escapes {
		// the error may travel through locals first: judged path by path (the last store into the result on each path
		// from the recovered-something edge holds a value known to be non-nil)
		ok := c.walkEdge(iff.Block(), nonNilSucc, nil, nil, func(in ssa.Instruction, nn func(ssa.Value) int, st int) int {
			if s, isSt := in.(*ssa.Store); isSt && s.Addr == ssa.Value(errFree) {
				if nn(s.Val) == nnNonNil {
					return 1
				}
				return 0
			}
			return st
		}, func(ret *ssa.Return, nn func(ssa.Value) int, st int) bool { return st == 1 })
		if ok {
			escapes = false
		}
	}
	if escapes {
		info.Why = "after recovering a panic there is a path that leaves the error result nil: the caller would get (value?, nil) from a panicked evaluation"
		return info
	}
	// a later unconditional store of nil must not undo it (C01's diagnostics branch stores non-nil only)
	info.OK = true
	return info
}

// ---------- may-panic sites ----------

type panicSite struct {
	Fn   *ssa.Function
	In   ssa.Instruction
	Kind string
}

var panickyCallees = map[string]string{
	"regexp.MustCompile":          "regexp.MustCompile panics on an invalid pattern",
	"strings.Repeat":              "strings.Repeat panics on a negative count or overflow",
	"(reflect.Value).Call":        "reflect Call panics on wrong argument count/types",
	"(reflect.Value).Interface":   "Interface panics on a zero Value / unexported field",
	"(reflect.Value).MapIndex":    "MapIndex panics on a key of the wrong type",
	"(reflect.Value).IsNil":       "IsNil panics on non-nilable kinds",
	"(reflect.Value).IsZero":      "IsZero panics on a zero Value",
	"(reflect.Value).Len":         "Len panics on kinds without length",
	"(reflect.Value).Index":       "Index panics out of range",
	"(reflect.Value).Elem":        "Elem panics on non pointer/interface kinds",
	"(reflect.Value).Convert":     "Convert panics when not convertible",
	"(reflect.Value).SetMapIndex": "SetMapIndex panics on type mismatch",
	"(reflect.Value).MapRange":    "MapRange panics on non-map kinds",
	"(reflect.Value).Type":        "Type panics on a zero Value",
	"(reflect.Value).Field":       "Field panics out of range",
	"reflect.Append":              "Append panics on type mismatch",
	"reflect.MakeSlice":           "MakeSlice panics on a non-slice type",
	"reflect.MakeMap":             "MakeMap panics on a non-map type",
	"reflect.Zero":                "Zero panics on a nil type",
	"(*reflect.MapIter).Key":      "MapIter.Key panics when exhausted",
	"(*reflect.MapIter).Value":    "MapIter.Value panics when exhausted",
	"(reflect.Value).MapKeys":     "MapKeys panics on non-map kinds",
	"(reflect.Value).Int":         "Int panics on non-integer kinds",
	"(reflect.Value).Float":       "Float panics on non-float kinds",
	"(reflect.Value).String":      "",
	"(reflect.Value).FieldByName": "FieldByName panics on non-struct kinds",
	"(reflect.Value).Set":         "Set panics on unaddressable values",
}

func (c *Ctx) panicSites(in map[*ssa.Function]bool, order []*ssa.Function) []panicSite {
	var out []panicSite
	for _, f := range order {
		if !in[f] {
			continue
		}
		instrs(f, func(b *ssa.BasicBlock, i int, ins ssa.Instruction) {
			switch x := ins.(type) {
			case *ssa.Panic:
				out = append(out, panicSite{f, ins, "explicit panic"})
			case *ssa.TypeAssert:
				if !x.CommaOk {
					out = append(out, panicSite{f, ins, "unchecked type assertion"})
				}
			case *ssa.Slice:
				nonConst := false
				for _, v := range []ssa.Value{x.Low, x.High, x.Max} {
					if v == nil {
						continue
					}
					if _, ok := v.(*ssa.Const); !ok {
						nonConst = true
					}
				}
				if nonConst {
					out = append(out, panicSite{f, ins, "slice expression with computed bounds"})
				}
			case *ssa.IndexAddr:
				if _, ok := x.Index.(*ssa.Const); !ok {
					if _, isArr := deref(x.X.Type()).Underlying().(*types.Array); !isArr {
						out = append(out, panicSite{f, ins, "index expression with computed index"})
					}
				}
			case *ssa.Index:
				if _, ok := x.Index.(*ssa.Const); !ok {
					out = append(out, panicSite{f, ins, "index expression with computed index"})
				}
			case *ssa.BinOp:
				switch x.Op {
				case token.EQL, token.NEQ:
					_, xi := x.X.Type().Underlying().(*types.Interface)
					_, xc := x.X.(*ssa.Const)
					_, yc := x.Y.(*ssa.Const)
					if xi && !xc && !yc {
						out = append(out, panicSite{f, ins, "comparison of interface values (panics on uncomparable dynamic types such as slices and maps)"})
					}
				case token.QUO, token.REM:
					if isIntType(x.X.Type()) {
						if _, yc := x.Y.(*ssa.Const); !yc {
							out = append(out, panicSite{f, ins, "integer division by a computed value"})
						}
					}
				}
			case *ssa.MapUpdate:
				// a nil map loaded from a field
				for _, rt := range plainOrigins.Roots(x.Map) {
					if len(rt.Path) > 0 && rt.Kind == "param" {
						out = append(out, panicSite{f, ins, "store into a map loaded from a field (nil map panics)"})
					}
				}
			case ssa.CallInstruction:
				cc := x.Common()
				if cc.IsInvoke() {
					// method call on an interface value that may be nil (reflect.TypeOf(nil).Kind())
					if _, isCall := cc.Value.(*ssa.Call); isCall || strings.HasPrefix(cc.Value.Type().String(), "reflect.Type") {
						if strings.HasPrefix(cc.Value.Type().String(), "reflect.Type") {
							out = append(out, panicSite{f, ins, "method " + cc.Method.Name() + " on a reflect.Type that may be nil or of the wrong kind"})
						}
					}
					return
				}
				if cal := calleeOf(x); cal != nil {
					if why, ok := panickyCallees[cal.String()]; ok && why != "" {
						out = append(out, panicSite{f, ins, why})
					}
				}
			}
		})
	}
	return out
}

func runC03(c *Ctx) {
	entry := c.method("Runner", "Resolve")
	if !c.need("C03.anchor", entry, "(*Runner).Resolve") {
		return
	}
	d := c.EvalDispatcher()
	if d == nil {
		c.R.Add("C03.anchor", "ANCHOR-UNRESOLVED evaluator dispatcher", "-", Undecided, "not found")
		return
	}
	rr := c.ReachFrom("eval+builtins", c.evalRoots()...)
	c03Recover(c, entry, rr)
	c03NoEscape(c, entry, rr)
	c.postRecover("C03.handler-cannot-panic", entry, "Resolve", "building the error from the recovered value", 1)
	c03Shape(c, entry, d)
	c03Exhaustive(c, d)
	c03Recursion(c, entry, d, rr)
	c03Locks(c, rr)
	// a wrong argument count is an error before the host function is called (shared with C11)
	if h := d.Handlers["CallExpression"]; h != nil {
		if br := c11Bridge(c, h, d); br != nil {
			c11Arity(c, br, "C03.argument-count-is-error")
		}
	}
	c03VariadicUsed(c)
	// an invalid pattern is an error: not when a shortcut takes it for plain text (shared with C17)
	c17RegexpShortcut(c, "C03.regexp-shortcut-guard")
	// out-of-range string positions are errors only as long as they reach the slice expression unclamped
	c17PositionsAreErrors(c, "C03.string-positions-are-errors")
	// comparing arrays or maps is an error only as long as a nil slice / map is not taken for null (null == null is true)
	nullDefinition(c, "C03.null-definition")
	if reader := c.memberReader(d); reader != nil {
		c.structFieldRules("C03.member-read-errors", reader, false)
	} else {
		c.R.Undecided("C03.member-read-errors", "member-reader", "-", "the selector handler's member reader was not found")
	}
}

func c03Recover(c *Ctx, entry *ssa.Function, rr *ReachResult) {
	const rule = "C03.may-panic-needs-recover"
	info := c.recoverShape(entry)
	c.R.Check("C03.recover", "(*Runner).Resolve", c.P.Pos(entry.Pos()), info.OK, "the evaluation entry point must convert panics into the returned error (deferred recover storing a non-nil error into the named result): "+info.Why)
	sites := c.panicSites(rr.In, rr.Order)
	per := map[string]int{}
	for _, s := range sites {
		key := c.P.FuncKey(s.Fn) + ": " + s.Kind
		per[key]++
		cons := fmt.Sprintf("%s #%d", key, per[key])
		if info.OK {
			c.R.Add(rule, cons, c.P.InstrPos(s.In), OK, "")
		} else {
			c.R.Add(rule, cons, c.P.InstrPos(s.In), Violation, "may panic at run time ("+s.Kind+") and is reachable from Resolve ("+rr.Chain(c.P, s.Fn)+") with no recover at the entry: the panic escapes to the caller instead of becoming an error")
		}
	}
	c.R.Analysed["may_panic_sites"] = len(sites)
	c.R.Analysed["evaluator_reachable_functions"] = len(rr.Order)
	c.R.Floor(rule, 15)
}

func c03NoEscape(c *Ctx, entry *ssa.Function, rr *ReachResult) {
	const rule = "C03.no-escape"
	info := c.recoverShape(entry)
	n := 0
	for _, f := range rr.Order {
		instrs(f, func(b *ssa.BasicBlock, i int, in ssa.Instruction) {
			switch x := in.(type) {
			case *ssa.Go:
				n++
				c.R.Add(rule, "go statement in "+c.P.FuncKey(f), c.P.InstrPos(in), Violation, "a panic in a goroutine started during evaluation cannot be recovered by the entry point")
			case ssa.CallInstruction:
				if isBuiltinCall(in, "recover") {
					if f != info.Closure {
						n++
						c.R.Add(rule, "recover in "+c.P.FuncKey(f), c.P.InstrPos(in), Violation, "a second recover below the entry point can swallow a panic and let evaluation continue with a half-computed value")
					}
					return
				}
				if cal := calleeOf(x); cal != nil {
					switch cal.String() {
					case "os.Exit", "runtime.Goexit", "log.Fatal", "log.Fatalf", "log.Fatalln", "syscall.Exit":
						n++
						c.R.Add(rule, cal.String()+" in "+c.P.FuncKey(f), c.P.InstrPos(in), Violation, "ends the process / goroutine instead of returning an error")
					}
				}
			}
		})
	}
	c.R.Add(rule, "scan", "-", OK, "")
	c.R.Analysed["no_escape_findings"] = n
}

// returnPair resolves the (value, error) a return hands back, looking through named-result cells.
func returnPair(ret *ssa.Return) (ssa.Value, ssa.Value) {
	var getN func(v ssa.Value, depth int) ssa.Value
	getN = func(v ssa.Value, depth int) ssa.Value {
		u, ok := v.(*ssa.UnOp)
		if !ok {
			return v
		}
		a, ok := u.X.(*ssa.Alloc)
		if !ok {
			return v
		}
		// the last store to the cell before the load, in the same block (a value copied from cell to cell, as the
		// named results of a function with a deferred closure are, is followed back)
		b := u.Block()
		idx := posOf(u).I
		for i := idx - 1; i >= 0; i-- {
			if st, ok := b.Instrs[i].(*ssa.Store); ok && st.Addr == ssa.Value(a) {
				if depth < 4 {
					return getN(st.Val, depth+1)
				}
				return st.Val
			}
		}
		return v
	}
	get := func(v ssa.Value) ssa.Value { return getN(v, 0) }
	if len(ret.Results) != 2 {
		return nil, nil
	}
	return get(ret.Results[0]), get(ret.Results[1])
}

func isNilConst(v ssa.Value) bool {
	k, ok := v.(*ssa.Const)
	return ok && k.Value == nil
}

// shapeOK: every return of f is (nil, err) or (v, nil), or hands back the
// pair of a callee that has this shape (checked recursively, depth-bounded).
func (c *Ctx) shapeOK(f *ssa.Function, depth int, seen map[*ssa.Function]bool) (bool, string) {
	if f == nil || len(f.Blocks) == 0 {
		return false, "no body"
	}
	if seen[f] {
		return true, ""
	}
	seen[f] = true
	ok := true
	why := ""
	instrs(f, func(b *ssa.BasicBlock, i int, in ssa.Instruction) {
		ret, isRet := in.(*ssa.Return)
		if !isRet || !ok {
			return
		}
		if f.Recover != nil && b == f.Recover {
			return // executed after a recovered panic: returns what the deferred function stored (checked by recover shape)
		}
		v, e := returnPair(ret)
		if v == nil {
			ok, why = false, "not a (value, error) pair"
			return
		}
		if isNilConst(e) || isNilConst(v) {
			return
		}
		// both from the same call
		rv, re := plainOrigins.Roots(v), plainOrigins.Roots(e)
		if len(rv) == 1 && len(re) == 1 && rv[0].Kind == "call" && rv[0].V == re[0].V && rv[0].Idx == 0 && re[0].Idx == 1 && rv[0].Fn != nil && c.inModule(rv[0].Fn) && depth < 4 {
			if sub, w := c.shapeOK(rv[0].Fn, depth+1, seen); !sub {
				ok, why = false, "returns the pair of "+c.P.FuncKey(rv[0].Fn)+", which "+w
			}
			return
		}
		// the value of such a pair passed through a function that hands nil back as nil (`return try2Float64(res), err`)
		if call, isC := v.(*ssa.Call); isC && len(call.Call.Args) == 1 && depth < 4 {
			if g := calleeOf(call); g != nil && c.inModule(g) && len(g.Params) == 1 && len(g.Blocks) > 0 {
				r := c.foldWith(g, 1, pinTypeCase(g.Params[0], "nil"))
				nilKept := len(r.Returns) > 0
				for _, gr := range r.Returns {
					if len(gr.Results) != 1 || !(gr.Results[0] == ssa.Value(g.Params[0]) || isNilConst(gr.Results[0])) {
						nilKept = false
					}
				}
				ra, re := plainOrigins.Roots(call.Call.Args[0]), plainOrigins.Roots(e)
				if nilKept && len(ra) == 1 && len(re) == 1 && ra[0].Kind == "call" && ra[0].V == re[0].V && ra[0].Idx == 0 && re[0].Idx == 1 && ra[0].Fn != nil && c.inModule(ra[0].Fn) {
					if sub, w := c.shapeOK(ra[0].Fn, depth+1, seen); !sub {
						ok, why = false, "returns the pair of "+c.P.FuncKey(ra[0].Fn)+", which "+w
					}
					return
				}
			}
		}
		ok, why = false, "at "+c.P.InstrPos(ret)+" a possibly non-nil value is returned together with a possibly non-nil error"
	})
	return ok, why
}

func c03Shape(c *Ctx, entry *ssa.Function, d *Dispatcher) {
	const rule = "C03.result-shape"
	ok, why := c.shapeOK(entry, 0, map[*ssa.Function]bool{})
	c.R.Check(rule, "(*Runner).Resolve", c.P.Pos(entry.Pos()), ok, "Resolve must return a value with a nil error or nil with an error: "+why)
	ok, why = c.shapeOK(d.Fn, 0, map[*ssa.Function]bool{})
	c.R.Check(rule, c.P.FuncKey(d.Fn), c.P.Pos(d.Fn.Pos()), ok, "the node dispatcher must return a value with a nil error or nil with an error: "+why)
	// the deferred recovery also clears the value
	info := c.recoverShape(entry)
	if info.OK {
		clears := false
		instrs(info.Closure, func(b *ssa.BasicBlock, i int, in ssa.Instruction) {
			if st, isSt := in.(*ssa.Store); isSt {
				if fv, isFV := st.Addr.(*ssa.FreeVar); isFV {
					if pt, isP := fv.Type().(*types.Pointer); isP && pt.Elem().String() != "error" && isNilConst(st.Val) {
						clears = true
					}
				}
			}
		})
		c.R.Check(rule, "recovery-clears-value", c.P.Pos(info.Closure.Pos()), clears, "after a recovered panic the returned value must be nil (stored by the deferred function)")
	}
	c.R.Floor(rule, 2)
}

func c03Exhaustive(c *Ctx, d *Dispatcher) {
	const rule = "C03.exhaustive-dispatch"
	pos := c.P.Pos(d.Fn.Pos())
	for _, nt := range c.NodeTypes() {
		name := nt.Obj().Name()
		c.R.Check(rule, "arm:"+name, pos, d.Handlers[name] != nil, "the evaluator has no arm for *"+name)
	}
	ok, why := defaultReturnsError(d, 1)
	c.R.Check(rule, "default-error", pos, ok, "unknown node kinds must evaluate to an error: "+why)
	// prefix operators and literal kinds unknown to the evaluator end in an error
	for _, spec := range []struct{ typ, what string }{{"PrefixUnaryExpression", "prefix operator"}, {"LiteralExpression", "literal kind"}} {
		h := d.Handlers[spec.typ]
		if h == nil {
			continue
		}
		control := c.nodeTokenFolder(c.SK("SK_Unknown")).Fold(h, makeBottoms(len(h.Params)))
		good := len(control.Returns) > 0
		for _, ret := range control.Returns {
			_, e := returnPair(ret)
			if e == nil || isNilConst(e) {
				good = false
			}
		}
		c.R.Check(rule, "unknown-"+strings.ReplaceAll(spec.what, " ", "-"), c.P.Pos(h.Pos()), good, "an unknown "+spec.what+" must evaluate to an error, not to a silent null")
	}
	c.R.Floor(rule, 13)
}

func c03Recursion(c *Ctx, entry *ssa.Function, d *Dispatcher, rr *ReachResult) {
	const rule = "C03.structural-recursion"
	// every call of the dispatcher passes a child of the caller's node (or, in a helper, a parameter that every caller fills with a child)
	var descending func(v ssa.Value, f *ssa.Function, depth int) (bool, string)
	descending = func(v ssa.Value, f *ssa.Function, depth int) (bool, string) {
		rs := plainOrigins.Roots(v)
		if len(rs) == 0 {
			return false, "no origin"
		}
		for _, rt := range rs {
			switch {
			case rt.Kind == "param" && len(rt.Path) >= 1:
				// a field of a node parameter
			case rt.Kind == "call" && rt.Fn != nil && typeName(recvType(rt.Fn)) == "NodeList" && (fnBase(rt.Fn) == "At" || fnBase(rt.Fn) == "NodeAt"):
				at := rt.V.(*ssa.Call)
				if ok, w := descending(at.Call.Args[0], f, depth); !ok {
					return false, w
				}
			case rt.Kind == "call" && rt.Fn != nil && typeName(recvType(rt.Fn)) == "NodeList" && fnBase(rt.Fn) == "Array":
				// an element of the list's slice (`for _, e := range node.List.Array()`)
				arr := rt.V.(*ssa.Call)
				if ok, w := descending(arr.Call.Args[0], f, depth); !ok {
					return false, w
				}
			case rt.Kind == "param" && len(rt.Path) == 0 && depth < 3 && f != d.Fn:
				// helper: all of its call sites must pass descending values
				idx := rt.Idx
				n := 0
				for _, g := range rr.Order {
					for _, cs := range callsTo(g, f) {
						n++
						if ok, w := descending(cs.Call.Args[idx], g, depth+1); !ok {
							return false, "helper " + c.P.FuncKey(f) + " is called from " + c.P.FuncKey(g) + " with " + w
						}
					}
				}
				if n == 0 {
					return false, "parameter of a function without evaluator call sites"
				}
			default:
				return false, rt.String()
			}
		}
		return true, ""
	}
	n := 0
	for _, f := range rr.Order {
		if f == entry {
			continue
		}
		k := 0
		for _, cs := range callsTo(f, d.Fn) {
			n++
			k++
			// the node argument: the Expression-typed parameter of the dispatcher
			var arg ssa.Value
			for i, p := range d.Fn.Params {
				if p == d.Param {
					arg = cs.Call.Args[i]
				}
			}
			ok, why := descending(arg, f, 0)
			c.R.Check(rule, fmt.Sprintf("%s: evaluate#%d", c.P.FuncKey(f), k), c.P.InstrPos(cs), ok, "recursive evaluation must descend to a child of the node being evaluated (otherwise evaluation may not terminate); the argument is "+why)
		}
	}
	// loops: bounded by a length
	nl := 0
	var fs []*ssa.Function
	fs = append(fs, rr.Order...)
	sort.Slice(fs, func(i, j int) bool { return c.P.FuncKey(fs[i]) < c.P.FuncKey(fs[j]) })
	for _, f := range fs {
		for li, l := range naturalLoops(f) {
			nl++
			ok, why := c.boundedLoop(f, l)
			c.R.Check("C03.bounded-loops", fmt.Sprintf("%s: loop#%d", c.P.FuncKey(f), li+1), c.P.InstrPos(l.Header.Instrs[0]), ok, "every loop reachable from evaluation must be bounded by a length (range loop, map iterator, or `for i := c; i < n; i++` with i not otherwise assigned): "+why)
		}
	}
	c.R.Analysed["evaluator_loops"] = nl
	c.R.Floor(rule, 6)
	c.R.Floor("C03.bounded-loops", 3)
}

// boundedLoop recognises counting loops, range loops and iterator loops.
func (c *Ctx) boundedLoop(f *ssa.Function, l *Loop) (bool, string) {
	// range over map / string: a Next instruction in the header
	for b := range l.Body {
		for _, in := range b.Instrs {
			if _, ok := in.(*ssa.Next); ok {
				return true, ""
			}
			if call, ok := in.(*ssa.Call); ok && b == l.Header {
				if cal := calleeOf(call); cal != nil && cal.String() == "(*reflect.MapIter).Next" {
					return true, ""
				}
			}
		}
	}
	// counting loop: header (or the block deciding the exit) tests phi < bound, phi steps by +1 from a constant
	for b := range l.Body {
		iff, ok := b.Instrs[len(b.Instrs)-1].(*ssa.If)
		if !ok {
			continue
		}
		exits := false
		for _, s := range b.Succs {
			if !l.Body[s] {
				exits = true
			}
		}
		if !exits {
			continue
		}
		bo, ok := iff.Cond.(*ssa.BinOp)
		if !ok || (bo.Op != token.LSS && bo.Op != token.LEQ) {
			continue
		}
		phi, ok := bo.X.(*ssa.Phi)
		if !ok {
			// the rotated form of `for i := range s`: t = phi + 1; if t < len(s)
			if inc, isInc := bo.X.(*ssa.BinOp); isInc && inc.Op == token.ADD {
				if p2, isPhi := inc.X.(*ssa.Phi); isPhi {
					if n, isC := constIntArg(inc.Y); isC && n == 1 {
						for _, e := range p2.Edges {
							if e == ssa.Value(inc) {
								phi, ok = p2, true
							}
						}
					}
				}
			}
		}
		if !ok || phi.Block() != l.Header {
			continue
		}
		stepOK, startOK := false, false
		for i, e := range phi.Edges {
			pred := l.Header.Preds[i]
			if l.Body[pred] {
				if st, ok := e.(*ssa.BinOp); ok && st.Op == token.ADD && st.X == ssa.Value(phi) {
					if n, ok := constIntArg(st.Y); ok && n >= 1 {
						stepOK = true
					}
				}
			} else {
				startOK = true
			}
		}
		// the bound is loop-invariant: a length (len builtin, Len method) or a value defined outside the loop
		boundOK := false
		switch y := bo.Y.(type) {
		case *ssa.Call:
			if isBuiltinCall(y, "len") {
				boundOK = true
			} else if cal := calleeOf(y); cal != nil && (fnBase(cal) == "Len" || cal.String() == "(reflect.Value).Len" || cal.String() == "(reflect.Value).NumField") {
				boundOK = true
			}
		case *ssa.Const, *ssa.Parameter:
			boundOK = true
		default:
			if in, ok := bo.Y.(ssa.Instruction); ok && !l.Body[in.Block()] {
				boundOK = true
			}
		}
		if stepOK && startOK && boundOK {
			return true, ""
		}
		// two indices that meet: `for i, j := 0, n-1; i < j; i, j = i+1, j-1` (the bound is a loop-carried value that
		// only goes down while the counter only goes up)
		if stepOK && startOK {
			if q, isPhi := bo.Y.(*ssa.Phi); isPhi && q.Block() == l.Header {
				down := true
				for i, e := range q.Edges {
					if !l.Body[l.Header.Preds[i]] {
						continue
					}
					st, ok := e.(*ssa.BinOp)
					if !ok || st.X != ssa.Value(q) {
						down = false
						continue
					}
					n, isK := constIntArg(st.Y)
					if !(isK && (st.Op == token.SUB && n >= 0 || st.Op == token.ADD && n <= 0)) {
						down = false
					}
				}
				if down {
					return true, ""
				}
			}
		}
		return false, fmt.Sprintf("counting loop with step+1=%v, invariant length bound=%v", stepOK, boundOK)
	}
	// a walk down the tree: some loop-carried node value is, on every way round, replaced by a child of itself (a
	// field of the node it currently is); trees are finite
	for _, in := range l.Header.Instrs {
		phi, ok := in.(*ssa.Phi)
		if !ok {
			break
		}
		if _, isIface := phi.Type().Underlying().(*types.Interface); !isIface {
			if _, isPtr := phi.Type().Underlying().(*types.Pointer); !isPtr {
				continue
			}
		}
		descends := true
		back := 0
		for i, e := range phi.Edges {
			if !l.Body[l.Header.Preds[i]] {
				continue
			}
			back++
			if !childOf(e, phi, 0) {
				descends = false
			}
		}
		if back > 0 && descends {
			return true, ""
		}
	}
	return false, "no recognised loop form"
}

// childOf: v is read from a field of the node cur holds (through type assertions, conversions and phis of such reads).
func childOf(v ssa.Value, cur ssa.Value, depth int) bool {
	if depth > 6 {
		return false
	}
	switch x := v.(type) {
	case *ssa.ChangeInterface:
		return childOf(x.X, cur, depth+1)
	case *ssa.MakeInterface:
		return childOf(x.X, cur, depth+1)
	case *ssa.ChangeType:
		return childOf(x.X, cur, depth+1)
	case *ssa.Phi:
		if x == cur {
			return false
		}
		for _, e := range x.Edges {
			if !childOf(e, cur, depth+1) {
				return false
			}
		}
		return len(x.Edges) > 0
	case *ssa.UnOp:
		fa, ok := x.X.(*ssa.FieldAddr)
		if !ok {
			return false
		}
		return isNodeItself(fa.X, cur, 0)
	}
	return false
}

// isNodeItself: v is cur under a type assertion / conversion (the node whose field is read).
func isNodeItself(v ssa.Value, cur ssa.Value, depth int) bool {
	if v == cur {
		return true
	}
	if depth > 4 {
		return false
	}
	switch x := v.(type) {
	case *ssa.TypeAssert:
		return isNodeItself(x.X, cur, depth+1)
	case *ssa.Extract:
		if ta, ok := x.Tuple.(*ssa.TypeAssert); ok && x.Index == 0 {
			return isNodeItself(ta.X, cur, depth+1)
		}
	case *ssa.ChangeInterface:
		return isNodeItself(x.X, cur, depth+1)
	}
	return false
}

// c03Locks: evaluation terminates. A lock taken in evaluator-reachable code must be released by a deferred unlock
// registered before anything that may panic: Resolve recovers the panic, but a lock left held blocks the next
// evaluation that reaches the same lock forever.
func c03Locks(c *Ctx, rr *ReachResult) {
	const rule = "C03.lock-released-on-panic"
	n := 0
	for _, f := range rr.Order {
		per := 0
		for _, b := range f.Blocks {
			for i, in := range b.Instrs {
				call, ok := in.(*ssa.Call)
				if !ok {
					continue
				}
				cal := calleeOf(call)
				if cal == nil {
					continue
				}
				name := cal.String()
				if name != "(*sync.Mutex).Lock" && name != "(*sync.RWMutex).Lock" && name != "(*sync.RWMutex).RLock" {
					continue
				}
				n++
				per++
				// the rest of the block: a deferred unlock before any other call
				good := false
				why := "no deferred unlock follows the lock"
				for _, nx := range b.Instrs[i+1:] {
					if d, isD := nx.(*ssa.Defer); isD {
						if dc := calleeOf(d); dc != nil && (dc.String() == "(*sync.Mutex).Unlock" || dc.String() == "(*sync.RWMutex).Unlock" || dc.String() == "(*sync.RWMutex).RUnlock") {
							good = true
							break
						}
					}
					if _, isCall := nx.(ssa.CallInstruction); isCall {
						why = "a call precedes the (deferred) unlock"
						break
					}
					if _, isMU := nx.(*ssa.MapUpdate); isMU {
						continue
					}
				}
				if !good {
					// explicit unlock is fine only when nothing between lock and unlock can panic
					sites := c.panicSites(map[*ssa.Function]bool{f: true}, []*ssa.Function{f})
					risky := false
					for _, s := range sites {
						if pathExists(f, in, func(x ssa.Instruction) bool { return x == s.In }, func(x ssa.Instruction) bool {
							uc, isC := x.(*ssa.Call)
							return isC && calleeOf(uc) != nil && strings.HasSuffix(calleeOf(uc).String(), "Unlock")
						}, nil) {
							risky = true
							why = "a " + s.Kind + " at " + c.P.InstrPos(s.In) + " can panic while the lock is held"
						}
					}
					good = !risky
				}
				c.R.Check(rule, fmt.Sprintf("%s: lock#%d", c.P.FuncKey(f), per), c.P.InstrPos(in), good, "a lock taken during evaluation must be released when the evaluation panics (Resolve recovers, the lock stays held and the next evaluation blocks forever): "+why)
			}
		}
	}
	c.R.Add(rule, "locks-examined", "-", OK, "")
	c.R.Analysed["locks_in_evaluator"] = n
}
