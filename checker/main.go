package main

import (
	"encoding/json"
	"flag"
	"fmt"
	"go/ast"
	"go/types"
	"os"
	"path/filepath"
	"sort"
	"strconv"
	"strings"
)

// fcheck: static verification of aundis/formula properties C01..C20.
// Usage: fcheck -prop C07 -tier quick|thorough   (from /verif)
//        fcheck -replay evidence/replay/C07-1.json
//        fcheck -all -tier quick
//        fcheck -selftest [-prop C02]

type ruleFn func(c *Ctx)

type propDef struct {
	ID         string
	Decides    string
	NotDecided string
	Run        ruleFn
}

var props = map[string]*propDef{}

func register(id, decides, notDecided string, run ruleFn) {
	props[id] = &propDef{ID: id, Decides: decides, NotDecided: notDecided, Run: run}
}

func verifDir() string {
	if d := os.Getenv("VERIF_DIR"); d != "" {
		return d
	}
	exe, err := os.Executable()
	if err == nil {
		d := filepath.Dir(filepath.Dir(exe))
		if _, err := os.Stat(filepath.Join(d, "properties.jsonl")); err == nil {
			return d
		}
	}
	wd, _ := os.Getwd()
	return wd
}

func main() {
	prop := flag.String("prop", "", "property id (C01..C20)")
	tier := flag.String("tier", "", "quick|thorough (default: $VERIF_TIER or quick)")
	repo := flag.String("repo", "", "repository directory (default $FORMULA_REPO or /repo)")
	replay := flag.String("replay", "", "replay file written by an earlier run")
	all := flag.Bool("all", false, "run every registered property")
	noEvidence := flag.Bool("no-evidence", false, "do not write evidence files (used by self-test children)")
	selftest := flag.Bool("selftest", false, "run the overlay self-test corpus only")
	mutant := flag.String("mutant", "", "(internal) run with the named self-test edit applied as an overlay")
	dump := flag.String("dump", "", "debug: dump extracted tables (ladder|lexemes|...)")
	list := flag.Bool("list", false, "list registered properties")
	flag.Parse()

	if *tier == "" {
		*tier = os.Getenv("VERIF_TIER")
	}
	if *tier != "thorough" {
		*tier = "quick"
	}
	if *repo == "" {
		*repo = os.Getenv("FORMULA_REPO")
	}
	if *repo == "" {
		*repo = "/repo"
	}
	seed := int64(0)
	if s := os.Getenv("VERIF_SEED"); s != "" {
		if n, err := strconv.ParseInt(s, 10, 64); err == nil {
			seed = n
		}
	}
	vdir := verifDir()

	if os.Getenv("FCHECK_DUMP_PINNED") != "" {
		q, err := Load(*repo, nil, "", false)
		if err != nil {
			fmt.Println(err)
			os.Exit(2)
		}
		var lines []string
		for _, f := range q.Root.Syntax {
			for _, d := range f.Decls {
				if fd, ok := d.(*ast.FuncDecl); ok {
					if o, ok := q.Root.TypesInfo.Defs[fd.Name].(*types.Func); ok {
						if os.Getenv("FCHECK_DUMP_PINNED") == "shapes" {
							lines = append(lines, fmt.Sprintf("\t%q: %q,", funcObjKey(o), bodyShape(fd)))
						} else {
							lines = append(lines, fmt.Sprintf("\t%q: %q,", funcObjKey(o), sigKey(o)))
						}
					}
				}
			}
		}
		sort.Strings(lines)
		fmt.Println(strings.Join(lines, "\n"))
		return
	}
	if *list {
		var ids []string
		for id := range props {
			ids = append(ids, id)
		}
		sort.Strings(ids)
		fmt.Println(strings.Join(ids, " "))
		return
	}

	if *replay != "" {
		os.Exit(doReplay(*replay, *repo, vdir))
	}

	if *selftest {
		os.Exit(runSelftestCLI(*repo, vdir, *prop))
	}

	var ids []string
	if *all {
		for id := range props {
			ids = append(ids, id)
		}
		sort.Strings(ids)
	} else if *prop != "" {
		if _, ok := props[*prop]; !ok {
			fmt.Printf("CHECKER-BROKEN: unknown property %q\n", *prop)
			os.Exit(2)
		}
		ids = []string{*prop}
	} else {
		flag.Usage()
		os.Exit(2)
	}

	var overlay map[string][]byte
	if *mutant != "" {
		var err error
		overlay, err = mutantOverlay(*repo, *mutant)
		if err != nil {
			fmt.Println("SELFTEST-SKIP:", err)
			os.Exit(3)
		}
	}

	p, err := Load(*repo, overlay, "", true)
	if err != nil {
		fmt.Println(err)
		// a tree that does not load cannot be judged; this is a failure of the check, reported as such
		for _, id := range ids {
			fmt.Printf("VIOLATION property=%s replay=%s\n", id, filepath.Join(vdir, "evidence", "replay", id+"-load.json"))
		}
		os.Exit(1)
	}
	if *dump != "" {
		c := NewCtx(p, NewReport("dump", *tier, seed), *tier)
		c.Dump(*dump)
		return
	}
	exit := 0
	var norm *Prog
	var normDone []string
	var normOverlay map[string][]byte
	normTried := false
	constTried := false
	rerollTried := false
	var rerolls []*Prog
	var rerollDone [][]string
	var inls []*Prog
	var inlDone [][]string
	inlTried := false
	for _, id := range ids {
		rep := NewReport(id, *tier, seed)
		c := NewCtx(p, rep, *tier)
		code := runProp(c, props[id])
		// Programs that factor code through higher-order helpers are also judged in their equivalent first-order
		// form (see specialise.go). When the program as written raises something, the normalised program's verdict
		// stands if it is clean (the report was a recognition failure). When the program as written is clean, definite
		// violations found in the normalised form still count: a slip hidden behind a function-valued parameter is
		// invisible to rules that read direct calls.
		if !normTried {
			normTried = true
			if files, done := SpecialiseHigherOrder(*repo, overlay, pinnedView(p)); len(done) > 0 {
				merged := map[string][]byte{}
				for k, v := range overlay {
					merged[k] = v
				}
				for k, v := range files {
					merged[k] = v
				}
				if np, err := Load(*repo, merged, "", true); err == nil {
					norm, normDone, normOverlay = np, done, merged
				} else if os.Getenv("FCHECK_DEBUG") != "" {
					fmt.Println("normalisation discarded:", err)
				}
			}
		}
		if !constTried && (hasNewHelpers(p) || rep.failing(vdir) > 0) {
			constTried = true
			{
				bp, bo := p, overlay
				if norm != nil {
					bp, bo = norm, normOverlay
				}
				if files, done := NormaliseConstArgs(*repo, bp, bo); len(done) > 0 {
					if np, err := Load(*repo, files, "", true); err == nil {
						norm, normOverlay = np, files
						normDone = append(normDone, done...)
						if d := os.Getenv("FCHECK_DUMP_INLINED"); d != "" {
							for k, v := range files {
								os.WriteFile(filepath.Join(d, "const_"+filepath.Base(k)), v, 0o644)
							}
						}
					} else if os.Getenv("FCHECK_DEBUG") != "" {
						fmt.Println("constant-argument normalisation discarded:", err)
					}
				}
			}
		}
		if norm != nil {
			rep2 := NewReport(id, *tier, seed)
			c2 := NewCtx(norm, rep2, *tier)
			runProp(c2, props[id])
			rep2.Analysed["normalised_higher_order_helpers"] = normDone
			if os.Getenv("FCHECK_DEBUG") != "" {
				for _, o := range rep2.Obs {
					if o.Verdict != OK {
						fmt.Printf("normalised program: %s %s: %s: %s: %s\n", o.Verdict, o.Pos, o.Rule, o.Construct, o.Reason)
					}
				}
				if d := os.Getenv("FCHECK_DUMP_NORMALISED"); d != "" {
					if files, _ := SpecialiseHigherOrder(*repo, overlay, pinnedView(p)); files != nil {
						for k, v := range files {
							os.WriteFile(filepath.Join(d, filepath.Base(k)), v, 0o644)
						}
					}
				}
			}
			if rep.failing(vdir) > 0 {
				if rep2.failing(vdir) == 0 {
					rep2.Add(id+".normalisation", "higher-order helpers specialised", "-", OK, "")
					rep, c = rep2, c2
				}
			} else if rep2.definiteViolations(vdir) > 0 {
				// keep the clean report's obligations and add the definite violations of the normalised form
				for _, o := range rep2.Obs {
					if o.Verdict == Violation && o.Construct != "VACUOUS" {
						rep.Add(o.Rule, o.Construct+" [first-order form]", o.Pos, Violation, o.Reason)
					}
				}
			}
		}
		// Extracted single-use helpers are folded back into their callers (see inline.go) when something is still
		// raised: the verdict of that equivalent program stands if it is clean.
		wasFailing := rep.failing(vdir) > 0
		if (wasFailing || hasNewHelpers(p)) && os.Getenv("FCHECK_NO_INLINE") == "" {
			if !inlTried {
				inlTried = true
				base, baseOverlay := p, overlay
				if norm != nil {
					base, baseOverlay = norm, normOverlay
				}
				// first the helpers used once; then, in a second attempt, also small shared helpers a later edit introduced
				for _, shared := range []bool{false, true} {
					files, done := InlineSingleUse(*repo, baseOverlay, base, 5, shared)
					if len(done) == 0 {
						inls = append(inls, nil)
						continue
					}
					if shared && len(inls) > 0 && inls[0] != nil && strings.Join(done, ";") == strings.Join(inlDone[0], ";") {
						inls = append(inls, nil)
						continue // nothing more than the first attempt
					}
					np, err := Load(*repo, files, "", true)
					if err != nil {
						if os.Getenv("FCHECK_DEBUG") != "" {
							fmt.Println("inlined program discarded:", err)
						}
						np = nil
					}
					inls = append(inls, np)
					for len(inlDone) < len(inls) {
						inlDone = append(inlDone, nil)
					}
					inlDone[len(inls)-1] = done
					if d := os.Getenv("FCHECK_DUMP_INLINED"); d != "" && np != nil {
						for k, v := range files {
							os.WriteFile(filepath.Join(d, fmt.Sprintf("%v_", shared)+filepath.Base(k)), v, 0o644)
						}
					}
				}
			}
			if !wasFailing && pinnedAllPresent(p) {
				// The program as written is clean. A slip inside (or at the seam of) a helper that a later edit cut out
				// is invisible to rules that read the caller only: definite violations of the most expanded form count.
				for ai := len(inls) - 1; ai >= 0; ai-- {
					if inls[ai] == nil {
						continue
					}
					rep3 := NewReport(id, *tier, seed)
					runProp(NewCtx(inls[ai], rep3, *tier), props[id])
					if os.Getenv("FCHECK_DEBUG") != "" {
						fmt.Println("inlined (program as written is clean):", inlDone[ai])
						for _, o := range rep3.Obs {
							if o.Verdict != OK {
								fmt.Printf("expanded program: %s %s: %s: %s: %s\n", o.Verdict, o.Pos, o.Rule, o.Construct, o.Reason)
							}
						}
					}
					if rep3.definiteViolations(vdir) > 0 {
						for _, o := range rep3.Obs {
							if o.Verdict == Violation && o.Construct != "VACUOUS" {
								rep.Add(o.Rule, o.Construct+" [helpers expanded]", o.Pos, Violation, o.Reason)
							}
						}
					}
					break
				}
			}
			var bestRep *Report
			var bestCtx *Ctx
			for ai, inl := range inls {
				if inl == nil || !wasFailing {
					continue
				}
				rep3 := NewReport(id, *tier, seed)
				c3 := NewCtx(inl, rep3, *tier)
				runProp(c3, props[id])
				rep3.Analysed["inlined_helpers"] = inlDone[ai]
				if os.Getenv("FCHECK_DEBUG") != "" {
					fmt.Println("inlined:", inlDone[ai])
					for _, o := range rep3.Obs {
						if o.Verdict != OK {
							fmt.Printf("inlined program: %s %s: %s: %s: %s\n", o.Verdict, o.Pos, o.Rule, o.Construct, o.Reason)
						}
					}
				}
				if rep3.failing(vdir) == 0 {
					rep3.Add(id+".normalisation", "extracted helpers expanded at their call sites", "-", OK, "")
					rep, c = rep3, c3
					bestRep = nil
					break
				}
				if bestRep == nil || rep3.failing(vdir) <= bestRep.failing(vdir) {
					bestRep, bestCtx = rep3, c3
				}
			}
			// last resort: bodies of pinned functions written out at a call site are rolled back into calls (reroll.go),
			// and that program is judged as it stands and with its extracted helpers expanded
			if wasFailing && rep.failing(vdir) > 0 && (bestRep != nil || len(inls) == 0 || true) {
				if !rerollTried {
					rerollTried = true
					bp, bo := p, overlay
					if norm != nil {
						bp, bo = norm, normOverlay
					}
					if files, done := RerollPinned(bp, bo, pinnedView(bp)); len(done) > 0 {
						merged := map[string][]byte{}
						for k, v := range bo {
							merged[k] = v
						}
						for k, v := range files {
							merged[k] = v
						}
						if os.Getenv("FCHECK_DEBUG") != "" {
							fmt.Println("re-rolled:", done)
							if d := os.Getenv("FCHECK_DUMP_INLINED"); d != "" {
								for k, v := range files {
									os.WriteFile(filepath.Join(d, "reroll_"+filepath.Base(k)), v, 0o644)
								}
							}
						}
						if np, err := Load(*repo, merged, "", true); err == nil {
							rerolls = append(rerolls, np)
							rerollDone = append(rerollDone, done)
							for _, shared := range []bool{false, true} {
								f2, d2 := InlineSingleUse(*repo, merged, np, 5, shared)
								if len(d2) == 0 {
									continue
								}
								if q, err := Load(*repo, f2, "", true); err == nil {
									rerolls = append(rerolls, q)
									rerollDone = append(rerollDone, append(append([]string{}, done...), d2...))
								}
							}
						} else if os.Getenv("FCHECK_DEBUG") != "" {
							fmt.Println("re-rolled program discarded:", err)
						}
					}
				}
				for ri, rp := range rerolls {
					rep4 := NewReport(id, *tier, seed)
					c4 := NewCtx(rp, rep4, *tier)
					runProp(c4, props[id])
					rep4.Analysed["rerolled_and_inlined"] = rerollDone[ri]
					if os.Getenv("FCHECK_DEBUG") != "" {
						for _, o := range rep4.Obs {
							if o.Verdict != OK {
								fmt.Printf("re-rolled program: %s %s: %s: %s: %s\n", o.Verdict, o.Pos, o.Rule, o.Construct, o.Reason)
							}
						}
					}
					if rep4.failing(vdir) == 0 {
						rep4.Add(id+".normalisation", "written-out bodies of pinned functions rolled back into calls", "-", OK, "")
						rep, c = rep4, c4
						bestRep = nil
						break
					}
					if bestRep == nil || rep4.failing(vdir) <= bestRep.failing(vdir) {
						bestRep, bestCtx = rep4, c4
					}
				}
			}
			if bestRep != nil && bestRep.failing(vdir) <= rep.failing(vdir) && !(bestRep.failing(vdir) == rep.failing(vdir) && bestRep.definiteViolations(vdir) < rep.definiteViolations(vdir)) {
				// every form fails (a definite finding on the program as written is not traded for an undecided one on
				// an expanded form): the findings of the form with the fewest are the ones to read (the others add what a
				// rule cannot see through the helper on top of the same defect)
				bestRep.Add(id+".normalisation", "findings reported on the program with extracted helpers expanded", "-", OK, "")
				rep, c = bestRep, bestCtx
			}
		}
		if code == 0 && *tier == "thorough" && *mutant == "" && !*noEvidence {
			// architecture coverage: no file may be gated by GOARCH
			if _, err := Load(*repo, nil, "386", false); err != nil {
				rep.Add(id+".coverage-386", "load GOARCH=386", "-", Violation, err.Error())
			} else {
				rep.Add(id+".coverage-386", "load GOARCH=386", "-", OK, "")
			}
			c.vtaCrossCheck(id + ".reach-crosscheck")
			rep.Selftest = runSelftest(*repo, vdir, id)
			if st, ok := rep.Selftest["broken"].([]string); ok && len(st) > 0 {
				fmt.Printf("CHECKER-BROKEN: self-test failed for %s: %s\n", id, strings.Join(st, "; "))
				rep.Finish(vdir, true)
				os.Exit(2)
			}
		}
		if code == 2 {
			exit = 2
			continue
		}
		if e := rep.Finish(vdir, !*noEvidence); e > exit {
			exit = e
		}
	}
	os.Exit(exit)
}

func runProp(c *Ctx, pd *propDef) (code int) {
	defer func() {
		if r := recover(); r != nil {
			// a panic of the checker is a failure of the check, never a pass
			c.R.Add(pd.ID+".checker", "panic", "-", Undecided, fmt.Sprintf("checker panicked: %v", r))
			if os.Getenv("FCHECK_DEBUG") != "" {
				panic(r)
			}
		}
	}()
	c.R.Decides = pd.Decides
	c.R.NotDecided = pd.NotDecided
	c.recordAnalysed()
	pd.Run(c)
	return 0
}

func doReplay(path, repo, vdir string) int {
	b, err := os.ReadFile(path)
	if err != nil {
		fmt.Println("CHECKER-BROKEN: cannot read replay file:", err)
		return 2
	}
	var doc struct {
		Property   string     `json:"property"`
		Tier       string     `json:"tier"`
		Obligation Obligation `json:"obligation"`
	}
	if err := json.Unmarshal(b, &doc); err != nil {
		fmt.Println("CHECKER-BROKEN: bad replay file:", err)
		return 2
	}
	pd, ok := props[doc.Property]
	if !ok {
		fmt.Println("CHECKER-BROKEN: unknown property in replay file")
		return 2
	}
	p, err := Load(repo, nil, "", true)
	if err != nil {
		fmt.Println(err)
		fmt.Printf("VIOLATION property=%s replay=%s\n", doc.Property, path)
		return 1
	}
	rep := NewReport(doc.Property, "quick", 0)
	c := NewCtx(p, rep, "quick")
	runProp(c, pd)
	for _, o := range rep.Obs {
		if o.Key() == doc.Obligation.Key() {
			fmt.Printf("replayed %s: verdict=%s %s %s\n", o.Key(), o.Verdict, o.Pos, o.Reason)
			if o.Verdict != OK {
				fmt.Printf("VIOLATION property=%s replay=%s\n", doc.Property, path)
				return 1
			}
			return 0
		}
	}
	fmt.Printf("replayed %s: obligation no longer exists on this tree (construct disappeared)\n", doc.Obligation.Key())
	return 0
}

// hasNewHelpers: the package declares an unexported function or method that the pinned tree does not have.
func hasNewHelpers(p *Prog) bool {
	for _, f := range p.Root.Syntax {
		for _, d := range f.Decls {
			fd, ok := d.(*ast.FuncDecl)
			if !ok || fd.Body == nil {
				continue
			}
			o, ok := p.Root.TypesInfo.Defs[fd.Name].(*types.Func)
			if !ok || o.Exported() || o.Name() == "init" {
				continue
			}
			if !pinnedView(p)[funcObjKey(o)] {
				return true
			}
		}
	}
	return false
}

// sigKey: the signature of a function without parameter names (receiver type included).
func sigKey(o *types.Func) string {
	sig := o.Type().(*types.Signature)
	qual := func(pk *types.Package) string { return pk.Name() }
	var b strings.Builder
	if r := sig.Recv(); r != nil {
		b.WriteString("(" + types.TypeString(r.Type(), qual) + ")")
	}
	b.WriteString("(")
	for i := 0; i < sig.Params().Len(); i++ {
		if i > 0 {
			b.WriteString(", ")
		}
		b.WriteString(types.TypeString(sig.Params().At(i).Type(), qual))
	}
	b.WriteString(")(")
	for i := 0; i < sig.Results().Len(); i++ {
		if i > 0 {
			b.WriteString(", ")
		}
		b.WriteString(types.TypeString(sig.Results().At(i).Type(), qual))
	}
	b.WriteString(")")
	if sig.Variadic() {
		b.WriteString("...")
	}
	return b.String()
}
