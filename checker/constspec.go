package main

import (
	"fmt"
	"go/ast"
	"go/constant"
	"go/token"
	"go/types"
	"os"
	"sort"
	"strconv"
	"strings"
)

// Specialisation by constant arguments (source-to-source, in memory; part of the normalised form P').
//
// A later edit may merge sibling functions into one helper that tells its callers apart by a constant:
//
//	func (r *Runner) valuesEqual(v1, v2 interface{}, strict bool) bool     ... r.valuesEqual(v1, v2, true)
//	func (r *Runner) additive(v1, v2 interface{}, subtract bool) (..)      ... r.additive(v1, v2, false)
//
// The rules read one function per role ("the strict equality", "the handler of `-`"). For a helper H that is not part
// of the pinned tree, is unexported, not variadic, not generic, not recursive, is only ever called directly, and has
// parameters of boolean / integer / string kind that receive a constant expression at every call site and are never
// written in H, the program is rewritten into the equivalent one with one copy of H per distinct constant tuple: the
// copy keeps H's signature (the argument is still passed, and ignored), shadows those parameters by locals initialised
// with the constants, and each call site calls its copy. pruneConstBranches then decides the branches on those
// locals. H itself, no longer called, is reduced to a stub. Nothing is executed; the result must type-check.
func SpecialiseConstArgs(p *Prog, overlay map[string][]byte, pinned map[string]bool) (map[string][]byte, []string) {
	info := p.Root.TypesInfo
	fset := p.Fset
	srcOf := map[string][]byte{}
	read := func(name string) []byte {
		if b, ok := srcOf[name]; ok {
			return b
		}
		b, ok := overlay[name]
		if !ok {
			b, _ = os.ReadFile(name)
		}
		srcOf[name] = b
		return b
	}
	fileOf := func(pos token.Pos) string { return fset.File(pos).Name() }
	off := func(pos token.Pos) int { return fset.File(pos).Offset(pos) }
	text := func(a, b token.Pos) string { return string(read(fileOf(a))[off(a):off(b)]) }

	// declarations and all references
	decls := map[*types.Func]*ast.FuncDecl{}
	for _, f := range p.Root.Syntax {
		for _, d := range f.Decls {
			if fd, ok := d.(*ast.FuncDecl); ok && fd.Body != nil {
				if o, ok := info.Defs[fd.Name].(*types.Func); ok {
					decls[o] = fd
				}
			}
		}
	}
	type site struct {
		call *ast.CallExpr
		id   *ast.Ident
		encl *ast.FuncDecl
	}
	sites := map[*types.Func][]site{}
	otherUse := map[*types.Func]bool{}
	for _, f := range p.Root.Syntax {
		for _, d := range f.Decls {
			fd, _ := d.(*ast.FuncDecl)
			called := map[*ast.Ident]bool{}
			ast.Inspect(d, func(n ast.Node) bool {
				call, ok := n.(*ast.CallExpr)
				if !ok {
					return true
				}
				fun := call.Fun
				if pe, ok := fun.(*ast.ParenExpr); ok {
					fun = pe.X
				}
				var id *ast.Ident
				switch x := fun.(type) {
				case *ast.Ident:
					id = x
				case *ast.SelectorExpr:
					id = x.Sel
				}
				if id == nil {
					return true
				}
				if o, ok := info.Uses[id].(*types.Func); ok && decls[o] != nil {
					// a method value selected from a value (x.m(..)), not a method expression T.m(x, ..)
					if sel, isSel := fun.(*ast.SelectorExpr); isSel {
						if s, ok := info.Selections[sel]; ok && s.Kind() != types.MethodVal {
							return true
						}
					}
					called[id] = true
					sites[o] = append(sites[o], site{call, id, fd})
				}
				return true
			})
			ast.Inspect(d, func(n ast.Node) bool {
				if id, ok := n.(*ast.Ident); ok && !called[id] {
					if o, ok := info.Uses[id].(*types.Func); ok && decls[o] != nil {
						otherUse[o] = true
					}
				}
				return true
			})
		}
	}
	var objs []*types.Func
	for o := range decls {
		objs = append(objs, o)
	}
	sort.Slice(objs, func(i, j int) bool { return objs[i].Pos() < objs[j].Pos() })

	edits := map[string][]textEdit{}
	appendix := map[string][]string{}
	var done []string
	serial := 0
	var taken [][2]token.Pos
	var takenSites []token.Pos
	lit := func(v constant.Value) string {
		switch v.Kind() {
		case constant.Bool:
			return strconv.FormatBool(constant.BoolVal(v))
		case constant.Int:
			return v.ExactString()
		case constant.String:
			return strconv.Quote(constant.StringVal(v))
		}
		return ""
	}
	for _, o := range objs {
		fd := decls[o]
		key := funcObjKey(o)
		sig := o.Type().(*types.Signature)
		if strings.Contains(o.Name(), "__k") {
			continue // a copy made by an earlier round
		}
		if pinned[key] || o.Exported() || o.Name() == "init" || o.Name() == "main" || otherUse[o] || len(sites[o]) == 0 {
			continue
		}
		if sig.Variadic() || sig.TypeParams().Len() > 0 || sig.RecvTypeParams().Len() > 0 || sig.Params().Len() == 0 {
			continue
		}
		recursive := false
		for _, s := range sites[o] {
			if s.encl == fd || s.encl == nil {
				recursive = true
			}
			if len(s.call.Args) != sig.Params().Len() {
				recursive = true // f(g()) forms: left alone
			}
		}
		if recursive {
			continue
		}
		// parameter names, in order
		type par struct {
			id  *ast.Ident
			typ ast.Expr
		}
		var pars []par
		for _, f := range fd.Type.Params.List {
			if len(f.Names) == 0 {
				pars = append(pars, par{nil, f.Type})
			}
			for _, n := range f.Names {
				pars = append(pars, par{n, f.Type})
			}
		}
		if len(pars) != sig.Params().Len() {
			continue
		}
		written := map[types.Object]bool{}
		mark := func(e ast.Expr) {
			for {
				if pe, ok := e.(*ast.ParenExpr); ok {
					e = pe.X
					continue
				}
				break
			}
			if id, ok := e.(*ast.Ident); ok {
				if ob := info.Uses[id]; ob != nil {
					written[ob] = true
				}
			}
		}
		ast.Inspect(fd.Body, func(n ast.Node) bool {
			switch x := n.(type) {
			case *ast.AssignStmt:
				for _, l := range x.Lhs {
					mark(l)
				}
			case *ast.IncDecStmt:
				mark(x.X)
			case *ast.UnaryExpr:
				if x.Op == token.AND {
					mark(x.X)
				}
			case *ast.RangeStmt:
				if x.Key != nil {
					mark(x.Key)
				}
				if x.Value != nil {
					mark(x.Value)
				}
			}
			return true
		})
		var sel []int
		for k, pr := range pars {
			if pr.id == nil || pr.id.Name == "_" || written[info.Defs[pr.id]] {
				continue
			}
			bt, ok := sig.Params().At(k).Type().Underlying().(*types.Basic)
			if !ok || bt.Info()&(types.IsBoolean|types.IsInteger|types.IsString) == 0 {
				continue
			}
			all := true
			for _, s := range sites[o] {
				tv, ok := info.Types[s.call.Args[k]]
				if !ok || tv.Value == nil || lit(tv.Value) == "" {
					all = false
				}
			}
			if all {
				sel = append(sel, k)
			}
		}
		if len(sel) == 0 {
			continue
		}
		// the type of a shadowing local is written as in the parameter list: it must mean the same inside the body
		// (a parameter or local named like the type would change it; such helpers are left alone)
		clash := false
		for _, k := range sel {
			ast.Inspect(pars[k].typ, func(n ast.Node) bool {
				if id, ok := n.(*ast.Ident); ok {
					for _, pr := range pars {
						if pr.id != nil && pr.id.Name == id.Name {
							clash = true
						}
					}
				}
				return true
			})
		}
		if clash {
			continue
		}
		tuples := map[string]string{} // tuple text -> clone name
		var order []string
		tupleOf := func(s site) string {
			var parts []string
			for _, k := range sel {
				parts = append(parts, lit(info.Types[s.call.Args[k]].Value))
			}
			return strings.Join(parts, "\x00")
		}
		for _, s := range sites[o] {
			t := tupleOf(s)
			if _, ok := tuples[t]; !ok {
				tuples[t] = fmt.Sprintf("%s__k%d", o.Name(), len(order))
				order = append(order, t)
			}
		}
		if len(order) > 6 {
			continue
		}
		// one layer per round: a helper that calls, or is called from, a helper specialised in this round waits
		nested := false
		for _, r := range taken {
			if fd.Pos() >= r[0] && fd.End() <= r[1] {
				nested = true
			}
			for _, s := range sites[o] {
				if s.call.Pos() >= r[0] && s.call.End() <= r[1] {
					nested = true
				}
			}
		}
		for _, r := range takenSites {
			if r >= fd.Pos() && r <= fd.End() {
				nested = true
			}
		}
		if nested {
			continue
		}
		taken = append(taken, [2]token.Pos{fd.Pos(), fd.End()})
		for _, s := range sites[o] {
			takenSites = append(takenSites, s.call.Pos())
		}
		serial++
		file := fileOf(fd.Pos())
		pos := fset.Position(fd.Body.Lbrace)
		for _, t := range order {
			vals := strings.Split(t, "\x00")
			var b strings.Builder
			b.WriteString("\n\n")
			b.WriteString(text(fd.Pos(), fd.Name.Pos()))
			b.WriteString(tuples[t])
			b.WriteString(text(fd.Name.End(), fd.Body.Lbrace))
			b.WriteString("{\n{\n")
			for i, k := range sel {
				name := pars[k].id.Name
				fmt.Fprintf(&b, "var %s %s = %s; _ = %s\n", name, text(pars[k].typ.Pos(), pars[k].typ.End()), vals[i], name)
			}
			fmt.Fprintf(&b, "//line %s:%d\n", pos.Filename, pos.Line)
			b.WriteString(text(fd.Body.Lbrace+1, fd.Body.Rbrace))
			b.WriteString("\n}\n}\n")
			appendix[file] = append(appendix[file], b.String())
		}
		// the original is no longer called
		stub := "{ panic(\"specialised by its constant arguments\") }"
		edits[file] = append(edits[file], textEdit{off(fd.Body.Lbrace), off(fd.Body.Rbrace) + 1, stub + keepNewlines([]byte(text(fd.Body.Lbrace, fd.Body.Rbrace+1)))})
		for _, s := range sites[o] {
			edits[fileOf(s.id.Pos())] = append(edits[fileOf(s.id.Pos())], textEdit{off(s.id.Pos()), off(s.id.End()), tuples[tupleOf(s)]})
		}
		var names []string
		for _, k := range sel {
			names = append(names, pars[k].id.Name)
		}
		done = append(done, fmt.Sprintf("%s specialised by constant %s into %d copies", key, strings.Join(names, ","), len(order)))
	}
	if len(done) == 0 {
		return nil, nil
	}
	out := map[string][]byte{}
	fileSet := map[string]bool{}
	for n := range edits {
		fileSet[n] = true
	}
	for n := range appendix {
		fileSet[n] = true
	}
	for n := range fileSet {
		b := applyEdits(read(n), edits[n])
		for _, a := range appendix[n] {
			b = append(b, []byte(a)...)
		}
		out[n] = b
	}
	return out, done
}

// NormaliseConstArgs: SpecialiseConstArgs in rounds, each followed by the decision of the constant branches.
func NormaliseConstArgs(repo string, base *Prog, overlay map[string][]byte) (map[string][]byte, []string) {
	cur := map[string][]byte{}
	for k, v := range overlay {
		cur[k] = v
	}
	var all []string
	p := base
	for round := 0; round < 3; round++ {
		if p == nil {
			var err error
			if p, err = Load(repo, cur, "", false); err != nil {
				break
			}
		}
		if sf, what := splitCaseClauses(p, cur, pinnedView(p)); len(what) > 0 {
			n0 := map[string][]byte{}
			for k, v := range cur {
				n0[k] = v
			}
			for k, v := range sf {
				n0[k] = v
			}
			if q0, err := Load(repo, n0, "", false); err == nil {
				cur, p = n0, q0
				all = append(all, what...)
			} else if os.Getenv("FCHECK_DEBUG") != "" {
				fmt.Println("case clause split discarded:", err)
			}
		}
		files, done := SpecialiseConstArgs(p, cur, pinnedView(p))
		if len(done) == 0 {
			break
		}
		next := map[string][]byte{}
		for k, v := range cur {
			next[k] = v
		}
		for k, v := range files {
			next[k] = v
		}
		q, err := Load(repo, next, "", false)
		if err != nil {
			if os.Getenv("FCHECK_DEBUG") != "" {
				fmt.Println("constant-argument specialisation discarded:", err)
			}
			break
		}
		cur = next
		all = append(all, done...)
		// decide the branches on the shadowing locals
		for pass := 0; pass < 3; pass++ {
			pf, what := pruneConstBranches(q, cur)
			if len(what) == 0 {
				break
			}
			n2 := map[string][]byte{}
			for k, v := range cur {
				n2[k] = v
			}
			for k, v := range pf {
				n2[k] = v
			}
			q2, err := Load(repo, n2, "", false)
			if err != nil {
				if os.Getenv("FCHECK_DEBUG") != "" {
					fmt.Println("constant branches: rewritten program does not load, dropped:", err)
				}
				break
			}
			cur, q = n2, q2
			for _, w := range what {
				all = append(all, "constant branch: "+w)
			}
		}
		p = nil
	}
	if len(all) == 0 {
		return nil, nil
	}
	return cur, all
}

// splitCaseClauses: `switch t { case a, b, c: return h(t, x, y) }` where h is a helper outside the pinned tree
// becomes one clause per value with t replaced by that value in the copy (`case a: return h(a, x, y)` ...), so that
// the constant-argument specialisation can tell the merged roles apart. t is a plain name or a chain of field
// selections on one, is not assigned inside the clause, and every case value is a constant.
func splitCaseClauses(p *Prog, overlay map[string][]byte, pinned map[string]bool) (map[string][]byte, []string) {
	info := p.Root.TypesInfo
	fset := p.Fset
	srcOf := map[string][]byte{}
	read := func(name string) []byte {
		if b, ok := srcOf[name]; ok {
			return b
		}
		b, ok := overlay[name]
		if !ok {
			b, _ = os.ReadFile(name)
		}
		srcOf[name] = b
		return b
	}
	fileOf := func(pos token.Pos) string { return fset.File(pos).Name() }
	off := func(pos token.Pos) int { return fset.File(pos).Offset(pos) }
	text := func(a, b token.Pos) string { return string(read(fileOf(a))[off(a):off(b)]) }
	var pure func(e ast.Expr) (types.Object, bool)
	pure = func(e ast.Expr) (types.Object, bool) {
		switch x := e.(type) {
		case *ast.Ident:
			o := info.Uses[x]
			_, isVar := o.(*types.Var)
			return o, isVar
		case *ast.SelectorExpr:
			if s, ok := info.Selections[x]; !ok || s.Kind() != types.FieldVal {
				return nil, false
			}
			return pure(x.X)
		case *ast.ParenExpr:
			return pure(x.X)
		}
		return nil, false
	}
	edits := map[string][]textEdit{}
	var done []string
	for _, f := range p.Root.Syntax {
		for _, d := range f.Decls {
			fd, ok := d.(*ast.FuncDecl)
			if !ok || fd.Body == nil {
				continue
			}
			ast.Inspect(fd.Body, func(n ast.Node) bool {
				sw, ok := n.(*ast.SwitchStmt)
				if !ok || sw.Tag == nil {
					return true
				}
				root, ok := pure(sw.Tag)
				if !ok {
					return true
				}
				tagText := types.ExprString(sw.Tag)
				for _, cs := range sw.Body.List {
					cc := cs.(*ast.CaseClause)
					if len(cc.List) < 2 || len(cc.List) > 6 || len(cc.Body) == 0 || len(cc.Body) > 8 {
						continue
					}
					allConst := true
					for _, e := range cc.List {
						if tv, ok := info.Types[e]; !ok || tv.Value == nil {
							allConst = false
						}
					}
					if !allConst {
						continue
					}
					// occurrences of the tag as an argument of a helper outside the pinned tree
					var occ []ast.Expr
					assigned := false
					labels := false
					for _, st := range cc.Body {
						ast.Inspect(st, func(m ast.Node) bool {
							switch y := m.(type) {
							case *ast.LabeledStmt, *ast.FuncLit:
								labels = true
							case *ast.AssignStmt:
								for _, l := range y.Lhs {
									if o, ok := pure(l); ok && o == root {
										assigned = true
									}
								}
							case *ast.UnaryExpr:
								if y.Op == token.AND {
									if o, ok := pure(y.X); ok && o == root {
										assigned = true
									}
								}
							case *ast.CallExpr:
								fun := y.Fun
								var id *ast.Ident
								switch z := fun.(type) {
								case *ast.Ident:
									id = z
								case *ast.SelectorExpr:
									id = z.Sel
								}
								if id == nil {
									return true
								}
								fo, ok := info.Uses[id].(*types.Func)
								if !ok || fo.Pkg() != p.Types || fo.Exported() || pinned[funcObjKey(fo)] {
									return true
								}
								for _, a := range y.Args {
									if types.ExprString(a) == tagText {
										if o, ok := pure(a); ok && o == root {
											occ = append(occ, a)
										}
									}
								}
							}
							return true
						})
					}
					if len(occ) == 0 || assigned || labels {
						continue
					}
					bodyStart, bodyEnd := cc.Colon+1, cc.End()
					file := fileOf(cc.Pos())
					pos := fset.Position(bodyStart)
					var b strings.Builder
					for i, e := range cc.List {
						val := text(e.Pos(), e.End())
						var es []textEdit
						for _, a := range occ {
							es = append(es, textEdit{off(a.Pos()) - off(bodyStart), off(a.End()) - off(bodyStart), val})
						}
						body := string(applyEdits([]byte(text(bodyStart, bodyEnd)), es))
						if i > 0 {
							fmt.Fprintf(&b, "\ncase %s:\n//line %s:%d\n", val, pos.Filename, pos.Line)
							b.WriteString(strings.TrimLeft(body, "\n"))
						} else {
							fmt.Fprintf(&b, "case %s:", val)
							b.WriteString(body)
						}
					}
					end := fset.Position(bodyEnd)
					fmt.Fprintf(&b, "\n//line %s:%d\n", end.Filename, end.Line+1)
					edits[file] = append(edits[file], textEdit{off(cc.Pos()), off(bodyEnd), b.String()})
					done = append(done, fmt.Sprintf("%s: case clause on %s split into %d", fd.Name.Name, tagText, len(cc.List)))
				}
				return true
			})
		}
	}
	if len(done) == 0 {
		return nil, nil
	}
	out := map[string][]byte{}
	for n, es := range edits {
		out[n] = applyEdits(read(n), es)
	}
	return out, done
}
