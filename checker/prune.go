package main

import (
	"fmt"
	"go/ast"
	"go/constant"
	"go/token"
	"go/types"
	"os"
	"sort"
)

// Constant branches (source-to-source, in memory; runs after the helper expansion).
//
// A helper shared by several callers that tells them apart by a constant argument (`valuesEqual(a, b, true)`,
// `matchSubstr(s, t, matchAtEnd)`, `additive(v1, v2, subtract)`) leaves, once expanded into each caller, a local that
// is initialised with a constant and never written, and an `if` / `switch` on it. The SSA form keeps every branch, so a
// rule reading `endWith` would see the prefix test of `startWith` in it. This pass decides such conditions and keeps
// only the branch that runs:
//
//   - a constant local: `var x T = c` / `x := c` with c a constant expression (or built from constant locals), x of
//     boolean, integer or string kind, never assigned, incremented, address-taken or ranged over afterwards;
//   - `if c {A} else {B}` with c decided, no init statement: A or B;
//   - `switch t { case a: .. }` with t and the case values (up to the first match) decided, no init statement, the
//     chosen clause free of `fallthrough` and of a `break` that leaves the switch: the chosen clause's statements.
//
// Replaced text keeps its line breaks (and `//line` directives), so positions do not move. The condition stays
// mentioned as `_ = (c)` so that the locals remain used. The rewritten package must type-check or the pass is dropped.
func pruneConstBranches(p *Prog, overlay map[string][]byte) (map[string][]byte, []string) {
	info := p.Root.TypesInfo
	fset := p.Fset
	srcOf := map[string][]byte{}
	read := func(name string) []byte {
		if b, ok := srcOf[name]; ok {
			return b
		}
		b, ok := overlay[name]
		if !ok {
			b, _ = os.ReadFile(name)
		}
		srcOf[name] = b
		return b
	}
	fileOf := func(pos token.Pos) string { return fset.File(pos).Name() }
	off := func(pos token.Pos) int { return fset.File(pos).Offset(pos) }
	text := func(a, b token.Pos) string { return string(read(fileOf(a))[off(a):off(b)]) }
	// blank: the text with everything but line breaks and //line directives turned into spaces
	blank := func(s string) string {
		out := []byte(s)
		lineStart := 0
		for i := 0; i <= len(out); i++ {
			if i == len(out) || out[i] == '\n' {
				ln := out[lineStart:i]
				if !(len(ln) >= 7 && string(ln[:7]) == "//line ") {
					for k := range ln {
						ln[k] = ' '
					}
				}
				lineStart = i + 1
			}
		}
		return string(out)
	}
	edits := map[string][]textEdit{}
	var done []string

	// constant tables: package-level variables initialised with a map / array / slice literal and afterwards only
	// indexed, measured or ranged over
	constTables := map[types.Object]*ast.CompositeLit{}
	for _, f := range p.Root.Syntax {
		for _, d := range f.Decls {
			gd, ok := d.(*ast.GenDecl)
			if !ok || gd.Tok != token.VAR {
				continue
			}
			for _, sp := range gd.Specs {
				vs := sp.(*ast.ValueSpec)
				if len(vs.Names) != len(vs.Values) {
					continue
				}
				for i, nm := range vs.Names {
					cl, isCL := vs.Values[i].(*ast.CompositeLit)
					if !isCL {
						continue
					}
					switch info.TypeOf(cl).Underlying().(type) {
					case *types.Map, *types.Array, *types.Slice:
						if o := info.Defs[nm]; o != nil {
							constTables[o] = cl
						}
					}
				}
			}
		}
	}
	if len(constTables) > 0 {
		for _, f := range p.Root.Syntax {
			var stack []ast.Node
			ast.Inspect(f, func(n ast.Node) bool {
				if n == nil {
					stack = stack[:len(stack)-1]
					return true
				}
				if id, ok := n.(*ast.Ident); ok {
					if o := info.Uses[id]; o != nil && constTables[o] != nil {
						okUse := false
						if len(stack) > 0 {
							switch par := stack[len(stack)-1].(type) {
							case *ast.IndexExpr:
								okUse = par.X == ast.Expr(id)
								// ... and the element is not assigned to or addressed
								if okUse && len(stack) > 1 {
									switch gp := stack[len(stack)-2].(type) {
									case *ast.AssignStmt:
										for _, l := range gp.Lhs {
											if l == ast.Expr(par) {
												okUse = false
											}
										}
									case *ast.IncDecStmt:
										okUse = false
									case *ast.UnaryExpr:
										if gp.Op == token.AND {
											okUse = false
										}
									case *ast.SelectorExpr:
										// table[k].f = v
										if len(stack) > 2 {
											if as, isAs := stack[len(stack)-3].(*ast.AssignStmt); isAs {
												for _, l := range as.Lhs {
													if l == ast.Expr(gp) {
														okUse = false
													}
												}
											}
										}
									}
								}
							case *ast.CallExpr:
								if fn, isID := par.Fun.(*ast.Ident); isID && fn.Name == "len" && len(par.Args) == 1 {
									okUse = true
								}
							case *ast.RangeStmt:
								okUse = par.X == ast.Expr(id)
							}
						}
						if !okUse {
							delete(constTables, o)
						}
					}
				}
				stack = append(stack, n)
				return true
			})
		}
	}

	for _, f := range p.Root.Syntax {
		fname := fileOf(f.Pos())
		for _, d := range f.Decls {
			fd, ok := d.(*ast.FuncDecl)
			if !ok || fd.Body == nil {
				continue
			}
			// ---- constant locals of this function
			written := map[types.Object]bool{}
			mark := func(e ast.Expr) {
				for {
					if pe, ok := e.(*ast.ParenExpr); ok {
						e = pe.X
						continue
					}
					// a write to a field or an element writes the variable
					if se, ok := e.(*ast.SelectorExpr); ok {
						e = se.X
						continue
					}
					if ie, ok := e.(*ast.IndexExpr); ok {
						e = ie.X
						continue
					}
					break
				}
				if id, ok := e.(*ast.Ident); ok {
					if o := info.Uses[id]; o != nil {
						written[o] = true
					}
				}
			}
			type initOf struct {
				obj types.Object
				e   ast.Expr
			}
			var inits []initOf
			ninit := map[types.Object]int{}
			ast.Inspect(fd.Body, func(n ast.Node) bool {
				switch x := n.(type) {
				case *ast.AssignStmt:
					if x.Tok == token.DEFINE {
						for i, l := range x.Lhs {
							id, ok := l.(*ast.Ident)
							if !ok {
								continue
							}
							if o := info.Defs[id]; o != nil {
								ninit[o]++
								if len(x.Lhs) == len(x.Rhs) {
									inits = append(inits, initOf{o, x.Rhs[i]})
								} else {
									written[o] = true
								}
							} else {
								mark(l) // redeclared by := : an assignment
							}
						}
					} else {
						for _, l := range x.Lhs {
							mark(l)
						}
					}
				case *ast.ValueSpec:
					for i, id := range x.Names {
						o := info.Defs[id]
						if o == nil {
							continue
						}
						ninit[o]++
						if len(x.Values) == len(x.Names) {
							inits = append(inits, initOf{o, x.Values[i]})
						} else {
							written[o] = true // zero value or a tuple: not a constant we track
						}
					}
				case *ast.IncDecStmt:
					mark(x.X)
				case *ast.UnaryExpr:
					if x.Op == token.AND {
						mark(x.X)
					}
				case *ast.RangeStmt:
					if x.Tok == token.ASSIGN {
						if x.Key != nil {
							mark(x.Key)
						}
						if x.Value != nil {
							mark(x.Value)
						}
					} else {
						for _, e := range []ast.Expr{x.Key, x.Value} {
							if id, ok := e.(*ast.Ident); ok {
								if o := info.Defs[id]; o != nil {
									written[o] = true
								}
							}
						}
					}
				}
				return true
			})
			consts := map[types.Object]constant.Value{}
			records := map[types.Object]*ast.CompositeLit{} // locals that hold one record of a constant table
			var eval func(e ast.Expr) (constant.Value, bool)
			// fieldOf: the constant value of field name in a record literal (absent: the zero value)
			fieldOf := func(cl *ast.CompositeLit, name string) (constant.Value, bool) {
				st, ok := info.TypeOf(cl).Underlying().(*types.Struct)
				if !ok {
					return nil, false
				}
				idx := -1
				for i := 0; i < st.NumFields(); i++ {
					if st.Field(i).Name() == name {
						idx = i
					}
				}
				if idx < 0 {
					return nil, false
				}
				for i, el := range cl.Elts {
					if kv, isKV := el.(*ast.KeyValueExpr); isKV {
						if k, isID := kv.Key.(*ast.Ident); isID && k.Name == name {
							return eval(kv.Value)
						}
						continue
					}
					if i == idx {
						return eval(el)
					}
				}
				if bt, isB := st.Field(idx).Type().Underlying().(*types.Basic); isB {
					switch {
					case bt.Info()&types.IsBoolean != 0:
						return constant.MakeBool(false), true
					case bt.Info()&types.IsInteger != 0:
						return constant.MakeInt64(0), true
					case bt.Info()&types.IsString != 0:
						return constant.MakeString(""), true
					}
				}
				return nil, false
			}
			// element: the element expression of constant table T (a package-level map / array / slice variable with a
			// literal initialiser that is only ever indexed) at a decided key
			element := func(ix *ast.IndexExpr) (ast.Expr, bool) {
				id, ok := ix.X.(*ast.Ident)
				if !ok {
					return nil, false
				}
				tab := constTables[info.Uses[id]]
				if tab == nil {
					return nil, false
				}
				k, ok := eval(ix.Index)
				if !ok {
					return nil, false
				}
				_, isMap := info.TypeOf(tab).Underlying().(*types.Map)
				next := int64(0)
				for _, el := range tab.Elts {
					var key constant.Value
					val := el
					if kv, isKV := el.(*ast.KeyValueExpr); isKV {
						kk, okK := eval(kv.Key)
						if !okK {
							return nil, false
						}
						key, val = kk, kv.Value
						if !isMap && kk.Kind() == constant.Int {
							next, _ = constant.Int64Val(kk)
						}
					} else {
						key = constant.MakeInt64(next)
					}
					next++
					if key.Kind() == k.Kind() && constant.Compare(key, token.EQL, k) {
						return val, true
					}
				}
				return nil, false
			}
			eval = func(e ast.Expr) (constant.Value, bool) {
				if tv, ok := info.Types[e]; ok && tv.Value != nil {
					switch tv.Value.Kind() {
					case constant.Bool, constant.Int, constant.String:
						return tv.Value, true
					}
					return nil, false
				}
				switch x := e.(type) {
				case *ast.ParenExpr:
					return eval(x.X)
				case *ast.Ident:
					if o := info.Uses[x]; o != nil {
						if v, ok := consts[o]; ok {
							return v, true
						}
					}
				case *ast.SelectorExpr:
					// a field of a record taken from a constant table: `op := table[k]` ... `op.strict`
					if id, isID := x.X.(*ast.Ident); isID {
						if cl := records[info.Uses[id]]; cl != nil {
							return fieldOf(cl, x.Sel.Name)
						}
					}
					if ix, isIx := x.X.(*ast.IndexExpr); isIx {
						if el, ok := element(ix); ok {
							if cl, isCL := el.(*ast.CompositeLit); isCL {
								return fieldOf(cl, x.Sel.Name)
							}
						}
					}
				case *ast.IndexExpr:
					if el, ok := element(x); ok {
						if _, isCL := el.(*ast.CompositeLit); !isCL {
							return eval(el)
						}
					}
				case *ast.CallExpr:
					// a conversion T(c) between boolean / integer / string kinds of one kind
					if len(x.Args) == 1 {
						if tv, ok := info.Types[x.Fun]; ok && tv.IsType() {
							if v, ok := eval(x.Args[0]); ok {
								if bt, ok := tv.Type.Underlying().(*types.Basic); ok {
									switch {
									case bt.Info()&types.IsBoolean != 0 && v.Kind() == constant.Bool,
										bt.Info()&types.IsInteger != 0 && v.Kind() == constant.Int,
										bt.Info()&types.IsString != 0 && v.Kind() == constant.String:
										return v, true
									}
								}
							}
						}
					}
				case *ast.UnaryExpr:
					v, ok := eval(x.X)
					if !ok {
						return nil, false
					}
					if x.Op == token.NOT && v.Kind() == constant.Bool {
						return constant.MakeBool(!constant.BoolVal(v)), true
					}
				case *ast.BinaryExpr:
					switch x.Op {
					case token.LAND, token.LOR:
						a, okA := eval(x.X)
						if okA && a.Kind() == constant.Bool {
							if constant.BoolVal(a) == (x.Op == token.LOR) {
								return a, true // short circuit
							}
							b, okB := eval(x.Y)
							if okB && b.Kind() == constant.Bool {
								return b, true
							}
							return nil, false
						}
						// the right operand alone decides `x && false` only when x has no effects: left alone
						return nil, false
					case token.EQL, token.NEQ, token.LSS, token.LEQ, token.GTR, token.GEQ:
						a, okA := eval(x.X)
						b, okB := eval(x.Y)
						if okA && okB && a.Kind() == b.Kind() {
							if a.Kind() == constant.Bool && x.Op != token.EQL && x.Op != token.NEQ {
								return nil, false
							}
							return constant.MakeBool(constant.Compare(a, x.Op, b)), true
						}
					}
				}
				return nil, false
			}
			for pass := 0; pass < 3; pass++ {
				for _, in := range inits {
					if written[in.obj] || ninit[in.obj] != 1 {
						continue
					}
					if _, have := consts[in.obj]; have {
						continue
					}
					v, isVar := in.obj.(*types.Var)
					if !isVar {
						continue
					}
					if ix, isIx := in.e.(*ast.IndexExpr); isIx && records[in.obj] == nil {
						if el, ok := element(ix); ok {
							if cl, isCL := el.(*ast.CompositeLit); isCL {
								if _, isSt := info.TypeOf(cl).Underlying().(*types.Struct); isSt {
									records[in.obj] = cl
								}
							}
						}
						continue
					}
					bt, ok := v.Type().Underlying().(*types.Basic)
					if !ok || bt.Info()&(types.IsBoolean|types.IsInteger|types.IsString) == 0 {
						continue
					}
					if c, ok := eval(in.e); ok {
						consts[in.obj] = c
					}
				}
			}
			// ---- decide statements, outermost first
			var covered [][2]token.Pos
			inside := func(n ast.Node) bool {
				for _, r := range covered {
					if n.Pos() >= r[0] && n.End() <= r[1] {
						return true
					}
				}
				return false
			}
			leaves := func(body []ast.Stmt) bool {
				bad := false
				for _, s := range body {
					ast.Inspect(s, func(n ast.Node) bool {
						switch x := n.(type) {
						case *ast.ForStmt, *ast.RangeStmt, *ast.SwitchStmt, *ast.TypeSwitchStmt, *ast.SelectStmt, *ast.FuncLit:
							// a break in there leaves that statement - but a labelled one may still leave ours
							ast.Inspect(x, func(m ast.Node) bool {
								if br, ok := m.(*ast.BranchStmt); ok && br.Label != nil && br.Tok == token.BREAK {
									bad = true
								}
								return true
							})
							return false
						case *ast.BranchStmt:
							if x.Tok == token.BREAK || x.Tok == token.FALLTHROUGH {
								bad = true
							}
						}
						return true
					})
				}
				return bad
			}
			ast.Inspect(fd.Body, func(n ast.Node) bool {
				if n == nil {
					return true
				}
				switch x := n.(type) {
				case *ast.BinaryExpr:
					// a comparison with a decided boolean: `e != false` is e, `e != true` is !e
					if (x.Op == token.EQL || x.Op == token.NEQ) && !inside(x) {
						if _, whole := eval(x); whole {
							return true
						}
						for _, pr := range [][2]ast.Expr{{x.X, x.Y}, {x.Y, x.X}} {
							cv, ok := eval(pr[1])
							if !ok || cv.Kind() != constant.Bool {
								continue
							}
							if bt, isB := info.TypeOf(pr[0]).Underlying().(*types.Basic); !isB || bt.Info()&types.IsBoolean == 0 {
								continue
							}
							same := constant.BoolVal(cv) == (x.Op == token.EQL)
							repl := "(" + text(pr[0].Pos(), pr[0].End()) + ")"
							if !same {
								repl = "!" + repl
							}
							edits[fname] = append(edits[fname], textEdit{off(x.Pos()), off(x.End()), "(" + repl + ")" + keepNewlines([]byte(text(x.Pos(), x.End())))})
							covered = append(covered, [2]token.Pos{x.Pos(), x.End()})
							done = append(done, fmt.Sprintf("%s: %s decided", fd.Name.Name, text(x.Pos(), x.End())))
							return false
						}
					}
				case *ast.IfStmt:
					if x.Init != nil || inside(x) {
						return true
					}
					c, ok := eval(x.Cond)
					if !ok || c.Kind() != constant.Bool {
						return true
					}
					keep := "_ = (" + text(x.Cond.Pos(), x.Cond.End()) + "); "
					switch {
					case constant.BoolVal(c):
						edits[fname] = append(edits[fname], textEdit{off(x.Pos()), off(x.Body.Lbrace), "{ " + keep + blank(text(x.Pos(), x.Body.Lbrace))})
						edits[fname] = append(edits[fname], textEdit{off(x.Body.Rbrace) + 1, off(x.End()), blank(text(x.Body.Rbrace+1, x.End())) + " }"})
						covered = append(covered, [2]token.Pos{x.Pos(), x.Body.Lbrace}, [2]token.Pos{x.Body.Rbrace + 1, x.End()})
					case x.Else != nil:
						edits[fname] = append(edits[fname], textEdit{off(x.Pos()), off(x.Else.Pos()), "{ " + keep + blank(text(x.Pos(), x.Else.Pos()))})
						edits[fname] = append(edits[fname], textEdit{off(x.End()), off(x.End()), " }"})
						covered = append(covered, [2]token.Pos{x.Pos(), x.Else.Pos()})
					default:
						edits[fname] = append(edits[fname], textEdit{off(x.Pos()), off(x.End()), "{ " + keep + "}" + blank(text(x.Pos(), x.End()))})
						covered = append(covered, [2]token.Pos{x.Pos(), x.End()})
					}
					done = append(done, fmt.Sprintf("%s: if %s decided %v", fd.Name.Name, text(x.Cond.Pos(), x.Cond.End()), constant.BoolVal(c)))
				case *ast.SwitchStmt:
					if x.Init != nil || inside(x) {
						return true
					}
					var tag constant.Value
					if x.Tag != nil {
						v, ok := eval(x.Tag)
						if !ok {
							return true
						}
						tag = v
					} else {
						tag = constant.MakeBool(true)
					}
					var chosen, deflt *ast.CaseClause
					undecided := false
					for _, cs := range x.Body.List {
						cc := cs.(*ast.CaseClause)
						if cc.List == nil {
							deflt = cc
							continue
						}
						if chosen != nil || undecided {
							continue
						}
						for _, e := range cc.List {
							v, ok := eval(e)
							if !ok || v.Kind() != tag.Kind() {
								undecided = true
								break
							}
							if constant.Compare(v, token.EQL, tag) {
								chosen = cc
								break
							}
						}
					}
					if undecided {
						return true
					}
					if chosen == nil {
						chosen = deflt
					}
					keep := ""
					if x.Tag != nil {
						keep = "_ = (" + text(x.Tag.Pos(), x.Tag.End()) + "); "
					}
					if chosen == nil {
						edits[fname] = append(edits[fname], textEdit{off(x.Pos()), off(x.End()), "{ " + keep + "}" + blank(text(x.Pos(), x.End()))})
						covered = append(covered, [2]token.Pos{x.Pos(), x.End()})
						done = append(done, fmt.Sprintf("%s: switch decided: no clause", fd.Name.Name))
						return true
					}
					if leaves(chosen.Body) {
						return true
					}
					bodyEnd := x.Body.Rbrace
					for i, cs := range x.Body.List {
						if cs == ast.Stmt(chosen) && i+1 < len(x.Body.List) {
							bodyEnd = x.Body.List[i+1].Pos()
						}
					}
					edits[fname] = append(edits[fname], textEdit{off(x.Pos()), off(chosen.Colon) + 1, "{ " + keep + "{" + blank(text(x.Pos(), chosen.Colon+1))})
					edits[fname] = append(edits[fname], textEdit{off(bodyEnd), off(x.Body.Rbrace) + 1, blank(text(bodyEnd, x.Body.Rbrace)) + "}}"})
					covered = append(covered, [2]token.Pos{x.Pos(), chosen.Colon + 1}, [2]token.Pos{bodyEnd, x.End()})
					done = append(done, fmt.Sprintf("%s: switch %s decided", fd.Name.Name, keep))
				}
				return true
			})
		}
	}
	if len(done) == 0 {
		return nil, nil
	}
	out := map[string][]byte{}
	for name, es := range edits {
		// drop edits that overlap an earlier one (a nested statement inside text that was blanked)
		sort.SliceStable(es, func(i, j int) bool { return es[i].start < es[j].start })
		var keep []textEdit
		end := -1
		for _, e := range es {
			if e.start < end {
				continue
			}
			keep = append(keep, e)
			if e.end > end {
				end = e.end
			}
		}
		out[name] = applyEdits(read(name), keep)
	}
	return out, done
}
