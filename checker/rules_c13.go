package main

import (
	"fmt"
	"go/constant"
	"go/token"
	"go/types"
	"sort"
	"strings"

	"golang.org/x/tools/go/ssa"
)

func init() {
	register("C13",
		"the escape table (extracted by folding the escape switch over runes and compared with the statement), other characters and `\\\\` escape to themselves, line continuations to nothing; `\\u`/`\\x` request 4/2 hex digits parsed in base 16 and yield the code point converted to text; both ways a literal can be left open raise a diagnostic and the closing quote is consumed; every exit copies the pending text; the evaluator returns the literal's value verbatim.",
		"verbatim preservation of unescaped bytes as a value law (only its structural causes are decided: the body is copied by slicing between recorded positions).",
		runC13)
}

// scannerDiagFns: methods of Scanner that forward a message to the error callback.
func (c *Ctx) scannerDiagFns() map[*ssa.Function]bool {
	out := map[*ssa.Function]bool{}
	for _, f := range c.P.ModFuncs {
		if f.Signature.Recv() == nil || typeName(f.Signature.Recv().Type()) != "Scanner" {
			continue
		}
		instrs(f, func(b *ssa.BasicBlock, i int, in ssa.Instruction) {
			call, ok := in.(*ssa.Call)
			if !ok || call.Call.StaticCallee() != nil || call.Call.IsInvoke() {
				return
			}
			if u, ok := call.Call.Value.(*ssa.UnOp); ok && isScannerField(u.X, "onError") {
				// the message parameter is forwarded
				if len(call.Call.Args) > 0 {
					if p, ok := call.Call.Args[0].(*ssa.Parameter); ok && typeName(p.Type()) == "DiagnosticMessage" {
						out[f] = true
					}
				}
			}
		})
	}
	return out
}

// isScanDiag: a call that raises a scanner diagnostic, optionally with the given message global.
func (c *Ctx) isScanDiag(in ssa.Instruction, msg string) bool {
	call, ok := in.(*ssa.Call)
	if !ok {
		return false
	}
	cal := calleeOf(call)
	if cal == nil || !c.scannerDiagFns()[cal] {
		return false
	}
	if msg == "" {
		return true
	}
	for _, a := range call.Call.Args {
		if u, ok := a.(*ssa.UnOp); ok {
			if g, ok := u.X.(*ssa.Global); ok && g.Name() == msg {
				return true
			}
		}
	}
	return false
}

func runC13(c *Ctx) {
	c13EscapeTable(c)
	c13Hex(c)
	c13Unterminated(c)
	c13Verbatim(c)
	c13LineBreakClass(c)
}

// c13LineBreakClass: the only raw characters that end a literal early are the line breaks of the language. The class
// test the string scanner applies to each character is folded over ASCII and the Unicode separators: it must be true
// exactly on the line-break set; a wider test (e.g. the range '\n'..'\r', which takes in VT and FF) rejects literals
// holding those characters verbatim, a narrower one lets a literal run over a line end.
func c13LineBreakClass(c *Ctx) {
	const rule = "C13.linebreak-class"
	f, _, ch, _ := c.stringScanner()
	if f == nil || ch == nil {
		c.R.Undecided(rule, "string scanner", "-", "string literal scanner not found")
		return
	}
	var pred *ssa.Function
	instrs(f, func(b *ssa.BasicBlock, i int, in ssa.Instruction) {
		call, ok := in.(*ssa.Call)
		if !ok || len(call.Call.Args) != 1 || !reaches(call.Call.Args[0], ch) {
			return
		}
		if cal := calleeOf(call); cal != nil && c.inModule(cal) && isBoolType(call.Type()) {
			pred = cal
		}
	})
	if pred == nil {
		c.R.Undecided(rule, "class-test", c.P.Pos(f.Pos()), "no class test on the scanned character found in the string scanner")
		return
	}
	want := map[int64]bool{}
	for _, r := range specLineBreaks {
		want[int64(r)] = true
	}
	var samples []int64
	for r := int64(0); r < 128; r++ {
		samples = append(samples, r)
	}
	samples = append(samples, 0x84, 0x85, 0x86, 0xA0, 0x2027, 0x2028, 0x2029, 0x202A, 0x3000, 0xFEFF, 0xFFFD)
	fold := &Folder{P: c.P, MaxDepth: 2}
	bad := ""
	for _, r := range samples {
		res := fold.Fold(pred, []LV{intLV(r)})
		v, ok := boolResult(res, 0)
		if !ok {
			bad = fmt.Sprintf("U+%04X: not decidable", r)
			break
		}
		if v != want[r] {
			bad = fmt.Sprintf("U+%04X ends a literal=%v, the line-break set says %v", r, v, want[r])
			break
		}
	}
	c.R.Check(rule, c.P.FuncKey(pred), c.P.Pos(pred.Pos()), bad == "", "the character class that ends a string literal early must be exactly the line-break set (LF, CR, U+2028, U+2029, U+0085); "+bad)
}

// escapeFn: the scanner method that decodes one escape: a method returning
// string with a rune switch containing the constants of the escape table.
func (c *Ctx) escapeFn() *ssa.Function {
	// primary: the string-returning scanner method the string scanner calls inside its loop and whose
	// result it appends (independent of how the escape table is written: switch, map, if-chain)
	if sf, _, _, _ := c.stringScanner(); sf != nil {
		var hit *ssa.Function
		instrs(sf, func(b *ssa.BasicBlock, i int, in ssa.Instruction) {
			call, ok := in.(*ssa.Call)
			if !ok {
				return
			}
			cal := calleeOf(call)
			if cal == nil || !c.inModule(cal) || c.scannerDiagFns()[cal] || typeName(recvType(cal)) != "Scanner" || cal.Signature.Results().Len() != 1 {
				return
			}
			if bt, ok := cal.Signature.Results().At(0).Type().Underlying().(*types.Basic); !ok || bt.Kind() != types.String {
				return
			}
			if ch, _ := decodedRune(cal); ch != nil {
				hit = cal
			}
		})
		if hit != nil {
			return hit
		}
	}
	var best *ssa.Function
	bestN := 0
	for _, f := range c.P.ModFuncs {
		if f.Signature.Recv() == nil || typeName(f.Signature.Recv().Type()) != "Scanner" || f.Signature.Results().Len() != 1 {
			continue
		}
		if b, ok := f.Signature.Results().At(0).Type().Underlying().(*types.Basic); !ok || b.Kind() != types.String {
			continue
		}
		ch, _ := decodedRune(f)
		if ch == nil {
			continue
		}
		arms := runeSwitchArms(f, ch)
		n := 0
		for r := range specEscapes {
			if _, ok := arms[r]; ok {
				n++
			}
		}
		if n > bestN {
			best, bestN = f, n
		}
	}
	if bestN < 5 {
		return nil
	}
	return best
}

// foldEscape folds the escape function with the decoded rune pinned to r and
// returns the constant string it yields on the paths after the decode.
func (c *Ctx) foldEscape(f *ssa.Function, r rune) (string, bool, *FoldResult) {
	ch, size := decodedRune(f)
	fo := &Folder{P: c.P, MaxDepth: 2, Opaque: func(g *ssa.Function) bool { return true }, Input: func(v ssa.Value) (constant.Value, bool) {
		if v == ch {
			return constant.MakeInt64(int64(r)), true
		}
		if v == size {
			return constant.MakeInt64(1), true
		}
		return nil, false
	}}
	res := fo.Fold(f, []LV{bottom})
	decodeBlock := ch.(ssa.Instruction).Block()
	acc := LV{K: lTop}
	n := 0
	for _, ret := range res.Returns {
		if !(decodeBlock.Dominates(ret.Block())) {
			continue // the end-of-input exit before the decode
		}
		n++
		acc = meet(acc, res.Val(ret.Results[0]))
	}
	if n == 0 || acc.K != lConst || acc.C.Kind() != constant.String {
		return "", false, res
	}
	return constant.StringVal(acc.C), true, res
}

func c13EscapeTable(c *Ctx) {
	const rule = "C13.escape-table"
	f := c.escapeFn()
	if !c.need(rule, f, "escape sequence scanner") {
		return
	}
	pos := c.P.Pos(f.Pos())
	var rs []rune
	for r := range specEscapes {
		rs = append(rs, r)
	}
	sort.Slice(rs, func(i, j int) bool { return rs[i] < rs[j] })
	for _, r := range rs {
		got, ok, _ := c.foldEscape(f, r)
		c.R.Check(rule, fmt.Sprintf("escape:%q", r), pos, ok && got == specEscapes[r], fmt.Sprintf("`\\%c` must denote %q; the escape switch yields %q (constant=%v)", r, specEscapes[r], got, ok))
	}
	// every other printable ASCII character (the backslash and the quotes' counterparts included) escapes to itself
	for r := rune(0x20); r < 0x7f; r++ {
		if _, isTab := specEscapes[r]; isTab || r == 'u' || r == 'x' {
			continue
		}
		got, ok, _ := c.foldEscape(f, r)
		c.R.Check(rule, fmt.Sprintf("self:%q", r), pos, ok && got == string(r), fmt.Sprintf("`\\%c` must denote the character itself; the escape switch yields %q (constant=%v)", r, got, ok))
	}
	// a multi-byte character escapes to itself
	for _, r := range []rune{0xe9, 0x4e2d, 0x1f600} {
		got, ok, _ := c.foldEscape(f, r)
		c.R.Check(rule, fmt.Sprintf("self:U+%04X", r), pos, ok && got == string(r), fmt.Sprintf("an escaped multi-byte character must denote itself, got %q", got))
	}
	// line continuations
	for _, r := range []rune{'\n', '\r', 0x2028, 0x2029} {
		got, ok, _ := c.foldEscape(f, r)
		c.R.Check(rule, fmt.Sprintf("continuation:U+%04X", r), pos, ok && got == "", fmt.Sprintf("backslash + line terminator U+%04X is a line continuation and denotes nothing, got %q (constant=%v)", r, got, ok))
	}
	// the escape function consumes the backslash and the escape character (advance on entry + after decode)
	adv := 0
	instrs(f, func(b *ssa.BasicBlock, i int, in ssa.Instruction) {
		if st, ok := in.(*ssa.Store); ok && isScannerField(st.Addr, "pos") {
			if bo, ok := st.Val.(*ssa.BinOp); ok && bo.Op == token.ADD {
				adv++
			}
		}
	})
	c.R.Check(rule, "consumes-backslash-and-char", pos, adv >= 2, "the escape scanner must advance over the backslash and over the escape character")
	c.R.Floor(rule, 100)
}

func c13Hex(c *Ctx) {
	const rule = "C13.hex-escape-text"
	f := c.escapeFn()
	if f == nil {
		return
	}
	// the hex escape function: callee of the 'u' and 'x' arms
	var hexFn *ssa.Function
	var inlineDigitCalls []*ssa.Call // the escape helper written out in the arms: the digit scanner is called directly
	want := map[rune]int64{'u': 4, 'x': 2}
	for r, digits := range want {
		_, _, res := c.foldEscape(f, r)
		var call *ssa.Call
		for _, cl := range res.ReachableCalls() {
			cc, ok := cl.(*ssa.Call)
			if !ok {
				continue
			}
			cal := calleeOf(cc)
			if cal == nil || !c.inModule(cal) || c.scannerDiagFns()[cal] || peekKind(cal) != "" {
				continue
			}
			ch, _ := decodedRune(f)
			if !ch.(ssa.Instruction).Block().Dominates(cc.Block()) {
				continue
			}
			call = cc
		}
		cons := fmt.Sprintf("digits:%q", r)
		if call == nil {
			c.R.Check(rule, cons, c.P.Pos(f.Pos()), false, fmt.Sprintf("`\\%c` must be decoded by the hexadecimal escape scanner", r))
			continue
		}
		hexFn = calleeOf(call)
		if isIntType(hexFn.Signature.Results().At(0).Type()) {
			inlineDigitCalls = append(inlineDigitCalls, call)
		}
		n, ok := int64(0), false
		for _, a := range call.Call.Args[1:] {
			if v, isC := constIntArg(a); isC {
				n, ok = v, true
			}
		}
		c.R.Check(rule, cons, c.P.InstrPos(call), ok && n == digits, fmt.Sprintf("`\\%c` takes exactly %d hexadecimal digits, the scanner requests %d", r, digits, n))
		// and the escape function returns that call's result unchanged
		okRet := false
		for _, ret := range res.Returns {
			if ret.Results[0] == ssa.Value(call) {
				okRet = true
			}
		}
		if isIntType(hexFn.Signature.Results().At(0).Type()) {
			okRet = true // judged below: the value must be converted to text
		}
		c.R.Check(rule, fmt.Sprintf("returned:%q", r), c.P.InstrPos(call), okRet, "the decoded text must be returned unchanged")
	}
	if hexFn == nil {
		return
	}
	// success edge returns an integer-to-string conversion of the scanned value
	var digitCall *ssa.Call
	container := hexFn
	if len(inlineDigitCalls) > 0 {
		container, digitCall = f, inlineDigitCalls[0]
	} else {
		instrs(hexFn, func(b *ssa.BasicBlock, i int, in ssa.Instruction) {
			if call, ok := in.(*ssa.Call); ok {
				if cal := calleeOf(call); cal != nil && c.inModule(cal) && !c.scannerDiagFns()[cal] && isIntType(cal.Signature.Results().At(0).Type()) {
					digitCall = call
				}
			}
		})
	}
	if digitCall == nil {
		c.R.Undecided(rule, "code-point-to-text", c.P.Pos(hexFn.Pos()), "no call producing the scanned value")
		return
	}
	isDigitCall := func(v ssa.Value) bool {
		if v == ssa.Value(digitCall) {
			return true
		}
		for _, dc := range inlineDigitCalls {
			if v == ssa.Value(dc) {
				return true
			}
		}
		return false
	}
	nret := 0
	hexFn = container
	instrs(hexFn, func(b *ssa.BasicBlock, i int, in ssa.Instruction) {
		ret, ok := in.(*ssa.Return)
		if !ok {
			return
		}
		v := ret.Results[0]
		if len(inlineDigitCalls) > 0 {
			// only the returns of the hex arms: those that come after a digit scan
			after := false
			for _, dc := range inlineDigitCalls {
				if instrDominates(dc, in) {
					after = true
				}
			}
			if !after {
				return
			}
		}
		if k, ok := v.(*ssa.Const); ok {
			// failure edge: must raise the diagnostic
			_ = k
			hasDiag := !pathExists(hexFn, nil, func(x ssa.Instruction) bool { return x == in }, func(x ssa.Instruction) bool { return c.isScanDiag(x, "") }, nil)
			c.R.Check(rule, "failure-diagnosed", c.P.InstrPos(ret), hasDiag, "a hex escape without enough digits must raise a diagnostic")
			return
		}
		nret++
		okConv := false
		why := "the success edge returns " + describeValue(v)
		if cv, ok := v.(*ssa.Convert); ok {
			if bt, ok := cv.Type().Underlying().(*types.Basic); ok && bt.Info()&types.IsString != 0 && isIntType(cv.X.Type()) {
				for _, rt := range plainOrigins.Roots(cv.X) {
					if rt.Kind == "call" && isDigitCall(rt.V) {
						okConv = true
					}
				}
			}
		}
		c.R.Check(rule, "code-point-to-text", c.P.InstrPos(ret), okConv, "a hex escape denotes the character with that code point: the scanned value must be converted to text (string(rune(v))), not formatted as a number; "+why)
	})
	if nret == 0 {
		c.R.Undecided(rule, "code-point-to-text", c.P.Pos(hexFn.Pos()), "no success return found")
	}
	// the digits are parsed in base 16
	exact := calleeOf(digitCall)
	base16, wide := false, false
	instrs(exact, func(b *ssa.BasicBlock, i int, in ssa.Instruction) {
		if call, ok := in.(*ssa.Call); ok {
			if cal := calleeOf(call); cal != nil && (cal.String() == "strconv.ParseInt" || cal.String() == "strconv.ParseUint") {
				if n, ok := constIntArg(call.Call.Args[1]); ok && n == 16 {
					base16 = true
				}
				// four hex digits need 16 value bits: a signed parse needs a constant size of 0 or > 16
				if n, ok := constIntArg(call.Call.Args[2]); ok {
					if cal.String() == "strconv.ParseUint" {
						wide = n == 0 || n >= 16
					} else {
						wide = n == 0 || n > 16
					}
				}
			}
		}
	})
	c.R.Check(rule, "base-16", c.P.Pos(exact.Pos()), base16, "hex digits must be parsed in base 16")
	c.R.Check(rule, "value-width", c.P.Pos(exact.Pos()), wide, "the parse of up to four hex digits must use a constant bit size that holds 0xFFFF (a signed parse of exactly 4*digits bits rejects every escape with the top bit set)")
	// the digit loop stops after exactly the requested number of digits: the loop test compares the number of digits
	// collected so far with the requested count strictly (`collected < count`); `<=` takes one digit more, and the
	// character after `\x41` becomes part of the escape
	seen := map[*ssa.Function]bool{}
	var digitLoops int
	var visit func(g *ssa.Function, depth int)
	visit = func(g *ssa.Function, depth int) {
		if g == nil || seen[g] || depth > 3 || len(g.Blocks) == 0 {
			return
		}
		seen[g] = true
		for _, l := range naturalLoops(g) {
			for b := range l.Body {
				for _, in := range b.Instrs {
					bo, ok := in.(*ssa.BinOp)
					if !ok {
						continue
					}
					isLen := func(v ssa.Value) bool {
						call, isC := v.(*ssa.Call)
						if !isC {
							return false
						}
						if isBuiltinCall(call, "len") {
							return true
						}
						cal := calleeOf(call)
						return cal != nil && (cal.String() == "(*strings.Builder).Len" || cal.String() == "(*bytes.Buffer).Len")
					}
					fromCount := func(v ssa.Value) bool {
						for _, rt := range plainOrigins.Roots(v) {
							if rt.Kind == "param" && len(rt.Path) == 0 && isIntType(rt.V.Type()) && rt.V.Parent() == g {
								return true
							}
						}
						return false
					}
					op := bo.Op
					switch {
					case isLen(bo.X) && fromCount(bo.Y):
					case isLen(bo.Y) && fromCount(bo.X):
						op = map[token.Token]token.Token{token.LSS: token.GTR, token.GTR: token.LSS, token.LEQ: token.GEQ, token.GEQ: token.LEQ}[op]
					default:
						continue
					}
					if op != token.LSS && op != token.GEQ && op != token.LEQ && op != token.GTR {
						continue
					}
					digitLoops++
					// `collected < count` continues, `collected >= count` stops
					c.R.Check(rule, fmt.Sprintf("digit-count:%s#%d", c.P.FuncKey(g), digitLoops), c.P.InstrPos(bo), op == token.LSS || op == token.GEQ, "the hex digit loop must stop once the requested number of digits has been collected (collected < count); this test lets it take one digit more, so `\\x41b` reads three digits")
				}
			}
		}
		instrs(g, func(b *ssa.BasicBlock, i int, in ssa.Instruction) {
			if call, ok := in.(ssa.CallInstruction); ok {
				if cal := calleeOf(call); cal != nil && c.inModule(cal) && !c.scannerDiagFns()[cal] {
					visit(cal, depth+1)
				}
			}
		})
	}
	visit(exact, 0)
	if digitLoops == 0 {
		c.R.Undecided(rule, "digit-count", c.P.Pos(exact.Pos()), "no loop test of the number of collected digits against the requested count found")
	}
	c.R.Floor(rule, 7)
}

// stringScanner: the scanner method with two rune decodes whose loop compares the second with the first (the quote).
func (c *Ctx) stringScanner() (*ssa.Function, ssa.Value, ssa.Value, ssa.Value) {
	for _, f := range c.P.ModFuncs {
		if f.Signature.Recv() == nil || typeName(f.Signature.Recv().Type()) != "Scanner" {
			continue
		}
		var decodes []*ssa.Call
		instrs(f, func(b *ssa.BasicBlock, i int, in ssa.Instruction) {
			if call, ok := in.(*ssa.Call); ok {
				if cal := calleeOf(call); cal != nil && cal.String() == "unicode/utf8.DecodeRune" {
					decodes = append(decodes, call)
				}
			}
		})
		if len(decodes) != 2 {
			continue
		}
		ext := func(call *ssa.Call, idx int) ssa.Value {
			for _, r := range *call.Referrers() {
				if e, ok := r.(*ssa.Extract); ok && e.Index == idx {
					return e
				}
			}
			return nil
		}
		q, ch, sz := ext(decodes[0], 0), ext(decodes[1], 0), ext(decodes[1], 1)
		if q == nil || ch == nil {
			continue
		}
		// the quote test
		found := false
		instrs(f, func(b *ssa.BasicBlock, i int, in ssa.Instruction) {
			if bo, ok := in.(*ssa.BinOp); ok && bo.Op == token.EQL {
				xs := plainOrigins.Roots(bo.X)
				ys := plainOrigins.Roots(bo.Y)
				_ = xs
				_ = ys
				if (reaches(bo.X, ch) && reaches(bo.Y, q)) || (reaches(bo.X, q) && reaches(bo.Y, ch)) {
					found = true
				}
			}
		})
		if found {
			return f, q, ch, sz
		}
	}
	return nil, nil, nil, nil
}

// reaches: v is target, possibly through phis / local cells.
func reaches(v, target ssa.Value) bool {
	if v == target {
		return true
	}
	seen := map[ssa.Value]bool{}
	var walk func(x ssa.Value) bool
	walk = func(x ssa.Value) bool {
		if x == target {
			return true
		}
		if seen[x] {
			return false
		}
		seen[x] = true
		switch y := x.(type) {
		case *ssa.Phi:
			for _, e := range y.Edges {
				if walk(e) {
					return true
				}
			}
		case *ssa.UnOp:
			if a, ok := y.X.(*ssa.Alloc); ok && y.Op == token.MUL {
				for _, ref := range *a.Referrers() {
					if st, ok := ref.(*ssa.Store); ok && st.Addr == ssa.Value(a) && walk(st.Val) {
						return true
					}
				}
			}
		}
		return false
	}
	return walk(v)
}

// pathExistsEq: like pathExists over blocks, but comparisons of `subject` with one and the same operand (== / !=) are
// decided consistently along a path: once `subject == X` went one way, a later test against X goes the same way.
func pathExistsEq(start *ssa.BasicBlock, subject ssa.Value, goal, avoid func(ssa.Instruction) bool, edgeOK func(b *ssa.BasicBlock, k int) bool) bool {
	key := func(v ssa.Value) string {
		if k, ok := v.(*ssa.Const); ok {
			return "const:" + k.Value.String()
		}
		if ct, ok := v.(*ssa.Convert); ok {
			if k, ok := ct.X.(*ssa.Const); ok {
				return "const:" + k.Value.String()
			}
		}
		return fmt.Sprintf("%p", v)
	}
	type state struct {
		b     *ssa.BasicBlock
		facts string
	}
	seen := map[state]bool{}
	var walk func(b *ssa.BasicBlock, facts map[string]bool) bool
	walk = func(b *ssa.BasicBlock, facts map[string]bool) bool {
		ks := make([]string, 0, len(facts))
		for k, v := range facts {
			ks = append(ks, fmt.Sprintf("%s=%v", k, v))
		}
		sort.Strings(ks)
		st := state{b, strings.Join(ks, ";")}
		if seen[st] {
			return false
		}
		seen[st] = true
		for _, in := range b.Instrs {
			if avoid != nil && avoid(in) {
				return false
			}
			if goal(in) {
				return true
			}
		}
		for k, t := range b.Succs {
			if edgeOK != nil && !edgeOK(b, k) {
				continue
			}
			nf := facts
			if iff, ok := b.Instrs[len(b.Instrs)-1].(*ssa.If); ok && len(b.Succs) == 2 {
				if bo, ok := iff.Cond.(*ssa.BinOp); ok && (bo.Op == token.EQL || bo.Op == token.NEQ) {
					other := ssa.Value(nil)
					if reaches(bo.X, subject) {
						other = bo.Y
					} else if reaches(bo.Y, subject) {
						other = bo.X
					}
					if other != nil {
						eq := (bo.Op == token.EQL) == (k == 0)
						if known, ok := facts[key(other)]; ok && known != eq {
							continue
						}
						nf = map[string]bool{}
						for a, v := range facts {
							nf[a] = v
						}
						nf[key(other)] = eq
					}
				}
			}
			if walk(t, nf) {
				return true
			}
		}
		return false
	}
	return walk(start, map[string]bool{})
}

func c13Unterminated(c *Ctx) {
	const rule = "C13.unterminated"
	f, q, ch, sz := c.stringScanner()
	if !c.need(rule, f, "string literal scanner") {
		return
	}
	pos := c.P.Pos(f.Pos())
	// the quote exit: true edge of ch == quote
	var quoteBlock *ssa.BasicBlock
	instrs(f, func(b *ssa.BasicBlock, i int, in ssa.Instruction) {
		iff, ok := in.(*ssa.If)
		if !ok {
			return
		}
		bo, ok := iff.Cond.(*ssa.BinOp)
		if !ok || bo.Op != token.EQL {
			return
		}
		if (reaches(bo.X, ch) && reaches(bo.Y, q)) || (reaches(bo.X, q) && reaches(bo.Y, ch)) {
			quoteBlock = b.Succs[0]
		}
	})
	if quoteBlock == nil {
		c.R.Undecided(rule, "quote-exit", pos, "closing-quote test not found")
		return
	}
	// every path to the return passes a diagnostic or the quote exit
	inQuote := func(in ssa.Instruction) bool { return in.Block() == quoteBlock }
	diag := func(in ssa.Instruction) bool { return c.isScanDiag(in, "") }
	open := pathExists(f, nil, isReturn, func(in ssa.Instruction) bool { return inQuote(in) || diag(in) }, nil)
	c.R.Check(rule, "every-open-exit-diagnosed", pos, !open, "the string scanner can return without having seen the closing quote and without raising a diagnostic: an unterminated literal would be accepted")
	// the two specific exits
	loops := naturalLoops(f)
	if len(loops) == 0 {
		c.R.Undecided(rule, "loop", pos, "no loop in the string scanner")
		return
	}
	l := loops[0]
	exits := 0
	for _, b := range f.Blocks {
		if !l.Body[b] {
			continue
		}
		for _, s := range b.Succs {
			if l.Body[s] {
				continue
			}
			exits++
			// classify the exit by the arm block it enters (blocks that leave the loop are not part of its body)
			src := s
			kind := "other"
			hasDiag := false
			hasWrite := false
			region := []*ssa.BasicBlock{}
			for x := s; x != nil && len(x.Preds) == 1; {
				region = append(region, x)
				if len(x.Succs) != 1 {
					break
				}
				x = x.Succs[0]
			}
			for _, rb := range region {
				for _, in := range rb.Instrs {
					if c.isScanDiag(in, "") {
						hasDiag = true
					}
					if call, ok := in.(*ssa.Call); ok {
						if cal := calleeOf(call); cal != nil && (cal.String() == "(*strings.Builder).Write" || cal.String() == "(*bytes.Buffer).Write" || cal.String() == "(*strings.Builder).WriteString") {
							for _, a := range call.Call.Args {
								if sl, ok := a.(*ssa.Slice); ok {
									if hi, ok := sl.High.(*ssa.UnOp); ok && isScannerField(hi.X, "pos") {
										hasWrite = true
									}
								}
							}
						}
					}
				}
			}
			if src == quoteBlock {
				kind = "quote"
				advOK := false
				for _, in := range src.Instrs {
					if st, ok := in.(*ssa.Store); ok && isScannerField(st.Addr, "pos") {
						if bo, ok := st.Val.(*ssa.BinOp); ok && bo.Op == token.ADD && (bo.Y == sz || bo.X == sz) {
							advOK = true
						}
					}
				}
				c.R.Check(rule, "quote-exit-consumes-quote", c.P.InstrPos(src.Instrs[0]), advOK, "the closing quote must be consumed (pos += size) when the literal ends")
			} else {
				c.R.Check(rule, fmt.Sprintf("open-exit#%d-diagnosed", exits), c.P.InstrPos(src.Instrs[0]), hasDiag, "a string scanner exit other than the closing quote must raise a diagnostic")
			}
			_, _ = hasWrite, kind
		}
	}
	// pending text: once the position has advanced inside the loop, no path to the return may skip the copy of
	// text[start:pos] into the value (a position store on an exit arm, the consumed quote, needs the copy before it)
	isPendingWrite := func(in ssa.Instruction) bool {
		call, ok := in.(*ssa.Call)
		if !ok {
			return false
		}
		cal := calleeOf(call)
		if cal == nil || !(cal.String() == "(*strings.Builder).Write" || cal.String() == "(*bytes.Buffer).Write" || cal.String() == "(*strings.Builder).WriteString") {
			return false
		}
		for _, a := range call.Call.Args {
			if sl, ok := a.(*ssa.Slice); ok {
				if hi, ok := sl.High.(*ssa.UnOp); ok && isScannerField(hi.X, "pos") {
					return true
				}
			}
		}
		return false
	}
	backToHeader := func(b *ssa.BasicBlock) bool {
		seen := map[*ssa.BasicBlock]bool{}
		var walk func(x *ssa.BasicBlock) bool
		walk = func(x *ssa.BasicBlock) bool {
			if x == l.Header {
				return true
			}
			if seen[x] || !l.Body[x] {
				return false
			}
			seen[x] = true
			for _, s := range x.Succs {
				if walk(s) {
					return true
				}
			}
			return false
		}
		for _, s := range b.Succs {
			if walk(s) {
				return true
			}
		}
		return false
	}
	advances, bytewise := 0, 0
	var exitStores []ssa.Instruction
	exitCopied := map[ssa.Instruction]bool{}
	// copiedBytewise: `value.Write(text[pos:pos+size]); pos += size` - the raw bytes of the character just decoded are
	// copied before the position moves past them (writing the decoded rune instead is lossy for invalid UTF-8)
	copiedBytewise := func(b *ssa.BasicBlock, i int) bool {
		st := b.Instrs[i].(*ssa.Store)
		adv, ok := st.Val.(*ssa.BinOp)
		if !ok || adv.Op != token.ADD {
			return false
		}
		if u, ok := adv.X.(*ssa.UnOp); !ok || !isScannerField(u.X, "pos") {
			return false
		}
		for k := i - 1; k >= 0; k-- {
			if st2, isSt := b.Instrs[k].(*ssa.Store); isSt && isScannerField(st2.Addr, "pos") {
				return false
			}
			call, isC := b.Instrs[k].(*ssa.Call)
			if !isC {
				continue
			}
			cal := calleeOf(call)
			if cal == nil || !(cal.String() == "(*strings.Builder).Write" || cal.String() == "(*bytes.Buffer).Write") {
				continue
			}
			for _, a := range call.Call.Args {
				sl, isS := a.(*ssa.Slice)
				if !isS || sl.Low == nil || sl.High == nil {
					continue
				}
				lo, okLo := sl.Low.(*ssa.UnOp)
				hi, okHi := sl.High.(*ssa.BinOp)
				if !okLo || !okHi || !isScannerField(lo.X, "pos") || hi.Op != token.ADD || hi.Y != adv.Y {
					continue
				}
				if hu, ok := hi.X.(*ssa.UnOp); ok && isScannerField(hu.X, "pos") {
					if tx, ok := sl.X.(*ssa.UnOp); ok && isScannerField(tx.X, "text") {
						return true
					}
				}
			}
		}
		return false
	}
	instrs(f, func(b *ssa.BasicBlock, i int, in ssa.Instruction) {
		st, ok := in.(*ssa.Store)
		if !ok || !isScannerField(st.Addr, "pos") {
			return
		}
		if l.Body[b] && backToHeader(b) {
			advances++
			if copiedBytewise(b, i) {
				bytewise++
				c.R.Check(rule, fmt.Sprintf("advance#%d-pending-text-copied", advances), c.P.InstrPos(in), true, "")
				return
			}
			open := pathExists(f, in, isReturn, isPendingWrite, nil)
			c.R.Check(rule, fmt.Sprintf("advance#%d-pending-text-copied", advances), c.P.InstrPos(in), !open, "after the position has advanced inside the literal every way out must copy text[start:pos] into the value, or the tail of the literal is lost")
			return
		}
		if !l.Body[b] && !(l.Header.Dominates(b)) {
			return // before the loop: the opening quote
		}
		// on an exit arm (the consumed closing quote): the copy comes first, in the same iteration
		exitStores = append(exitStores, in)
		copied := false
		instrs(f, func(wb *ssa.BasicBlock, _ int, w ssa.Instruction) {
			if isPendingWrite(w) && wb != l.Header && l.Header.Dominates(wb) && instrDominates(w, in) {
				copied = true
			}
		})
		exitCopied[in] = copied
	})
	for _, in := range exitStores {
		// when every advance copies its own bytes nothing is ever pending
		c.R.Check(rule, "exit-position-store-after-copy", c.P.InstrPos(in), exitCopied[in] || (advances > 0 && bytewise == advances), "a position change on the way out of the literal must come after the pending text has been copied")
	}
	if advances == 0 {
		c.R.Undecided(rule, "advance", pos, "no position advance inside the string scanner loop")
	}
	// end of input and line break exits exist
	hasEOT := false
	hasLB := false
	// the blocks entered when the position has reached the end of the text (`if s.pos >= s.end {`)
	var eotBlocks []*ssa.BasicBlock
	for _, b := range f.Blocks {
		if len(b.Instrs) == 0 {
			continue
		}
		iff, ok := b.Instrs[len(b.Instrs)-1].(*ssa.If)
		if !ok {
			continue
		}
		bo, ok := iff.Cond.(*ssa.BinOp)
		if !ok {
			continue
		}
		px, isPX := bo.X.(*ssa.UnOp)
		py, isPY := bo.Y.(*ssa.UnOp)
		if !isPX || !isPY {
			continue
		}
		switch {
		case isScannerField(px.X, "pos") && isScannerField(py.X, "end") && (bo.Op == token.GEQ || bo.Op == token.EQL):
			eotBlocks = append(eotBlocks, b.Succs[0])
		case isScannerField(px.X, "pos") && isScannerField(py.X, "end") && bo.Op == token.LSS:
			eotBlocks = append(eotBlocks, b.Succs[1])
		case isScannerField(px.X, "end") && isScannerField(py.X, "pos") && (bo.Op == token.LEQ || bo.Op == token.EQL):
			eotBlocks = append(eotBlocks, b.Succs[0])
		}
	}
	atEOT := func(in ssa.Instruction) bool {
		for _, t := range eotBlocks {
			if len(t.Preds) == 1 && (t == in.Block() || t.Dominates(in.Block())) {
				return true
			}
		}
		return false
	}
	instrs(f, func(b *ssa.BasicBlock, i int, in ssa.Instruction) {
		// which of the two messages names the end of the text is not the point: a diagnostic is raised there
		if c.isScanDiag(in, "M_Unexpected_end_of_text") || c.isScanDiag(in, "M_Unterminated_string_literal") && atEOT(in) {
			hasEOT = true
		}
		if c.isScanDiag(in, "M_Unterminated_string_literal") && !atEOT(in) {
			hasLB = true
		}
	})
	c.R.Check(rule, "end-of-input-diagnostic", pos, hasEOT, "reaching the end of input inside a literal must raise a diagnostic (`unexpected end of text`, or the unterminated-literal message on the end-of-text exit)")
	c.R.Check(rule, "line-break-diagnostic", pos, hasLB, "a line break inside a literal must raise `unterminated string literal`")
	// the unterminated-literal diagnostic is raised exactly on IsLineBreak of the decoded rune: it cannot be reached
	// within an iteration without the test having held, and once it held only the quote / backslash tests stand
	// between it and the diagnostic
	lbGuard := false
	var lbTest *ssa.BasicBlock
	instrs(f, func(b *ssa.BasicBlock, i int, in ssa.Instruction) {
		iff, ok := in.(*ssa.If)
		if !ok {
			return
		}
		if call, ok := iff.Cond.(*ssa.Call); ok && calleeOf(call) == c.fn("IsLineBreak") && reaches(call.Call.Args[0], ch) {
			lbTest = b
		}
	})
	if lbTest != nil {
		isUnterminated := func(in ssa.Instruction) bool {
			return c.isScanDiag(in, "M_Unterminated_string_literal") && !atEOT(in)
		}
		noBack := func(b *ssa.BasicBlock, k int) bool { return b.Succs[k] != l.Header }
		// (a) not reachable from the loop header when the true edge of the test is not taken
		without := pathExistsEq(l.Header, ch, isUnterminated, nil, func(b *ssa.BasicBlock, k int) bool {
			return noBack(b, k) && !(b == lbTest && k == 0)
		})
		// (b) from the true edge, every way on (other than a character equality holding) raises it
		charEq := func(b *ssa.BasicBlock, k int) bool {
			iff, ok := b.Instrs[len(b.Instrs)-1].(*ssa.If)
			if !ok || k != 0 {
				return false
			}
			bo, ok := iff.Cond.(*ssa.BinOp)
			return ok && bo.Op == token.EQL && (reaches(bo.X, ch) || reaches(bo.Y, ch))
		}
		t := lbTest.Succs[0]
		skipped := false
		if len(t.Instrs) > 0 {
			done := func(in ssa.Instruction) bool {
				return isReturn(in) || in.Block() == l.Header
			}
			skipped = !isUnterminated(t.Instrs[0]) && (done(t.Instrs[0]) || pathExists(f, t.Instrs[0], done, isUnterminated, func(b *ssa.BasicBlock, k int) bool { return !charEq(b, k) }))
		}
		lbGuard = !without && !skipped
	}
	c.R.Check(rule, "line-break-test", pos, lbGuard, "the unterminated-literal diagnostic must be raised on IsLineBreak(ch)")
	// escapes: the backslash arm appends the decoded escape and restarts the pending range after it
	escOK := false
	esc := c.escapeFn()
	instrs(f, func(b *ssa.BasicBlock, i int, in ssa.Instruction) {
		if call, ok := in.(*ssa.Call); ok && calleeOf(call) == esc && esc != nil {
			// its result is written
			for _, ref := range *call.Referrers() {
				if w, ok := ref.(*ssa.Call); ok {
					if cal := calleeOf(w); cal != nil && cal.String() == "(*strings.Builder).WriteString" {
						escOK = true
					}
				}
			}
		}
	})
	c.R.Check(rule, "escape-appended", pos, escOK, "the decoded escape must be appended to the literal's value")
	c.R.Floor(rule, 8)
}

func c13Verbatim(c *Ctx) {
	const rule = "C13.value-verbatim"
	arms, und := c.literalDispatch()
	if und != "" {
		c.R.Undecided(rule, "literal-dispatch", "-", und)
		return
	}
	arm := arms[c.SK("SK_StringLiteral")]
	if !arm.Present {
		c.R.Check(rule, "string-arm", arm.Pos, false, "the literal evaluator has no arm for string literals")
		return
	}
	d := c.EvalDispatcher()
	h := d.Handlers["LiteralExpression"]
	var nodeParam int = -1
	for i, p := range h.Params {
		if typeName(p.Type()) == "LiteralExpression" {
			nodeParam = i
		}
	}
	control := c.nodeTokenFolder(c.SK("SK_Unknown")).Fold(h, makeBottoms(len(h.Params)))
	ok := false
	bad := false
	why := ""
	for _, ret := range arm.Fold.Returns {
		if control.Reach[ret.Block()] {
			continue
		}
		if len(ret.Results) > 1 && !isNilConst(ret.Results[len(ret.Results)-1]) && isNilConst(ret.Results[0]) {
			continue // an error return
		}
		for _, rt := range plainOrigins.Roots(ret.Results[0]) {
			switch {
			case rt.Kind == "param" && rt.Idx == nodeParam && len(rt.Path) == 1 && rt.Path[0] == "Value":
				ok = true
			case rt.Kind == "call" && rt.Fn != nil && c.inModule(rt.Fn):
				call := rt.V.(*ssa.Call)
				sub := rt.Fn
				good := true
				n := 0
				instrs(sub, func(b *ssa.BasicBlock, i int, in ssa.Instruction) {
					r2, isRet := in.(*ssa.Return)
					if !isRet {
						return
					}
					n++
					for _, q := range plainOrigins.Roots(r2.Results[0]) {
						if !(q.Kind == "param" && len(q.Path) == 1 && q.Path[0] == "Value" && q.Idx < len(call.Call.Args) && call.Call.Args[q.Idx] == ssa.Value(h.Params[nodeParam])) {
							good = false
							why = "handler returns " + q.String()
						}
					}
				})
				if good && n > 0 {
					ok = true
				} else {
					bad = true
				}
			default:
				bad = true
				why = "on some path it returns " + rt.String() + " (" + c.P.InstrPos(ret) + ")"
			}
		}
	}
	ok = ok && !bad
	c.R.Check(rule, "string-arm", arm.Pos, ok, "a string literal must evaluate to exactly the Value recorded by the parser; "+why)
	c.R.Floor(rule, 1)
}

func makeBottoms(n int) []LV {
	out := make([]LV, n)
	for i := range out {
		out[i] = bottom
	}
	return out
}
