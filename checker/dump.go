package main

import (
	"fmt"
	"golang.org/x/tools/go/ssa"
	"os"
	"sort"
	"strconv"
)

func (c *Ctx) Dump(what string) {
	switch what {
	case "ladder":
		f := c.method("Parser", "getBinaryOperatorPrecedence")
		for _, k := range c.AllKinds() {
			r := c.tokenFolder(k).Fold(f, []LV{bottom})
			v, ok := r.ReturnConst(0)
			fmt.Println(c.SKName(k), v, ok)
		}
	case "accessors":
		var s []string
		for f := range c.TokenAccessors() {
			s = append(s, c.P.FuncKey(f))
		}
		sort.Strings(s)
		fmt.Println("accessors", s)
		s = nil
		for f := range c.MustConsume() {
			s = append(s, c.P.FuncKey(f))
		}
		sort.Strings(s)
		fmt.Println("must", s)
		s = nil
		for f := range c.MayConsume() {
			s = append(s, c.P.FuncKey(f))
		}
		sort.Strings(s)
		fmt.Println("may", s)
	case "registry":
		_, es, other := c.Registry()
		for _, e := range es {
			fmt.Println(e.Name, c.P.FuncKey(e.Fn), e.Pos)
		}
		fmt.Println(other)
	case "fold":
		k, _ := strconv.Atoi(os.Getenv("K"))
		c.DumpFold(os.Getenv("FN"), int64(k))
	case "roots":
		c.DumpRoots(os.Getenv("FN"))
	case "nodes":
		for _, n := range c.NodeTypes() {
			fmt.Println(n.Obj().Name())
		}
	}
}

func (c *Ctx) DumpFold(fname string, k int64) {
	var f *ssa.Function
	for _, g := range c.P.ModFuncs {
		if c.P.FuncKey(g) == fname {
			f = g
		}
	}
	if f == nil {
		fmt.Println("no such function")
		return
	}
	args := make([]LV, len(f.Params))
	for i := range args {
		args[i] = bottom
	}
	r := c.tokenFolder(k).Fold(f, args)
	for _, b := range f.Blocks {
		fmt.Printf("block %d reach=%v\n", b.Index, r.Reach[b])
		for _, in := range b.Instrs {
			if v, ok := in.(ssa.Value); ok {
				fmt.Printf("   %s = %s   => %s\n", v.Name(), in, r.Val(v))
			} else {
				fmt.Printf("   %s\n", in)
			}
		}
	}
}

func (c *Ctx) DumpRoots(fname string) {
	for _, g := range c.P.ModFuncs {
		if c.P.FuncKey(g) != fname {
			continue
		}
		instrs(g, func(b *ssa.BasicBlock, i int, in ssa.Instruction) {
			if call, ok := in.(*ssa.Call); ok {
				fmt.Printf("%s: callee=%v\n", in, calleeOf(call))
				for _, a := range call.Call.Args {
					for _, rt := range plainOrigins.Roots(a) {
						fn := "-"
						if rt.Fn != nil {
							fn = rt.Fn.String() + " name=" + rt.Fn.Name() + " recv=" + typeName(recvType(rt.Fn))
						}
						fmt.Printf("    arg %s root %s fn=%s\n", a.Name(), rt, fn)
					}
				}
			}
		})
	}
}
