package main

import (
	"fmt"
	"go/types"
	"sort"
	"strings"

	"golang.org/x/tools/go/ssa"
)

func init() {
	register("C09",
		"the functions goroutines run concurrently on a shared tree (Resolve with distinct runners, the two field-analysis entry points) and on other texts (ParseSourceCode, FormatDiagnostic) write no package-level state and never write through the shared tree (same interprocedural write summaries as C08); the module starts no goroutine and uses no channel or lock of its own; the builtin table is a sync.Map that is only Load-ed after init; the decimal contexts are only ever copied by value; (thorough) third-party dependency code reachable from the entry points stores to no package-level variable outside sync-guarded lazies.",
		"schedules: no interleaving is explored and no race detector is run; races inside the standard library, inside host functions, or created by a caller who shares one runner or one data map between goroutines.",
		runC09)
}

func runC09(c *Ctx) {
	c08Globals(c, "C09")
	c08GlobalEscape(c, "C09") // runners built by different goroutines must not share a package-level container
	c08Tree(c, "C09")
	c09NoConcurrency(c)
	c09Registry(c)
	c09Contexts(c)
	if c.Tier == "thorough" {
		c09Deps(c)
	}
}

func c09NoConcurrency(c *Ctx) {
	const rule = "C09.no-internal-concurrency"
	rr := c.apiReach()
	bad := map[string]string{}
	for _, f := range rr.Order {
		instrs(f, func(b *ssa.BasicBlock, i int, in ssa.Instruction) {
			switch x := in.(type) {
			case *ssa.Go:
				bad["go statement in "+c.P.FuncKey(f)] = c.P.InstrPos(in)
			case *ssa.Send, *ssa.Select, *ssa.MakeChan:
				bad["channel operation in "+c.P.FuncKey(f)] = c.P.InstrPos(in)
			case *ssa.UnOp:
				if x.Op.String() == "<-" {
					bad["channel receive in "+c.P.FuncKey(f)] = c.P.InstrPos(in)
				}
			case ssa.CallInstruction:
				if cal := calleeOf(x); cal != nil {
					n := cal.String()
					if (strings.HasPrefix(n, "(*sync.") || strings.HasPrefix(n, "sync.") || strings.HasPrefix(n, "(*sync/atomic.") || strings.HasPrefix(n, "sync/atomic.")) && !strings.HasPrefix(n, "(*sync.Map).") {
						bad["sync primitive "+n+" in "+c.P.FuncKey(f)] = c.P.InstrPos(in)
					}
				}
			}
		})
	}
	c.R.Check(rule, "module", "-", len(bad) == 0, fmt.Sprintf("the module is expected to have no concurrency of its own (so that race freedom reduces to the absence of shared writes); found: %v", sortedKeys(bad)))
	for k, pos := range bad {
		c.R.Add(rule, k, pos, Violation, "internal concurrency construct: the shared-write argument no longer covers this code")
	}
	c.R.Analysed["functions_scanned_for_concurrency"] = len(rr.Order)
}

func c09Registry(c *Ctx) {
	const rule = "C09.registry-type"
	reg, entries, other := c.Registry()
	if reg == nil {
		// a plain map read concurrently with a late Store would race
		c.R.Add(rule, "ANCHOR-UNRESOLVED builtin registry", "-", Violation, "no package-level sync.Map found: the builtin table must be a sync.Map (a plain map read by evaluating goroutines while anything stores to it is a data race)")
		return
	}
	c.R.Check(rule, "type", "-", deref(reg.Type()).String() == "sync.Map", "the builtin table must be a sync.Map")
	c.R.Check(rule, "stores-only-in-init", "-", len(other) == 0, strings.Join(other, "; "))
	c.R.Check(rule, "populated", "-", len(entries) >= 40, fmt.Sprintf("only %d builtins are registered by init", len(entries)))
	// outside init: only Load
	for _, f := range c.P.ModFuncs {
		if isInitFn(f) || c.initOnly(f) {
			continue
		}
		instrs(f, func(b *ssa.BasicBlock, i int, in ssa.Instruction) {
			var ops []*ssa.Value
			ops = in.Operands(ops)
			uses := false
			for _, op := range ops {
				if *op == ssa.Value(reg) {
					uses = true
				}
			}
			if !uses {
				return
			}
			call, ok := in.(ssa.CallInstruction)
			name := ""
			if ok {
				if cal := calleeOf(call); cal != nil {
					name = cal.String()
				}
			}
			c.R.Check(rule, "use in "+c.P.FuncKey(f), c.P.InstrPos(in), name == "(*sync.Map).Load" || name == "(*sync.Map).Range", "outside init the builtin table may only be read with Load; found "+in.String())
		})
	}
	c.R.Floor(rule, 4)
}

func c09Contexts(c *Ctx) {
	const rule = "C09.context-by-value"
	n := 0
	for _, f := range c.P.ModFuncs {
		instrs(f, func(b *ssa.BasicBlock, i int, in ssa.Instruction) {
			var ops []*ssa.Value
			ops = in.Operands(ops)
			for _, op := range ops {
				g, ok := (*op).(*ssa.Global)
				if !ok || g.Pkg == nil || g.Pkg.Pkg.Path() != decimalPath {
					continue
				}
				if _, isStruct := deref(g.Type()).Underlying().(*types.Struct); !isStruct {
					continue
				}
				n++
				cons := "use of decimal." + g.Name() + " in " + c.P.FuncKey(f)
				okUse := false
				switch x := in.(type) {
				case *ssa.UnOp:
					okUse = x.Op.String() == "*" // a copy
				case *ssa.FieldAddr:
					// reading a field: every referrer must be a load
					okUse = true
					for _, r := range *x.Referrers() {
						if u, ok := r.(*ssa.UnOp); !ok || u.Op.String() != "*" {
							okUse = false
						}
					}
				}
				c.R.Check(rule, cons, c.P.InstrPos(in), okUse, "a shared decimal context may only be copied (loaded by value); here its address is used by "+in.String())
			}
		})
	}
	c.R.Check(rule, "contexts-used", "-", n >= 2, "expected uses of decimal.Context128 / Context64")
	// newDecimalBig: fresh number from a by-value copy of Context128
	nd := c.fn("newDecimalBig")
	if c.need(rule, nd, "newDecimalBig") {
		ok := false
		instrs(nd, func(b *ssa.BasicBlock, i int, in ssa.Instruction) {
			ret, isRet := in.(*ssa.Return)
			if !isRet {
				return
			}
			if call, isC := ret.Results[0].(*ssa.Call); isC {
				if cal := calleeOf(call); cal != nil && cal.String() == decimalPath+".WithContext" {
					if u, isU := call.Call.Args[0].(*ssa.UnOp); isU {
						if g, isG := u.X.(*ssa.Global); isG && g.Name() == "Context128" {
							ok = true
						}
					}
				}
			}
		})
		c.R.Check(rule, "newDecimalBig", c.P.Pos(nd.Pos()), ok, "numbers must be created as decimal.WithContext(<copy of Context128>)")
	}
	c.R.Floor(rule, 3)
}

// c09Deps scans third-party (non-standard-library) code reachable from the
// entry points for stores to package-level variables.
func c09Deps(c *Ctx) {
	const rule = "C09.dependency-scan"
	isStd := func(f *ssa.Function) bool {
		p := f.Pkg
		for g := f; p == nil && g != nil; g = g.Parent() {
			p = g.Pkg
		}
		if p == nil {
			if o := f.Origin(); o != nil && o.Pkg != nil {
				p = o.Pkg
			}
		}
		if p == nil {
			return true
		}
		path := p.Pkg.Path()
		return !strings.Contains(strings.SplitN(path, "/", 2)[0], ".")
	}
	scope := func(f *ssa.Function) bool { return !isStd(f) }
	roots := append(c.exportedRoots(), c.evalRoots()...)
	rr := c.P.Reach(roots, scope, nil)
	var findings []string
	ndep := 0
	for _, f := range rr.Order {
		if c.inModule(f) || isInitFn(f) {
			continue
		}
		ndep++
		instrs(f, func(b *ssa.BasicBlock, i int, in ssa.Instruction) {
			var target ssa.Value
			switch x := in.(type) {
			case *ssa.Store:
				target = x.Addr
			case *ssa.MapUpdate:
				target = x.Map
			default:
				return
			}
			for _, rt := range plainOrigins.Roots(target) {
				if rt.Kind == "global" {
					g := rt.V.(*ssa.Global)
					findings = append(findings, fmt.Sprintf("%s writes %s.%s at %s", f.String(), g.Pkg.Pkg.Path(), g.Name(), c.P.InstrPos(in)))
				}
			}
		})
	}
	sort.Strings(findings)
	c.R.Analysed["dependency_functions_scanned"] = ndep
	c.R.Analysed["dependency_global_stores"] = findings
	c.R.Check(rule, "third-party stores to package-level variables", "-", len(findings) == 0, strings.Join(findings, "; "))
	c.R.Check(rule, "coverage", "-", ndep >= 50, fmt.Sprintf("only %d dependency functions were reachable: the scan did not enter the decimal library", ndep))
}

// initOnly: f is an unexported helper that runs during package initialisation only: it is never used as a value and
// every call of it sits in an init function.
func (c *Ctx) initOnly(f *ssa.Function) bool {
	if f == nil || f.Parent() != nil || f.Object() == nil || f.Object().Exported() || f.Signature.Recv() != nil {
		return false
	}
	n := 0
	for _, g := range c.P.ModFuncs {
		bad := false
		instrs(g, func(b *ssa.BasicBlock, i int, in ssa.Instruction) {
			var ops []*ssa.Value
			for _, op := range in.Operands(ops) {
				if *op != ssa.Value(f) {
					continue
				}
				call, isCall := in.(*ssa.Call)
				if !isCall || call.Call.Value != ssa.Value(f) || !isInitFn(g) {
					bad = true
				} else {
					n++
				}
			}
		})
		if bad {
			return false
		}
	}
	return n > 0
}
