package main

import (
	"go/token"

	"golang.org/x/tools/go/ssa"
)

// rangeLookupSearchShape: the range-table lookup written with the library's binary search:
//
//	i := sort.Search(len(t)/2, func(i int) bool { return t[2*i+1] >= code })
//	return i < len(t)/2 && t[2*i] <= code
//
// i.e. the first pair whose inclusive upper bound reaches code, accepted when its inclusive lower bound does not
// exceed code. Returns (reason, applicable).
func (c *Ctx) rangeLookupSearchShape(f *ssa.Function) (string, bool) {
	var search *ssa.Call
	nSearch := 0
	instrs(f, func(b *ssa.BasicBlock, i int, in ssa.Instruction) {
		if call, ok := in.(*ssa.Call); ok {
			if cal := calleeOf(call); cal != nil && cal.String() == "sort.Search" {
				search = call
				nSearch++
			}
		}
	})
	if nSearch != 1 || len(naturalLoops(f)) != 0 {
		return "", false
	}
	mc, ok := search.Call.Args[1].(*ssa.MakeClosure)
	if !ok {
		return "the search predicate is not a function literal", true
	}
	g := mc.Fn.(*ssa.Function)
	// resolve a value to the parameter of f it holds: through the cells closures capture
	var param func(v ssa.Value) *ssa.Parameter
	param = func(v ssa.Value) *ssa.Parameter {
		switch x := v.(type) {
		case *ssa.Parameter:
			if x.Parent() == f {
				return x
			}
		case *ssa.UnOp:
			if x.Op != token.MUL {
				return nil
			}
			cell := x.X
			if fv, isFV := cell.(*ssa.FreeVar); isFV {
				for k, w := range g.FreeVars {
					if w == fv && k < len(mc.Bindings) {
						cell = mc.Bindings[k]
					}
				}
			}
			al, isAl := cell.(*ssa.Alloc)
			if !isAl {
				return nil
			}
			var only *ssa.Parameter
			n := 0
			for _, ref := range *al.Referrers() {
				if st, isSt := ref.(*ssa.Store); isSt && st.Addr == ssa.Value(al) {
					n++
					only, _ = st.Val.(*ssa.Parameter)
				}
			}
			if n == 1 && only != nil && only.Parent() == f {
				return only
			}
		}
		return nil
	}
	code, tab := f.Params[0], f.Params[1]
	// elem: v is t[idx]; returns idx
	elem := func(v ssa.Value) (ssa.Value, bool) {
		u, ok := v.(*ssa.UnOp)
		if !ok || u.Op != token.MUL {
			return nil, false
		}
		ia, ok := u.X.(*ssa.IndexAddr)
		if !ok || param(ia.X) != tab {
			return nil, false
		}
		return ia.Index, true
	}
	// twice: idx == 2*base (+ off)
	twice := func(idx ssa.Value, base ssa.Value, off int64) bool {
		if off != 0 {
			bo, ok := idx.(*ssa.BinOp)
			if !ok || bo.Op != token.ADD {
				return false
			}
			if k, isK := constIntArg(bo.Y); isK && k == off {
				idx = bo.X
			} else if k, isK := constIntArg(bo.X); isK && k == off {
				idx = bo.Y
			} else {
				return false
			}
		}
		bo, ok := idx.(*ssa.BinOp)
		if !ok {
			return false
		}
		switch bo.Op {
		case token.MUL:
			if k, isK := constIntArg(bo.X); isK && k == 2 && bo.Y == base {
				return true
			}
			if k, isK := constIntArg(bo.Y); isK && k == 2 && bo.X == base {
				return true
			}
		case token.SHL:
			if k, isK := constIntArg(bo.Y); isK && k == 1 && bo.X == base {
				return true
			}
		}
		return false
	}
	flip := map[token.Token]token.Token{token.LSS: token.GTR, token.GTR: token.LSS, token.LEQ: token.GEQ, token.GEQ: token.LEQ, token.EQL: token.EQL, token.NEQ: token.NEQ}
	// normalise a comparison to "t[idx] OP code"
	asCmp := func(v ssa.Value) (token.Token, ssa.Value, bool) {
		bo, ok := v.(*ssa.BinOp)
		if !ok {
			return 0, nil, false
		}
		if idx, ok := elem(bo.X); ok && param(bo.Y) == code {
			return bo.Op, idx, true
		}
		if idx, ok := elem(bo.Y); ok && param(bo.X) == code {
			return flip[bo.Op], idx, true
		}
		return 0, nil, false
	}
	// the number of pairs: len(t)/2
	isPairs := func(v ssa.Value) bool {
		bo, ok := v.(*ssa.BinOp)
		if !ok {
			return false
		}
		k, isK := constIntArg(bo.Y)
		lc, isC := bo.X.(*ssa.Call)
		if !isK || !isC || !isBuiltinCall(lc, "len") || param(lc.Call.Args[0]) != tab {
			return false
		}
		return bo.Op == token.QUO && k == 2 || bo.Op == token.SHR && k == 1
	}
	// the last index of the table: len(t)-1, or 2*(len(t)/2)-1
	isLast := func(v ssa.Value) bool {
		bo, ok := v.(*ssa.BinOp)
		if !ok || bo.Op != token.SUB {
			return false
		}
		if k, isK := constIntArg(bo.Y); !isK || k != 1 {
			return false
		}
		if lc, isC := bo.X.(*ssa.Call); isC && isBuiltinCall(lc, "len") && param(lc.Call.Args[0]) == tab {
			return true
		}
		if m, isM := bo.X.(*ssa.BinOp); isM && m.Op == token.MUL {
			if k, isK := constIntArg(m.X); isK && k == 2 && isPairs(m.Y) {
				return true
			}
			if k, isK := constIntArg(m.Y); isK && k == 2 && isPairs(m.X) {
				return true
			}
		}
		return false
	}
	if !isPairs(search.Call.Args[0]) {
		return "the search does not run over the len(t)/2 pairs of the table", true
	}
	// the predicate: t[2*i+1] >= code
	var pred ssa.Value
	nret := 0
	instrs(g, func(b *ssa.BasicBlock, i int, in ssa.Instruction) {
		if ret, ok := in.(*ssa.Return); ok && len(ret.Results) == 1 {
			pred = ret.Results[0]
			nret++
		}
	})
	if nret != 1 || len(g.Params) != 1 {
		return "the search predicate is not a single comparison", true
	}
	op, idx, ok := asCmp(pred)
	if !ok || !twice(idx, g.Params[0], 1) {
		return "the search predicate does not compare code with the upper bound t[2*i+1] of pair i", true
	}
	if op != token.GEQ {
		return "the search predicate must be t[2*i+1] >= code (the upper bound is inclusive: a strict comparison loses the last code point of every range)", true
	}
	// the results
	hits := 0
	why := ""
	instrs(f, func(b *ssa.BasicBlock, i int, in ssa.Instruction) {
		ret, isR := in.(*ssa.Return)
		if !isR || why != "" {
			return
		}
		var leaves []ssa.Value
		var walk func(v ssa.Value, depth int)
		walk = func(v ssa.Value, depth int) {
			if phi, isPhi := v.(*ssa.Phi); isPhi && depth < 4 {
				for _, e := range phi.Edges {
					walk(e, depth+1)
				}
				return
			}
			leaves = append(leaves, v)
		}
		walk(ret.Results[0], 0)
		onlyFalse := true
		for _, lf := range leaves {
			if k, isK := constBoolArg(lf); isK {
				if k {
					why = "a constant `true` result"
				}
				continue
			}
			onlyFalse = false
			op, idx, ok := asCmp(lf)
			if !ok || !twice(idx, ssa.Value(search), 0) {
				why = "a hit that does not compare code with the lower bound t[2*i] of the pair found"
				return
			}
			if op != token.LEQ {
				why = "a hit must test t[2*i] <= code (the lower bound is inclusive: a strict comparison loses the first code point of every range)"
				return
			}
			// under i < pairs
			guarded := false
			lb := lf.(*ssa.BinOp).Block()
			for _, d := range f.Blocks {
				iff, isIf := d.Instrs[len(d.Instrs)-1].(*ssa.If)
				if !isIf || len(d.Succs) != 2 {
					continue
				}
				t := d.Succs[0]
				if len(t.Preds) != 1 || !(t == lb || t.Dominates(lb)) {
					continue
				}
				if bo, isB := iff.Cond.(*ssa.BinOp); isB && bo.Op == token.LSS && bo.X == ssa.Value(search) && (isPairs(bo.Y) || sameExpr(bo.Y, search.Call.Args[0])) {
					guarded = true
				}
			}
			if !guarded {
				why = "the pair found is read without the test i < len(t)/2 (nothing found)"
				return
			}
			hits++
		}
		if onlyFalse && !(b == search.Block() || search.Block().Dominates(b)) {
			// an early bail-out: `len(t) < 2` or `code < t[0]`
			for _, p := range b.Preds {
				iff, isIf := p.Instrs[len(p.Instrs)-1].(*ssa.If)
				if !isIf {
					why = "an early `false` without a test"
					return
				}
				neg := p.Succs[1] == b && p.Succs[0] != b
				sound := false
				if bo, isB := iff.Cond.(*ssa.BinOp); isB && !neg {
					if lc, isC := bo.X.(*ssa.Call); isC && isBuiltinCall(lc, "len") && param(lc.Call.Args[0]) == tab && bo.Op == token.LSS {
						if k, isK := constIntArg(bo.Y); isK && k <= 2 {
							sound = true
						}
					}
					if op, idx, ok := asCmp(bo); ok {
						if k0, isK0 := constIntArg(idx); isK0 && k0 == 0 && op == token.GTR {
							sound = true // t[0] > code
						}
						if isLast(idx) && op == token.LSS {
							sound = true // t[last] < code: beyond the end of the last range
						}
					}
					// no pairs at all: len(t)/2 == 0
					if k, isK := constIntArg(bo.Y); isK && k == 0 && bo.Op == token.EQL && isPairs(bo.X) {
						sound = true
					}
				}
				if !sound {
					why = "an early `false` that is neither `len(t) < 2` nor `code < t[0]`: a boundary code point of the table would be reported as absent"
					return
				}
			}
		}
	})
	if why != "" {
		return why, true
	}
	if hits == 0 {
		return "no hit result", true
	}
	return "", true
}
