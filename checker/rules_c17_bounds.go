package main

import (
	"fmt"
	"go/constant"
	"go/token"
	"sort"

	"golang.org/x/tools/go/ssa"
)

// boundSources: where a slice bound of a string builtin comes from - which parameters, the length of the string,
// which integer constants - followed through phis, clamp helpers and plain helpers' returns.
type boundSrc struct {
	params map[int]bool
	hasLen bool
	consts map[int64]bool
	other  string
}

func (c *Ctx) boundSources(f *ssa.Function, v ssa.Value) boundSrc {
	out := boundSrc{params: map[int]bool{}, consts: map[int64]bool{}}
	var walk func(fn *ssa.Function, x ssa.Value, argOf func(i int) ssa.Value, strArg func(v ssa.Value) bool, depth int)
	walk = func(fn *ssa.Function, x ssa.Value, argOf func(i int) ssa.Value, strArg func(v ssa.Value) bool, depth int) {
		if depth > 3 {
			out.other = "too deep"
			return
		}
		for _, rt := range plainOrigins.Roots(x) {
			switch {
			case rt.Kind == "param" && len(rt.Path) == 0:
				if argOf == nil {
					out.params[rt.Idx] = true
				} else if a := argOf(rt.Idx); a != nil {
					walk(f, a, nil, nil, depth+1)
				}
			case rt.Kind == "const":
				if n, ok := constIntArg(rt.V); ok {
					out.consts[n] = true
				}
			case rt.Kind == "call" && rt.Fn == nil:
				call, ok := rt.V.(*ssa.Call)
				if ok && isBuiltinCall(call, "len") && len(call.Call.Args) == 1 {
					a := call.Call.Args[0]
					if strArg != nil && strArg(a) || strArg == nil && a == ssa.Value(f.Params[0]) {
						out.hasLen = true
						continue
					}
				}
				out.other = rt.String()
			case rt.Kind == "call" && rt.Fn != nil && c.inModule(rt.Fn) && len(rt.Fn.Blocks) > 0 && len(rt.Path) == 0:
				call := rt.V.(*ssa.Call)
				g := rt.Fn
				args := call.Call.Args
				// the helper's returns in terms of its arguments (mapped back to this function's values)
				instrs(g, func(b *ssa.BasicBlock, i int, in ssa.Instruction) {
					ret, isR := in.(*ssa.Return)
					if !isR || rt.Idx >= len(ret.Results) {
						return
					}
					walk(g, ret.Results[rt.Idx], func(i int) ssa.Value {
						if i < len(args) {
							return args[i]
						}
						return nil
					}, func(v ssa.Value) bool {
						p, ok := v.(*ssa.Parameter)
						if !ok {
							return false
						}
						k := paramIndex(p)
						if k >= len(args) {
							return false
						}
						a := args[k]
						if argOf != nil {
							return false
						}
						return a == ssa.Value(f.Params[0])
					}, depth+1)
				})
			case rt.Kind == "binop":
				out.other = "computed: " + rt.String()
			default:
				out.other = rt.String()
			}
		}
	}
	walk(f, v, nil, nil, 0)
	return out
}

// c17PositionsAreErrors: `left`, `right` and `mid` signal an out-of-range position by letting the slice expression
// fail (the entry point turns that into the error). That only works as long as the bound that reaches the slice is the
// argument itself, capped where the statement says so (count and end at len(s), the start of `mid` floored at 0) and
// nowhere else: a bound that is also floored at 0 / capped at len(s) turns `left(s, -1)` or `mid(s, 7, 9)` on a
// 5-byte string into an empty string without an error. Decided for the direct slice form; compositions of other
// builtins are not decided.
func c17PositionsAreErrors(c *Ctx, rule string) {
	describe := func(s boundSrc) string {
		var ks []int64
		for k := range s.consts {
			ks = append(ks, k)
		}
		sort.Slice(ks, func(i, j int) bool { return ks[i] < ks[j] })
		return fmt.Sprintf("parameters %v, len(s)=%v, constants %v %s", sortedIntKeys(s.params), s.hasLen, ks, s.other)
	}
	retSlice := func(f *ssa.Function) []*ssa.Slice {
		var out []*ssa.Slice
		instrs(f, func(b *ssa.BasicBlock, i int, in ssa.Instruction) {
			ret, isR := in.(*ssa.Return)
			if !isR || len(ret.Results) != 2 || !isNilConst(ret.Results[1]) {
				return
			}
			if sl, ok := ret.Results[0].(*ssa.Slice); ok && sl.X == ssa.Value(f.Params[0]) {
				out = append(out, sl)
			}
		})
		return out
	}
	n := 0
	if f := c.BuiltinFn("left"); f != nil && len(f.Params) == 2 {
		for _, sl := range retSlice(f) {
			if sl.High == nil {
				continue
			}
			n++
			s := c.boundSources(f, sl.High)
			c.R.Check(rule, "left:count", c.P.InstrPos(sl), s.other == "" && s.params[1] && len(s.params) == 1 && len(s.consts) == 0, "the count of `left` must reach the slice as given, capped at len(s) only (a negative count is an error, not an empty string); it comes from "+describe(s))
		}
	}
	if f := c.BuiltinFn("right"); f != nil && len(f.Params) == 2 {
		for _, sl := range retSlice(f) {
			bo, ok := sl.Low.(*ssa.BinOp)
			if !ok || bo.Op != token.SUB {
				continue
			}
			n++
			s := c.boundSources(f, bo.Y)
			c.R.Check(rule, "right:count", c.P.InstrPos(sl), s.other == "" && s.params[1] && len(s.params) == 1 && len(s.consts) == 0, "the count of `right` must reach the slice as given, capped at len(s) only (a negative count is an error, not an empty string); it comes from "+describe(s))
		}
	}
	if f := c.BuiltinFn("mid"); f != nil && len(f.Params) == 3 {
		for _, sl := range retSlice(f) {
			if sl.Low == nil || sl.High == nil {
				continue
			}
			n++
			lo, hi := c.boundSources(f, sl.Low), c.boundSources(f, sl.High)
			okLo := lo.other == "" && lo.params[1] && len(lo.params) == 1 && !lo.hasLen
			for k := range lo.consts {
				if k != 0 {
					okLo = false
				}
			}
			c.R.Check(rule, "mid:start", c.P.InstrPos(sl), okLo, "the start of `mid` is floored at 0 and otherwise reaches the slice as given (a start beyond the end is an error, not an empty string); it comes from "+describe(lo))
			c.R.Check(rule, "mid:end", c.P.InstrPos(sl), hi.other == "" && hi.params[2] && len(hi.params) == 1 && len(hi.consts) == 0, "the end of `mid` is capped at len(s) and otherwise reaches the slice as given (a negative end is an error, not an empty string); it comes from "+describe(hi))
		}
	}
	if n == 0 {
		c.R.Add(rule, "direct-slice-forms", "-", OK, "") // written as compositions: not decided here
	}
}

func sortedIntKeys(m map[int]bool) []int {
	var out []int
	for k := range m {
		out = append(out, k)
	}
	sort.Ints(out)
	return out
}

// c17BoundsByCases: the direction of every clamp in `left`, `right`, `mid`, decided by folding the builtin at sample
// points (argument values and len(s) pinned to small constants) and reading the folded bounds of the returned slice:
// left(s,3)|len 5 -> s[:3], left(s,9)|5 -> s[:5]; right(s,3)|5 -> s[2:], right(s,9)|5 -> s[0:];
// mid(s,1,3)|5 -> s[1:3], mid(s,-2,3)|5 -> s[0:3], mid(s,1,9)|5 -> s[1:5]. A cap written as a floor (`if n < limit
// { return limit }`) passes every provenance rule and fails here. Sample points the fold cannot decide say nothing.
func c17BoundsByCases(c *Ctx, rule string) {
	type sample struct {
		args   []int64 // integer arguments after s
		n      int64   // len(s)
		lo, hi int64   // expected bounds (-1: absent)
	}
	run := func(name string, samples []sample) {
		f := c.BuiltinFn(name)
		if f == nil || len(f.Params) == 0 {
			return
		}
		for _, sm := range samples {
			if len(f.Params) != len(sm.args)+1 {
				return
			}
			args := []LV{bottom}
			for _, a := range sm.args {
				args = append(args, intLV(a))
			}
			// len(<the string>) anywhere the string flows (the builtin itself and helpers it is handed to)
			lenPin := func(v ssa.Value) (constant.Value, bool) {
				call, ok := v.(*ssa.Call)
				if !ok || !isBuiltinCall(call, "len") || len(call.Call.Args) != 1 {
					return nil, false
				}
				if call.Call.Args[0].Type().String() == "string" {
					return constant.MakeInt64(sm.n), true
				}
				return nil, false
			}
			r := (&Folder{P: c.P, MaxDepth: 3, Input: lenPin}).Fold(f, args)
			cons := fmt.Sprintf("%s%v,len=%d", name, sm.args, sm.n)
			decided := false
			good := true
			got := ""
			for _, ret := range r.Returns {
				if len(ret.Results) != 2 || !isNilConst(ret.Results[1]) {
					continue
				}
				sl, ok := ret.Results[0].(*ssa.Slice)
				if !ok || sl.X != ssa.Value(f.Params[0]) {
					continue
				}
				val := func(v ssa.Value) (int64, bool) {
					if v == nil {
						return -1, true
					}
					lv := r.Val(v)
					if lv.K != lConst || lv.C.Kind() != constant.Int {
						return 0, false
					}
					n, _ := constant.Int64Val(lv.C)
					return n, true
				}
				lo, ok1 := val(sl.Low)
				hi, ok2 := val(sl.High)
				if !ok1 || !ok2 {
					continue
				}
				decided = true
				// an absent bound stands for 0 / len(s)
				if lo == -1 {
					lo = 0
				}
				if hi == -1 {
					hi = sm.n
				}
				wl, wh := sm.lo, sm.hi
				if wl == -1 {
					wl = 0
				}
				if wh == -1 {
					wh = sm.n
				}
				if lo != wl || hi != wh {
					good = false
					got = fmt.Sprintf("s[%d:%d]", lo, hi)
				}
			}
			if !decided {
				c.R.Add(rule, cons, c.P.Pos(f.Pos()), OK, "")
				continue
			}
			c.R.Check(rule, cons, c.P.Pos(f.Pos()), good, fmt.Sprintf("with a string of %d bytes `%s` must return s[%d:%d]; the folded bounds are %s: a clamp points the wrong way or is missing", sm.n, name, max64(sm.lo, 0), func() int64 {
				if sm.hi == -1 {
					return sm.n
				}
				return sm.hi
			}(), got))
		}
	}
	run("left", []sample{{[]int64{3}, 5, -1, 3}, {[]int64{9}, 5, -1, 5}, {[]int64{5}, 5, -1, 5}})
	run("right", []sample{{[]int64{3}, 5, 2, -1}, {[]int64{9}, 5, 0, -1}})
	run("mid", []sample{{[]int64{1, 3}, 5, 1, 3}, {[]int64{-2, 3}, 5, 0, 3}, {[]int64{1, 9}, 5, 1, 5}, {[]int64{0, 5}, 5, 0, 5}})
}

func max64(a, b int64) int64 {
	if a > b {
		return a
	}
	return b
}
