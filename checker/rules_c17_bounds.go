package main

import (
	"fmt"
	"go/constant"
	"go/token"
	"sort"

	"golang.org/x/tools/go/ssa"
)

// boundSources: where a slice bound of a string builtin comes from - which parameters, the length of the string,
// which integer constants - followed through phis, clamp helpers and plain helpers' returns.
type boundSrc struct {
	params map[int]bool
	hasLen bool
	consts map[int64]bool
	other  string
}

func (c *Ctx) boundSources(f *ssa.Function, v ssa.Value) boundSrc {
	out := boundSrc{params: map[int]bool{}, consts: map[int64]bool{}}
	var walk func(fn *ssa.Function, x ssa.Value, argOf func(i int) ssa.Value, strArg func(v ssa.Value) bool, depth int)
	walk = func(fn *ssa.Function, x ssa.Value, argOf func(i int) ssa.Value, strArg func(v ssa.Value) bool, depth int) {
		if depth > 3 {
			out.other = "too deep"
			return
		}
		for _, rt := range plainOrigins.Roots(x) {
			switch {
			case rt.Kind == "param" && len(rt.Path) == 0:
				if argOf == nil {
					out.params[rt.Idx] = true
				} else if a := argOf(rt.Idx); a != nil {
					walk(f, a, nil, nil, depth+1)
				}
			case rt.Kind == "const":
				if n, ok := constIntArg(rt.V); ok {
					out.consts[n] = true
				}
			case rt.Kind == "call" && rt.Fn == nil:
				call, ok := rt.V.(*ssa.Call)
				if ok && isBuiltinCall(call, "len") && len(call.Call.Args) == 1 {
					a := call.Call.Args[0]
					if strArg != nil && strArg(a) || strArg == nil && a == ssa.Value(f.Params[0]) {
						out.hasLen = true
						continue
					}
				}
				out.other = rt.String()
			case rt.Kind == "call" && rt.Fn != nil && c.inModule(rt.Fn) && len(rt.Fn.Blocks) > 0 && len(rt.Path) == 0:
				call := rt.V.(*ssa.Call)
				g := rt.Fn
				args := call.Call.Args
				// the helper's returns in terms of its arguments (mapped back to this function's values)
				instrs(g, func(b *ssa.BasicBlock, i int, in ssa.Instruction) {
					ret, isR := in.(*ssa.Return)
					if !isR || rt.Idx >= len(ret.Results) {
						return
					}
					walk(g, ret.Results[rt.Idx], func(i int) ssa.Value {
						if i < len(args) {
							return args[i]
						}
						return nil
					}, func(v ssa.Value) bool {
						p, ok := v.(*ssa.Parameter)
						if !ok {
							return false
						}
						k := paramIndex(p)
						if k >= len(args) {
							return false
						}
						a := args[k]
						if argOf != nil {
							return false
						}
						return a == ssa.Value(f.Params[0])
					}, depth+1)
				})
			case rt.Kind == "binop":
				out.other = "computed: " + rt.String()
			default:
				out.other = rt.String()
			}
		}
	}
	walk(f, v, nil, nil, 0)
	return out
}

// c17PositionsAreErrors: `left`, `right` and `mid` signal an out-of-range position by letting the slice expression
// fail (the entry point turns that into the error). That only works as long as the bound that reaches the slice is the
// argument itself, capped where the statement says so (count and end at len(s), the start of `mid` floored at 0) and
// nowhere else: a bound that is also floored at 0 / capped at len(s) turns `left(s, -1)` or `mid(s, 7, 9)` on a
// 5-byte string into an empty string without an error. Decided for the direct slice form; compositions of other
// builtins are not decided.
func c17PositionsAreErrors(c *Ctx, rule string) {
	describe := func(s boundSrc) string {
		var ks []int64
		for k := range s.consts {
			ks = append(ks, k)
		}
		sort.Slice(ks, func(i, j int) bool { return ks[i] < ks[j] })
		return fmt.Sprintf("parameters %v, len(s)=%v, constants %v %s", sortedIntKeys(s.params), s.hasLen, ks, s.other)
	}
	retSlice := func(f *ssa.Function) []*ssa.Slice {
		var out []*ssa.Slice
		instrs(f, func(b *ssa.BasicBlock, i int, in ssa.Instruction) {
			ret, isR := in.(*ssa.Return)
			if !isR || len(ret.Results) != 2 || !isNilConst(ret.Results[1]) {
				return
			}
			if sl, ok := ret.Results[0].(*ssa.Slice); ok && sl.X == ssa.Value(f.Params[0]) {
				out = append(out, sl)
			}
		})
		return out
	}
	n := 0
	if f := c.BuiltinFn("left"); f != nil && len(f.Params) == 2 {
		for _, sl := range retSlice(f) {
			if sl.High == nil {
				continue
			}
			n++
			s := c.boundSources(f, sl.High)
			c.R.Check(rule, "left:count", c.P.InstrPos(sl), s.other == "" && s.params[1] && len(s.params) == 1 && len(s.consts) == 0 || c17CasesDecided(c, "left"), "the count of `left` must reach the slice as given, capped at len(s) only (a negative count is an error, not an empty string); it comes from "+describe(s))
		}
	}
	if f := c.BuiltinFn("right"); f != nil && len(f.Params) == 2 {
		for _, sl := range retSlice(f) {
			bo, ok := sl.Low.(*ssa.BinOp)
			if !ok || bo.Op != token.SUB {
				continue
			}
			n++
			s := c.boundSources(f, bo.Y)
			c.R.Check(rule, "right:count", c.P.InstrPos(sl), s.other == "" && s.params[1] && len(s.params) == 1 && len(s.consts) == 0 || c17CasesDecided(c, "right"), "the count of `right` must reach the slice as given, capped at len(s) only (a negative count is an error, not an empty string); it comes from "+describe(s))
		}
	}
	if f := c.BuiltinFn("mid"); f != nil && len(f.Params) == 3 {
		for _, sl := range retSlice(f) {
			if sl.Low == nil || sl.High == nil {
				continue
			}
			n++
			lo, hi := c.boundSources(f, sl.Low), c.boundSources(f, sl.High)
			okLo := lo.other == "" && lo.params[1] && len(lo.params) == 1 && !lo.hasLen
			for k := range lo.consts {
				if k != 0 {
					okLo = false
				}
			}
			c.R.Check(rule, "mid:start", c.P.InstrPos(sl), okLo || c17CasesDecided(c, "mid"), "the start of `mid` is floored at 0 and otherwise reaches the slice as given (a start beyond the end is an error, not an empty string); it comes from "+describe(lo))
			c.R.Check(rule, "mid:end", c.P.InstrPos(sl), hi.other == "" && hi.params[2] && len(hi.params) == 1 && len(hi.consts) == 0 || c17CasesDecided(c, "mid"), "the end of `mid` is capped at len(s) and otherwise reaches the slice as given (a negative end is an error, not an empty string); it comes from "+describe(hi))
		}
	}
	if n == 0 {
		c.R.Add(rule, "direct-slice-forms", "-", OK, "") // written as compositions: not decided here
	}
}

func sortedIntKeys(m map[int]bool) []int {
	var out []int
	for k := range m {
		out = append(out, k)
	}
	sort.Ints(out)
	return out
}

// c17BoundsByCases: the direction of every clamp in `left`, `right`, `mid`, decided by folding the builtin at sample
// points (argument values and len(s) pinned to small constants) and reading the folded bounds of the returned slice:
// left(s,3)|len 5 -> s[:3], left(s,9)|5 -> s[:5]; right(s,3)|5 -> s[2:], right(s,9)|5 -> s[0:];
// mid(s,1,3)|5 -> s[1:3], mid(s,-2,3)|5 -> s[0:3], mid(s,1,9)|5 -> s[1:5]. A cap written as a floor (`if n < limit
// { return limit }`) passes every provenance rule and fails here. Sample points the fold cannot decide say nothing.
// c17Decided: builtins all of whose sample points were decided, and decided right, by c17BoundsByCases in this program.
var c17Decided = map[*Ctx]map[string]bool{}

func c17BoundsByCases(c *Ctx, rule string) {
	type sample struct {
		args   []int64 // integer arguments after s
		n      int64   // len(s)
		lo, hi int64   // expected bounds (-1: absent)
		err    bool    // the slice expression must be out of range (an error, not an empty string)
	}
	run := func(name string, samples []sample) {
		f := c.BuiltinFn(name)
		if f == nil || len(f.Params) == 0 {
			return
		}
		allDecided, allGood := len(samples) > 0, true
		defer func() {
			if c17Decided[c] == nil {
				c17Decided[c] = map[string]bool{}
			}
			c17Decided[c][name] = allDecided && allGood
		}()
		for _, sm := range samples {
			if len(f.Params) != len(sm.args)+1 {
				return
			}
			args := []LV{bottom}
			for _, a := range sm.args {
				args = append(args, intLV(a))
			}
			// len(<the string>) anywhere the string flows (the builtin itself and helpers it is handed to); the length
			// of a slice of it is what its folded bounds say (found in a second pass)
			sliceLen := map[ssa.Value]int64{}
			sliceAbs := map[ssa.Value][2]int64{} // absolute bounds of a slice of (a slice of) the string
			lenPin := func(v ssa.Value) (constant.Value, bool) {
				call, ok := v.(*ssa.Call)
				if !ok || !isBuiltinCall(call, "len") || len(call.Call.Args) != 1 {
					return nil, false
				}
				a := call.Call.Args[0]
				if a.Type().String() != "string" {
					return nil, false
				}
				if _, isSl := a.(*ssa.Slice); isSl {
					if n, known := sliceLen[a]; known {
						return constant.MakeInt64(n), true
					}
					return nil, false
				}
				return constant.MakeInt64(sm.n), true
			}
			var r *FoldResult
			for pass := 0; pass < 3; pass++ {
				r = (&Folder{P: c.P, MaxDepth: 3, Input: lenPin}).Fold(f, args)
				grew := false
				instrs(f, func(b *ssa.BasicBlock, i int, in ssa.Instruction) {
					sl, ok := in.(*ssa.Slice)
					if !ok || !r.Reach[b] || sl.Type().String() != "string" {
						return
					}
					if _, have := sliceLen[sl]; have {
						return
					}
					baseLo, baseLen := int64(0), int64(-1)
					if sl.X == ssa.Value(f.Params[0]) {
						baseLen = sm.n
					} else if ab, ok := sliceAbs[sl.X]; ok {
						baseLo, baseLen = ab[0], ab[1]-ab[0]
					}
					if baseLen < 0 {
						return
					}
					get := func(v ssa.Value, dflt int64) (int64, bool) {
						if v == nil {
							return dflt, true
						}
						lv := r.Val(v)
						if lv.K != lConst || lv.C.Kind() != constant.Int {
							return 0, false
						}
						n, _ := constant.Int64Val(lv.C)
						return n, true
					}
					lo, ok1 := get(sl.Low, 0)
					hi, ok2 := get(sl.High, baseLen)
					if !ok1 || !ok2 {
						return
					}
					if lo < 0 || hi < lo || hi > baseLen {
						// out of range: the expression fails here; recorded as an invalid absolute range
						sliceAbs[sl] = [2]int64{baseLo + lo, baseLo + hi}
						sliceLen[sl] = -1
						grew = true
						return
					}
					sliceAbs[sl] = [2]int64{baseLo + lo, baseLo + hi}
					sliceLen[sl] = hi - lo
					grew = true
				})
				if !grew {
					break
				}
			}
			cons := fmt.Sprintf("%s%v,len=%d", name, sm.args, sm.n)
			decided := false
			good := true
			got := ""
			for _, ret := range r.Returns {
				if len(ret.Results) != 2 || !isNilConst(ret.Results[1]) {
					continue
				}
				sl, ok := ret.Results[0].(*ssa.Slice)
				if !ok {
					continue
				}
				if sl.X != ssa.Value(f.Params[0]) {
					// a slice of a slice of the string: judged by its absolute bounds
					ab, known := sliceAbs[sl]
					if !known {
						continue
					}
					decided = true
					lo, hi := ab[0], ab[1]
					invalid := sliceLen[sl] < 0
					for x := sl.X; ; {
						inner, isSl := x.(*ssa.Slice)
						if !isSl {
							break
						}
						if sliceLen[inner] < 0 {
							invalid = true
						}
						x = inner.X
					}
					wl, wh := sm.lo, sm.hi
					if wl == -1 {
						wl = 0
					}
					if wh == -1 {
						wh = sm.n
					}
					if sm.err {
						if !invalid {
							good = false
							got = fmt.Sprintf("s[%d:%d], a valid slice", lo, hi)
						}
					} else if invalid || lo != wl || hi != wh {
						good = false
						got = fmt.Sprintf("s[%d:%d]", lo, hi)
						if invalid {
							got += " (out of range)"
						}
					}
					continue
				}
				val := func(v ssa.Value) (int64, bool) {
					if v == nil {
						return -1, true
					}
					lv := r.Val(v)
					if lv.K != lConst || lv.C.Kind() != constant.Int {
						return 0, false
					}
					n, _ := constant.Int64Val(lv.C)
					return n, true
				}
				lo, ok1 := val(sl.Low)
				hi, ok2 := val(sl.High)
				if !ok1 || !ok2 {
					continue
				}
				decided = true
				// an absent bound stands for 0 / len(s)
				if sl.Low == nil {
					lo = 0
				}
				if sl.High == nil {
					hi = sm.n
				}
				wl, wh := sm.lo, sm.hi
				if wl == -1 {
					wl = 0
				}
				if wh == -1 {
					wh = sm.n
				}
				if sm.err {
					// the folded bounds must be ones the slice expression rejects at run time
					if !(lo < 0 || hi < 0 || lo > hi || hi > sm.n) {
						good = false
						got = fmt.Sprintf("s[%d:%d], a valid slice", lo, hi)
					}
				} else if lo != wl || hi != wh {
					good = false
					got = fmt.Sprintf("s[%d:%d]", lo, hi)
				}
			}
			if !decided && len(r.Returns) > 0 {
				// every reachable return hands back an error made on the spot (positions that cannot be clamped
				// reported by the builtin itself instead of by the slice expression)
				allErrs := true
				for _, ret := range r.Returns {
					isErr := false
					if len(ret.Results) == 2 {
						for _, rt := range plainOrigins.Roots(ret.Results[1]) {
							if rt.Kind == "call" && rt.Fn != nil && (rt.Fn.String() == "fmt.Errorf" || rt.Fn.String() == "errors.New") {
								isErr = true
							}
						}
					}
					if !isErr {
						allErrs = false
					}
				}
				if allErrs {
					decided = true
					if !sm.err {
						good, got = false, "an error returned by the builtin"
					}
				}
			}
			if !decided {
				// written as a composition of other string functions: evaluated through them
				if ab, bad, dec := c.strEval(f, [2]int64{0, sm.n}, args[1:], 0); dec {
					decided = true
					wl, wh := sm.lo, sm.hi
					if wl == -1 {
						wl = 0
					}
					if wh == -1 {
						wh = sm.n
					}
					switch {
					case sm.err && !bad:
						good, got = false, fmt.Sprintf("s[%d:%d], a valid slice", ab[0], ab[1])
					case !sm.err && bad:
						good, got = false, "an out-of-range slice"
					case !sm.err && (ab[0] != wl || ab[1] != wh):
						good, got = false, fmt.Sprintf("s[%d:%d]", ab[0], ab[1])
					}
				}
			}
			if !decided {
				allDecided = false
				if rule != "" {
					c.R.Add(rule, cons, c.P.Pos(f.Pos()), OK, "")
				}
				continue
			}
			if !good {
				allGood = false
			}
			if sm.err {
				if rule != "" {
					c.R.Check(rule, cons, c.P.Pos(f.Pos()), good, fmt.Sprintf("with a string of %d bytes `%s%v` must fail (a position outside the string is an error, not an empty string); the folded bounds are %s", sm.n, name, sm.args, got))
				}
				continue
			}
			if rule == "" {
				continue
			}
			c.R.Check(rule, cons, c.P.Pos(f.Pos()), good, fmt.Sprintf("with a string of %d bytes `%s` must return s[%d:%d]; the folded bounds are %s: a clamp points the wrong way or is missing", sm.n, name, max64(sm.lo, 0), func() int64 {
				if sm.hi == -1 {
					return sm.n
				}
				return sm.hi
			}(), got))
		}
	}
	run("left", []sample{{[]int64{3}, 5, -1, 3, false}, {[]int64{9}, 5, -1, 5, false}, {[]int64{5}, 5, -1, 5, false}, {[]int64{-1}, 5, 0, 0, true}})
	run("right", []sample{{[]int64{3}, 5, 2, -1, false}, {[]int64{9}, 5, 0, -1, false}, {[]int64{-2}, 5, 0, 0, true}})
	run("mid", []sample{{[]int64{1, 3}, 5, 1, 3, false}, {[]int64{-2, 3}, 5, 0, 3, false}, {[]int64{1, 9}, 5, 1, 5, false}, {[]int64{0, 5}, 5, 0, 5, false}, {[]int64{5, 5}, 5, 5, 5, false}, {[]int64{5, 9}, 5, 5, 5, false}, {[]int64{3, 1}, 5, 0, 0, true}, {[]int64{1, -3}, 5, 0, 0, true}, {[]int64{7, 9}, 5, 0, 0, true}})
}

// c17CasesDecided: name's bounds are decided, and decided right, at every sample point (the error points included) in
// this program; computed without emitting obligations when bounds-by-cases has not run yet.
func c17CasesDecided(c *Ctx, name string) bool {
	if c17Decided[c] == nil {
		c17BoundsByCases(c, "")
	}
	return c17Decided[c][name]
}

func max64(a, b int64) int64 {
	if a > b {
		return a
	}
	return b
}

// strEval: what a string function g (first parameter the string, further parameters integers) returns for a string
// that is the range abs of the original one and the given integer arguments: the absolute range of the result, whether
// evaluating it runs out of range (an error), and whether this could be decided. Follows slices of slices and results
// handed on from other module functions of the same kind (`return funRight(head, end-start)`).
func (c *Ctx) strEval(g *ssa.Function, abs [2]int64, ints []LV, depth int) (res [2]int64, invalid, decided bool) {
	if g == nil || len(g.Blocks) == 0 || depth > 3 || len(g.Params) != len(ints)+1 || g.Params[0].Type().String() != "string" {
		return res, false, false
	}
	n := abs[1] - abs[0]
	args := append([]LV{bottom}, ints...)
	sliceLen := map[ssa.Value]int64{}
	sliceAbs := map[ssa.Value][2]int64{}
	callAbs := map[ssa.Value][2]int64{} // results of module calls that were evaluated
	callBad := map[ssa.Value]bool{}
	lenOf := func(a ssa.Value) (int64, bool) {
		switch x := a.(type) {
		case *ssa.Slice:
			l, ok := sliceLen[x]
			return l, ok && l >= 0
		case *ssa.Parameter:
			if x == g.Params[0] {
				return n, true
			}
		case *ssa.Extract:
			if ab, ok := callAbs[x]; ok {
				return ab[1] - ab[0], true
			}
		}
		return 0, false
	}
	lenPin := func(v ssa.Value) (constant.Value, bool) {
		call, ok := v.(*ssa.Call)
		if !ok || !isBuiltinCall(call, "len") || len(call.Call.Args) != 1 || call.Call.Args[0].Type().String() != "string" {
			return nil, false
		}
		if l, ok := lenOf(call.Call.Args[0]); ok {
			return constant.MakeInt64(l), true
		}
		return nil, false
	}
	absOf := func(v ssa.Value) ([2]int64, bool) {
		switch x := v.(type) {
		case *ssa.Parameter:
			if x == g.Params[0] {
				return abs, true
			}
		case *ssa.Slice:
			ab, ok := sliceAbs[x]
			return ab, ok && sliceLen[x] >= 0
		case *ssa.Extract:
			ab, ok := callAbs[x]
			return ab, ok
		}
		return [2]int64{}, false
	}
	var r *FoldResult
	for pass := 0; pass < 4; pass++ {
		r = (&Folder{P: c.P, MaxDepth: 3, Input: lenPin}).Fold(g, args)
		grew := false
		instrs(g, func(b *ssa.BasicBlock, i int, in ssa.Instruction) {
			if !r.Reach[b] {
				return
			}
			switch x := in.(type) {
			case *ssa.Slice:
				if x.Type().String() != "string" {
					return
				}
				if _, have := sliceLen[x]; have {
					return
				}
				base, ok := absOf(x.X)
				if !ok {
					return
				}
				get := func(v ssa.Value, dflt int64) (int64, bool) {
					if v == nil {
						return dflt, true
					}
					lv := r.Val(v)
					if lv.K != lConst || lv.C.Kind() != constant.Int {
						return 0, false
					}
					k, _ := constant.Int64Val(lv.C)
					return k, true
				}
				lo, ok1 := get(x.Low, 0)
				hi, ok2 := get(x.High, base[1]-base[0])
				if !ok1 || !ok2 {
					return
				}
				sliceAbs[x] = [2]int64{base[0] + lo, base[0] + hi}
				sliceLen[x] = hi - lo
				if lo < 0 || hi < lo || hi > base[1]-base[0] {
					sliceLen[x] = -1
				}
				grew = true
			case *ssa.Extract:
				if x.Index != 0 || x.Type().String() != "string" {
					return
				}
				if _, have := callAbs[x]; have || callBad[x] {
					return
				}
				call, ok := x.Tuple.(*ssa.Call)
				if !ok {
					return
				}
				h := calleeOf(call)
				if h == nil || !c.inModule(h) || len(call.Call.Args) == 0 {
					return
				}
				base, ok := absOf(call.Call.Args[0])
				if !ok {
					return
				}
				var hints []LV
				for _, a := range call.Call.Args[1:] {
					lv := r.Val(a)
					if lv.K != lConst {
						return
					}
					hints = append(hints, lv)
				}
				ab, bad, dec := c.strEval(h, base, hints, depth+1)
				if !dec {
					return
				}
				if bad {
					callBad[x] = true
				} else {
					callAbs[x] = ab
				}
				grew = true
			}
		})
		if !grew {
			break
		}
	}
	// the results
	first := true
	for _, ret := range r.Returns {
		if len(ret.Results) != 2 {
			return res, false, false
		}
		v, e := ret.Results[0], ret.Results[1]
		// an error handed on from a call that was evaluated: taken when that call fails
		if ex, isE := e.(*ssa.Extract); isE && !isNilConst(e) {
			if vx, isV := v.(*ssa.Extract); isV && vx.Tuple == ex.Tuple {
				// `return h(..)`: both results of one call
				if callBad[vx] {
					return res, true, true
				}
				if ab, ok := callAbs[vx]; ok {
					if !first && ab != res {
						return res, false, false
					}
					res, first = ab, false
					continue
				}
				return res, false, false
			}
			// `if err != nil { return "", err }` after a call that was evaluated and did not fail: not taken
			skip := false
			for cx := range callAbs {
				if cx.(*ssa.Extract).Tuple == ex.Tuple {
					skip = true
				}
			}
			for cx := range callBad {
				if cx.(*ssa.Extract).Tuple == ex.Tuple {
					return res, true, true
				}
			}
			if skip {
				continue
			}
			return res, false, false
		}
		if !isNilConst(e) {
			return res, false, false
		}
		if sl, isS := v.(*ssa.Slice); isS {
			if l, known := sliceLen[sl]; known && l < 0 {
				return res, true, true
			}
			// a failing slice further in
			for x := sl.X; ; {
				inner, isSl := x.(*ssa.Slice)
				if !isSl {
					break
				}
				if l, known := sliceLen[inner]; known && l < 0 {
					return res, true, true
				}
				x = inner.X
			}
		}
		ab, ok := absOf(v)
		if !ok {
			return res, false, false
		}
		if !first && ab != res {
			return res, false, false
		}
		res, first = ab, false
	}
	if first {
		return res, false, false
	}
	return res, false, true
}
