package main

import (
	"go/constant"
	"go/types"

	"golang.org/x/tools/go/ssa"
)

func intLV(k int64) LV { return constLV(constant.MakeInt64(k)) }
func boolLV(b bool) LV { return constLV(constant.MakeBool(b)) }

// recvArgs builds an argument vector for folding a method: receiver Bottom,
// then the given lattice values.
func recvArgs(f *ssa.Function, rest ...LV) []LV {
	var out []LV
	if f.Signature.Recv() != nil {
		out = append(out, bottom)
	}
	return append(out, rest...)
}

// foldPred folds a predicate of the current token for token k.
func (c *Ctx) foldPred(f *ssa.Function, k int64, rest ...LV) (constant.Value, bool) {
	r := c.tokenFolder(k).Fold(f, recvArgs(f, rest...))
	if len(r.Returns) == 0 {
		return nil, false
	}
	return r.ReturnConst(0)
}

func (c *Ctx) foldPredBool(f *ssa.Function, k int64, rest ...LV) (val bool, ok bool) {
	v, ok := c.foldPred(f, k, rest...)
	if !ok || v.Kind() != constant.Bool {
		return false, false
	}
	return constant.BoolVal(v), true
}

// foldMethodOnKind folds a method with receiver of type SyntaxKind (tok.IsIdentifier()).
func (c *Ctx) foldKindMethod(name string, k int64) (bool, bool) {
	f := c.method("SyntaxKind", name)
	if f == nil {
		return false, false
	}
	fo := &Folder{P: c.P, MaxDepth: 4}
	r := fo.Fold(f, []LV{intLV(k)})
	v, ok := r.ReturnConst(0)
	if !ok || v.Kind() != constant.Bool {
		return false, false
	}
	return constant.BoolVal(v), true
}

// taintFrom: instructions of f that may execute after a may-consumer call
// that itself executes after `start`. Token reads after start that are not
// in this set still see the token that was current at start.
func (c *Ctx) taintFrom(f *ssa.Function, start ssa.Instruction) (after map[ssa.Instruction]bool, taint map[ssa.Instruction]bool) {
	after = map[ssa.Instruction]bool{}
	taint = map[ssa.Instruction]bool{}
	may := c.MayConsume()
	isCons := func(in ssa.Instruction) bool {
		call, ok := in.(ssa.CallInstruction)
		if !ok {
			return false
		}
		if cal := calleeOf(call); cal != nil {
			return may[cal]
		}
		cc := call.Common()
		if cc.IsInvoke() {
			for _, g := range c.P.implementations(cc) {
				if may[g] {
					return true
				}
			}
			return false
		}
		if _, isB := cc.Value.(*ssa.Builtin); isB {
			return false
		}
		return true
	}
	// forward walk from start, tracking whether a consumer has been passed
	type st struct {
		b        *ssa.BasicBlock
		i        int
		consumed bool
	}
	ip := posOf(start)
	seen := map[[2]int]bool{} // block index, consumed flag
	work := []st{{ip.B, ip.I + 1, false}}
	for len(work) > 0 {
		s := work[len(work)-1]
		work = work[:len(work)-1]
		key := [2]int{s.b.Index, 0}
		if s.consumed {
			key[1] = 1
		}
		if s.i == 0 {
			if seen[key] {
				continue
			}
			seen[key] = true
		}
		consumed := s.consumed
		for i := s.i; i < len(s.b.Instrs); i++ {
			in := s.b.Instrs[i]
			after[in] = true
			if consumed {
				taint[in] = true
			}
			if isCons(in) {
				consumed = true
			}
		}
		for _, succ := range s.b.Succs {
			work = append(work, st{succ, 0, consumed})
		}
	}
	return after, taint
}

// tokenFolderFrom pins token reads that execute after `start` and before any
// later consumer to k.
func (c *Ctx) tokenFolderFrom(k int64, f *ssa.Function, start ssa.Instruction) *Folder {
	after, taint := c.taintFrom(f, start)
	kc := constant.MakeInt64(k)
	base := c.tokenFolder(k)
	return &Folder{P: c.P, MaxDepth: 6, EnterCall: func(call *ssa.Call) bool {
		if call.Parent() != f {
			return true
		}
		return after[call] && !taint[call]
	}, Input: func(v ssa.Value) (constant.Value, bool) {
		if !c.isTokenRead(v) {
			return nil, false
		}
		in, ok := v.(ssa.Instruction)
		if !ok {
			return nil, false
		}
		if in.Parent() != f {
			return base.Input(v)
		}
		if after[in] && !taint[in] {
			return kc, true
		}
		return nil, false
	}}
}

// calleesReached lists the canonical module callees of calls in blocks that
// stay reachable under the fold.
func (c *Ctx) calleesReached(r *FoldResult) map[*ssa.Function]ssa.CallInstruction {
	out := map[*ssa.Function]ssa.CallInstruction{}
	for _, call := range r.ReachableCalls() {
		if cal := calleeOf(call); cal != nil {
			if _, ok := out[cal]; !ok {
				out[cal] = call
			}
		}
	}
	return out
}

// pathExistsIn is pathExists restricted to the edges a fold left executable.
func pathExistsIn(r *FoldResult, from ssa.Instruction, goal, avoid func(ssa.Instruction) bool) bool {
	return pathExists(r.Fn, from, goal, avoid, func(b *ssa.BasicBlock, k int) bool {
		return r.Edge[[2]int{b.Index, b.Succs[k].Index}]
	})
}

func isIntType(t types.Type) bool {
	b, ok := t.Underlying().(*types.Basic)
	return ok && b.Info()&types.IsInteger != 0
}

func isBoolType(t types.Type) bool {
	b, ok := t.Underlying().(*types.Basic)
	return ok && b.Info()&types.IsBoolean != 0
}

// constIntArg returns the constant integer value of a call argument.
func constIntArg(v ssa.Value) (int64, bool) {
	if mi, ok := v.(*ssa.MakeInterface); ok {
		v = mi.X
	}
	if ct, ok := v.(*ssa.ChangeType); ok {
		v = ct.X
	}
	k, ok := v.(*ssa.Const)
	if !ok || k.Value == nil || k.Value.Kind() != constant.Int {
		return 0, false
	}
	n, ok := constant.Int64Val(k.Value)
	return n, ok
}

func constBoolArg(v ssa.Value) (bool, bool) {
	k, ok := v.(*ssa.Const)
	if !ok || k.Value == nil || k.Value.Kind() != constant.Bool {
		return false, false
	}
	return constant.BoolVal(k.Value), true
}

// callArgs returns the arguments of a call including the receiver, aligned with callee.Params.
func callArgs(call ssa.CallInstruction) []ssa.Value {
	return call.Common().Args
}

// diagCallees: module functions from which a diagnostic is recorded on every
// returning path (must reach the append to Parser.parseDiagnostics, or the
// scanner's onError callback, modulo the same-position suppression).
func (c *Ctx) diagSink() *ssa.Function { return c.method("Parser", "errorAtPosition") }

var mustDiagCache = map[*Ctx]map[*ssa.Function]bool{}

// MustDiag: functions every returning path of which calls a diagnostic
// recorder: (*Parser).errorAtPosition, or the scanner's error callback
// (whose only binding, checked by C01.scan-error-binding, is scanError).
func (c *Ctx) MustDiag() map[*ssa.Function]bool {
	if m, ok := mustDiagCache[c]; ok {
		return m
	}
	res := map[*ssa.Function]bool{}
	mustDiagCache[c] = res
	if s := c.diagSink(); s != nil {
		res[s] = true
	}
	for changed := true; changed; {
		changed = false
		for _, f := range c.P.ModFuncs {
			if res[f] || len(f.Blocks) == 0 {
				continue
			}
			isDiag := func(in ssa.Instruction) bool {
				call, ok := in.(*ssa.Call)
				if !ok {
					return false
				}
				cal := calleeOf(call)
				return cal != nil && res[cal]
			}
			hasReturn := false
			instrs(f, func(b *ssa.BasicBlock, i int, in ssa.Instruction) {
				if isReturn(in) {
					hasReturn = true
				}
			})
			if hasReturn && !pathExists(f, nil, isReturn, isDiag, nil) {
				res[f] = true
				changed = true
			}
		}
	}
	return res
}

func isErrorType(t types.Type) bool { return t.String() == "error" }
