package main

import (
	"fmt"
	"go/ast"
	"go/constant"
	"go/token"
	"go/types"
	"os"
	"path/filepath"
	"sort"
	"strings"

	"golang.org/x/tools/go/packages"
	"golang.org/x/tools/go/ssa"
	"golang.org/x/tools/go/ssa/ssautil"
)

// Prog is the loaded, type-checked and SSA-built view of the repository under
// analysis. Nothing of the repository is executed; everything below is
// derived from go/packages + go/ssa.
type Prog struct {
	RepoDir string
	Fset    *token.FileSet
	Pkgs    []*packages.Package // all packages, dependencies included
	Root    *packages.Package   // the formula package
	SSA     *ssa.Program
	Pkg     *ssa.Package // SSA of the formula package
	Types   *types.Package

	AllFuncs map[*ssa.Function]bool // every function of the whole program
	ModFuncs []*ssa.Function        // functions whose origin lives in the formula package (instances included)

	Files []string // compiled go files of the root package

	Alias map[string]string // historical unexported name -> the name in this tree (names.go)

	Touched map[*ssa.Function]bool // functions the rules looked up by name (anchors)
}

func loadEnv() []string {
	env := []string{}
	for _, kv := range os.Environ() {
		k := strings.SplitN(kv, "=", 2)[0]
		switch k {
		case "GOWORK", "GOFLAGS", "GOPROXY", "GOSUMDB", "GOTOOLCHAIN", "GOARCH", "GOOS":
			continue
		}
		env = append(env, kv)
	}
	env = append(env, "GOFLAGS=-mod=mod", "GOPROXY=off", "GOSUMDB=off", "GOTOOLCHAIN=local", "GOWORK=off")
	return env
}

// Load loads repoDir. overlay may replace file contents (self-test variants).
// goarch, when non-empty, sets GOARCH for the load.
func Load(repoDir string, overlay map[string][]byte, goarch string, needSSA bool) (*Prog, error) {
	env := loadEnv()
	if goarch != "" {
		env = append(env, "GOARCH="+goarch)
	}
	mode := packages.NeedName | packages.NeedFiles | packages.NeedCompiledGoFiles | packages.NeedImports |
		packages.NeedDeps | packages.NeedTypes | packages.NeedSyntax | packages.NeedTypesInfo | packages.NeedTypesSizes | packages.NeedModule
	cfg := &packages.Config{
		Mode:    mode,
		Dir:     repoDir,
		Env:     env,
		Tests:   false,
		Overlay: overlay,
	}
	pkgs, err := packages.Load(cfg, ".")
	if err != nil {
		return nil, fmt.Errorf("LOAD-FAILED: %v", err)
	}
	if len(pkgs) != 1 {
		return nil, fmt.Errorf("LOAD-FAILED: expected exactly 1 root package, got %d", len(pkgs))
	}
	root := pkgs[0]
	var errs []string
	packages.Visit(pkgs, nil, func(p *packages.Package) {
		for _, e := range p.Errors {
			errs = append(errs, e.Error())
		}
	})
	if len(errs) > 0 {
		sort.Strings(errs)
		if len(errs) > 8 {
			errs = errs[:8]
		}
		return nil, fmt.Errorf("LOAD-FAILED: type/parse errors: %s", strings.Join(errs, " | "))
	}
	if root.Types == nil || len(root.Syntax) == 0 {
		return nil, fmt.Errorf("LOAD-FAILED: root package has no syntax")
	}
	// Every non-test .go file in the directory must be part of the build;
	// a file hidden behind a build constraint would escape analysis.
	compiled := map[string]bool{}
	for _, f := range root.CompiledGoFiles {
		compiled[filepath.Base(f)] = true
	}
	ents, err := os.ReadDir(repoDir)
	if err != nil {
		return nil, fmt.Errorf("LOAD-FAILED: %v", err)
	}
	for _, e := range ents {
		n := e.Name()
		if e.IsDir() || !strings.HasSuffix(n, ".go") || strings.HasSuffix(n, "_test.go") {
			continue
		}
		if !compiled[n] {
			return nil, fmt.Errorf("LOAD-FAILED: %s exists in %s but is not compiled (build constraint?); analysis would not cover it", n, repoDir)
		}
	}
	p := &Prog{RepoDir: repoDir, Fset: root.Fset, Root: root, Types: root.Types}
	packages.Visit(pkgs, nil, func(pk *packages.Package) { p.Pkgs = append(p.Pkgs, pk) })
	for _, f := range root.CompiledGoFiles {
		p.Files = append(p.Files, filepath.Base(f))
	}
	sort.Strings(p.Files)
	if !needSSA {
		return p, nil
	}
	prog, spkgs := ssautil.AllPackages(pkgs, ssa.InstantiateGenerics)
	prog.Build()
	p.SSA = prog
	p.Pkg = spkgs[0]
	if p.Pkg == nil {
		return nil, fmt.Errorf("LOAD-FAILED: no SSA package for root")
	}
	p.AllFuncs = ssautil.AllFunctions(prog)
	for f := range p.AllFuncs {
		if p.InModule(f) {
			p.ModFuncs = append(p.ModFuncs, f)
		}
	}
	sort.Slice(p.ModFuncs, func(i, j int) bool { return p.FuncKey(p.ModFuncs[i]) < p.FuncKey(p.ModFuncs[j]) })
	p.discoverNames()
	return p, nil
}

// InModule reports whether f (possibly a generic instance, a closure, a bound
// method wrapper or a thunk) originates in the formula package.
func (p *Prog) InModule(f *ssa.Function) bool {
	for f != nil {
		if f.Pkg == p.Pkg {
			return true
		}
		if o := f.Origin(); o != nil && o != f {
			if o.Pkg == p.Pkg {
				return true
			}
		}
		if f.Object() != nil && f.Object().Pkg() == p.Types {
			return true
		}
		if f.Parent() == nil {
			break
		}
		f = f.Parent()
	}
	return false
}

// FuncKey is a stable, position-free name for a function.
func (p *Prog) FuncKey(f *ssa.Function) string {
	if f == nil {
		return "<nil>"
	}
	s := f.String()
	s = strings.ReplaceAll(s, "github.com/aundis/formula.", "")
	s = strings.ReplaceAll(s, "github.com/aundis/formula", "formula")
	return s
}

func (p *Prog) Pos(pos token.Pos) string {
	if !pos.IsValid() {
		return "-"
	}
	ps := p.Fset.Position(pos)
	rel := ps.Filename
	if r, err := filepath.Rel(p.RepoDir, ps.Filename); err == nil && !strings.HasPrefix(r, "..") {
		rel = r
	} else if i := strings.Index(rel, "/pkg/mod/"); i >= 0 {
		rel = rel[i+len("/pkg/mod/"):]
	}
	return fmt.Sprintf("%s:%d", rel, ps.Line)
}

// InstrPos finds a usable position for an instruction (falling back to the
// function position when the instruction carries none).
func (p *Prog) InstrPos(in ssa.Instruction) string {
	if in == nil {
		return "-"
	}
	if in.Pos().IsValid() {
		return p.Pos(in.Pos())
	}
	if c, ok := in.(ssa.CallInstruction); ok && c.Common().Pos().IsValid() {
		return p.Pos(c.Common().Pos())
	}
	if v, ok := in.(ssa.Value); ok {
		for _, r := range *v.Referrers() {
			if r.Pos().IsValid() {
				return p.Pos(r.Pos())
			}
		}
	}
	if in.Parent() != nil {
		return p.Pos(in.Parent().Pos())
	}
	return "-"
}

// Func returns the package-level function with the given name, or nil.
func (p *Prog) Func(name string) *ssa.Function {
	f := p.Pkg.Func(p.alias(name))
	p.touch(f)
	return f
}

func (p *Prog) touch(f *ssa.Function) {
	if f == nil {
		return
	}
	if p.Touched == nil {
		p.Touched = map[*ssa.Function]bool{}
	}
	p.Touched[f] = true
}

// Method returns method `name` on named type `typ` (pointer or value receiver).
func (p *Prog) Method(typ, name string) *ssa.Function {
	typ, name = p.alias(typ), p.alias(name)
	obj := p.Types.Scope().Lookup(typ)
	if obj == nil {
		return nil
	}
	tn, ok := obj.(*types.TypeName)
	if !ok {
		return nil
	}
	for _, t := range []types.Type{tn.Type(), types.NewPointer(tn.Type())} {
		ms := p.SSA.MethodSets.MethodSet(t)
		for i := 0; i < ms.Len(); i++ {
			sel := ms.At(i)
			if sel.Obj().Name() == name {
				if f := p.SSA.MethodValue(sel); f != nil {
					// unwrap promoted-method wrappers to the declared method when possible
					p.touch(f)
					return f
				}
			}
		}
	}
	return nil
}

// Const returns the integer value of a package-level constant.
func (p *Prog) Const(name string) (int64, bool) {
	obj := p.Types.Scope().Lookup(name)
	c, ok := obj.(*types.Const)
	if !ok {
		return 0, false
	}
	v, ok := constant.Int64Val(constant.ToInt(c.Val()))
	return v, ok
}

func (p *Prog) NamedType(name string) *types.Named {
	obj := p.Types.Scope().Lookup(name)
	if obj == nil {
		return nil
	}
	n, _ := obj.Type().(*types.Named)
	return n
}

// Global returns the ssa.Global for a package-level variable.
func (p *Prog) Global(name string) *ssa.Global {
	g, _ := p.Pkg.Members[p.alias(name)].(*ssa.Global)
	return g
}

// EnumNames maps values of the named integer type to the constant names
// declared with exactly that type (first declared name wins; marker aliases
// like SK_FirstKeyword are recorded as aliases).
func (p *Prog) EnumNames(typeName string) (map[int64]string, map[string]int64) {
	byVal := map[int64]string{}
	byName := map[string]int64{}
	nt := p.NamedType(typeName)
	if nt == nil {
		return byVal, byName
	}
	type cn struct {
		name string
		pos  token.Pos
		v    int64
	}
	var all []cn
	sc := p.Types.Scope()
	for _, n := range sc.Names() {
		c, ok := sc.Lookup(n).(*types.Const)
		if !ok || !types.Identical(c.Type(), nt) {
			continue
		}
		v, ok := constant.Int64Val(constant.ToInt(c.Val()))
		if !ok {
			continue
		}
		all = append(all, cn{n, c.Pos(), v})
	}
	sort.Slice(all, func(i, j int) bool { return all[i].pos < all[j].pos })
	for _, c := range all {
		byName[c.name] = c.v
		if _, ok := byVal[c.v]; !ok {
			byVal[c.v] = c.name
		}
	}
	return byVal, byName
}

// FileOf returns the syntax tree of a root package file by base name.
func (p *Prog) FileOf(base string) *ast.File {
	for i, f := range p.Root.CompiledGoFiles {
		if filepath.Base(f) == base {
			return p.Root.Syntax[i]
		}
	}
	return nil
}
