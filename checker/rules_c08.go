package main

import (
	"fmt"
	"go/types"
	"sort"
	"strings"

	"golang.org/x/tools/go/ssa"
)

func init() {
	register("C08",
		"no function reachable from the exported API (or from a registered builtin) other than `init` writes package-level state (a package-level sync.Map that is provably a memo of a pure function of its key - memo.go - is not hidden state), directly or by handing a package-level object to a callee that writes through that parameter (interprocedural parameter-write summaries); evaluation and field analysis never write through the tree they are given (node, token node, node list, source) - not even lazily; every parse allocates its own parser, scanner and source; the only ambient inputs (clock, random numbers, environment, runtime identity) are read by the builtins registered as `now` and `toDay`; loops over Go maps do not let the iteration order reach a result. No package-level map or slice is installed in a field that is written through elsewhere (shared state between objects); decimal results and reflective writes go into objects created in the same function. A comparison function that orders map keys by (reflect.Value).String() orders nothing for keys that are not strings. Every operand that a formatting call reachable from evaluation prints with a value verb has a static type that cannot carry an address (or is a recovered panic value, or the text is only compared).",
		"equality of repeated results as values (only its causes - no hidden state, no ambient input, no order dependence - are decided) and determinism inside the standard library / decimal library.",
		runC08)
}

func runC08(c *Ctx) {
	c08Globals(c, "C08")
	c08GlobalEscape(c, "C08")
	c07Fresh(c, "C08.fresh-results")
	c08Tree(c, "C08")
	c08FreshParser(c)
	c08Ambient(c)
	c08MapOrder(c)
	c08NoAddressInText(c)
}

// apiReach: module functions reachable from any exported function/method or registered builtin.
func (c *Ctx) apiReach() *ReachResult {
	roots := c.exportedRoots()
	_, es, _ := c.Registry()
	for _, e := range es {
		if e.Fn != nil {
			roots = append(roots, e.Fn)
		}
	}
	return c.ReachFrom("api", roots...)
}

func c08Globals(c *Ctx, prop string) {
	rule := prop + ".no-global-write"
	rr := c.apiReach()
	// enumerate package-level variables
	var globals []string
	for name, m := range c.P.Pkg.Members {
		if _, ok := m.(*ssa.Global); ok && !strings.HasPrefix(name, "init$") {
			globals = append(globals, name)
		}
	}
	sort.Strings(globals)
	written := map[string][]GlobalWrite{}
	nfn := 0
	for _, f := range rr.Order {
		if isInitFn(f) {
			continue
		}
		nfn++
		for _, gw := range c.globalWritesIn(f) {
			written[gw.Global] = append(written[gw.Global], gw)
		}
	}
	var memos []string
	for _, g := range globals {
		ws := written[g]
		if len(ws) == 0 {
			c.R.Add(rule, "global:"+g, "-", OK, "")
			continue
		}
		if gv, isG := c.P.Pkg.Members[g].(*ssa.Global); isG {
			if m := c.isPureMemo(gv); m != nil {
				// a memo of a pure function of its key (memo.go): what a Load yields does not depend on who stored it
				c.R.Add(rule, "global:"+g, "-", OK, "")
				memos = append(memos, fmt.Sprintf("%s (%d store site(s), %d load site(s))", g, m.Stores, m.Loads))
				continue
			}
		}
		w := ws[0]
		notMemo := ""
		if gv, isG := c.P.Pkg.Members[g].(*ssa.Global); isG {
			if m := c.pureMemos()[gv]; m != nil && m.Why != "" {
				notMemo = " (not a memo of a function of its key: " + m.Why + ")"
			}
		}
		c.R.Add(rule, "global:"+g, c.P.InstrPos(w.In), Violation, fmt.Sprintf("package-level variable %s is written outside init by %s (%s; %d site(s)); reached as %s. Hidden state makes results depend on what was parsed or evaluated before, and is a data race between goroutines%s", g, c.P.FuncKey(w.Fn), w.How, len(ws), rr.Chain(c.P, w.Fn), notMemo))
	}
	// writes to package-level state of other packages (e.g. decimal.Context128, time.Local)
	for g, ws := range written {
		isOwn := false
		for _, n := range globals {
			if n == g {
				isOwn = true
			}
		}
		if !isOwn {
			w := ws[0]
			c.R.Add(rule, "foreign-global:"+g, c.P.InstrPos(w.In), Violation, fmt.Sprintf("package-level variable %s of another package is written by %s (%s)", g, c.P.FuncKey(w.Fn), w.How))
		}
	}
	// positive control: the same detector must see init's writes
	ninit := 0
	for _, f := range c.P.ModFuncs {
		if isInitFn(f) && len(f.Blocks) > 0 {
			ninit += len(c.globalWritesIn(f))
		}
	}
	c.R.Check(rule, "positive-control:init-writes-detected", "-", ninit >= 3, fmt.Sprintf("the global-write detector found only %d writes in the init functions (the builtin table, the keyword map and the token table are written there): the detector is not seeing writes", ninit))
	c.R.Analysed["globals"] = globals
	c.R.Analysed["pure_memo_tables_accepted"] = memos
	c.R.Analysed["api_reachable_functions"] = nfn
	c.R.Analysed["init_global_writes_seen"] = ninit
	c.R.Floor(rule, 10)
}

func isTreeType(c *Ctx, t types.Type) bool {
	n := typeName(t)
	if c.isNodeTypeName(n) {
		return true
	}
	switch n {
	case "TokenNode", "NodeList", "SourceCode", "Expression", "Node", "TextRange", "List", "Diagnostic":
		return true
	}
	return false
}

func c08Tree(c *Ctx, prop string) {
	rule := prop + ".tree-immutable"
	pw := c.ParamWrites()
	type entry struct {
		f    *ssa.Function
		name string
	}
	entries := []entry{
		{c.method("Runner", "Resolve"), "(*Runner).Resolve"},
		{c.fn("ResolveReferenceFields"), "ResolveReferenceFields"},
		{c.fn("ResolveReferenceFieldsNotLocal"), "ResolveReferenceFieldsNotLocal"},
	}
	for _, e := range entries {
		if !c.need(rule, e.f, e.name) {
			continue
		}
		for i, p := range e.f.Params {
			if !isTreeType(c, p.Type()) {
				continue
			}
			cons := fmt.Sprintf("entry:%s:param %s", e.name, p.Name())
			if pw[e.f][i] != nil {
				c.R.Add(rule, cons, c.P.InstrPos(pw[e.f][i].In), Violation, "the tree handed to "+e.name+" may be written: "+c.writeChain(e.f, i)+". A parsed formula is shared between evaluations and goroutines; writing it (even a cache) makes later results depend on earlier ones and races")
			} else {
				c.R.Add(rule, cons, c.P.Pos(e.f.Pos()), OK, "")
			}
		}
	}
	// per function reachable from the evaluation / analysis entry points: no write through a tree-typed parameter
	rr := c.ReachFrom("eval+ref", append(c.evalRoots(), c.fn("ResolveReferenceFields"), c.fn("ResolveReferenceFieldsNotLocal"))...)
	n := 0
	for _, f := range rr.Order {
		for i, p := range f.Params {
			if !isTreeType(c, p.Type()) {
				continue
			}
			n++
			cons := "fn:" + c.P.FuncKey(f) + ":param " + p.Name()
			if w := pw[f][i]; w != nil {
				c.R.Add(rule, cons, c.P.InstrPos(w.In), Violation, "reachable from evaluation / field analysis ("+rr.Chain(c.P, f)+") and writes through its tree parameter: "+c.writeChain(f, i))
			} else {
				c.R.Add(rule, cons, c.P.Pos(f.Pos()), OK, "")
			}
		}
	}
	c.R.Analysed["tree_parameters_checked"] = n
	c.R.Floor(rule, 12)
}

// returnsFresh: every return of f (result idx) is an allocation made in f (or in a callee that returns fresh).
func (c *Ctx) returnsFresh(f *ssa.Function, idx int, depth int) bool {
	if f == nil || len(f.Blocks) == 0 || depth > 4 {
		return false
	}
	ok := true
	n := 0
	instrs(f, func(b *ssa.BasicBlock, i int, in ssa.Instruction) {
		ret, isRet := in.(*ssa.Return)
		if !isRet || idx >= len(ret.Results) {
			return
		}
		n++
		for _, rt := range plainOrigins.Roots(ret.Results[idx]) {
			switch {
			case rt.Kind == "alloc" && len(rt.Path) == 0:
			case rt.Kind == "call" && rt.Fn != nil && c.inModule(rt.Fn) && len(rt.Path) == 0 && c.returnsFresh(rt.Fn, rt.Idx, depth+1):
			default:
				ok = false
			}
		}
	})
	return ok && n > 0
}

func c08FreshParser(c *Ctx) {
	const rule = "C08.fresh-parser"
	entry := c.fn("ParseSourceCode")
	if !c.need(rule, entry, "ParseSourceCode") {
		return
	}
	rr := c.ReachFrom("parse", entry)
	// every store into the parser's scanner / source fields is a fresh object; the parser itself is allocated by the entry
	for _, f := range rr.Order {
		instrs(f, func(b *ssa.BasicBlock, i int, in ssa.Instruction) {
			st, ok := in.(*ssa.Store)
			if !ok {
				return
			}
			fa, ok := st.Addr.(*ssa.FieldAddr)
			if !ok || typeName(fa.X.Type()) != "Parser" {
				return
			}
			fld := fieldName(fa)
			if fld != "scanner" && fld != "sourceCode" {
				return
			}
			fresh := true
			why := ""
			for _, rt := range plainOrigins.Roots(st.Val) {
				switch {
				case rt.Kind == "alloc" && len(rt.Path) == 0:
				case rt.Kind == "const":
				case rt.Kind == "call" && rt.Fn != nil && c.returnsFresh(rt.Fn, rt.Idx, 0):
				default:
					fresh = false
					why = rt.String()
				}
			}
			c.R.Check(rule, "Parser."+fld+" in "+c.P.FuncKey(f), c.P.InstrPos(in), fresh, "every parse must use its own "+fld+" object; this one comes from "+why)
		})
	}
	// the entry's parser is a local allocation
	okP := false
	instrs(entry, func(b *ssa.BasicBlock, i int, in ssa.Instruction) {
		call, ok := in.(*ssa.Call)
		if !ok {
			return
		}
		cal := calleeOf(call)
		if cal == nil || !c.inModule(cal) || len(call.Call.Args) == 0 || typeName(call.Call.Args[0].Type()) != "Parser" {
			return
		}
		if a, isAlloc := call.Call.Args[0].(*ssa.Alloc); isAlloc && a.Heap || isAlloc {
			okP = true
		}
	})
	c.R.Check(rule, "parser-allocated-per-call", c.P.Pos(entry.Pos()), okP, "ParseSourceCode must allocate the Parser it uses")
	c.R.Floor(rule, 3)
}

var ambientCalls = []string{"time.Now", "time.Since", "time.Until", "time.Tick", "time.After", "time.Sleep", "math/rand.", "math/rand/v2.", "crypto/rand.", "os.Getenv", "os.LookupEnv", "os.Environ", "os.Hostname", "os.Getpid", "os.Getwd", "os.ReadFile", "os.Open", "runtime.NumGoroutine", "runtime.Caller", "runtime.Callers", "runtime.Stack", "runtime.NumCPU", "runtime.GOMAXPROCS", "runtime.ReadMemStats", "(*math/rand.Rand)", "os.Stat", "net."}

func c08Ambient(c *Ctx) {
	const rule = "C08.ambient-inputs"
	rr := c.apiReach()
	allowed := map[*ssa.Function]string{}
	for _, n := range []string{"now", "toDay"} {
		if f := c.BuiltinFn(n); f != nil {
			allowed[f] = n
		}
	}
	c.R.Check(rule, "clock-builtins-registered", "-", len(allowed) == 2, "the builtins `now` and `toDay` (the only allowed clock readers) must be registered functions")
	n := 0
	for _, f := range rr.Order {
		if isInitFn(f) {
			continue
		}
		instrs(f, func(b *ssa.BasicBlock, i int, in ssa.Instruction) {
			call, ok := in.(ssa.CallInstruction)
			if !ok {
				return
			}
			cal := calleeOf(call)
			if cal == nil || c.inModule(cal) {
				return
			}
			name := cal.String()
			hit := ""
			for _, a := range ambientCalls {
				if name == a || (strings.HasSuffix(a, ".") && strings.HasPrefix(name, a)) || (strings.HasPrefix(a, "(") && strings.HasPrefix(name, a)) {
					hit = a
				}
			}
			if hit == "" {
				return
			}
			n++
			owner := f
			for owner.Parent() != nil {
				owner = owner.Parent()
			}
			_, ok2 := allowed[owner]
			c.R.Check(rule, "call "+name+" in "+c.P.FuncKey(f), c.P.InstrPos(in), ok2, "ambient input "+name+" is read by "+c.P.FuncKey(f)+", which is not one of the builtins registered as now / toDay: results would differ between identical evaluations")
		})
		// reads of mutable foreign globals
		instrs(f, func(b *ssa.BasicBlock, i int, in ssa.Instruction) {
			u, ok := in.(*ssa.UnOp)
			if !ok {
				return
			}
			g, ok := u.X.(*ssa.Global)
			if !ok || g.Pkg == c.P.Pkg || g.Pkg == nil {
				return
			}
			full := g.Pkg.Pkg.Path() + "." + g.Name()
			switch full {
			case "os.Args", "os.Stdin":
				c.R.Check(rule, "read "+full+" in "+c.P.FuncKey(f), c.P.InstrPos(in), false, "ambient input "+full+" is read during parsing / evaluation")
			}
		})
	}
	c.R.Floor(rule, 3)
}

// mapLoops: loops iterating a Go map (range over map, reflect MapRange / MapKeys).
type mapLoop struct {
	Fn   *ssa.Function
	In   ssa.Instruction
	Loop *Loop
	Kind string
}

func (c *Ctx) mapLoops(in map[*ssa.Function]bool) []mapLoop {
	var out []mapLoop
	for _, f := range c.P.ModFuncs {
		if in != nil && !in[f] {
			continue
		}
		loops := naturalLoops(f)
		find := func(b *ssa.BasicBlock) *Loop {
			var best *Loop
			for _, l := range loops {
				if l.Body[b] && (best == nil || len(l.Body) < len(best.Body)) {
					best = l
				}
			}
			return best
		}
		instrs(f, func(b *ssa.BasicBlock, i int, ins ssa.Instruction) {
			switch x := ins.(type) {
			case *ssa.Next:
				if x.IsString {
					return
				}
				out = append(out, mapLoop{f, ins, find(b), "range over map"})
			case *ssa.Call:
				if cal := calleeOf(x); cal != nil {
					switch cal.String() {
					case "(*reflect.MapIter).Next":
						out = append(out, mapLoop{f, ins, find(b), "reflect map iterator"})
					case "(reflect.Value).MapKeys":
						out = append(out, mapLoop{f, ins, nil, "reflect MapKeys"})
					}
				}
			}
		})
	}
	return out
}

func c08MapOrder(c *Ctx) {
	const rule = "C08.map-order"
	rr := c.apiReach()
	n := 0
	for _, ml := range c.mapLoops(rr.In) {
		n++
		cons := ml.Kind + " in " + c.P.FuncKey(ml.Fn)
		if ml.Loop == nil {
			// materialised keys: fine when they are sorted before use
			sorted := false
			staleWhy := ""
			instrs(ml.Fn, func(bk *ssa.BasicBlock, i int, in ssa.Instruction) {
				call, isC := in.(*ssa.Call)
				if !isC || len(call.Call.Args) == 0 {
					return
				}
				cal := calleeOf(call)
				if cal == nil {
					return
				}
				switch cal.String() {
				case "sort.Slice", "sort.SliceStable", "sort.Sort", "sort.Stable", "slices.SortFunc", "slices.SortStableFunc":
				default:
					return
				}
				for _, rt := range plainOrigins.Roots(call.Call.Args[0]) {
					if rt.Kind == "call" && rt.V == ml.In.(ssa.Value) {
						sorted = true
					}
				}
				// sort.Slice(keys, less): less(i, j) must order by keys[i] and keys[j] themselves. Indexing another slice
				// (names precomputed in the original order) compares stale entries once the sort has swapped elements:
				// the resulting order depends on the order the map happened to deliver.
				if sorted && len(call.Call.Args) >= 2 && (cal.String() == "sort.Slice" || cal.String() == "sort.SliceStable") {
					if mc, isMC := call.Call.Args[1].(*ssa.MakeClosure); isMC {
						var sortedCell ssa.Value
						if u, isU := stripIface(call.Call.Args[0]).(*ssa.UnOp); isU {
							sortedCell = u.X
						}
						if fn, isFn := mc.Fn.(*ssa.Function); isFn {
							instrs(fn, func(_ *ssa.BasicBlock, _ int, x ssa.Instruction) {
								// (reflect.Value).String is "<int Value>" for every key that is not a string: a
								// comparison of such texts orders nothing, the keys stay in iteration order
								if cl, isCl := x.(*ssa.Call); isCl {
									if cc := calleeOf(cl); cc != nil && cc.String() == "(reflect.Value).String" {
										sorted = false
										staleWhy = "the comparison function of " + cal.String() + " compares (reflect.Value).String() of the keys, which is the constant text \"<T Value>\" for every key that is not a string: such keys are not ordered at all and stay in the map's iteration order (fmt.Sprint(k.Interface()) prints the key)"
									}
								}
								var base, idx ssa.Value
								switch y := x.(type) {
								case *ssa.IndexAddr:
									base, idx = y.X, y.Index
								case *ssa.Index:
									base, idx = y.X, y.Index
								default:
									return
								}
								if _, isParam := idx.(*ssa.Parameter); !isParam {
									return
								}
								if u, isU := base.(*ssa.UnOp); isU {
									if fv, isFV := u.X.(*ssa.FreeVar); isFV {
										for k, v := range fn.FreeVars {
											if v == fv && k < len(mc.Bindings) && (sortedCell == nil || mc.Bindings[k] != sortedCell) {
												sorted = false
												staleWhy = "the comparison function of " + cal.String() + " indexes `" + fv.Name() + "`, not the slice being sorted: after the first swap it compares stale entries, so the order depends on the map's iteration order"
											}
										}
									}
								}
							})
						}
					}
				}
			})
			if sorted {
				c.R.Add(rule, cons, c.P.InstrPos(ml.In), OK, "")
				continue
			}
			if staleWhy == "" && (c.sortedTogether(ml.In.Parent(), ml.In.(ssa.Value)) || c.sortedThroughPairs(ml.In.Parent(), ml.In.(ssa.Value))) {
				c.R.Add(rule, cons, c.P.InstrPos(ml.In), OK, "")
				continue
			}
			if staleWhy != "" {
				c.R.Add(rule, cons, c.P.InstrPos(ml.In), Violation, staleWhy)
				continue
			}
			c.R.Add(rule, cons, c.P.InstrPos(ml.In), Violation, "map keys are materialised in iteration order; unless sorted, that order reaches the result")
			continue
		}
		// order-sensitive sinks inside the loop: a return, an append to a slice that outlives the loop,
		// a string/slice accumulation. Order-insensitive: insertion into a map.
		var sinks []string
		for _, b := range ml.Fn.Blocks {
			if !ml.Loop.Body[b] {
				// blocks that leave the loop early (not through the header's exit) are part of the loop's effect
				early := false
				for _, p := range b.Preds {
					if ml.Loop.Body[p] && p != ml.Loop.Header {
						early = true
					}
				}
				if !early {
					continue
				}
			}
			for _, in := range b.Instrs {
				switch x := in.(type) {
				case *ssa.Return:
					sinks = append(sinks, "return inside the loop at "+c.P.InstrPos(x)+" (which element is seen first decides)")
				case *ssa.Call:
					if isBuiltinCall(x, "append") && ml.Loop.Body[b] {
						sinks = append(sinks, "append at "+c.P.InstrPos(x)+" (element order = iteration order)")
					}
				}
			}
		}
		if len(sinks) == 0 {
			c.R.Add(rule, cons, c.P.InstrPos(ml.In), OK, "")
			continue
		}
		// the de-duplication helper of the field analysis: its result is a set by contract (C10)
		if c.isDedup(ml.Fn) {
			onlyRef := true
			ev := c.ReachFrom("eval+builtins", c.evalRoots()...)
			pr := c.ReachFrom("parse", c.fn("ParseSourceCode"))
			if ev.In[ml.Fn] || pr.In[ml.Fn] {
				onlyRef = false
			}
			if onlyRef {
				c.R.Add(rule, cons, c.P.InstrPos(ml.In), OK, "allowed: reachable only from the field analysis, whose result is a set of names (order is not part of C10's statement)")
				continue
			}
		}
		c.R.Add(rule, cons, c.P.InstrPos(ml.In), Violation, "the iteration order of a Go map reaches a result: "+strings.Join(sinks, "; "))
	}
	// the pinned tree has two map loops (the de-duplication of field names, the conversion of a map argument); the
	// first can legitimately go (de-duplication by sorting), the second is what the evaluator needs
	c.R.Floor(rule, 1)
}

// c08GlobalEscape: a package-level map, slice or pointer must not be installed in an object the API hands out
// (stored into a field, a map entry or a slice element, or returned): every object sharing it would share state.
func c08GlobalEscape(c *Ctx, prop string) {
	rule := prop + ".no-global-alias"
	rr := c.apiReach()
	isRefType := func(t types.Type) bool {
		switch t.Underlying().(type) {
		case *types.Map, *types.Slice:
			// containers: sharing one lets a write through one holder show up in all others. (Pointers to
			// package-level descriptors - diagnostic messages, token tables - are shared by design and read-only.)
			return true
		}
		return false
	}
	globalRoot := func(v ssa.Value) string {
		if !isRefType(v.Type()) {
			if mi, ok := v.(*ssa.MakeInterface); !ok || !isRefType(mi.X.Type()) {
				return ""
			}
		}
		for _, rt := range plainOrigins.Roots(v) {
			if rt.Kind == "global" && len(rt.Path) == 0 {
				if g, ok := rt.V.(*ssa.Global); ok && g.Pkg == c.P.Pkg {
					return g.Name()
				}
			}
		}
		return ""
	}
	// fields whose map/slice is written through somewhere in API-reachable code: sharing a package-level object
	// through a field nobody writes through is harmless (a read-only registry), through these it is shared state
	writtenThrough := map[string]bool{}
	for _, f := range rr.Order {
		if isInitFn(f) {
			continue
		}
		for _, e := range c.localEffects(f) {
			tgt := e.Target
			switch e.What {
			case "mapupdate", "delete", "clear":
			case "store":
				ia, ok := tgt.(*ssa.IndexAddr)
				if !ok {
					continue
				}
				tgt = ia.X
			default:
				continue
			}
			for _, rt := range plainOrigins.Roots(tgt) {
				for _, p := range rt.Path {
					if p != "*" {
						writtenThrough[p] = true
					}
				}
			}
		}
	}
	n := 0
	for _, f := range rr.Order {
		if isInitFn(f) {
			continue
		}
		per := 0
		instrs(f, func(b *ssa.BasicBlock, i int, in ssa.Instruction) {
			var val ssa.Value
			how := ""
			switch x := in.(type) {
			case *ssa.Store:
				switch a := x.Addr.(type) {
				case *ssa.FieldAddr:
					if writtenThrough[fieldName(a)] {
						val, how = x.Val, "stored into field "+fieldName(a)+", which is written through elsewhere"
					} else {
						n++
					}
				case *ssa.IndexAddr:
					val, how = x.Val, "stored into a slice element"
				}
			case *ssa.MapUpdate:
				val, how = x.Value, "stored into a map entry"
			}
			if val == nil {
				return
			}
			n++
			if g := globalRoot(val); g != "" {
				per++
				c.R.Add(rule, fmt.Sprintf("%s: alias#%d of %s", c.P.FuncKey(f), per, g), c.P.InstrPos(in), Violation, "the package-level "+g+" is "+how+": every object built this way shares that one map/slice/pointer, so a write through one (e.g. a `$` local, SetThisValue) is visible through all others and races between goroutines")
			}
		})
	}
	c.R.Add(rule, "stores-examined", "-", OK, "")
	c.R.Analysed["heap_stores_examined_for_global_alias"] = n
}

// derivedElementwise: slice d is filled as d[i] = g(keys[i]) (same index value) for every i of a loop over keys, and
// written nowhere else in f.
func derivedElementwise(f *ssa.Function, d ssa.Value, keys ssa.Value) bool {
	ok, n := true, 0
	instrs(f, func(b *ssa.BasicBlock, i int, in ssa.Instruction) {
		st, isSt := in.(*ssa.Store)
		if !isSt {
			return
		}
		ia, isIA := st.Addr.(*ssa.IndexAddr)
		if !isIA {
			// a record element filled field by field: d[i].f = ..
			if fa, isFA := st.Addr.(*ssa.FieldAddr); isFA {
				ia, isIA = fa.X.(*ssa.IndexAddr)
			}
		}
		if !isIA || !sameSlice(ia.X, d) {
			return
		}
		n++
		// the stored value derives from keys[<same index>]
		from := false
		seen := map[ssa.Value]bool{}
		var walk func(v ssa.Value, depth int)
		walk = func(v ssa.Value, depth int) {
			if v == nil || seen[v] || depth > 8 {
				return
			}
			seen[v] = true
			switch x := v.(type) {
			case *ssa.UnOp:
				if ka, isKA := x.X.(*ssa.IndexAddr); isKA && sameSlice(ka.X, keys) && ka.Index == ia.Index {
					from = true
					return
				}
				// a record built in a local and copied into the element: what its fields were given
				if al, isAl := x.X.(*ssa.Alloc); isAl {
					for _, ref := range *al.Referrers() {
						if fa, isFA := ref.(*ssa.FieldAddr); isFA {
							for _, r2 := range *fa.Referrers() {
								if s2, isS2 := r2.(*ssa.Store); isS2 && s2.Addr == ssa.Value(fa) {
									walk(s2.Val, depth+1)
								}
							}
						}
					}
					return
				}
				walk(x.X, depth+1)
			case *ssa.Call:
				for _, a := range x.Call.Args {
					walk(a, depth+1)
				}
				if x.Call.IsInvoke() {
					walk(x.Call.Value, depth+1)
				}
			case *ssa.MakeInterface:
				walk(x.X, depth+1)
			case *ssa.Convert:
				walk(x.X, depth+1)
			case *ssa.ChangeType:
				walk(x.X, depth+1)
			case *ssa.Extract:
				walk(x.Tuple, depth+1)
			case *ssa.Slice:
				// the varargs slice of fmt.Sprint(..): its elements
				if al, isAl := x.X.(*ssa.Alloc); isAl {
					for _, ref := range *al.Referrers() {
						if ea, isEA := ref.(*ssa.IndexAddr); isEA {
							for _, r2 := range *ea.Referrers() {
								if s2, isS2 := r2.(*ssa.Store); isS2 && s2.Addr == ssa.Value(ea) {
									walk(s2.Val, depth+1)
								}
							}
						}
					}
				}
			}
		}
		walk(st.Val, 0)
		if !from {
			ok = false
		}
	})
	return ok && n > 0
}

// sortedTogether: the keys are sorted by sort.Sort / sort.Stable on a struct of parallel slices whose Swap exchanges
// the elements i and j of every slice field, and every other slice field was derived from the keys element by element
// before the sort: whatever Less reads at i still belongs to the key at i.
func (c *Ctx) sortedTogether(f *ssa.Function, keys ssa.Value) bool {
	good := false
	instrs(f, func(b *ssa.BasicBlock, i int, in ssa.Instruction) {
		call, isC := in.(*ssa.Call)
		if !isC || calleeOf(call) == nil || good {
			return
		}
		if n := calleeOf(call).String(); n != "sort.Sort" && n != "sort.Stable" {
			return
		}
		mi, isMI := call.Call.Args[0].(*ssa.MakeInterface)
		if !isMI {
			return
		}
		nt := namedOf(mi.X.Type())
		if nt == nil || nt.Obj().Pkg() != c.P.Types {
			return
		}
		st, isSt := nt.Underlying().(*types.Struct)
		if !isSt {
			return
		}
		// the struct value: a local built field by field
		ld, isLd := mi.X.(*ssa.UnOp)
		if !isLd {
			return
		}
		al, isAl := ld.X.(*ssa.Alloc)
		if !isAl {
			return
		}
		fieldVal := map[string]ssa.Value{}
		for _, ref := range *al.Referrers() {
			fa, isFA := ref.(*ssa.FieldAddr)
			if !isFA {
				continue
			}
			for _, r2 := range *fa.Referrers() {
				if s2, isS2 := r2.(*ssa.Store); isS2 && s2.Addr == ssa.Value(fa) {
					fieldVal[fieldName(fa)] = s2.Val
				}
			}
		}
		holdsKeys := false
		for i := 0; i < st.NumFields(); i++ {
			fld := st.Field(i)
			if _, isSl := fld.Type().Underlying().(*types.Slice); !isSl {
				return // only slices travel in such a sorter
			}
			v := fieldVal[fld.Name()]
			if v == nil {
				return
			}
			if v == keys {
				holdsKeys = true
				continue
			}
			if !derivedElementwise(f, v, keys) {
				return
			}
		}
		if !holdsKeys {
			return
		}
		// Swap exchanges i and j in every field
		var swap *ssa.Function
		for _, mf := range c.P.ModFuncs {
			if mf.Name() == "Swap" && mf.Signature.Recv() != nil && namedOf(mf.Signature.Recv().Type()) == nt && len(mf.Blocks) > 0 {
				swap = mf
			}
		}
		if swap == nil || len(swap.Params) != 3 {
			return
		}
		pi, pj := ssa.Value(swap.Params[1]), ssa.Value(swap.Params[2])
		swapped := map[string][2]bool{}
		instrs(swap, func(_ *ssa.BasicBlock, _ int, x ssa.Instruction) {
			s2, isS2 := x.(*ssa.Store)
			if !isS2 {
				return
			}
			ia, isIA := s2.Addr.(*ssa.IndexAddr)
			if !isIA {
				return
			}
			fname := ""
			switch y := ia.X.(type) {
			case *ssa.UnOp:
				if fa, isFA := y.X.(*ssa.FieldAddr); isFA {
					fname = fieldName(fa)
				}
			case *ssa.Field:
				fname = st.Field(y.Field).Name()
			}
			if fname == "" {
				return
			}
			u, isU := s2.Val.(*ssa.UnOp)
			if !isU {
				return
			}
			src, isSrc := u.X.(*ssa.IndexAddr)
			if !isSrc {
				return
			}
			cur := swapped[fname]
			if ia.Index == pi && src.Index == pj {
				cur[0] = true
			}
			if ia.Index == pj && src.Index == pi {
				cur[1] = true
			}
			swapped[fname] = cur
		})
		for i := 0; i < st.NumFields(); i++ {
			if sw := swapped[st.Field(i).Name()]; !sw[0] || !sw[1] {
				return
			}
		}
		good = true
	})
	return good
}

// sortedThroughPairs: the keys are copied element by element into a slice of records (key and what it is sorted by),
// that slice is sorted by sort.Slice with a comparison that indexes it, and every key is written back from the sorted
// records, element by element, before the keys are used again.
func (c *Ctx) sortedThroughPairs(f *ssa.Function, keys ssa.Value) bool {
	good := false
	instrs(f, func(b *ssa.BasicBlock, i int, in ssa.Instruction) {
		call, isC := in.(*ssa.Call)
		if !isC || calleeOf(call) == nil || good {
			return
		}
		if n := calleeOf(call).String(); n != "sort.Slice" && n != "sort.SliceStable" {
			return
		}
		mi, isMI := call.Call.Args[0].(*ssa.MakeInterface)
		if !isMI {
			return
		}
		pairs := mi.X
		if pairs == keys || !derivedElementwise(f, pairs, keys) {
			return
		}
		// the comparison indexes the slice being sorted
		mc, isMC := call.Call.Args[1].(*ssa.MakeClosure)
		if !isMC {
			return
		}
		less, _ := mc.Fn.(*ssa.Function)
		if less == nil {
			return
		}
		own := true
		instrs(less, func(_ *ssa.BasicBlock, _ int, x ssa.Instruction) {
			ia, isIA := x.(*ssa.IndexAddr)
			if !isIA {
				return
			}
			u, isU := ia.X.(*ssa.UnOp)
			if !isU {
				own = false
				return
			}
			fv, isFV := u.X.(*ssa.FreeVar)
			if !isFV {
				own = false
				return
			}
			for k, w := range less.FreeVars {
				if w == fv && k < len(mc.Bindings) {
					// the binding is the cell that holds the pairs slice
					cell, isCell := mc.Bindings[k].(*ssa.Alloc)
					if !isCell {
						own = false
						continue
					}
					holds := false
					for _, ref := range *cell.Referrers() {
						if s2, isS2 := ref.(*ssa.Store); isS2 && s2.Addr == ssa.Value(cell) && (s2.Val == pairs || s2.Val == underSlice(pairs)) {
							holds = true
						}
					}
					if !holds {
						own = false
					}
				}
			}
		})
		if !own {
			return
		}
		// written back: keys[i] = pairs[i].<field>, after the sort
		back := false
		instrs(f, func(_ *ssa.BasicBlock, _ int, x ssa.Instruction) {
			s2, isS2 := x.(*ssa.Store)
			if !isS2 {
				return
			}
			ia, isIA := s2.Addr.(*ssa.IndexAddr)
			if !isIA || !sameSlice(ia.X, keys) || !instrDominates(call, s2) {
				return
			}
			// value read from pairs[<same index>]
			var fromPairs func(v ssa.Value, depth int) bool
			fromPairs = func(v ssa.Value, depth int) bool {
				if depth > 4 {
					return false
				}
				switch y := v.(type) {
				case *ssa.UnOp:
					switch a := y.X.(type) {
					case *ssa.FieldAddr:
						if pa, isPA := a.X.(*ssa.IndexAddr); isPA {
							return sameSlice(pa.X, pairs) && pa.Index == ia.Index
						}
						// `e := pairs[i]` ... e.key: a local copy of the record of the same index
						if cp, isCp := a.X.(*ssa.Alloc); isCp {
							okCopy, n := true, 0
							for _, ref := range *cp.Referrers() {
								if s3, isS3 := ref.(*ssa.Store); isS3 && s3.Addr == ssa.Value(cp) {
									n++
									if !fromPairs(s3.Val, depth+1) {
										okCopy = false
									}
								}
							}
							return okCopy && n > 0
						}
					case *ssa.IndexAddr:
						return sameSlice(a.X, pairs) && a.Index == ia.Index
					}
				case *ssa.Field:
					return fromPairs(y.X, depth+1)
				}
				return false
			}
			if fromPairs(s2.Val, 0) {
				back = true
			}
		})
		good = back
	})
	return good
}

// underSlice: the value a load of a single-assignment cell yields (the slice a captured local holds), else v.
func underSlice(v ssa.Value) ssa.Value {
	if u, ok := v.(*ssa.UnOp); ok {
		if cell, ok := u.X.(*ssa.Alloc); ok {
			var only ssa.Value
			n := 0
			for _, ref := range *cell.Referrers() {
				if st, ok := ref.(*ssa.Store); ok && st.Addr == ssa.Value(cell) {
					n++
					only = st.Val
				}
			}
			if n == 1 {
				return only
			}
		}
	}
	return v
}

// sameSlice: v is the slice s, or a load of the cell that holds it.
func sameSlice(v, s ssa.Value) bool {
	if v == s || underSlice(v) == underSlice(s) {
		return true
	}
	if u, ok := v.(*ssa.UnOp); ok {
		if cell, ok := u.X.(*ssa.Alloc); ok {
			for _, ref := range *cell.Referrers() {
				if st, ok := ref.(*ssa.Store); ok && st.Addr == ssa.Value(cell) && st.Val == s {
					return true
				}
			}
		}
	}
	return false
}
